(* modelrun: runs the extracted Coq model on case lines.
   Line grammar: groups separated by " | "; tokens separated by blanks; a token is a
   decimal number, x<hex> (bytes) or a word.  Output: one canonical line per case. *)
module M = Model

let rec pos_of_int (i : int) : M.positive =
  if i = 1 then M.XH
  else if i land 1 = 0 then M.XO (pos_of_int (i lsr 1))
  else M.XI (pos_of_int (i lsr 1))
let n_of_int (i : int) : M.n = if i = 0 then M.N0 else M.Npos (pos_of_int i)

let n_of_dec (s : string) : M.n =
  if String.length s <= 18 then n_of_int (int_of_string s)
  else begin
    let acc = ref M.N0 in
    let ten = n_of_int 10 in
    String.iter (fun c -> acc := M.drv_n_add (M.drv_n_mul !acc ten) (n_of_int (Char.code c - 48))) s;
    !acc
  end

(* positive -> int when it fits in 62 bits *)
let rec pos_bits (p : M.positive) : int =
  match p with M.XH -> 1 | M.XO q | M.XI q -> 1 + pos_bits q
let rec pos_to_int (p : M.positive) : int =
  match p with M.XH -> 1 | M.XO q -> 2 * pos_to_int q | M.XI q -> 2 * pos_to_int q + 1
let int_of_n (x : M.n) : int =
  match x with M.N0 -> 0 | M.Npos p -> if pos_bits p <= 62 then pos_to_int p else max_int

(* decimal printing of arbitrarily large positives: little-endian digit list doubling *)
let rec dbl (carry : int) (ds : int list) : int list =
  match ds with
  | [] -> if carry = 0 then [] else [carry]
  | d :: t -> let v = 2 * d + carry in (v mod 10) :: dbl (v / 10) t
let rec pos_digits (p : M.positive) : int list =
  match p with
  | M.XH -> [1]
  | M.XO q -> dbl 0 (pos_digits q)
  | M.XI q -> dbl 1 (pos_digits q)
let string_of_pos (p : M.positive) : string =
  if pos_bits p <= 62 then string_of_int (pos_to_int p)
  else String.concat "" (List.rev_map string_of_int (pos_digits p))
let string_of_n (x : M.n) = match x with M.N0 -> "0" | M.Npos p -> string_of_pos p
let string_of_z (x : M.z) =
  match x with M.Z0 -> "0" | M.Zpos p -> string_of_pos p | M.Zneg p -> "-" ^ string_of_pos p

let byte_tab : M.byte array =
  Array.init 256 (fun i -> match M.drv_byte_of_N (n_of_int i) with Some b -> b | None -> assert false)
let int_of_byte (b : M.byte) : int = int_of_n (M.drv_byte_to_N b)

let hexval c =
  match c with
  | '0'..'9' -> Char.code c - 48
  | 'a'..'f' -> Char.code c - 87
  | 'A'..'F' -> Char.code c - 55
  | _ -> failwith "hex"
let buf_of_hex (s : string) (start : int) : M.buf =
  let n = (String.length s - start) / 2 in
  let arr = Array.make n byte_tab.(0) in
  for i = 0 to n - 1 do
    arr.(i) <- byte_tab.(16 * hexval s.[start + 2 * i] + hexval s.[start + 2 * i + 1])
  done;
  { M.blen = n_of_int n;
    M.bat = (fun i -> let k = int_of_n i in if k < n then arr.(k) else byte_tab.(0)) }

let coq_string (s : string) : M.string =
  let r = ref M.EmptyString in
  for i = String.length s - 1 downto 0 do
    let c = Char.code s.[i] in
    let b k = (c lsr k) land 1 = 1 in
    r := M.String (M.Ascii (b 0, b 1, b 2, b 3, b 4, b 5, b 6, b 7), !r)
  done; !r
let ocaml_string (s : M.string) : string =
  let b = Buffer.create 16 in
  let rec go s = match s with
    | M.EmptyString -> ()
    | M.String (M.Ascii (b0,b1,b2,b3,b4,b5,b6,b7), t) ->
      let v x k = if x then 1 lsl k else 0 in
      Buffer.add_char b (Char.chr (v b0 0 + v b1 1 + v b2 2 + v b3 3 + v b4 4 + v b5 5 + v b6 6 + v b7 7));
      go t in
  go s; Buffer.contents b

let parse_token (t : string) : M.arg =
  let c = t.[0] in
  if c >= '0' && c <= '9' then M.AN (n_of_dec t)
  else if c = 'x' && String.for_all (fun ch -> match ch with '0'..'9' | 'a'..'f' -> true | _ -> false)
            (String.sub t 1 (String.length t - 1)) && String.length t mod 2 = 1
  then M.AB (buf_of_hex t 1)
  else M.AW (coq_string t)

let parse_case (line : string) : M.arg list list =
  let toks = List.filter (fun s -> s <> "") (String.split_on_char ' ' line) in
  let rec groups cur acc = function
    | [] -> List.rev (List.rev cur :: acc)
    | "|" :: t -> groups [] (List.rev cur :: acc) t
    | x :: t -> groups (parse_token x :: cur) acc t in
  groups [] [] toks

let perr_str (e : M.perr) : string =
  let n = string_of_n in
  match e with
  | M.EBadMagic (a, b, c, d) -> Printf.sprintf "E:BadMagic(%s,%s,%s,%s)" (n a) (n b) (n c) (n d)
  | M.EUnsupportedElfClass a -> "E:UnsupportedElfClass(" ^ n a ^ ")"
  | M.EUnsupportedElfEndianness a -> "E:UnsupportedElfEndianness(" ^ n a ^ ")"
  | M.EUnsupportedVersion (a, b) -> Printf.sprintf "E:UnsupportedVersion(%s,%s)" (n a) (n b)
  | M.EBadOffset a -> "E:BadOffset(" ^ n a ^ ")"
  | M.EStringTableMissingNul a -> "E:StringTableMissingNul(" ^ n a ^ ")"
  | M.EBadEntsize (a, b) -> Printf.sprintf "E:BadEntsize(%s,%s)" (n a) (n b)
  | M.EUnexpectedSectionType (a, b) -> Printf.sprintf "E:UnexpectedSectionType(%s,%s)" (n a) (n b)
  | M.EUnexpectedSegmentType (a, b) -> Printf.sprintf "E:UnexpectedSegmentType(%s,%s)" (n a) (n b)
  | M.EUnexpectedAlignment a -> "E:UnexpectedAlignment(" ^ n a ^ ")"
  | M.ESliceReadError (a, b) -> Printf.sprintf "E:SliceReadError(%s,%s)" (n a) (n b)
  | M.EIntegerOverflow -> "E:IntegerOverflow"
  | M.EUtf8Error -> "E:Utf8Error"
  | M.ETryFromSliceError -> "E:TryFromSliceError"
  | M.ETryFromIntError -> "E:TryFromIntError"
  | M.EIOError -> "E:IOError"

let hexdig = "0123456789abcdef"
let rec print_out (b : Buffer.t) (o : M.out) : unit =
  match o with
  | M.ON x -> Buffer.add_string b (string_of_n x)
  | M.OZ x -> Buffer.add_string b (string_of_z x)
  | M.OH l -> Buffer.add_char b 'x';
    List.iter (fun y -> let v = int_of_byte y in
                Buffer.add_char b hexdig.[v lsr 4]; Buffer.add_char b hexdig.[v land 15]) l
  | M.OR (s, e) ->
    if s = e then Buffer.add_string b "@-"
    else (Buffer.add_char b '@'; Buffer.add_string b (string_of_n s); Buffer.add_char b ':';
          Buffer.add_string b (string_of_n e))
  | M.OL l -> Buffer.add_char b '['; print_list b l; Buffer.add_char b ']'
  | M.OT (t, l) -> Buffer.add_string b (ocaml_string t);
    if l <> [] then (Buffer.add_char b '('; print_list b l; Buffer.add_char b ')')
  | M.OE e -> Buffer.add_string b (perr_str e)
  | M.OPanic -> Buffer.add_string b "PANIC"
  | M.OBad -> Buffer.add_string b "BADCASE"
and print_list b l =
  List.iteri (fun i x -> if i > 0 then Buffer.add_char b ' '; print_out b x) l

let () =
  let ic = if Array.length Sys.argv > 1 then open_in Sys.argv.(1) else stdin in
  let b = Buffer.create 65536 in
  (try
     while true do
       let line = input_line ic in
       if line <> "" && line.[0] <> '#' then begin
         Buffer.clear b;
         (try print_out b (M.drv_main (parse_case line))
          with Stack_overflow -> (Buffer.clear b; Buffer.add_string b "MODEL-STACKOVERFLOW")
             | Failure m -> (Buffer.clear b; Buffer.add_string b ("MODEL-FAIL " ^ m))
             | Not_found | Invalid_argument _ -> (Buffer.clear b; Buffer.add_string b "MODEL-EXC"));
         print_string (Buffer.contents b); print_newline ()
       end
     done
   with End_of_file -> ())
