#!/bin/sh
# Build the whole framework offline from files on disk: Coq development (full .vo build),
# extracted OCaml model + driver, Rust harness against /repo's working tree.
set -e
cd "$(dirname "$0")"
export CARGO_NET_OFFLINE=true
python3 - <<'PY'
import sys
sys.path.insert(0, "tools")
import vlib
try:
    if hasattr(vlib, "pre_setup"):
        vlib.pre_setup()
    try:
        vlib.build_coq()
    except vlib.Broken as b:
        # a single broken proof must not block the other properties: report and continue
        print("setup: coq build incomplete:", b.what)
        print(b.detail[-2000:])
    vlib.build_coq(["Extract/DispatchS.vo"])
    vlib.build_model()
    vlib.build_harness()
    print("setup ok")
except vlib.Broken as b:
    print("setup FAILED:", b.what)
    print(b.detail)
    sys.exit(1)
PY
