"""Query sets over whole files (slice and stream parsers) shared by several properties."""
from gen import *
import elfgen


def full_queries(rng, meta, info, light=False):
    nsh, nph = meta["nsh"], meta["nph"]
    qs = ["ehdr", "shnum", "phnum", "shdrs", "phdrs", "shstr"]
    names = [b".text", b".symtab", b".dynsym", b".dynstr", b".shstrtab", b".nope", b".dyn", b".dynsymx", b"", b".str2"]
    for n in rng.sample(names, 3 if light else 5):
        qs.append("byname %s" % hx(n))
    secs = list(range(nsh)) if not light else rng.sample(range(nsh), min(nsh, 4))
    for i in secs + [nsh, nsh + 7]:
        qs.append("secdata %d" % i)
    for i in secs:
        k = rng.random()
        qs.append("strtab %d %s" % (i, " ".join(str(o) for o in (0, 1, rng.randrange(0, 40), rng.randrange(0, 12)))))
        qs.append(rng.choice(["rels %d", "relas %d", "notes %d"]) % i)
        if not light:
            qs.append("rels %d" % i)
            qs.append("relas %d" % i)
            qs.append("notes %d" % i)
    for j in list(range(nph)) + [nph]:
        qs.append("segdata %d" % j)
        qs.append("segnotes %d" % j)
    qs += ["dynamic", "symtab", "dynsym"]
    syms = info.get("syms", [])
    qn = [hx(n) for n in (rng.sample(syms, min(len(syms), 3)) + [b"absent", b""])]
    qs.append("common " + " ".join(qn))
    nv = info.get("nversyms", 3)
    qs.append("symver " + " ".join(str(i) for i in list(range(min(nv, 6))) + [nv, nv + 5]))
    return qs


def corrupt(rng, data, meta):
    """G2: one or two header/table fields replaced by boundary values"""
    cl = meta["cl"]
    for _ in range(rng.choice([1, 1, 2])):
        what = rng.choice(["ehdr", "shdr", "shdr", "phdr"])
        if what == "shdr" and meta["nsh"] == 0:
            what = "ehdr"
        if what == "phdr" and meta["nph"] == 0:
            what = "ehdr"
        ty = {"ehdr": "tail", "shdr": "shdr", "phdr": "phdr"}[what]
        name, w = rng.choice(elfgen.C02.layout(ty, cl))
        idx = rng.randrange(meta["nsh"]) if what == "shdr" else (rng.randrange(meta["nph"]) if what == "phdr" else 0)
        o, width = elfgen.field_pos(ty, cl, name)
        base = 16 if what == "ehdr" else (meta["shoff"] + idx * meta["shsz"] if what == "shdr" else meta["phoff"] + idx * meta["phsz"])
        cur = int.from_bytes(data[base + o: base + o + width], "little" if meta["little"] else "big") if base + o + width <= len(data) else 0
        ln = len(data)
        v = rng.choice([0, 1, 2**31, 2**32 - 1, 2**63, 2**64 - 1, ln - 1, ln, ln + 1, cur + 1, max(cur - 1, 0), cur ^ 0x8, rng.randrange(0, ln + 2)])
        data = elfgen.patch(data, meta, what, name, v, idx)
    return data


def file_case(rng, fam_word, data, meta, info, light=False, op="bytes"):
    return "%s %s %s | %s" % (op, fam_word, hx(data), " | ".join(full_queries(rng, meta, info, light)))


def fam_for(rng, little):
    """a spec family word that accepts the file's byte order most of the time"""
    r = rng.random()
    if r < 0.45:
        return "any"
    if r < 0.9:
        return ("le" if little else "be") if rng.random() < 0.9 else ("be" if little else "le")
    return "native"
