"""C18 — a truncated file yields errors or unchanged answers, never different answers."""
from gen import *
import vlib, elfgen, filegen, fileq, streamgen

LEVEL = "proof"
AXIOM_ALLOW = ["functional_extensionality_dep", "FunctionalExtensionality.functional_extensionality_dep"]
RULE = ("generated objects with the header tables placed early (so that many prefixes still open), each queried whole and at every "
        "prefix length (quick: every length of files <= 700 bytes for 12 files, 40 sampled lengths otherwise) through the slice "
        "parser (answers as absolute ranges + decoded entries) and through the stream parser (answers as content); files whose "
        "PT_DYNAMIC segment is shorter than / elsewhere than / absent beside the .dynamic section, cut around that section; plus files with "
        "random bytes appended. Oracles: (metamorphic, implementation only) every answer on the prefix is an error or equals the "
        "answer on the whole file, open included; (tie) implementation == model. Non-trivial: a proper prefix that still opens.")
ASSUMPTIONS = ["functional extensionality (Coq standard library axiom) in the proofs of C18"]
TRUSTED_EXTRA = ["axiom functional_extensionality_dep (Coq.Logic.FunctionalExtensionality), used to identify a view of the truncated file with the same view of the whole file"]
_whole = {}
SHRINK = False


def queries(rng, meta, info):
    qs = ["ehdr", "shnum", "phnum", "shstr", "symtab", "dynsym", "dynamic", "common %s" % hx(b"absent"), "symver 0 1 2",
          "byname %s" % hx(b".text"), "byname %s" % hx(b".symtab"), "byname %s" % hx(b".dynsym")]
    for k in range(meta["nsh"]):
        qs += ["secdata %d" % k, "strtab %d 0 1" % k, "notes %d" % k]
    for j in range(meta["nph"]):
        qs += ["segdata %d" % j, "segnotes %d" % j]
    return qs


def squeries(qs):
    return [q for q in qs if q.split(" ")[0] in ("ehdr", "shstr", "symtab", "dynsym", "dynamic", "symver", "byname", "secdata", "strtab", "notes", "segnotes")]


def gen(rng, tier):
    cases = []
    nfiles = 12 if tier == "quick" else 60
    for i in range(nfiles):
        e, info = elfgen.sample_elf(rng, kinds=rng.choice([None, ["text", "symtab", "note", "dynamic"], ["text", "dynsym", "hash", "versions"]]))
        e.with_shdrs = True
        e.layout = rng.choice(["hdr,sh,ph,data", "hdr,ph,sh,data", "hdr,sh,ph,data", "hdr,ph,data,sh"])
        data, meta = e.build(rng)
        fam = "any"
        qs = queries(rng, meta, info)
        sq = squeries(qs)
        wb = "bytes %s %s | %s" % (fam, hx(data), " | ".join(qs))
        ws = streamgen.stream_case(fam, data, "plain", [], sq)
        cases += [wb, ws]
        lens = list(range(len(data))) if (tier == "thorough" or len(data) <= 700) else sorted(rng.sample(range(len(data)), 40))
        if tier == "quick" and len(lens) > 260:
            lens = sorted(rng.sample(lens, 260))
        for n in lens:
            pb = "bytes %s %s | %s" % (fam, hx(data[:n]), " | ".join(qs))
            ps = streamgen.stream_case(fam, data[:n], "plain", [], sq)
            _whole[pb] = wb
            cases.append(pb)
            if n % 3 == 0:
                _whole[ps] = ws
                cases.append(ps)
        # .dynamic reachable two ways: the PT_DYNAMIC segment made shorter / moved / removed, prefixes cutting the section
        o0 = fileq.py_open("any", data)
        hs = fileq.py_shdrs(o0, data) if o0 else None
        ps_ = fileq.py_phdrs(o0, data) if o0 else None
        dsec = [h for h in (hs or []) if h and h["sh_type"] == 6]
        dseg = [j for j, p in enumerate(ps_ or []) if p and p["p_type"] == 2]
        if dsec and dseg:
            dsz = 8 if meta["cl"] == 32 else 16
            h, j = dsec[0], dseg[0]
            for var in ("short", "gone", "moved"):
                if var == "short":
                    d2 = elfgen.patch(data, meta, "phdr", "p_filesz", dsz * rng.choice([1, 2]), j)
                elif var == "gone":
                    d2 = elfgen.patch(data, meta, "phdr", "p_type", 0, j)
                else:
                    d2 = elfgen.patch(elfgen.patch(data, meta, "phdr", "p_offset", rng.choice([0, 16, 64]), j), meta, "phdr", "p_filesz", 2 * dsz, j)
                q2 = ["ehdr", "dynamic", "common %s" % hx(b"absent"), "symtab", "dynsym"]
                wb2 = "bytes %s %s | %s" % (fam, hx(d2), " | ".join(q2))
                cases.append(wb2)
                a, z = h["sh_offset"], h["sh_offset"] + h["sh_size"]
                for n in sorted(set([a - 1, a, a + 1, a + dsz, z - dsz, z - 1, z, len(d2) - 1] + [rng.randrange(a, z + 1) for _ in range(4)])):
                    if 0 <= n < len(d2):
                        pb2 = "bytes %s %s | %s" % (fam, hx(d2[:n]), " | ".join(q2))
                        _whole[pb2] = wb2
                        cases.append(pb2)
        # appending bytes changes no answer: the original is the prefix of the extended file
        ext = data + rand_bytes(rng, rng.randrange(1, 64))
        eb_ = "bytes %s %s | %s" % (fam, hx(ext), " | ".join(qs))
        es_ = streamgen.stream_case(fam, ext, "plain", [], sq)
        _whole[wb + " "] = eb_      # (prefix = the original file)
        cases += [eb_, es_]
        _ext_pairs.append((wb, eb_))
        _ext_pairs.append((ws, es_))
    return cases


_ext_pairs = []


def project(line):
    return vlib.collapse_errors(streamgen.strip_alloc(line)[0])


def res_text(case, line):
    p = project(line)
    return streamgen.split_stream(p)[0] if case.startswith("stream") else p


def oracle(case, impl, model):
    if impl.startswith(("PANIC", "HANG", "CRASH")):
        return "implementation %s" % impl.split(" ")[0]
    if project(impl) != project(model):
        return "implementation and model disagree"
    return None


def compare(pc, pl, wl):
    pr, wr = res_text(pc, pl), res_text(pc, wl)
    if pr.startswith("E"):
        return None
    if wr.startswith("E"):
        return "the prefix opens but the whole file does not"
    pi, wi = vlib.split_top(pr[1:-1]), vlib.split_top(wr[1:-1])
    qs = pc.split(" | ")[(2 if pc.startswith("stream") else 1):]
    for k, (x, y) in enumerate(zip(pi, wi)):
        if x != "E" and x != "nohdr" and x != y:
            return "query #%d %s: on the prefix %s, on the whole file %s" % (k, qs[k][:40] if k < len(qs) else "?", x[:140], y[:140])
    return None


def post(cases, impl, model, a):
    out = []
    idx = {c: k for k, c in enumerate(cases)}
    for pc, wc in _whole.items():
        if pc in idx and wc in idx:
            why = compare(pc, impl[idx[pc]], impl[idx[wc]])
            if why:
                out.append((pc, why))
    for pc, wc in _ext_pairs:
        if pc in idx and wc in idx:
            why = compare(pc, impl[idx[pc]], impl[idx[wc]])
            if why:
                out.append((wc, "appending bytes changed an answer: " + why))
    return out


def nontrivial(case, impl):
    return case in _whole and not impl.startswith(("E:", "stream(E:"))


def distribution(cases, impl, model):
    d = {"whole_files": 0, "prefixes": 0, "prefixes_that_open": 0, "slice_cases": 0, "stream_cases": 0, "answers_err_on_prefix": 0}
    for c, il in zip(cases, impl):
        d["slice_cases" if c.startswith("bytes") else "stream_cases"] += 1
        if c in _whole:
            d["prefixes"] += 1
            if not il.startswith(("E:", "stream(E:")):
                d["prefixes_that_open"] += 1
                d["answers_err_on_prefix"] += il.count("E:")
        else:
            d["whole_files"] += 1
    return d


def tie_covered(case):
    """the independent oracle of this module decides the property on every case it generates"""
    return True
