"""C17 — stream I/O failures surface as errors and never corrupt later answers."""
from gen import *
import vlib, elfgen, filegen, fileq, streamgen

LEVEL = "proof"
RULE = ("generated objects (sections laid out back to back, versions, symbol tables, notes) opened through a fault-injecting "
        "Read+Seek: for each file and history (4..9 queries, every query asked again at the end) one fault-free run and one run "
        "per single fault position k = 0..K (every I/O call of open and of the history; kinds: error, premature EOF, short read "
        "then EOF), plus random multi-fault schedules. Oracles: (metamorphic, implementation only) no panic; every answer of a "
        "faulted run is an error or equals the fault-free run's answer to the same query; a failed open is an error; (tie) "
        "implementation == model on every run. Non-trivial: a faulted run in which at least one query still answers.")
ASSUMPTIONS = ["Read::read_exact contract; a short read followed by EOF is a failed read_exact"]
_base = {}


def gen(rng, tier):
    cases = []
    n = 45 if tier == "quick" else 300
    for i in range(n):
        data, meta, info = streamgen.gen_file(rng)
        if i % 3 == 0:
            e, info = elfgen.sample_elf(rng, kinds=["text", "symtab", "dynsym", "versions", "note", "dynamic"])
            e.with_shdrs = True
            data, meta = e.build(rng)
        fam = "any"
        qs = streamgen.history(rng, data, meta, info, rng.randrange(4, 10))
        if "nversyms" in info:
            qs.insert(rng.randrange(0, len(qs) + 1), "symver 0 1 2 3")
            qs.insert(rng.randrange(0, len(qs) + 1), "symtab")
        qs.insert(rng.randrange(0, len(qs) + 1), "byname %s" % hx(b".shstrtab"))     # a name that exists: a fault must not turn it into "no such section"
        qs.insert(rng.randrange(0, len(qs) + 1), "byname %s" % hx(b".text"))
        qs = qs + qs          # ask everything again: a failure must leave no residue
        base = streamgen.stream_case(fam, data, "plain", [], qs)
        cases.append(base)
        nsteps = 2 * len(qs) + 12
        K = min(nsteps, 40 if tier == "quick" else 120)
        for k in range(K):
            kind = (k + i) % 3
            c = streamgen.stream_case(fam, data, "plain", [(k, kind)], qs)
            _base[c] = base
            cases.append(c)
        for _ in range(4):
            fl = sorted(set((rng.randrange(0, nsteps), rng.randrange(0, 3)) for _ in range(rng.randrange(2, 5))))
            seen, fl2 = set(), []
            for k, kind in fl:
                if k not in seen:
                    seen.add(k)
                    fl2.append((k, kind))
            c = streamgen.stream_case(fam, data, "plain", fl2, qs)
            _base[c] = base
            cases.append(c)
    return cases


def project(line):
    return vlib.collapse_errors(streamgen.strip_alloc(line)[0])


def results_only(line):
    return streamgen.split_stream(project(line))[0]


def oracle(case, impl, model):
    if impl.startswith(("PANIC", "HANG", "CRASH")):
        return "implementation %s" % impl.split(" ")[0]
    # the I/O trace of a short-read fault contains the partial read on the implementation side only
    if results_only(impl) != results_only(model):
        return "implementation and model disagree"
    if " faults |" in case or case.endswith(" faults"):
        if project(impl) != project(model):
            return "implementation and model disagree (I/O trace)"
    return None


def post(cases, impl, model, a):
    out = []
    idx = {c: k for k, c in enumerate(cases)}
    for c, b in _base.items():
        if c not in idx or b not in idx:
            continue
        fr = results_only(impl[idx[c]])
        br = results_only(impl[idx[b]])
        if fr.startswith("E"):
            continue                      # open failed with an error: allowed
        if br.startswith("E"):
            out.append((c, "open succeeds under faults but fails on the fault-free stream"))
            continue
        fi, bi = vlib.split_top(fr[1:-1]), vlib.split_top(br[1:-1])
        qs = c.split(" | ")[2:]
        for k, (x, y) in enumerate(zip(fi, bi)):
            if x != "E" and x != y:
                out.append((c, "query #%d %s under faults gives %s; fault-free it gives %s" % (k, qs[k][:50] if k < len(qs) else "?", x[:120], y[:120])))
                break
    return out


def nontrivial(case, impl):
    return " faults " in case and impl.startswith("stream([") and "ok(" in impl


def distribution(cases, impl, model):
    d = {"fault_free_runs": 0, "single_fault_runs": 0, "multi_fault_runs": 0, "open_failed_by_fault": 0, "answers_err": 0, "answers_ok_under_faults": 0}
    for c, il in zip(cases, impl):
        head = c.split(" | ")[1]
        nf = (len(head.split(" ")) - 1) // 2
        d["fault_free_runs" if nf == 0 else ("single_fault_runs" if nf == 1 else "multi_fault_runs")] += 1
        if nf and il.startswith("stream(E:"):
            d["open_failed_by_fault"] += 1
        if nf:
            d["answers_err"] += il.count("E:IOError")
    return d


def tie_covered(case):
    """the independent oracle of this module decides the property on every case it generates"""
    return True
