"""C10 — byte-order gating and ident defects (error kind and payload are compared here)."""
from gen import *
import vlib, elfgen, filegen

LEVEL = "proof"
EXTRA_VO = ["Proofs/ErrFmtP.vo"]      # Display of ParseError: rendering round-trip (not one of the property's theorems)
RULE = ("ident op and open (bytes op) for all 256 values of EI_DATA, EI_CLASS, EI_VERSION, single- and multi-byte magic "
        "corruptions x {le,be,any,native}; full-content equivalence any vs fixed spec over generated files (same query set on both). "
        "The projection keeps error kind and payload of the four ident errors. Non-trivial: a case whose result is not a slice-read error.")
ASSUMPTIONS = ["NativeEndian = LittleEndian on the build target (harness asserts target_endian)"]
FAMS = ["le", "be", "any", "native"]
IDENT_ERR = ("E:BadMagic", "E:UnsupportedElfClass", "E:UnsupportedElfEndianness", "E:UnsupportedVersion")
_pair = {}


def base_file(rng, cl, little):
    e, info = elfgen.sample_elf(rng, cl=cl, little=little, kinds=["text", "symtab", "note", "dynamic"])
    e.with_shdrs = True
    data, meta = e.build(rng)
    return data, meta, info


def gen(rng, tier):
    cases = ["endian %s" % sp for sp in SPECS]      # is_little / is_big of every spec value
    # Display / Error::source of every ParseError variant, payloads at the width boundaries
    for k in range(16):
        widths = {0: 8, 1: 8, 2: 8, 7: 32, 8: 32}.get(k, 64)
        vals = [0, 1, 9, 10, 15, 16, 255, 256, 0xabcdef, 2**31, 2**32 - 1, 2**63, 2**64 - 1]
        for _ in range(6 if tier == "quick" else 200):
            a, b, c, d = [rng.choice(vals + [rng.randrange(2**64)]) % (1 << widths) for _ in range(4)]
            cases.append("errfmt %d %d %d %d %d" % (k, a, b, c, d))
    files = {(cl, little): base_file(rng, cl, little) for cl in (32, 64) for little in (True, False)}
    for (cl, little), (data, meta, info) in files.items():
        if tier == "quick" and (cl, little) not in ((64, True), (32, False)):
            continue
        for pos in (5, 4, 6):
            for v in range(256):
                b = bytearray(data)
                b[pos] = v
                for fam in FAMS:
                    if tier == "quick" and fam == "native" and v > 3:
                        continue
                    cases.append("ident %s %s" % (fam, hx(b[:16])))
                    cases.append("bytes %s %s | ehdr | shnum" % (fam, hx(b)))
        # magic corruptions
        for k in range(1, 16):
            b = bytearray(data)
            for i in range(4):
                if k & (1 << i):
                    b[i] = rng.choice([0, b[i] ^ 1, b[i] ^ 0x80, 0xff])
            for fam in FAMS:
                cases.append("ident %s %s" % (fam, hx(b[:16])))
                cases.append("bytes %s %s | ehdr" % (fam, hx(b)))
        # structured multi-byte corruptions: every permutation of the four magic bytes, every pair / triple / all four
        # bytes flipped by the SAME mask (differences that cancel under xor, sum or or-of-differences shortcuts), a
        # case-folded magic
        import itertools
        magic = bytes(data[:4])
        alts = [bytes(p) for p in itertools.permutations(magic) if bytes(p) != magic]
        for r in (2, 3, 4):
            for idx in itertools.combinations(range(4), r):
                for mask in (0x01, 0x20, 0x80, 0xff):
                    m2 = bytearray(magic)
                    for i in idx:
                        m2[i] ^= mask
                    alts.append(bytes(m2))
        alts += [b"\x7felf", b"\x7fElf", b"\x7fELf"]
        for k, m2 in enumerate(alts):
            b = bytearray(data)
            b[:4] = m2
            fam = FAMS[k % len(FAMS)]
            cases.append("ident %s %s" % (fam, hx(b[:16])))
            if k % 4 == 0:
                cases.append("bytes %s %s | ehdr" % (fam, hx(b)))
        # several defects at once: precedence magic > version > class > data
        for _ in range(40):
            b = bytearray(data)
            for pos in rng.sample([0, 4, 5, 6], rng.randrange(2, 4)):
                b[pos] = rng.choice([0, 3, 0x7f, 0xff])
            fam = rng.choice(FAMS)
            cases.append("ident %s %s" % (fam, hx(b[:16])))
            cases.append("bytes %s %s | ehdr" % (fam, hx(b)))
    # short idents
    for ln in range(0, 17):
        cases.append("ident any %s" % hx(bytes([0x7f, 0x45, 0x4c, 0x46, 2, 1, 1, 0, 0, 0, 0, 0, 0, 0, 0, 0][:ln])))
    # any vs fixed: same file, same queries
    n = 60 if tier == "quick" else 1500
    for i in range(n):
        e, info = elfgen.sample_elf(rng)
        data, meta = e.build(rng)
        if i % 4 == 3:
            data = filegen.corrupt(rng, data, meta)
        qs = " | ".join(filegen.full_queries(rng, meta, info, light=True))
        fixed = "le" if meta["little"] else "be"
        a = "bytes any %s | %s" % (hx(data), qs)
        f = "bytes %s %s | %s" % (fixed, hx(data), qs)
        _pair[a] = f
        cases += [a, f]
    return cases


def project(line):
    # keep the ident errors with their payload, collapse the others
    out = []
    pos = 0
    for m in vlib.ERR_RE.finditer(line):
        out.append(line[pos:m.start()])
        out.append(m.group(0) if m.group(0).startswith(IDENT_ERR) else "E")
        pos = m.end()
    out.append(line[pos:])
    return "".join(out)


_default = default_oracle(project)
_results = {}


def expected_ident(fam, b):
    if len(b) < 16:
        return "E"
    if b[:4] != b"\x7fELF":
        return "E:BadMagic(%d,%d,%d,%d)" % tuple(b[:4])
    if b[6] != 1:
        return "E:UnsupportedVersion(%d,1)" % b[6]
    if b[4] not in (1, 2):
        return "E:UnsupportedElfClass(%d)" % b[4]
    acc = {"le": (1,), "native": (1,), "be": (2,), "any": (1, 2)}[fam]
    if b[5] not in acc:
        return "E:UnsupportedElfEndianness(%d)" % b[5]
    return None


def oracle(case, impl, model):
    why = _default(case, impl, model)
    if why:
        return why
    t = case.split(" ")
    if t[0] == "errfmt":
        return None              # equality with the model (default oracle above) is the whole check
    if t[0] == "endian":
        want = "[1 0]" if t[1] in ("le", "anyle", "native") else "[0 1]"
        return None if impl == want else "is_little/is_big of %s = %s, expected %s" % (t[1], impl, want)
    fam, data = t[1], bytes.fromhex(t[2][1:])
    exp = expected_ident(fam, data[:16] if t[0] == "bytes" else data)
    pi = project(impl)
    if exp is not None:
        if pi != exp:
            return "ident defect reported as %s, expected %s" % (pi[:60], exp)
    else:
        if t[0] == "ident" and pi != "ok(%d %d %d %d)" % (1 if data[5] == 1 else 0, 32 if data[4] == 1 else 64, data[7], data[8]):
            return "accepted ident decoded as %s" % pi
        if pi.startswith(IDENT_ERR):
            return "acceptable ident rejected with %s" % pi[:60]
    _results[case] = pi
    return None


def post(cases, impl, model, a):
    out = []
    for anyc, fixc in _pair.items():
        ra, rf = _results.get(anyc), _results.get(fixc)
        if ra is None or rf is None:
            continue
        if ra != rf:
            out.append((anyc, "any-endian result differs from the fixed-spec result on the same file"))
    return out


def nontrivial(case, impl):
    return not impl.startswith("E:SliceReadError")


def distribution(cases, impl, model):
    d = {}
    for c, il in zip(cases, impl):
        k = c.split(" ")[0] + "/" + (il.split("(")[0] if il.startswith("E:") else "ok")
        d[k] = d.get(k, 0) + 1
    return d
