"""C02 — every structure decodes exactly per the gABI layout (value, size, extension, packed fields)."""
from gen import *
import vlib

LEVEL = "proof"
RULE = ("parse of ABI encodings of boundary/random field values (0, 1, 0x7f.., 0x80.., all-ones, per-byte distinct "
        "patterns) for 17 ParseAt types + the file-header tail x 2 classes x 5 specs, random leading/trailing bytes and "
        "offsets, truncated inputs; u8/u16-derived accessors exhaustively (st_info, st_other, version index). "
        "The oracle re-encodes independently in python (struct layouts written from the gABI). Non-trivial: an Ok decode; "
        "distinct by result line.")
ASSUMPTIONS = ["slice length <= isize::MAX", "usize is 64 bit", "private fields vd_aux/vd_next/vn_aux/vn_next/vda_next/vna_next observed through the derived Debug impl"]

# (name, width, signed) in ABI order, per class; written from the gABI / <elf.h>, independent of /repo
L = {
    "shdr": {32: [("sh_name", 4), ("sh_type", 4), ("sh_flags", 4), ("sh_addr", 4), ("sh_offset", 4), ("sh_size", 4), ("sh_link", 4), ("sh_info", 4), ("sh_addralign", 4), ("sh_entsize", 4)],
             64: [("sh_name", 4), ("sh_type", 4), ("sh_flags", 8), ("sh_addr", 8), ("sh_offset", 8), ("sh_size", 8), ("sh_link", 4), ("sh_info", 4), ("sh_addralign", 8), ("sh_entsize", 8)]},
    "phdr": {32: [("p_type", 4), ("p_offset", 4), ("p_vaddr", 4), ("p_paddr", 4), ("p_filesz", 4), ("p_memsz", 4), ("p_flags", 4), ("p_align", 4)],
             64: [("p_type", 4), ("p_flags", 4), ("p_offset", 8), ("p_vaddr", 8), ("p_paddr", 8), ("p_filesz", 8), ("p_memsz", 8), ("p_align", 8)]},
    "sym": {32: [("st_name", 4), ("st_value", 4), ("st_size", 4), ("st_info", 1), ("st_other", 1), ("st_shndx", 2)],
            64: [("st_name", 4), ("st_info", 1), ("st_other", 1), ("st_shndx", 2), ("st_value", 8), ("st_size", 8)]},
    "rel": {32: [("r_offset", 4), ("r_info", 4)], 64: [("r_offset", 8), ("r_info", 8)]},
    "rela": {32: [("r_offset", 4), ("r_info", 4), ("r_addend", -4)], 64: [("r_offset", 8), ("r_info", 8), ("r_addend", -8)]},
    "dyn": {32: [("d_tag", -4), ("d_un", 4)], 64: [("d_tag", -8), ("d_un", 8)]},
    "chdr": {32: [("ch_type", 4), ("ch_size", 4), ("ch_addralign", 4)], 64: [("ch_type", 4), ("ch_reserved", 4), ("ch_size", 8), ("ch_addralign", 8)]},
    "abitag": {0: [("os", 4), ("major", 4), ("minor", 4), ("subminor", 4)]},
    "sysvhdr": {0: [("nbucket", 4), ("nchain", 4)]},
    "gnuhdr": {0: [("nbuckets", 4), ("symoffset", 4), ("bloom_size", 4), ("bloom_shift", 4)]},
    "u32": {0: [("v", 4)]}, "u64": {0: [("v", 8)]}, "versym": {0: [("v", 2)]},
    "verdef": {0: [("vd_version", 2), ("vd_flags", 2), ("vd_ndx", 2), ("vd_cnt", 2), ("vd_hash", 4), ("vd_aux", 4), ("vd_next", 4)]},
    "verdaux": {0: [("vda_name", 4), ("vda_next", 4)]},
    "verneed": {0: [("vn_version", 2), ("vn_cnt", 2), ("vn_file", 4), ("vn_aux", 4), ("vn_next", 4)]},
    "vernaux": {0: [("vna_hash", 4), ("vna_flags", 2), ("vna_other", 2), ("vna_name", 4), ("vna_next", 4)]},
    "tail": {32: [("e_type", 2), ("e_machine", 2), ("e_version", 4), ("e_entry", 4), ("e_phoff", 4), ("e_shoff", 4), ("e_flags", 4), ("e_ehsize", 2), ("e_phentsize", 2), ("e_phnum", 2), ("e_shentsize", 2), ("e_shnum", 2), ("e_shstrndx", 2)],
             64: [("e_type", 2), ("e_machine", 2), ("e_version", 4), ("e_entry", 8), ("e_phoff", 8), ("e_shoff", 8), ("e_flags", 4), ("e_ehsize", 2), ("e_phentsize", 2), ("e_phnum", 2), ("e_shentsize", 2), ("e_shnum", 2), ("e_shstrndx", 2)]},
}
# printed order of the decoded record (field names; derived accessors handled in expected())
ORDER = {
    "shdr": ["sh_name", "sh_type", "sh_flags", "sh_addr", "sh_offset", "sh_size", "sh_link", "sh_info", "sh_addralign", "sh_entsize"],
    "phdr": ["p_type", "p_offset", "p_vaddr", "p_paddr", "p_filesz", "p_memsz", "p_flags", "p_align"],
    "chdr": ["ch_type", "ch_size", "ch_addralign"],
    "abitag": ["os", "major", "minor", "subminor"], "sysvhdr": ["nbucket", "nchain"],
    "gnuhdr": ["nbuckets", "symoffset", "bloom_size", "bloom_shift"], "u32": ["v"], "u64": ["v"],
    "verdef": ["vd_flags", "vd_ndx", "vd_cnt", "vd_hash", "vd_aux", "vd_next"], "verdaux": ["vda_name", "vda_next"],
    "verneed": ["vn_cnt", "vn_file", "vn_aux", "vn_next"], "vernaux": ["vna_hash", "vna_flags", "vna_other", "vna_name", "vna_next"],
}


def layout(ty, cl):
    return L[ty].get(cl) or L[ty][0]


def size_of(ty, cl):
    return sum(abs(w) for _, w in layout(ty, cl))


def encode_struct(ty, cl, little, vals):
    b = b""
    for name, w in layout(ty, cl):
        b += enc(little, abs(w), vals[name])
    return b


def expected(ty, cl, vals, osabi=0, abiver=0, little=True):
    """the canonical 'ok(...)' text the ABI demands for these field values"""
    v = vals
    if ty in ORDER:
        return "ok(" + " ".join(str(v[n]) for n in ORDER[ty]) + ")"
    if ty == "sym":
        return "ok(%d %d %d %d %d %d %d %d %d %d)" % (v["st_name"], v["st_shndx"], v["st_info"], v["st_other"], v["st_value"], v["st_size"],
                                                     1 if v["st_shndx"] == 0 else 0, v["st_info"] % 16, v["st_info"] // 16, v["st_other"] % 4)
    if ty in ("rel", "rela"):
        i = v["r_info"]
        s, t = (i // 256, i % 256) if cl == 32 else (i // 2**32, i % 2**32)
        if ty == "rel":
            return "ok(%d %d %d)" % (v["r_offset"], s, t)
        return "ok(%d %d %d %d)" % (v["r_offset"], s, t, v["r_addend"])
    if ty == "dyn":
        return "ok(%d %d %d)" % (v["d_tag"], v["d_un"], v["d_un"])
    if ty == "versym":
        x = v["v"]
        return "ok(%d %d %d %d %d)" % (x, x % 32768, 1 if x >= 32768 else 0, 1 if x % 32768 == 0 else 0, 1 if x % 32768 == 1 else 0)
    if ty == "tail":
        return "ok(%d %d %d %d %d %d %d %d %d %d %d %d %d %d %d %d %d)" % (
            cl, 1 if little else 0, v["e_version"], osabi, abiver, v["e_type"], v["e_machine"], v["e_entry"], v["e_phoff"], v["e_shoff"],
            v["e_flags"], v["e_ehsize"], v["e_phentsize"], v["e_phnum"], v["e_shentsize"], v["e_shnum"], v["e_shstrndx"])
    raise KeyError(ty)


def field_value(rng, w, k):
    """boundary / per-byte distinct / random values; k makes same-width fields differ"""
    aw = abs(w)
    r = rng.random()
    bits = 8 * aw
    if r < 0.25:
        v = int.from_bytes(bytes(((16 * (k + 1) + i + 1) | (0x80 if (i + k) % 2 == 0 else 0)) & 0xff for i in range(aw)), "big")
    elif r < 0.55:
        v = rng.choice([0, 1, (1 << (bits - 1)) - 1, 1 << (bits - 1), (1 << bits) - 1, (1 << bits) - 2, 0x80 << (bits - 8)]) % (1 << bits)
    else:
        v = rng.getrandbits(bits)
    if w < 0 and v >= 1 << (bits - 1):
        v -= 1 << bits
    return v


TYPES = [t for t in L if t != "tail"]
_expect = {}


def gen(rng, tier):
    cases = []
    reps = 12 if tier == "quick" else 300
    for ty in L:
        for cl in (32, 64):
            for spec in SPECS:
                little = spec_little(spec)
                for _ in range(reps):
                    vals = {n: field_value(rng, w, k) for k, (n, w) in enumerate(layout(ty, cl))}
                    if ty in ("verdef", "verneed") and rng.random() < 0.8:
                        vals["vd_version" if ty == "verdef" else "vn_version"] = 1
                    body = encode_struct(ty, cl, little, vals)
                    mode = rng.random()
                    if ty == "tail":
                        osabi, abiver = rng.randrange(256), rng.randrange(256)
                        cut = len(body) if mode < 0.8 else rng.randrange(0, len(body))
                        c = "tail %s %d %d %d %s" % (spec, cl, osabi, abiver, hx(body[:cut] + (rand_bytes(rng, 3) if mode < 0.3 else b"")))
                        if cut == len(body):
                            _expect[c] = expected(ty, cl, vals, osabi, abiver, little)
                        else:
                            _expect[c] = "E"
                        cases.append(c)
                        continue
                    pre = rand_bytes(rng, rng.randrange(0, 9)) if mode < 0.6 else b""
                    post = rand_bytes(rng, rng.randrange(0, 9)) if mode < 0.5 else b""
                    if mode > 0.85:
                        body = body[:rng.randrange(0, len(body))]
                        post = b""
                    off = len(pre)
                    c = "parse %s %s %d %d %s" % (ty, spec, cl, off, hx(pre + body + post))
                    sz = size_of(ty, cl)
                    vname = {"verdef": "vd_version", "verneed": "vn_version"}.get(ty)
                    if len(body) < sz:
                        _expect[c] = None          # error; cursor not compared
                    elif vname and vals[vname] != 1:
                        _expect[c] = "[E %d %d]" % (off + 2, sz)
                    else:
                        _expect[c] = "[%s %d %d]" % (expected(ty, cl, vals), off + sz, sz)
                    cases.append(c)
    # accessors exhaustively: st_info / st_other over u8, version index over u16 (sampled in quick)
    for b in range(256):
        vals = {"st_name": 7, "st_value": 9, "st_size": 3, "st_info": b, "st_other": 255 - b, "st_shndx": b % 3}
        c = "parse sym le 64 0 %s" % hx(encode_struct("sym", 64, True, vals))
        _expect[c] = "[%s 24 24]" % expected("sym", 64, vals)
        cases.append(c)
    vs = range(65536) if tier == "thorough" else sorted(set(rng.sample(range(65536), 600)) | {0, 1, 2, 0x7fff, 0x8000, 0x8001, 0xffff})
    for x in vs:
        c = "parse versym be 32 0 %s" % hx(enc(False, 2, x))
        _expect[c] = "[%s 2 2]" % expected("versym", 0, {"v": x})
        cases.append(c)
    return cases


def project(line):
    return vlib.collapse_errors(line)


_default = default_oracle(project)


def oracle(case, impl, model):
    exp = _expect.get(case, "?")
    pi = project(impl)
    if exp is None:
        # too short: must be an error, never a value
        if not (pi.startswith("[E ") or pi == "E"):
            return "short input decoded to a value"
        if vlib.parse_out(pi)[0] != vlib.parse_out(project(model))[0]:
            return "implementation and model disagree"
        return None
    why = _default(case, impl, model)
    if why:
        return why
    if exp != "?" and pi != exp:
        return "implementation differs from the ABI decoding: expected %s" % exp
    return None


def nontrivial(case, impl):
    return "ok(" in impl


def distribution(cases, impl, model):
    d = {}
    for c, il in zip(cases, impl):
        t = c.split(" ")
        k = (t[1] if t[0] == "parse" else "tail") + ("/ok" if "ok(" in il else "/err")
        d[k] = d.get(k, 0) + 1
    return d


def tie_covered(case):
    """the independent oracle of this module decides the property on every case it generates"""
    return True
