"""C14 — note iteration: round trip of encoded note sequences, reference walk on garbage, zero alignment, name_str."""
from gen import *
import vlib, elfgen
import props.C09 as C09

LEVEL = "proof"
RULE = ("0..20 notes with namesz/descsz 0..40 (every residue, header-only records; a boundary block where the last record ends exactly at the end of the data), GNU ABI-tag/build-id/other GNU types, align in {1,2,4,8,16} and "
        "arbitrary others (0, 3, 2^31, 2^63, 2^64-1), class x 5 specs, with/without trailing garbage or truncated last record; "
        "through the stand-alone NoteIterator, sections and segments of generated files. Oracle: independent python reference "
        "walk (stops at the first record that does not fit) + equality with the model. Non-trivial: >= 1 note yielded.")
ASSUMPTIONS = ["from_utf8 environment model (name_str)"]
_info = {}


def ref_walk(little, cl, align, data):
    """python reference: list of canonical item strings"""
    out = []
    if align == 0 or len(data) == 0:
        return out
    off = 0
    order = "little" if little else "big"
    while True:
        if off + 12 > len(data):
            break
        nsz = int.from_bytes(data[off:off + 4], order)
        dsz = int.from_bytes(data[off + 4:off + 8], order)
        ty = int.from_bytes(data[off + 8:off + 12], order)
        ns = off + 12
        ne = ns + nsz
        if ne > len(data):
            break
        ds = ne + (align - ne % align) % align
        if ds > USIZE_MAX:
            break
        de = ds + dsz
        if de > len(data) or ds > len(data):
            break
        nx = de + (align - de % align) % align
        if nx > USIZE_MAX:
            break
        name = data[ns:ne]
        desc = data[ds:de]
        rng_ = lambda a, b: "@-" if a == b else "@%d:%d" % (a, b)
        if name == b"GNU\0" and ty == 1:
            if len(desc) < 16:
                # typed parse fails: this next() yields None (the for loop ends) although the cursor moved on
                break
            out.append("abitag(%s)" % " ".join(str(int.from_bytes(desc[4 * k:4 * k + 4], order)) for k in range(4)))
        elif name == b"GNU\0" and ty == 3:
            out.append("buildid(%s)" % rng_(ds, de))
        else:
            try:
                name.decode("utf-8")
                t = name.rstrip(b"\0")
                nstr = rng_(ns, ns + len(t))
            except UnicodeDecodeError:
                nstr = "E"
            out.append("note(%d %s %s %s)" % (ty, rng_(ns, ne), rng_(ds, de), nstr))
        off = nx
    return out


def gen_notes(rng):
    n = rng.choice([0, 1, 1, 2, 3, 5, 20])
    notes = []
    for _ in range(n):
        k = rng.random()
        if k < 0.15:
            notes.append((1, b"GNU\0", rand_bytes(rng, 16)))
        elif k < 0.3:
            notes.append((3, b"GNU\0", rand_bytes(rng, rng.randrange(0, 41))))
        elif k < 0.4:
            notes.append((rng.choice([0, 2, 4, 5, 2**32 - 1]), b"GNU\0", rand_bytes(rng, rng.randrange(0, 41))))
        elif k < 0.45:
            notes.append((1, b"GNU\0", rand_bytes(rng, rng.choice([0, 15, 17, 32]))))     # wrong-size ABI tag
        elif k < 0.52:
            notes.append((rng.randrange(0, 10), b"", b""))                                    # header-only record
        elif k < 0.62:       # owner names that are "GNU" up to NUL padding / case, with the typed note numbers
            notes.append((rng.choice([1, 3]), rng.choice([b"GNU", b"GNU\0\0", b"GNU\0\0\0\0\0", b"GNU ", b"gnu\0", b"GN\0", b"GNUX", b"\0GNU"]),
                          rand_bytes(rng, rng.choice([16, 16, 4, 20]))))
        else:
            nm = bytes(rng.choice(b"ABCxyz\0\xc3\xa9\xff") for _ in range(rng.randrange(0, 41)))
            if rng.random() < 0.5:
                nm = nm.rstrip(b"\0") + b"\0" * rng.randrange(0, 3)
            notes.append((rng.getrandbits(32) if rng.random() < 0.3 else rng.randrange(0, 10), nm, rand_bytes(rng, rng.randrange(0, 41))))
    return notes


def gen(rng, tier):
    cases = []
    n = 2200 if tier == "quick" else 20000
    for i in range(n):
        spec = rng.choice(SPECS)
        little = spec_little(spec)
        cl = rng.choice((32, 64))
        align = rng.choice([1, 2, 4, 4, 8, 8, 16]) if rng.random() < 0.85 else rng.choice([0, 3, 5, 7, 12, 2**31, 2**63, 2**64 - 1, rng.randrange(1, 100)])
        notes = gen_notes(rng)
        enc_align = align if 0 < align <= 64 else 4
        data = elfgen.enc_notes(little, enc_align, notes)
        r = rng.random()
        if r < 0.2 and data:
            data = data[:rng.randrange(0, len(data))]              # truncated
        elif r < 0.4:
            data = data + rand_bytes(rng, rng.randrange(1, 30))     # trailing garbage
        elif r < 0.5 and data:
            b = bytearray(data)
            b[rng.randrange(len(b))] ^= rng.choice([1, 0x80, 0xff])  # corrupted
            data = bytes(b)
        q = "all" if rng.random() < 0.7 else "all | nexts %d" % (len(notes) + 3)
        c = "notes %s %d %d %s | %s" % (spec, cl, align, hx(data), q)
        _info[c] = (little, cl, align, data)
        cases.append(c)
    # boundary block: the last record ends exactly at the end of the data (with and without its final
    # padding), for every small name/descriptor size incl. header-only records
    k = 0
    for nsz in range(0, 6):
        for dsz in range(0, 6):
            for align in (1, 2, 4, 8):
                for npre in (0, 1):
                    k += 1
                    if tier == "quick" and k % 2 and (nsz, dsz) != (0, 0):
                        continue
                    spec = SPECS[k % len(SPECS)]
                    little = spec_little(spec)
                    cl = (32, 64)[k % 2]
                    pre = [(7, b"AB\0", b"xyz")] * npre
                    last = (k % 11, bytes(b"N" * max(0, nsz - 1) + (b"\0" if nsz else b"")), bytes(range(dsz)))
                    data = elfgen.enc_notes(little, align, pre + [last])
                    for strip in (False, True):
                        dd = data
                        if strip:
                            dd = elfgen.enc_notes(little, align, pre)
                            one = elfgen.enc_notes(little, align, [last]) if not pre else None
                            # cut the final padding: header + name (+pad) + desc
                            full = data
                            padded_end = len(full)
                            # recompute the unpadded end of the last descriptor
                            base = len(dd)
                            ne = base + 12 + len(last[1])
                            ds = ne + (align - ne % align) % align
                            dd = full[:ds + len(last[2])]
                        c = "notes %s %d %d %s | all | nexts %d | %s" % (spec, cl, align, hx(dd), npre + 3, C09.walk_script(rng, npre))
                        _info[c] = (little, cl, align, dd)
                        cases.append(c)
    # through sections / segments of files
    m = 150 if tier == "quick" else 3000
    for i in range(m):
        e, info = elfgen.sample_elf(rng, kinds=["note", "text"] + (["symtab"] if i % 2 else []))
        e.with_shdrs = True
        data, meta = e.build(rng)
        qs = ["notes %d" % k for k in range(meta["nsh"])] + ["segnotes %d" % j for j in range(meta["nph"])]
        cases.append("bytes any %s | %s" % (hx(data), " | ".join(qs)))
    return cases


def project(line):
    return vlib.collapse_errors(line)


_default = default_oracle(project)


def oracle(case, impl, model):
    why = _default(case, impl, model)
    if why:
        return why
    if case in _info:
        little, cl, align, data = _info[case]
        res = vlib.split_top(project(impl)[1:-1])
        exp = "[" + " ".join(ref_walk(little, cl, align, data)) + "]"
        if res[0] != exp:
            return "iteration differs from the reference walk: expected %s" % exp[:300]
    return None


def nontrivial(case, impl):
    return "note(" in impl or "abitag(" in impl or "buildid(" in impl


def distribution(cases, impl, model):
    d = {"standalone": 0, "via_file": 0, "items": 0, "abitag": 0, "buildid": 0, "align0": 0, "empty_iteration": 0}
    for c, il in zip(cases, impl):
        d["standalone" if c.startswith("notes") else "via_file"] += 1
        d["items"] += il.count("note(") + il.count("abitag(") + il.count("buildid(")
        d["abitag"] += il.count("abitag(")
        d["buildid"] += il.count("buildid(")
        if c.startswith("notes") and c.split(" ")[3] == "0":
            d["align0"] += 1
        if il.startswith("[[]"):
            d["empty_iteration"] += 1
    return d


def tie_covered(case):
    return case in _info
