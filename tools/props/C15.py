"""C15 — string-table lookup: get_raw / get, and the UTF-8 environment model vs core::str::from_utf8."""
import itertools
from gen import *
import vlib

LEVEL = "proof"
RULE = ("every table up to 5 (quick) / 7 (thorough) bytes over {00,'a',C3,A9} with every offset 0..len+2 (exhaustive); 8..40-byte tables over {00,01,02,61,7f,80,81,ff} (bytes adjacent to NUL in every bit position, chunk-boundary lengths) with offsets around every 8-byte boundary; random "
        "tables up to 4 KiB with random offsets incl. usize::MAX; utf8 op on all 1-byte, sampled/all 2-byte and structured 3-4 "
        "byte strings. Oracle: independent python computation (bytes.index / strict utf-8 decode). Non-trivial: an Ok lookup.")
ASSUMPTIONS = ["core::str::from_utf8 is modelled by the Table 3-7 automaton (validated against the real function by the utf8 cases)"]
ALPHA = [0x00, 0x61, 0xC3, 0xA9]


def gen(rng, tier):
    cases = []
    maxlen = 5 if tier == "quick" else 7
    for ln in range(0, maxlen + 1):
        for t in itertools.product(ALPHA, repeat=ln):
            qs = []
            for off in range(0, ln + 3):
                qs += ["raw %d" % off, "get %d" % off]
            cases.append("strtab %s | %s" % (hx(t), " | ".join(qs)))
    n = 150 if tier == "quick" else 4000
    for _ in range(n):
        ln = rng.choice([1, 2, 3, 10, 100, 1000, 4096, rng.randrange(1, 4097)])
        p0 = rng.choice([0.01, 0.1, 0.5])
        data = bytes(0 if rng.random() < p0 else rng.choice([0x61, 0x7a, 0xC3, 0xA9, 0xE2, 0x82, 0xAC, 0xF0, 0x9F, 0x98, 0x80, 0xFF, 0xED, 0xA0, 0x80, rng.randrange(256)]) for _ in range(ln))
        if rng.random() < 0.3:
            data = data.rstrip(b"\0") + b"z"
        offs = [rng.randrange(0, ln + 2) for _ in range(6)] + [ln - 1, ln, ln + 1, USIZE_MAX, 2**63, 2**32]
        qs = []
        for off in offs:
            qs += ["raw %d" % off, "get %d" % off]
        cases.append("strtab %s | %s" % (hx(data), " | ".join(qs)))
    # medium tables (8..40 bytes) over bytes adjacent to NUL in every bit position: word-at-a-time NUL searches
    # (SWAR tricks, chunked scans) go wrong on 0x01/0x80/0x7f/0xff next to a NUL or at chunk boundaries
    swar = [0x00, 0x01, 0x80, 0x81, 0x7f, 0xff, 0x61, 0x02]
    for _ in range(500 if tier == "quick" else 15000):
        ln = rng.choice([8, 9, 15, 16, 17, 24, 31, 32, 33, 40, rng.randrange(8, 41)])
        p0 = rng.choice([0.05, 0.15, 0.3])
        data = bytes(0 if rng.random() < p0 else rng.choice(swar[1:]) for _ in range(ln))
        if rng.random() < 0.7:
            data = data[:-1] + b"\0"
        offs = sorted(set([rng.randrange(0, ln) for _ in range(5)] + [0, 1, ln - 8, ln - 9, ln - 1, ln]))
        qs = []
        for off in offs:
            if off >= 0:
                qs += ["raw %d" % off, "get %d" % off]
        cases.append("strtab %s | %s" % (hx(data), " | ".join(qs)))
    # from_utf8 environment model
    for a in range(256):
        cases.append("utf8 %s" % hx([a]))
    two = itertools.product(range(256), repeat=2) if tier == "thorough" else [(rng.randrange(0x70, 256), rng.randrange(0x70, 256)) for _ in range(800)] + [(a, b) for a in (0xC0, 0xC1, 0xC2, 0xDF, 0xE0, 0xF5) for b in (0x7F, 0x80, 0xBF, 0xC0)]
    for a, b in two:
        cases.append("utf8 %s" % hx([a, b]))
    leads3 = [0xE0, 0xE1, 0xEC, 0xED, 0xEE, 0xEF]
    leads4 = [0xF0, 0xF1, 0xF3, 0xF4, 0xF5]
    edge = [0x7F, 0x80, 0x8F, 0x90, 0x9F, 0xA0, 0xBF, 0xC0]
    for a in leads3:
        for b in edge:
            for c in (0x7F, 0x80, 0xBF, 0xC0):
                cases.append("utf8 %s" % hx([a, b, c]))
                cases.append("utf8 %s" % hx([0x41, a, b, c, 0x42]))
    for a in leads4:
        for b in edge:
            for c in (0x80, 0xBF, 0xC0):
                for e in (0x7F, 0x80, 0xBF):
                    cases.append("utf8 %s" % hx([a, b, c, e]))
    for _ in range(300 if tier == "quick" else 5000):
        s = "".join(chr(rng.choice([rng.randrange(0x80), rng.randrange(0x80, 0x800), rng.randrange(0x800, 0xD800), rng.randrange(0xE000, 0x10000), rng.randrange(0x10000, 0x110000)])) for _ in range(rng.randrange(0, 6)))
        b = bytearray(s.encode("utf-8"))
        if b and rng.random() < 0.5:
            i = rng.randrange(len(b))
            b[i] = rng.choice([b[i] ^ 0x80, b[i] ^ 0x40, 0xC0, 0xFF, 0xED, 0xA0])
        if b and rng.random() < 0.2:
            b = b[:-1]
        cases.append("utf8 %s" % hx(b))
    return cases


def project(line):
    return vlib.collapse_errors(line)


def project_kind(line):
    """error payloads dropped, error kinds kept: the statement names the failure classes (bad offset / missing NUL / not UTF-8)"""
    import re
    return re.sub(r"E:(\w+)(\([^)]*\))?", r"E:\1", line)


_default = default_oracle(project_kind)


def py_valid(b):
    try:
        b.decode("utf-8")
        return True
    except UnicodeDecodeError:
        return False


def oracle(case, impl, model):
    why = _default(case, impl, model)
    if why:
        return why
    groups = case.split(" | ")
    h = groups[0].split(" ")
    data = bytes.fromhex(h[1][1:])
    if h[0] == "utf8":
        if impl != ("1" if py_valid(data) else "0"):
            return "from_utf8 differs from the python strict decoder"
        return None
    res = vlib.parse_out(project(impl))
    for q, r in zip(groups[1:], res):
        kind, off = q.split(" ")
        off = int(off)
        exp = "E"
        if off < len(data):
            z = data.find(b"\0", off)
            if z >= 0 and (kind == "raw" or py_valid(data[off:z])):
                exp = "@-" if z == off else "@%d:%d" % (off, z)
        if r != exp:
            return "%s(%d) = %s, expected %s" % (kind, off, r, exp)
    return None


def nontrivial(case, impl):
    return "@" in impl or impl == "1"


def distribution(cases, impl, model):
    d = {"strtab": 0, "utf8/valid": 0, "utf8/invalid": 0, "lookups_ok": 0, "lookups_err": 0}
    for c, il in zip(cases, impl):
        if c.startswith("utf8"):
            d["utf8/valid" if il == "1" else "utf8/invalid"] += 1
        else:
            d["strtab"] += 1
            d["lookups_ok"] += il.count("@")
            d["lookups_err"] += il.count("E:")
    return d


def tie_covered(case):
    """the independent oracle of this module decides the property on every case it generates"""
    return True
