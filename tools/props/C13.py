"""C13 — GNU symbol-version queries resolve to the right requirement/definition."""
from gen import *
import vlib, elfgen

LEVEL = "proof"
RULE = ("version models: 0..40 verneed files x 0..20 aux, 0..40 verdefs x 1..5 names, versym arrays mixing 0, 1, defined, needed, "
        "unknown and hidden indexes; contiguous and interleaved/non-contiguous record placement (random gaps, random filler "
        "bytes); class x 5 specs; through the stand-alone SymbolVersionTable::new and through ElfBytes::symbol_version_table (the three version sections in every order of the section header table). "
        "Oracle: every symbol index (and indexes beyond the table) against the generator's ground truth + equality with the "
        "model. Non-trivial: a query that returns a requirement or a definition.")
ASSUMPTIONS = ["from_utf8 environment model for the version strings"]
_truth = {}


def model_versions(rng, big):
    nfiles = rng.choice([0, 1, 2, 3, 40 if big else 5])
    used = set()

    def fresh_idx():
        while True:
            v = rng.randrange(2, 0x7ff0) if rng.random() > 0.08 else rng.choice([0, 1])     # the reserved indexes can be listed too
            if v == 1 and rng.random() < 0.5:
                continue
            if v not in used:
                used.add(v)
                return v
    needs = []
    for f in range(nfiles):
        naux = rng.choice([0, 1, 2, 3, 20 if big else 4])
        auxs = [(b"VER_%d_%d" % (f, a), rng.getrandbits(32), rng.choice([0, 2]), fresh_idx()) for a in range(naux)]
        needs.append((b"lib%d.so" % f, auxs))
    ndefs = rng.choice([0, 1, 2, 3, 40 if big else 5])
    defs = []
    for k in range(ndefs):
        defs.append((fresh_idx() if k else 1, rng.choice([0, 1]), rng.getrandbits(32), [b"DEF_%d_%d" % (k, j) for j in range(rng.randrange(1, 6))]))
    # a duplicate index: the first record in chain order wins
    if needs and needs[0][1] and rng.random() < 0.3:
        dup = needs[0][1][0][3]
        needs[-1][1].append((b"DUPLICATE", 7, 0, dup))
    return needs, defs


def expected(needs, defs, strs_need, strs_def, versym, i, has_needs, has_defs):
    """canonical text of [requirement definition] for symbol i (ranges relative to the string tables)"""
    def rng_of(strs, s):
        o = strs.find(s + b"\0")
        # StrTab dedups, entries are added whole: the first occurrence at an entry start is what add() returned
        return "@-" if not s else "@%d:%d" % (o, o + len(s))
    if i >= len(versym):
        return ["E" if has_needs else "none", "E" if has_defs else "none"]
    v = versym[i]
    idx, hidden = v & 0x7fff, 1 if v & 0x8000 else 0
    req = "none"
    if has_needs:
        for file, auxs in needs:
            hit = [a for a in auxs if a[3] == idx]
            if hit:
                name, h, fl, _ = hit[0]
                req = "req(%s %s %d %d %d)" % (rng_of(strs_need, file), rng_of(strs_need, name), h, fl, hidden)
                break
    dfn = "none"
    if has_defs:
        for ndx, fl, h, names in defs:
            if ndx == idx:
                dfn = "def(%d %d %d [%s])" % (h, fl, hidden, " ".join(rng_of(strs_def, n) for n in names))
                break
    return [req, dfn]


def gen(rng, tier):
    cases = []
    n = 900 if tier == "quick" else 8000
    for k in range(n):
        spec = rng.choice(SPECS)
        little = spec_little(spec)
        cl = rng.choice((32, 64))
        needs, defs = model_versions(rng, big=(k % 40 == 0))
        inter = rng.random() < 0.5
        vn, vd, strs = elfgen.build_versions(little, needs, defs, inter, rng)
        pool = [0, 1] + [a[3] for _, auxs in needs for a in auxs] + [d[0] for d in defs] + [0x7ffe, 2]
        nsym = rng.randrange(1, 14)
        versym = [rng.choice(pool) | (0x8000 if rng.random() < 0.3 else 0) for _ in range(nsym)]
        vs = b"".join(enc(little, 2, v) for v in versym)
        has_needs = bool(needs) or rng.random() < 0.3
        has_defs = bool(defs) or rng.random() < 0.3
        idxs = list(range(nsym)) + [nsym, nsym + 3, USIZE_MAX, 2**63, 2**63 + 1, 2**62, 2**32]     # 2^63 * 2 wraps to 0
        if k % 3:
            line = "symvert %s %d %s %d %d 0 %s %s %d %d 0 %s %s | %s" % (
                spec, cl, hx(vs), 1 if has_needs else 0, len(needs), hx(vn), hx(strs), 1 if has_defs else 0, len(defs), hx(vd), hx(strs),
                " | ".join(str(i) for i in idxs))
            _truth[line] = ("standalone", [expected(needs, defs, strs, strs, versym, i, has_needs, has_defs) for i in idxs])
        else:
            e = elfgen.Elf(cl, little)
            e.add(b".text", 1, rand_bytes(rng, 5))
            si = e.add(b".verstr", elfgen.SHT["STRTAB"], strs)
            # the three version sections in any order of the section header table (the scan must not depend on it)
            adders = [lambda: e.add(b".gnu.version", elfgen.SHT["GNU_VERSYM"], vs, entsize=2, align=2)]
            if has_needs:
                adders.append(lambda: e.add(b".gnu.version_r", elfgen.SHT["GNU_VERNEED"], vn, link=si, info=len(needs), align=4))
            if has_defs:
                adders.append(lambda: e.add(b".gnu.version_d", elfgen.SHT["GNU_VERDEF"], vd, link=si, info=len(defs), align=4))
            rng.shuffle(adders)
            for k2, ad in enumerate(adders):
                ad()
                if rng.random() < 0.3:
                    e.add(b".pad%d" % k2, 1, rand_bytes(rng, 3))
            data, meta = e.build(rng)
            base = meta["sec_off"][si]
            line = "bytes any %s | symver %s" % (hx(data), " ".join(str(i) for i in idxs))
            exp = []
            for i in idxs:
                r = expected(needs, defs, strs, strs, versym, i, has_needs, has_defs)
                exp.append([shift_ranges(x, base) for x in r])
            _truth[line] = ("file", exp)
            if k % 6 == 0:
                # a kind occurring twice: which section is used is fixed by the scan (the last one seen before all three
                # kinds are present); decided by the model (no python reference for these)
                e2 = elfgen.Elf(cl, little)
                si2 = e2.add(b".verstr", elfgen.SHT["STRTAB"], strs)
                n2, d2 = model_versions(rng, False)
                vn2, vd2, strs2 = elfgen.build_versions(little, n2, d2, False, rng)
                sj2 = e2.add(b".verstr2", elfgen.SHT["STRTAB"], strs2)
                ad2 = [lambda: e2.add(b".gnu.version", elfgen.SHT["GNU_VERSYM"], vs, entsize=2, align=2),
                       lambda: e2.add(b".gnu.version_r", elfgen.SHT["GNU_VERNEED"], vn, link=si2, info=len(needs), align=4),
                       lambda: e2.add(b".gnu.version_d", elfgen.SHT["GNU_VERDEF"], vd, link=si2, info=len(defs), align=4),
                       rng.choice([lambda: e2.add(b".gnu.version_r2", elfgen.SHT["GNU_VERNEED"], vn2, link=sj2, info=len(n2), align=4),
                                   lambda: e2.add(b".gnu.version_d2", elfgen.SHT["GNU_VERDEF"], vd2, link=sj2, info=len(d2), align=4),
                                   lambda: e2.add(b".gnu.version2", elfgen.SHT["GNU_VERSYM"], vs[::-1], entsize=2, align=2)])]
                rng.shuffle(ad2)
                for ad in ad2:
                    ad()
                dd, _m = e2.build(rng)
                cases.append("bytes any %s | symver %s" % (hx(dd), " ".join(str(i) for i in idxs)))
        cases.append(line)
    # the four record iterators driven through the provided Iterator methods (nth / skip / step_by / count / last) over
    # contiguous and non-contiguous chains: decided by the model
    import props.C16 as C16
    for _ in range(40 if tier == "quick" else 600):
        for kind in ("verdef", "verneed", "verdaux", "vernaux"):
            cases.append(C16.viter_case(rng, kind, rng.random() < 0.5))
    return cases


def shift_ranges(s, base):
    import re
    return re.sub(r"@(\d+):(\d+)", lambda m: "@%d:%d" % (int(m.group(1)) + base, int(m.group(2)) + base), s)


def project(line):
    return vlib.collapse_errors(line)


_default = default_oracle(project)


def oracle(case, impl, model):
    why = _default(case, impl, model)
    if why:
        return why
    if case in _truth:
        kind, exp = _truth[case]
        pi = project(impl)
        items = vlib.split_top(pi[1:-1])
        if kind == "file":
            items = vlib.split_top(items[0][1:-1])
        for k, (it, ex) in enumerate(zip(items, exp)):
            got = vlib.split_top(it[1:-1])
            if got != ex:
                return "query #%d: got %s, the version model says %s" % (k, got, ex)
    return None


def nontrivial(case, impl):
    return "req(" in impl or "def(" in impl


def distribution(cases, impl, model):
    d = {"standalone": 0, "via_file": 0, "req": 0, "def": 0, "none": 0, "err": 0}
    for c, il in zip(cases, impl):
        d["standalone" if c.startswith("symvert") else "via_file"] += 1
        d["req"] += il.count("req(")
        d["def"] += il.count("def(")
        d["none"] += il.count("none")
        d["err"] += il.count("E:")
    return d


def tie_covered(case):
    return case in _truth
