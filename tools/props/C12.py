"""C12 — SysV hash: function vs gABI reference, soundness on any table, completeness on well-formed tables."""
import itertools
from gen import *
import vlib, elfgen, hashgen

KIND = "sysv"
HASHOP = "sysvhash"
LEVEL = "proof"
RULE = ("hash function on all strings <= 3 over a 16-symbol alphabet (thorough; sampled in quick) and random/long/high-byte "
        "strings vs an independent python transcription of the gABI routine; lookups on well-formed tables built over name sets "
        "(0..80 quick / 0..300 thorough names: duplicates, empty, bytes >= 0x80, crafted collisions, long names) x nbucket x class x "
        "5 specs, queried with present names and colliding absent names: result must equal a linear scan; arbitrary corrupted "
        "tables: soundness clause checked on the implementation's own answers. Non-trivial: a lookup that returns a symbol.")
ASSUMPTIONS = ["gABI elf_hash read over a 32-bit word (see C12_hash_fn)"]
_exp = {}
_ctx = {}
ALPHA = [0x00, 0x01, 0x0f, 0x10, 0x41, 0x61, 0x7a, 0x7f, 0x80, 0x8f, 0xa0, 0xc3, 0xf0, 0xf1, 0xfe, 0xff]


def pyhash(b):
    return elfgen.sysv_hash(b) if KIND == "sysv" else elfgen.gnu_hash(b)


def gen(rng, tier):
    cases = []
    strs = [bytes(t) for ln in range(0, 4) for t in itertools.product(ALPHA, repeat=ln)]
    if tier == "quick":
        strs = strs[:273] + rng.sample(strs[273:], 400)
    for b in strs:
        cases.append("%s %s" % (HASHOP, hx(b)))
    for _ in range(300 if tier == "quick" else 5000):
        ln = rng.choice([4, 5, 6, 7, 8, 9, 16, 40, 200])
        cases.append("%s %s" % (HASHOP, hx(bytes(rng.choice([rng.randrange(256), 0xff, 0x0f, 0xf0]) for _ in range(ln)))))
    cases.append("%s xff0f0f0f0f0f12" % HASHOP)
    n = 350 if tier == "quick" else 12000
    for _ in range(n):
        line, e = hashgen.hash_case(rng, KIND, tier)
        _exp[line] = e
        cases.append(line)
    for _ in range(250 if tier == "quick" else 8000):
        cases.append(hashgen.corrupt_case(rng, KIND, tier))
    if KIND == "gnu":
        for _ in range(60 if tier == "quick" else 1500):
            cases.append(hashgen.forged_span_case(rng))
    return cases


def project(line):
    return vlib.collapse_errors(line)


_default = default_oracle(project)


def sym_name(symtab, strtab, cl, little, i):
    sz = 16 if cl == 32 else 24
    if (i + 1) * sz > len(symtab):
        return None
    off = int.from_bytes(symtab[i * sz:i * sz + 4], "little" if little else "big")
    if off >= len(strtab):
        return None
    z = strtab.find(b"\0", off)
    return None if z < 0 else strtab[off:z]


def oracle(case, impl, model):
    why = _default(case, impl, model)
    if why:
        return why
    t = case.split(" | ")[0].split(" ")
    if t[0] == HASHOP:
        b = bytes.fromhex(t[1][1:])
        if impl != str(pyhash(b)):
            return "hash differs from the reference: expected %d" % pyhash(b)
        return None
    spec, cl = t[1], int(t[2])
    symtab, strtab = bytes.fromhex(t[4][1:]), bytes.fromhex(t[5][1:])
    qs = [bytes.fromhex(q[1:]) for q in case.split(" | ")[1:]]
    pi = project(impl)
    if pi == "E":
        return "well-formed table rejected" if case in _exp else None
    res = vlib.parse_out(pi)
    for k, (q, r) in enumerate(zip(qs, res)):
        if isinstance(r, list):        # found: [idx ok(sym)]
            idx = int(r[0])
            nm = sym_name(symtab, strtab, cl, spec_little(spec), idx)
            if nm != q:
                return "unsound: lookup of %s returned symbol %d whose name is %r" % (q.hex(), idx, nm)
        if case in _exp:
            idxs = _exp[case][1][k]
            if idxs and not isinstance(r, list):
                return "incomplete: present name %s not found (result %s)" % (q.hex(), r)
            if not idxs and r != "none":
                return "absent name %s gave %s instead of None" % (q.hex(), r)
            if idxs and int(r[0]) not in idxs:
                return "lookup returned index %s, the name is at %s" % (r[0], idxs)
    return None


def nontrivial(case, impl):
    return "[" in impl[1:] and "ok(" in impl


def distribution(cases, impl, model):
    d = {"hashfn": 0, "wellformed_tables": 0, "corrupted_tables": 0, "found": 0, "none": 0, "errors": 0, "rejected_tables": 0}
    for c, il in zip(cases, impl):
        if c.startswith(HASHOP):
            d["hashfn"] += 1
            continue
        d["wellformed_tables" if c in _exp else "corrupted_tables"] += 1
        d["found"] += il.count("ok(")
        d["none"] += il.count("none")
        d["errors"] += il.count("E:")
        if il.startswith("E:"):
            d["rejected_tables"] += 1
    return d


def tie_covered(case):
    """the independent oracle of this module decides the property on every case it generates"""
    return True
