"""C19 — exported ABI definitions agree with the ELF ABI reference.

Proof side: Properties/C19.v is stated over coq/Gen/*.v, which tools/tablegen.py regenerates from /repo/src on
every run (translator tie).  This module validates the translator against rustc (the harness prints what rustc
thinks each constant, size_of/offset_of! and to_str result is) and, independently of the proofs, evaluates the
property on the implementation's own values so that a broken proof comes with the concrete constant / field /
arm that fails."""
import os
import re
import subprocess
from gen import *
import vlib
import tablegen

LEVEL = "proof"
RULE = ("one case per exported integer constant (rustc's value vs the frozen reference table and vs the translator), one per "
        "#[repr(C)] struct (size_of / offset_of! / field sizes vs the gABI layout and vs the Coq layout function on the generated "
        "field list), and for every *_to_str function its value at every arm constant, +-1, +k*2^32, negated, type bounds and "
        "random values (exhaustive for u8 arguments; u16 exhaustive in the thorough tier): a returned name must be an exported "
        "constant of that value (rustc's values) and equal the Coq first-match semantics of the generated arm table; *_to_string "
        "must return that name or a text containing the number. Non-trivial: a constant covered by the reference, a struct, a "
        "to_str call that returns a name.")
ASSUMPTIONS = ["frozen reference = glibc elf.h + LLVM 14 BinaryFormat where they agree + a short cited gABI/GNU list (coq/Ref/RefConsts.v)",
               "repr(C) layout rule (natural alignment) is a model, validated against rustc's size_of/offset_of! each run"]
TRUSTED_EXTRA = ["translator tools/tablegen.py (abi.rs constants, to_str.rs match arms, #[repr(C)] structs -> coq/Gen/*.v), validated on every run against rustc-computed values",
                 "frozen reference tables coq/Ref/RefConsts.v (built once by tools/ref_build.py from /usr/include/elf.h, LLVM-14 headers and a cited list) and coq/Ref/RefLayout.v"]
SHRINK = False
_tab = {}
_tie = []
_ref = {}
_coq = {}


def load_ref():
    src = open(os.path.join(vlib.COQ, "Ref", "RefConsts.v")).read()
    body = src[src.index("Definition ref_consts"):]
    return {m.group(1): int(m.group(2)) for m in re.finditer(r'\("(\w+)",\s*(-?\d+)\)', body)}


def pre_build(a):
    try:
        tablegen.gen_harness()
    except Exception as ex:
        raise vlib.Broken("translator (harness view) failed on /repo/src: %s" % ex)
    try:
        _tab.update(tablegen.generate())
    except tablegen.TranslateError as ex:
        _tab.update({"failed": str(ex)})
        try:        # the constants still translate on their own: keep them, so that the search for a failing input can probe around every constant value
            consts, skipped = tablegen.parse_consts(open(os.path.join(tablegen.REPO, "src", "abi.rs")).read())
            _tab.update({"consts": consts, "skipped": skipped})
        except Exception:
            pass
        raise vlib.Broken("translator could not translate /repo/src: %s" % ex)


def tostr_values(rng, tier, ty, consts):
    lo, hi = tablegen.INT_TYPES[ty]
    vals = set([lo, hi, 0, 1, lo + 1, hi - 1])
    if ty == "u8" or (ty == "u16" and tier == "thorough"):
        vals |= set(range(lo, hi + 1))
    for c in consts:
        for v in (c, c + 1, c - 1, -c, c + (1 << 32), c + (5 << 32), c - (1 << 32), c + (1 << 16), c + (1 << 8), c | (1 << 63), c ^ (1 << 31)):
            vals.add(v)
    for _ in range(300 if tier == "quick" else 5000):
        vals.add(rng.randrange(lo, hi + 1))
        vals.add(rng.choice(consts or [0]) + (rng.randrange(-4, 5) << rng.choice([8, 16, 32, 40])))
    return sorted(v for v in vals if lo <= v <= hi)


def sv(v):
    return "%s %d" % ("m" if v < 0 else "p", abs(v))


def gen(rng, tier):
    h = tablegen.gen_harness()
    cases = ["const %s" % n for n, _ in h["const_names"]]
    cases += ["layout %s" % s for _, s, _ in h["structs"]]
    cv = {n: v for n, _, v in _tab.get("consts", [])}
    arms = {fn: a for fn, _, a in _tab.get("fns", [])}
    for fn, ty in h["str_fns"]:
        consts = [cv[c] for c, _ in arms.get(fn, []) if c in cv]
        if not consts:
            consts = sorted(set(cv.values()))[:400]       # translation failed: probe around every constant value
        for v in tostr_values(rng, tier, ty, consts):
            cases.append("tostr %s %s" % (fn, sv(v)))
            sfn = fn.replace("_to_str", "_to_string")
            if (sfn, ty) in h["string_fns"]:
                cases.append("tostring %s %s" % (sfn, sv(v)))
    covered = {fn.replace("_to_str", "_to_string") for fn, _ in h["str_fns"]}
    for sfn, ty in h["string_fns"]:          # *_to_string helpers with no *_to_str underneath (p_flags_to_string)
        if sfn not in covered:
            for v in tostr_values(rng, tier, ty, [0, 1, 2, 3, 4, 5, 6, 7, 8, 15, 16]):
                cases.append("tostring %s %s" % (sfn, sv(v)))
    return cases


def coq_eval(cases):
    """evaluate the Coq tables (Gen/*.v through Spec/AbiTables.v) on the same inputs, inside coqc"""
    byfn = {}
    bysfn = {}
    wrappers = {fn: (inner, px) for fn, ty, inner, px in _tab.get("string_fns", [])}
    for c in cases:
        t = c.split(" ")
        if t[0] == "tostr":
            byfn.setdefault(t[1], []).append(int(t[3]) * (-1 if t[2] == "m" else 1))
        elif t[0] == "tostring" and (t[1] in wrappers or t[1] == "p_flags_to_string") and t[2] == "p":
            bysfn.setdefault(t[1], []).append(int(t[3]))
    d = os.path.join(vlib.BUILD, "c19")
    os.makedirs(d, exist_ok=True)
    v = ["Require Import V.Model.ErrFmt V.Ref.RefLayout V.Spec.AbiTables V.Proofs.AbiTablesP V.Gen.AbiConsts V.Gen.ToStr V.Gen.CStructs.",
         "From Coq Require Import List String ZArith.", "Import ListNotations.", "Open Scope string_scope.", "Open Scope Z_scope.",
         "Set Printing Width 1000000.", "Set Printing Depth 10000000.",
         "Definition arms_of f := match lookup f to_str_fns with Some (_, a) => a | None => [] end.",
         "Definition lay (l : layout) := (map (fun x => (fst x, (fst (snd x), fty_size (snd (snd x))))) (fst (c_offsets l 0)), c_size l).",
         "Definition alay (l : layout) := (map (fun x => (fst x, (fst (snd x), fty_size (snd (snd x))))) (abi_offsets l 0), layout_size l)."]
    order = sorted(byfn)
    CH = 2000            # a 65k-element list literal overflows coqc's stack: evaluate in chunks
    for fn in order:
        for k in range(0, len(byfn[fn]), CH):
            v.append('Goal True. idtac "===FN %s %d". Abort.' % (fn, k))
            v.append('Eval vm_compute in (let r := resolve abi_consts (arms_of "%s") in map (sem_r r) [%s]).' % (fn, "; ".join("(%d)" % x for x in byfn[fn][k:k + CH])))
    # the *_to_string wrappers: sem_r on the resolved arms (= to_str_sem, lemma sem_r_resolve), else prefix(0x<hex>)
    v.append('Definition ts (r : list (option Z * string)) (px : string) (x : Z) : string := match sem_r r x with Some s => s | None => (px ++ "(" ++ hex0xl (Z.to_N x) ++ ")")%string end.')
    for fn in sorted(bysfn):
        if fn == "p_flags_to_string":        # hand-written reading (Spec/AbiTables.p_flags_string, theorem C19_p_flags)
            for k in range(0, len(bysfn[fn]), CH):
                v.append('Goal True. idtac "===SFN %s %d". Abort.' % (fn, k))
                v.append('Eval vm_compute in (map (p_flags_string abi_consts) [%s]).' % "; ".join("(%d)" % x for x in bysfn[fn][k:k + CH]))
            continue
        inner, px = wrappers[fn]
        for k in range(0, len(bysfn[fn]), CH):
            v.append('Goal True. idtac "===SFN %s %d". Abort.' % (fn, k))
            v.append('Eval vm_compute in (let r := resolve abi_consts (arms_of "%s") in map (ts r "%s") [%s]).' % (inner, px, "; ".join("(%d)" % x for x in bysfn[fn][k:k + CH])))
    v.append('Goal True. idtac "===GEN". Abort.')
    v.append("Eval vm_compute in (map (fun p => (fst p, lay (snd p))) c_structs).")
    v.append('Goal True. idtac "===REF". Abort.')
    v.append("Eval vm_compute in (map (fun p => (fst p, alay (snd p))) ref_structs).")
    vf = os.path.join(d, "cases.v")
    open(vf, "w").write("\n".join(v) + "\n")
    rc, out = vlib.sh(["coqc", "-Q", vlib.COQ, "V", "-o", os.path.join(d, "cases.vo"), vf], 900)
    if rc != 0:
        raise vlib.Broken("evaluation of the generated Coq tables (cases.v)", out[-2000:])
    res = {"tostr": {}, "tostring": {}, "gen": {}, "ref": {}}
    out = out.replace("%nat", "").replace("%Z", "")
    parts = re.split(r"===(S?FN \S+ \d+|GEN|REF)\n", out)
    for k in range(1, len(parts), 2):
        tag, body = parts[k], parts[k + 1]
        if tag.startswith("SFN "):
            fn, k0 = tag[4:].split(" ")
            items = re.findall(r'"([^"]*)"', body)
            vals = bysfn[fn][int(k0):int(k0) + CH]
            if len(items) != len(vals):
                raise vlib.Broken("cases.v output for %s: %d results for %d inputs" % (fn, len(items), len(vals)))
            for x, it in zip(vals, items):
                res["tostring"][(fn, x)] = it
        elif tag.startswith("FN "):
            fn, k0 = tag[3:].split(" ")
            items = re.findall(r'Some "([^"]*)"|(None)', body)
            vals = byfn[fn][int(k0):int(k0) + CH]
            if len(items) != len(vals):
                raise vlib.Broken("cases.v output for %s: %d results for %d inputs" % (fn, len(items), len(vals)))
            for x, it in zip(vals, items):
                res["tostr"][(fn, x)] = ("none" if it[1] else "some:" + it[0].encode().hex())
        else:
            for m in re.finditer(r'\("(\w+)",\s*\(\[(.*?)\],\s*(\d+)\)\)', body, flags=re.S):
                fields = re.findall(r'\("(\w+)",\s*\((\d+),\s*(\d+)\)\)', m.group(2))
                res["gen" if tag == "GEN" else "ref"][m.group(1)] = ([(f, int(o), int(s)) for f, o, s in fields], int(m.group(3)))
    return res


def run_both(cases, prop, per_shard_timeout=120):
    impl, _ = vlib.run_both(cases, prop, per_shard_timeout=per_shard_timeout, with_model=False)
    _ref.update(load_ref())
    coq = {}
    if "failed" not in _tab:
        vlib.build_coq(["Spec/AbiTables.vo", "Proofs/AbiTablesP.vo", "Gen/AbiConsts.vo", "Gen/ToStr.vo", "Gen/CStructs.vo"])
        coq = coq_eval(cases)
    _coq.update(coq)
    cv = {n: (t, v) for n, t, v in _tab.get("consts", [])}
    # rustc's own values, for the implementation-only oracle
    _coq["rustc"] = {}
    for c, il in zip(cases, impl):
        if c.startswith("const "):
            m = re.fullmatch(r"(\w+) (-?\d+)", il)
            if m:
                _coq["rustc"][c[6:]] = int(m.group(2))
    _coq["tostr_impl"] = {c: il for c, il in zip(cases, impl) if c.startswith("tostr ")}
    model = []
    for c in cases:
        t = c.split(" ")
        if t[0] == "const":
            model.append("%s %d" % cv[t[1]] if t[1] in cv else "untranslated")
        elif t[0] == "layout":
            g = coq.get("gen", {}).get(t[1])
            model.append("untranslated" if g is None else "size=%d %s" % (g[1], " ".join("%s@%d+%d" % f for f in g[0])))
        elif t[0] == "tostr":
            x = int(t[3]) * (-1 if t[2] == "m" else 1)
            model.append(coq.get("tostr", {}).get((t[1], x), "untranslated"))
        elif t[0] == "tostring" and t[2] == "p" and (t[1], int(t[3])) in coq.get("tostring", {}):
            model.append("x" + coq["tostring"][(t[1], int(t[3]))].encode().hex())
        else:
            model.append("-")
    return impl, model


def layout_fields(il):
    m = re.match(r"size=(\d+) align=(\d+)(.*)", il)
    fields = [(f, int(o), int(s)) for f, o, s in re.findall(r"(\w+)@(\d+)\+(\d+)", m.group(3))]
    return int(m.group(1)), fields


def oracle(case, impl, model):
    if impl.startswith(("PANIC", "HANG", "CRASH")):
        return "implementation %s" % impl.split(" ")[0]
    t = case.split(" ")
    if t[0] == "const":
        m = re.fullmatch(r"(\w+) (-?\d+)", impl)
        if not m:
            return None
        v = int(m.group(2))
        if t[1] in _ref and _ref[t[1]] != v:
            return "constant %s = %d, the ABI reference says %d" % (t[1], v, _ref[t[1]])
        if model not in ("untranslated", impl):
            _tie.append("translator read %s as %s, rustc says %s" % (t[1], model, impl))
        return None
    if t[0] == "layout":
        size, fields = layout_fields(impl)
        ref = _coq.get("ref", {}).get(t[1])
        if ref is not None and (fields != ref[0] or size != ref[1]):
            bad = [f for f in fields if f not in ref[0]] + [f for f in ref[0] if f not in fields]
            return "struct %s: size %d fields %s; the ABI says size %d fields %s (differs at %s)" % (t[1], size, fields, ref[1], ref[0], bad[:2])
        if model != "untranslated":
            msz = int(re.match(r"size=(\d+)", model).group(1))
            mf = [(f, int(o), int(s)) for f, o, s in re.findall(r"(\w+)@(\d+)\+(\d+)", model)]
            if (msz, mf) != (size, fields):
                _tie.append("layout model of %s gives %s, rustc says %s" % (t[1], model, impl))
        return None
    x = int(t[3]) * (-1 if t[2] == "m" else 1)
    if t[0] == "tostr":
        if impl.startswith("some:"):
            name = bytes.fromhex(impl[5:]).decode("utf-8", "replace")
            symbolic = t[1].endswith("_to_str") and not t[1].endswith("_human_str") and t[1] != "note_abi_tag_os_to_str"
            if symbolic and _coq["rustc"].get(name) != x:
                return "%s(%d) returned %r, which is %s" % (t[1], x, name, "not an exported constant" if name not in _coq["rustc"]
                                                            else "the constant of value %d" % _coq["rustc"][name])
        if model not in ("untranslated", impl):
            _tie.append("%s(%d): generated arm table gives %s, rustc says %s" % (t[1], x, model, impl))
        return None
    if t[0] == "tostring" and t[1] == "p_flags_to_string" and impl.startswith("x"):
        text = bytes.fromhex(impl[1:]).decode("utf-8", "replace")
        if model not in ("-", impl):       # Spec/AbiTables.p_flags_string (theorem C19_p_flags) evaluated on the same value
            _tie.append("p_flags_to_string(%d): the model gives %r, rustc says %r" % (x, bytes.fromhex(model[1:]).decode("utf-8", "replace"), text))
        if 0 <= x < 8:         # readelf's rendering of PF_R = 4, PF_W = 2, PF_X = 1
            want = ("R" if x & 4 else " ") + ("W" if x & 2 else " ") + ("E" if x & 1 else " ")
            return None if text == want else "p_flags_to_string(%d) = %r, the gABI flag bits read %r" % (x, text, want)
        return None if ("%x" % x) in text.lower() or str(x) in text else "p_flags_to_string(%d) = %r does not contain the number" % (x, text)
    if t[0] == "tostring" and model not in ("-", impl) and impl.startswith("x"):
        _tie.append("%s(%d): the translated wrapper gives %r, rustc says %r" % (t[1], x, bytes.fromhex(model[1:]).decode("utf-8", "replace"),
                                                                                    bytes.fromhex(impl[1:]).decode("utf-8", "replace")))
    if t[0] == "tostring":
        base = _coq["tostr_impl"].get("tostr %s %s %s" % (t[1].replace("_to_string", "_to_str"), t[2], t[3]))
        if base is None or impl in ("range", "unknown"):
            return None
        text = bytes.fromhex(impl[1:]).decode("utf-8", "replace")
        if base.startswith("some:"):
            if text != bytes.fromhex(base[5:]).decode("utf-8", "replace"):
                return "%s(%d) = %r but the to_str helper names it %r" % (t[1], x, text, bytes.fromhex(base[5:]).decode())
        elif ("%x" % abs(x)) not in text.lower() and str(abs(x)) not in text:
            return "%s(%d) = %r does not contain the number" % (t[1], x, text)
    return None


def post(cases, impl, model, a):
    if _tie:
        raise vlib.Broken("translator / table model disagrees with rustc on %d items" % len(_tie), "\n".join(_tie[:20]))
    return []


def nontrivial(case, impl):
    t = case.split(" ")
    return (t[0] == "const" and t[1] in _ref) or t[0] == "layout" or (t[0] == "tostr" and impl.startswith("some:"))


def distribution(cases, impl, model):
    d = {"constants": 0, "constants_in_reference": 0, "constants_without_reference": 0, "structs": 0, "to_str_calls": 0,
         "to_str_named": 0, "to_string_calls": 0, "skipped_non_integer_consts": _tab.get("skipped", [])}
    for c, il in zip(cases, impl):
        t = c.split(" ")
        if t[0] == "const":
            d["constants"] += 1
            d["constants_in_reference" if t[1] in _ref else "constants_without_reference"] += 1
        elif t[0] == "layout":
            d["structs"] += 1
        elif t[0] == "tostr":
            d["to_str_calls"] += 1
            d["to_str_named"] += il.startswith("some:")
        else:
            d["to_string_calls"] += 1
    return d
