"""C08 — stream parser's memory and I/O are bounded by the stream, not by header claims."""
import re
from gen import *
import vlib, elfgen, filegen, fileq, streamgen
import props.C02 as C02

LEVEL = "proof"
RULE = ("generated objects whose ELF header / shdr[0] / section and program headers claim sizes, counts and offsets up to 2^64-1 "
        "in files of a few hundred bytes (every table-locating field x boundary values, extended numbering with absurd counts, "
        "huge padding between tiny tables), opened through ElfStream with a counting global allocator and a logging Read+Seek. "
        "Oracles (implementation only): no panic; the largest single allocation made while ElfStream code runs <= 4*len + 8192; "
        "every read of open lies inside the file header, shdr[0] or one of the two declared header tables; every read lies "
        "inside the stream; (tie) results and the exact I/O trace equal the model's. Non-trivial: a file that opens.")
ASSUMPTIONS = ["HashMap bucket growth and Vec growth policy are not modelled; their sizes are covered by the measured allocation bound only"]
_files = {}


def gen(rng, tier):
    cases = []
    n = 120 if tier == "quick" else 1000
    for i in range(n):
        data, meta, info = streamgen.gen_file(rng, small=(i % 7 == 0))
        cl = meta["cl"]
        variants = [data]
        big = [2**20, 2**31, 2**32 - 1, 2**57, 2**63, 2**64 - 1, len(data), len(data) + 1]
        mask = 2**32 if cl == 32 else 2**64
        for name in ("e_shoff", "e_phoff"):
            variants.append(elfgen.patch(data, meta, "ehdr", name, rng.choice(big) % mask))
        for name in ("e_shnum", "e_phnum"):
            variants.append(elfgen.patch(data, meta, "ehdr", name, rng.choice([0xffff, 0xff00, 0x7fff])))
        if meta["nsh"]:
            d2 = elfgen.patch(data, meta, "ehdr", "e_shnum", 0)
            for v in rng.sample(big, 3):
                variants.append(elfgen.patch(d2, meta, "shdr", "sh_size", v % mask, 0))
            d3 = elfgen.patch(data, meta, "ehdr", "e_phnum", 0xffff)
            variants.append(elfgen.patch(d3, meta, "shdr", "sh_info", rng.choice([2**20, 2**32 - 1]), 0))
            for k in range(meta["nsh"]):
                if rng.random() < 0.5:
                    variants.append(elfgen.patch(data, meta, "shdr", rng.choice(["sh_size", "sh_offset"]), rng.choice(big) % mask, k))
        cv = streamgen.covering_variant(rng, data, meta)
        if cv:                       # one query caching more bytes than the stream holds (overlapping symtab / strtab)
            c2 = streamgen.stream_case("any", cv[0], "plain", [], cv[1])
            _files[c2] = cv[0]
            cases.append(c2)
        for v in variants:
            qs = streamgen.history(rng, v, meta, info, rng.randrange(2, 7))
            c0 = streamgen.stream_case("any", v, "plain", [], [])          # open only: the trace of open_stream
            c1 = streamgen.stream_case("any", v, rng.choice(["plain", "chunk:5"]), [], qs)
            _files[c0] = v
            _files[c1] = v
            cases += [c0, c1]
    return cases


def project(line):
    return vlib.collapse_errors(streamgen.strip_alloc(line)[0])


def oracle(case, impl, model):
    if impl.startswith(("PANIC", "HANG", "CRASH")):
        return "implementation %s" % impl.split(" ")[0][:80]
    data = _files.get(case)
    body, mx = streamgen.strip_alloc(impl)
    if data is not None and mx is not None and mx > 4 * len(data) + 8192:
        return "a single allocation of %d bytes on a stream of %d bytes" % (mx, len(data))
    _, trace = streamgen.split_stream(project(impl))
    reads = [tuple(int(x) for x in re.findall(r"\d+", t)) for t in trace if t.startswith("R(")]
    if data is not None:
        for p, n in reads:
            if p + n > len(data):
                return "read [%d,%d) past the end of the %d-byte stream" % (p, p + n, len(data))
        if case.endswith(" faults"):
            o = fileq.py_open("any", data)
            if o is not None:
                eh, cl = o["eh"], o["cl"]
                allowed = [(0, 16 + (36 if cl == 32 else 48)), (eh["e_shoff"], eh["e_shoff"] + C02.size_of("shdr", cl))]
                if o["sh"] != ("absent",):
                    allowed.append((o["sh"][0], o["sh"][0] + o["sh"][1] * C02.size_of("shdr", cl)))
                if o["ph"] != ("absent",):
                    allowed.append((o["ph"][0], o["ph"][0] + o["ph"][1] * C02.size_of("phdr", cl)))
                for p, n in reads:
                    if not any(a <= p and p + n <= b for a, b in allowed):
                        return "open_stream read [%d,%d), which is outside the file header and the declared header tables %s" % (p, p + n, allowed)
    if project(impl) != project(model):
        return "implementation and model disagree (results or I/O trace)"
    return None


def nontrivial(case, impl):
    return impl.startswith("stream([")


def distribution(cases, impl, model):
    d = {"streams": len(cases), "opened": 0, "rejected": 0, "max_single_alloc": 0, "max_alloc_over_len_x1000": 0, "reads": 0}
    for c, il in zip(cases, impl):
        d["opened" if il.startswith("stream([") else "rejected"] += 1
        _, mx = streamgen.strip_alloc(il)
        if mx is not None and c in _files:
            d["max_single_alloc"] = max(d["max_single_alloc"], mx)
            d["max_alloc_over_len_x1000"] = max(d["max_alloc_over_len_x1000"], mx * 1000 // max(1, len(_files[c])))
        d["reads"] += il.count("R(")
    return d
