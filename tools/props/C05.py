"""C05 — header tables are located exactly as the ELF header (and shdr[0]) declare."""
from gen import *
import vlib, elfgen, filegen, fileq, streamgen

LEVEL = "proof"
RULE = ("generated objects with the table-locating fields of the ELF header and of shdr[0] replaced by boundary values "
        "(0, 1, len-1, len, len+1, 2^31, 2^32-1, 2^63, 2^64-1, field+-1, 0xff00, 0xfffe, 0xffff), every wrong entry size "
        "(0, size-1, size+1, 2*size), extended numbering (e_shnum=0 with shdr[0].sh_size, e_phnum=0xffff with shdr[0].sh_info, "
        "e_shstrndx=0xffff with shdr[0].sh_link, literal e_shstrndx in 0xff00..0xfffe), tables touching EOF, empty tables at EOF, "
        "files of > 0xff00 sections (two in quick), wrong sh_entsize on symtab/dynsym/dynamic/versym. Oracles: equality with the "
        "model + an independent python reading of the header (open succeeds iff the declared tables fit with the right entry size; "
        "entry counts). Non-trivial: a file that opens.")
ASSUMPTIONS = []
_exp = {}
QS = ["ehdr", "shnum", "phnum", "shstr", "shdrs", "phdrs", "symtab", "dynsym", "dynamic", "symver 0 1"]


QS_S = ["ehdr", "shdrs", "phdrs", "shstr"]


def add_case(cases, fam, data, qs=QS, stream=True):
    c = "bytes %s %s | %s" % (fam, hx(data), " | ".join(qs))
    _exp[c] = (fam, data)
    cases.append(c)
    if stream and qs is QS:          # the same file through ElfStream (section_headers, segments, section_headers_with_strtab)
        c = streamgen.stream_case(fam, data, "plain", [], QS_S)
        _exp[c] = (fam, data)
        cases.append(c)


def big_file(rng, cl, little, nsec, variant):
    e = elfgen.Elf(cl, little)
    for k in range(nsec - 2):
        e.add(b"", 1, b"")
    data, meta = e.build(rng)
    nsh = meta["nsh"]
    if variant == "xindex":
        data = elfgen.patch(data, meta, "ehdr", "e_shnum", 0)
        data = elfgen.patch(data, meta, "ehdr", "e_shstrndx", 0xffff)
        data = elfgen.patch(data, meta, "shdr", "sh_size", nsh, 0)
        data = elfgen.patch(data, meta, "shdr", "sh_link", nsh - 1, 0)
    elif variant == "literal":
        data = elfgen.patch(data, meta, "ehdr", "e_shnum", 0)
        data = elfgen.patch(data, meta, "shdr", "sh_size", nsh, 0)
        data = elfgen.patch(data, meta, "ehdr", "e_shstrndx", nsh - 1)       # a literal index in 0xff00..0xfffe
    return data


def gen(rng, tier):
    cases = []
    n = 220 if tier == "quick" else 1500
    for i in range(n):
        e, info = elfgen.sample_elf(rng, kinds=rng.choice([None, ["text", "symtab", "dynsym", "dynamic", "versions"], ["text"]]))
        e.with_shdrs = rng.random() < 0.92
        if rng.random() < 0.3 and not e.segments:
            e.seg(elfgen.PT["LOAD"], off=0, filesz=10, align=1)
        data, meta = e.build(rng)
        cl, little = meta["cl"], meta["little"]
        fam = filegen.fam_for(rng, little)
        ln = len(data)
        add_case(cases, fam, data)
        shsz, phsz = meta["shsz"], meta["phsz"]
        # extended numbering
        if meta["nsh"]:
            d2 = elfgen.patch(data, meta, "ehdr", "e_shnum", 0)
            big = (2**32, 2**32 + meta["nsh"], 2**32 + 3, 2**63, 2**64 - 1) if cl == 64 else ()
            for v in (meta["nsh"], meta["nsh"] - 1, meta["nsh"] + 1, 0, 2**32 - 1) + big:      # counts that only fit in 64 bits
                add_case(cases, fam, elfgen.patch(d2, meta, "shdr", "sh_size", v, 0))
            d3 = elfgen.patch(data, meta, "ehdr", "e_shstrndx", 0xffff)
            for v in (meta["shstrndx"], 0, 1, meta["nsh"], 2**32 - 1):
                add_case(cases, fam, elfgen.patch(d3, meta, "shdr", "sh_link", v, 0))
            for v in (0xff00, 0xff01, 0xfffe, meta["nsh"], meta["nsh"] - 1, 0):
                add_case(cases, fam, elfgen.patch(data, meta, "ehdr", "e_shstrndx", v))
            d4 = elfgen.patch(data, meta, "ehdr", "e_phnum", 0xffff)
            for v in (meta["nph"], meta["nph"] + 1, 0, 1, 2**31):
                add_case(cases, fam, elfgen.patch(d4, meta, "shdr", "sh_info", v, 0))
            # extended numbering combined: both counts in shdr[0]; a wrong entry size together with a count of 0 / 0xffff
            d5 = elfgen.patch(elfgen.patch(d2, meta, "shdr", "sh_size", meta["nsh"], 0), meta, "ehdr", "e_phnum", 0xffff)
            add_case(cases, fam, elfgen.patch(d5, meta, "shdr", "sh_info", meta["nph"], 0))
            for v in (0, shsz - 1, shsz + 1, 2 * shsz):
                add_case(cases, fam, elfgen.patch(d2, meta, "ehdr", "e_shentsize", v))
                add_case(cases, fam, elfgen.patch(elfgen.patch(d2, meta, "shdr", "sh_size", meta["nsh"], 0), meta, "ehdr", "e_shentsize", v))
            for v in (0, phsz - 1, phsz + 1, 2 * phsz):
                add_case(cases, fam, elfgen.patch(elfgen.patch(d4, meta, "shdr", "sh_info", meta["nph"], 0), meta, "ehdr", "e_phentsize", v))
        else:
            add_case(cases, fam, elfgen.patch(data, meta, "ehdr", "e_phnum", 0xffff))    # PN_XNUM without section headers
        # entry sizes, offsets, counts
        for name, size in (("e_shentsize", shsz), ("e_phentsize", phsz)):
            for v in (0, size - 1, size + 1, 2 * size, 0xffff):
                add_case(cases, fam, elfgen.patch(data, meta, "ehdr", name, v))
        for name in ("e_shoff", "e_phoff"):
            cur = meta["shoff"] if name == "e_shoff" else meta["phoff"]
            for v in (0, 1, cur + 1, max(cur - 1, 0), ln - 1, ln, ln + 1, 2**31, 2**32 - 1, 2**63, 2**64 - 1):
                add_case(cases, fam, elfgen.patch(data, meta, "ehdr", name, v % (2**32 if cl == 32 else 2**64)))
        for name in ("e_shnum", "e_phnum"):
            cur = meta["nsh"] if name == "e_shnum" else meta["nph"]
            for v in (0, 1, cur + 1, max(cur - 1, 0), 0xff00, 0xfffe, 0xffff):
                add_case(cases, fam, elfgen.patch(data, meta, "ehdr", name, v))
        # empty / touching tables at EOF
        add_case(cases, fam, elfgen.patch(elfgen.patch(data, meta, "ehdr", "e_phoff", ln), meta, "ehdr", "e_phnum", 0))
        add_case(cases, fam, elfgen.patch(elfgen.patch(elfgen.patch(data, meta, "ehdr", "e_phoff", ln), meta, "ehdr", "e_phnum", 0), meta, "ehdr", "e_phentsize", phsz))
        add_case(cases, fam, data[:meta["shoff"] + shsz * meta["nsh"]] if meta["shoff"] else data[:ln - 1])
        add_case(cases, fam, data[:max(0, (meta["shoff"] + shsz * meta["nsh"] if meta["shoff"] else ln) - 1)])
        # wrong sh_entsize on the tables that check it
        for k in range(meta["nsh"]):
            add_case(cases, fam, elfgen.patch(data, meta, "shdr", "sh_entsize", rng.choice([0, 1, 3, 15, 17, 23, 25]), k))
    for variant in ("xindex", "literal"):
        for (cl, little) in ([(32, True)] if tier == "quick" else [(32, True), (64, False)]):
            data = big_file(rng, cl, little, 0xff02 if variant == "literal" else rng.choice([0xff00, 0xff05, 0x10010]), variant)
            add_case(cases, "any", data, ["shnum", "phnum", "shstr", "shdr 0", "shdr 65281", "byname %s" % hx(b".shstrtab")])
    return cases


def project(line):
    return vlib.collapse_errors(streamgen.strip_alloc(line)[0])


_default = default_oracle(project)


def oracle(case, impl, model):
    why = _default(case, impl, model)
    if why:
        return why
    if case in _exp:
        fam, data = _exp[case]
        o = fileq.py_open(fam, data)
        if case.startswith("stream"):
            sres, _ = streamgen.split_stream(project(impl))
            opened = not sres.startswith("E")
            if (o is not None) != opened:
                return "open_stream %s, but per the ELF header it must %s" % ("succeeded" if opened else "failed", "succeed" if o else "fail")
            if o is not None:
                items = vlib.split_top(sres[1:-1])
                for q, it, key in (("shdrs", items[1], "sh"), ("phdrs", items[2], "ph")):
                    want = 0 if o[key] == ("absent",) else o[key][1]
                    got = len(vlib.split_top(it[1:-1])) if it.startswith("[") else -1
                    if got != want:
                        return "stream: %d entries in %s, the header declares %d" % (got, q, want)
            return None
        opened = not impl.startswith("E:")
        if (o is not None) != opened:
            return "open %s, but per the ELF header it must %s" % ("succeeded" if opened else "failed", "succeed" if o else "fail")
        if o is not None:
            items = vlib.split_top(project(impl)[1:-1])
            qs = case.split(" | ")[1:]
            for q, it in zip(qs, items):
                if q == "shnum":
                    want = "none" if o["sh"] == ("absent",) else str(o["sh"][1])
                    if it != want:
                        return "section header count %s, the header declares %s" % (it, want)
                if q == "phnum":
                    want = "none" if o["ph"] == ("absent",) else str(o["ph"][1])
                    if it != want:
                        return "program header count %s, the header declares %s" % (it, want)
    return None


def nontrivial(case, impl):
    return impl.startswith("stream([") if case.startswith("stream") else not impl.startswith("E:")


def distribution(cases, impl, model):
    d = {"files": len(cases), "opened": 0, "rejected": 0, "shdr_tables": 0, "phdr_tables": 0, "max_file_bytes": 0, "entsize_errors": 0}
    for c, il in zip(cases, impl):
        d["stream_cases"] = d.get("stream_cases", 0) + c.startswith("stream")
        d["opened" if nontrivial(c, il) else "rejected"] += 1
        d["entsize_errors"] += il.count("E:BadEntsize")
        if c in _exp:
            d["max_file_bytes"] = max(d["max_file_bytes"], len(_exp[c][1]))
            o = fileq.py_open(*_exp[c])
            if o:
                d["shdr_tables"] += o["sh"] != ("absent",)
                d["phdr_tables"] += o["ph"] != ("absent",)
    return d
