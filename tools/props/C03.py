"""C03 — returned data is the exact header-designated byte range of the input."""
from gen import *
import vlib, elfgen, filegen, fileq

LEVEL = "proof"
RULE = ("generated objects (class x order, random section kinds incl. NOBITS, compressed, notes, string tables) queried with "
        "secdata/segdata/strtab/notes/rels/relas/segnotes for every table index and with caller-made headers whose ranges end at "
        "EOF-1/EOF/EOF+1, overflow usize, are empty, carry SHF_COMPRESSED with sizes around the compression header size, are "
        "SHT_NOBITS with absurd ranges, and program headers with p_memsz != p_filesz; string-table views also of tables that do "
        "not start with NUL. The harness prints every returned borrow as its byte range relative to the input buffer. Oracles: "
        "equality with the model + an independent python computation of the designated range for caller-made headers. "
        "Non-trivial: a query returning a non-empty range.")
ASSUMPTIONS = ["from_utf8 environment model (string views)"]
_exp = {}


def gen(rng, tier):
    cases = []
    n = 260 if tier == "quick" else 3000
    for i in range(n):
        e, info = elfgen.sample_elf(rng)
        if rng.random() < 0.5:
            e.add(b".strx", elfgen.SHT["STRTAB"], rng.choice([b"abc\0def\0", b"xyz", b"\xc3\0", b"a\0", b"\0a\0"]))
        e.with_shdrs = rng.random() < 0.9
        data, meta = e.build(rng)
        if rng.random() < 0.2:               # relocation / note / string sections flagged SHF_COMPRESSED (typed views read the payload)
            o_ = fileq.py_open("any", data)
            for k, h in enumerate((fileq.py_shdrs(o_, data) if o_ else None) or []):
                if h and h["sh_type"] in (3, 4, 7, 9) and rng.random() < 0.6:
                    data = elfgen.patch(data, meta, "shdr", "sh_flags", h["sh_flags"] | 0x800, k)
        ln = len(data)
        little, cl = meta["little"], meta["cl"]
        fam = filegen.fam_for(rng, little)
        qs, exp = [], {}
        o = fileq.py_open("any", data)
        for k in range(meta["nsh"]):
            qs.append("secdata %d" % k)
            qs.append("strtab %d 0 1 2 %d" % (k, rng.randrange(0, 12)))
            qs.append(rng.choice(["notes %d", "rels %d", "relas %d"]) % k)
        for j in range(meta["nph"] + 1):
            qs.append("segdata %d" % j)
            qs.append("segnotes %d" % j)
        # caller-made section headers
        for _ in range(6):
            ty = rng.choice([1, 1, 3, 7, 8, 8])
            flags = rng.choice([0, 0, 0x800, 0x802])
            size = rng.choice([0, 1, 11, 12, 13, 23, 24, 25, ln, ln + 1, 2**63, 2**64 - 1, rng.randrange(0, ln + 2)])
            off = rng.choice([0, 1, ln - size if size <= ln else 0, ln - size + 1 if size <= ln + 1 else 1, ln, ln + 1, 2**64 - size if size else 2**64 - 1,
                              2**64 - 1, rng.randrange(0, ln + 2)])
            off %= 2**64
            if cl == 32:
                off %= 2**32
                size %= 2**32
            h = dict(sh_name=0, sh_type=ty, sh_flags=flags, sh_addr=0, sh_offset=off, sh_size=size, sh_link=0, sh_info=0,
                     sh_addralign=rng.choice([0, 1, 4, 8]), sh_entsize=0)
            q = "secdata %s" % fileq.hdr_tokens("shdr", cl, h)
            if o is not None:
                exp[len(qs)] = fileq.py_secdata(o, data, h)
            qs.append(q)
        for _ in range(4):
            fsz = rng.choice([0, 1, ln, ln + 1, 2**63, rng.randrange(0, ln + 2)])
            off = rng.choice([0, ln - fsz if fsz <= ln else 0, ln - fsz + 1 if fsz <= ln + 1 else 1, ln, 2**64 - 1, rng.randrange(0, ln + 2)]) % 2**64
            if cl == 32:
                off %= 2**32
                fsz %= 2**32
            p = dict(p_type=rng.choice([1, 4]), p_offset=off, p_vaddr=0, p_paddr=0, p_filesz=fsz,
                     p_memsz=rng.choice([0, fsz, fsz + 4096, 2**31]), p_flags=4, p_align=rng.choice([1, 4, 8]))
            if o is not None:
                exp[len(qs)] = fileq.py_segdata(data, p)
            qs.append("segdata %s" % fileq.hdr_tokens("phdr", cl, p))
            if p["p_type"] == 4:          # the typed view of the same caller-made PT_NOTE header: a range that does not fit is an error, never clamped
                if o is not None and fileq.py_segdata(data, p) == "E":
                    exp[len(qs)] = "E"
                qs.append("segnotes %s" % fileq.hdr_tokens("phdr", cl, p))
        c = "bytes %s %s | %s" % (fam, hx(data), " | ".join(qs))
        _exp[c] = exp
        cases.append(c)
    # stand-alone string tables that do not start with NUL / have no NUL at all
    for t in [b"abc\0def\0", b"xyz", b"a", b"ab\0", b"\0", b"\xc3\xa9\0\xff\0"]:
        cases.append("strtab %s | %s" % (hx(t), " | ".join("raw %d | get %d" % (k, k) for k in range(len(t) + 1))))
    return cases


def project(line):
    return vlib.collapse_errors(line)


_default = default_oracle(project)


def oracle(case, impl, model):
    why = _default(case, impl, model)
    if why:
        return why
    exp = _exp.get(case)
    pi = project(impl)
    if exp and pi != "E":
        items = vlib.split_top(pi[1:-1])
        for k, want in exp.items():
            if k < len(items) and items[k] != want:
                return "query #%d (%s): got %s, the header designates %s" % (k, case.split(" | ")[k + 1][:80], items[k], want)
    return None


def nontrivial(case, impl):
    import re
    return re.search(r"@\d+:\d+", impl) is not None


def distribution(cases, impl, model):
    import re
    d = {"files": 0, "opened": 0, "nonempty_ranges": 0, "empty_ranges": 0, "errors": 0, "chdr_decoded": 0, "oracle_checked_headers": 0}
    for c, il in zip(cases, impl):
        if c.startswith("bytes"):
            d["files"] += 1
            d["opened"] += not il.startswith("E:")
        d["nonempty_ranges"] += len(re.findall(r"@\d+:\d+", il))
        d["empty_ranges"] += il.count("@-")
        d["errors"] += il.count("E:")
        d["chdr_decoded"] += len(re.findall(r"@\S+ ok\(", il))
        d["oracle_checked_headers"] += len(_exp.get(c, {}))
    return d
