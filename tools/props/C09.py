"""C09 — lazy tables are coherent (len / get / iteration / emptiness), checked on the implementation's own outputs."""
from gen import *
import vlib
import props.C02 as C02

LEVEL = "proof"
RULE = ("table ops (len, empty, get i, iter, nexts k, walk = scripts of next / nth / by_ref().take / count / last / step_by / skip / fold on one partly "
        "advanced iterator, with the expected answers computed from the iteration's own items) for 9 entry types x class x spec on buffers of every length "
        "0..3*entsize+entsize-1 (quick: all lengths for one spec per type, sampled for the rest); indices 0..n+2, "
        "usize::MAX/size +-1, usize::MAX; next() called past the end. Oracle: the coherence laws evaluated on the "
        "implementation's outputs + equality with the model. Non-trivial: table with >= 1 whole entry; distinct by result line.")
ASSUMPTIONS = ["slice length <= isize::MAX", "usize is 64 bit"]
TYPES = ["shdr", "phdr", "sym", "dyn", "versym", "u32", "u64", "rel", "rela"]


def gen(rng, tier):
    cases = []
    for ty in TYPES:
        for cl in (32, 64):
            size = C02.size_of(ty, cl)
            for si, spec in enumerate(SPECS):
                lens = list(range(0, 4 * size))
                if tier == "quick" and si != (TYPES.index(ty) + cl) % 5:
                    lens = sorted(set(rng.sample(lens, 6)) | {0, size - 1, size, size + 1})
                for ln in lens:
                    data = rand_bytes(rng, ln)
                    n = ln // size
                    idx = list(range(0, n + 3)) + [USIZE_MAX // size - 1, USIZE_MAX // size, USIZE_MAX // size + 1, USIZE_MAX, 2**63, 2**32]
                    rng.shuffle(idx)
                    idx = idx[:8] + [rng.randrange(0, n + 1), rng.randrange(0, n + 1)]   # repeated / re-ordered
                    qs = ["len", "empty", "iter", "intoiter", "nexts %d" % (n + 3)] + ["get %d" % i for i in idx]
                    for _w in range(2):
                        qs.append(walk_script(rng, n))
                    cases.append("table %s %s %d %s | %s" % (ty, spec, cl, hx(data), " | ".join(qs)))
    if tier == "thorough":
        for _ in range(3000):
            ty = rng.choice(TYPES); cl = rng.choice((32, 64)); spec = rng.choice(SPECS)
            size = C02.size_of(ty, cl)
            ln = rng.randrange(0, 40 * size)
            n = ln // size
            qs = ["len", "empty", "iter", "nexts %d" % (n + 2)] + ["get %d" % rng.randrange(0, n + 3) for _ in range(6)]
            qs += [walk_script(rng, n) for _w in range(3)]
            cases.append("table %s %s %d %s | %s" % (ty, spec, cl, hx(rand_bytes(rng, ln)), " | ".join(qs)))
    return cases


def walk_script(rng, n):
    """a script of Iterator calls on one iterator: some non-terminal steps from a partly advanced position, then
    (usually) a terminal one"""
    acts = []
    for _ in range(rng.randrange(0, 4)):
        c = rng.choice([0, 0, 1, 1, 2])
        acts += [c, rng.choice([0, 0, 1, 2, rng.randrange(0, n + 2), USIZE_MAX]) if c == 1 else rng.randrange(0, n + 2)]
    t = rng.choice([0, 1, 3, 4, 5, 6, 7])
    acts += [t, {5: rng.choice([1, 2, 3, n + 1])}.get(t, rng.choice([0, 1, 2, rng.randrange(0, n + 2), USIZE_MAX]) if t in (1, 6) else 0)]
    if rng.random() < 0.3:                       # re-poll after the end
        acts = [2, n + 1, 0, 0, 1, 0] + acts
    return "walk " + " ".join(str(x) for x in acts)


def walk_expected(items, acts):
    """the answers the standard library's provided methods give over a fused sequence of items"""
    pos, out = 0, []
    n = len(items)
    k = 0
    while k + 1 < len(acts):
        c, a = acts[k], acts[k + 1]
        k += 2
        if c == 0:
            out.append(items[pos] if pos < n else "none"); pos = min(pos + 1, n)
        elif c == 1:
            out.append(items[pos + a] if pos + a < n else "none"); pos = min(pos + a + 1, n)
        elif c == 2:
            out.append(items[pos:pos + a]); pos = min(pos + a, n)
        elif c == 3:
            out.append(str(n - pos)); break
        elif c == 4:
            out.append(items[-1] if pos < n else "none"); break
        elif c == 5:
            out.append(items[pos::max(a, 1)][:64]); break
        elif c == 6:
            out.append(items[pos + a:]); break
        elif c == 7:
            out.append(items[pos:]); break
    return out


def project(line):
    return vlib.collapse_errors(line)


_default = default_oracle(project)


def oracle(case, impl, model):
    why = _default(case, impl, model)
    if why:
        return why
    groups = case.split(" | ")
    h = groups[0].split(" ")
    ty, cl, data = h[1], int(h[3]), bytes.fromhex(h[4][1:])
    size = C02.size_of(ty, cl)
    n = len(data) // size
    res = vlib.parse_out(project(impl))
    items = None
    gets = {}
    for q, r in zip(groups[1:], res):
        t = q.split(" ")
        if t[0] == "len" and r != str(n):
            return "len() = %s but the bytes hold %d whole entries" % (r, n)
        if t[0] == "empty" and r != ("1" if n == 0 else "0"):
            return "is_empty() = %s with %d entries" % (r, n)
        if t[0] == "iter":
            items = r
            if len(r) != n:
                return "iteration yields %d items, len is %d" % (len(r), n)
        if t[0] == "intoiter" and items is not None and r != items:
            return "IntoIterator::into_iter yields %s, iter() yields %s" % (str(r)[:150], str(items)[:150])
        if t[0] == "nexts":
            if len([x for x in r if x != "none"]) != n or any(x == "none" for x in r[:n]) or any(x != "none" for x in r[n:]):
                return "next() sequence is not n items followed by None forever: %s" % (r,)
            if items is not None and r[:n] != items:
                return "next() items differ from the iteration"
        if t[0] == "walk" and items is not None:
            want = walk_expected(items, [int(x) for x in t[1:]])
            if r != want:
                return "%s answers %s; from the iterated items the provided Iterator methods give %s" % (q, str(r)[:200], str(want)[:200])
        if t[0] == "get":
            i = int(t[1])
            if (r != "E") != (i < n):
                return "get(%d) %s with len %d" % (i, "succeeds" if r != "E" else "fails", n)
            if i in gets and gets[i] != r:
                return "get(%d) returned different values on repetition" % i
            gets[i] = r
            if items is not None and i < n and items[i] != r:
                return "get(%d) differs from the %d-th iterated item" % (i, i)
    return None


def nontrivial(case, impl):
    return impl.split(" ")[0] not in ("[0", "[E")


def distribution(cases, impl, model):
    d = {}
    for c, il in zip(cases, impl):
        h = c.split(" ")
        k = "%s/n=%s" % (h[1], min(int(il[1:].split(" ")[0]), 3) if il[1:2].isdigit() else "?")
        d[k] = d.get(k, 0) + 1
    return d


def tie_covered(case):
    """the independent oracle of this module decides the property on every case it generates"""
    return True
