"""C04 — endian-aware integer reads: exact value, exact advance, cursor untouched on error."""
from gen import *
import vlib

LEVEL = "proof"
RULE = ("int reads: exhaustive u8 (all 256 values) and u16 (sampled in quick, all 65536 in thorough) at every "
        "offset of short buffers; boundary+random u32/i32/u64/i64; offsets 0..len+9 and usize::MAX-8..usize::MAX; "
        "5 specs. Non-trivial: an Ok result; distinct by (result line, kind).")
ASSUMPTIONS = ["slice length <= isize::MAX (buf_ok)", "usize is 64 bit", "build target is little endian (harness asserts)"]
KINDS = {"u8": 1, "u16": 2, "u32": 4, "u64": 8, "i32": 4, "i64": 8}


def gen(rng, tier):
    cases = []
    # u8 exhaustive
    for spec in SPECS:
        for v in range(256):
            buf = bytes([0xAA, v, 0x55])
            cases.append("int %s u8 1 %s" % (spec, hx(buf)))
    # u16: all byte pairs (thorough) or a sample (quick)
    pairs = range(65536) if tier == "thorough" else sorted(set(rng.sample(range(65536), 1500)) | {0, 1, 0xff, 0x100, 0x7fff, 0x8000, 0xffff, 0x0102})
    for v in pairs:
        spec = SPECS[v % 5] if tier != "thorough" else None
        for sp in ([spec] if spec else SPECS):
            buf = bytes([0x11, v >> 8, v & 0xff, 0x22])
            cases.append("int %s u16 1 %s" % (sp, hx(buf)))
    # every offset of short buffers, all kinds
    for kind, w in KINDS.items():
        for spec in SPECS:
            for ln in range(0, w + 3):
                buf = bytes((0x81 + 7 * i) & 0xff for i in range(ln))
                for off in list(range(0, ln + 10)) + list(range(USIZE_MAX - 8, USIZE_MAX + 1)):
                    if tier == "quick" and rng.random() < 0.5 and off > ln + 2 and off < USIZE_MAX - 8:
                        continue
                    cases.append("int %s %s %d %s" % (spec, kind, off, hx(buf)))
    # boundary / random values at random offsets
    n = 1500 if tier == "quick" else 60000
    for _ in range(n):
        kind = rng.choice(list(KINDS))
        w = KINDS[kind]
        spec = rng.choice(SPECS)
        v = interesting_value(rng, w)
        pre = rand_bytes(rng, rng.randrange(0, 6))
        post = rand_bytes(rng, rng.randrange(0, 6))
        buf = pre + enc(spec_little(spec), w, v) + post
        off = len(pre) if rng.random() < 0.8 else rng.randrange(0, len(buf) + 3)
        cases.append("int %s %s %d %s" % (spec, kind, off, hx(buf)))
    return cases


def project(line):
    return vlib.collapse_errors(line)


_default = default_oracle(project)


def oracle(case, impl, model):
    why = _default(case, impl, model)
    if why:
        return why
    # independent re-computation of the expected value (python int.from_bytes)
    t = case.split(" ")
    spec, kind, off, data = t[1], t[2], int(t[3]), bytes.fromhex(t[4][1:])
    w = KINDS[kind]
    if off + w <= len(data):
        v = int.from_bytes(data[off:off + w], "little" if spec_little(spec) else "big", signed=kind[0] == "i")
        exp = "[%d %d]" % (v, off + w)
    else:
        exp = "[E %d]" % off
    if project(impl) != exp:
        return "implementation differs from the positional value: expected %s" % exp
    return None


def nontrivial(case, impl):
    return not impl.startswith("[E")


def distribution(cases, impl, model):
    d = {}
    for c, il in zip(cases, impl):
        k = c.split(" ")[2] + ("/err" if il.startswith("[E") else "/ok")
        d[k] = d.get(k, 0) + 1
    return d


def tie_covered(case):
    """the independent oracle of this module decides the property on every case it generates"""
    return True
