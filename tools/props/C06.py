"""C06 — slice parser performs zero heap allocations; crate builds in every feature set (level: other).

This property lives in the allocator and in rustc's feature gating, which an executable Gallina model cannot exhibit; the model
contributes only that every slice-parser result is a range of the caller's buffer (C03: nothing is copied).  The check therefore
MEASURES, on every run, against /repo's working tree: (a) a counting global allocator around every slice-parser call of the C01
case set, (b) `cargo check` for all 8 subsets of {alloc, std, to_str}, (c) the external-crate list of the compiled rlib."""
import itertools
import os
import re
import importlib
from gen import *
import vlib

LEVEL = "other"
NO_PROOF = True
SHRINK = True
RULE = ("(a) every slice-parser case of the C01 set (integers, structures, tables, strings, notes, hash lookups incl. long and cyclic "
        "chains, version queries, whole files valid and corrupted, every accessor) is run with a counting global allocator active "
        "and a non-allocating output sink: the count must be 0; (b) cargo check --no-default-features --features S for all 8 subsets "
        "S of {alloc, std, to_str}; (c) nightly rlib metadata (rustc -Zls=root): external crates of the no-default-features build "
        "must be within {core, compiler_builtins}, of the alloc-only build within that plus alloc. Non-trivial: a case in which the "
        "crate produced output (bytes written to the sink) with zero allocations.")
ASSUMPTIONS = ["the counting allocator sees every heap allocation of the process thread (GlobalAlloc hook)", "cargo/rustc as installed"]
EXPLANATION = ("No theorem: the property is about the allocator and about rustc's feature-gated compilation. Measured on every run "
               "against /repo's working tree: allocation count inside every slice-parser call (must be 0), the 8-subset feature "
               "build matrix, and the rlib's external-crate list with default features off. What the Coq model does contribute is "
               "C03 (every returned slice is a range of the caller's buffer, nothing is copied).")
_feat = []


def long_chain_cases(rng):
    """hash lookups that walk long chains (one bucket, many symbols) and cyclic chains"""
    import elfgen
    out = []
    for cl in (32, 64):
        names = [b"sym%03d" % k for k in range(60)]
        symtab, strtab = elfgen.build_symtab(cl, True, names)
        tab = elfgen.build_sysv_hash(True, names, 1)
        out.append("sysv le %d %s %s %s | %s" % (cl, hx(tab), hx(symtab), hx(strtab), " | ".join(hx(q) for q in (names[0], names[30], names[59], b"absent"))))
        order = elfgen.gnu_sort(names, 1)
        symtab, strtab = elfgen.build_symtab(cl, True, order)
        tab = elfgen.build_gnu_hash(cl, True, order, 1, 1, 5, 1)
        out.append("gnu le %d %s %s %s | %s" % (cl, hx(tab), hx(symtab), hx(strtab), " | ".join(hx(q) for q in (order[0], order[59], b"absent"))))
    return out


def gen(rng, tier):
    c01 = importlib.import_module("props.C01")
    base = [c for c in c01.gen(rng, tier) if not c.startswith(("const", "layout", "tostr", "stream", "bytesc"))]
    c16 = importlib.import_module("props.C16")
    base += [c for c in c16.gen(rng, "quick") if c.startswith(("sysv", "gnu", "symvert"))][:120]
    base += long_chain_cases(rng)
    return ["alloc " + c for c in base]


def run_both(cases, prop, per_shard_timeout=120):
    impl, _ = vlib.run_both(cases, prop, per_shard_timeout=per_shard_timeout, with_model=False)
    return impl, ["-"] * len(impl)


def oracle(case, impl, model):
    if impl.startswith(("PANIC", "HANG", "CRASH")):
        return "implementation %s" % impl.split(" ")[0]
    m = re.match(r"allocs=(\d+) max=(\d+) out=(\d+)", impl)
    if not m:
        return None
    if int(m.group(1)) != 0:
        return "%s heap allocation(s) (largest %s bytes) inside a slice-parser call" % (m.group(1), m.group(2))
    return None


def post(cases, impl, model, a):
    out = []
    del _feat[:]
    tdir = os.path.join(vlib.BUILD, "cargo_feat")
    env = {"CARGO_TARGET_DIR": tdir}
    feats = ["alloc", "std", "to_str"]
    for k in range(len(feats) + 1):
        for sub in itertools.combinations(feats, k):
            cmd = ["cargo", "check", "--offline", "--lib", "--no-default-features"] + (["--features", ",".join(sub)] if sub else [])
            rc, o = vlib.sh(cmd, 600, cwd=vlib.REPO, env=env)
            _feat.append({"features": list(sub), "ok": rc == 0})
            if rc != 0:
                err = [l for l in o.splitlines() if l.startswith("error")][:2]
                out.append(("features %s" % (",".join(sub) or "(none)"), "the crate does not compile with features {%s}: %s" % (",".join(sub), " / ".join(err)[:300])))
    for sub, allowed in (((), {"core", "compiler_builtins"}), (("alloc",), {"core", "compiler_builtins", "alloc"})):
        env2 = {"CARGO_TARGET_DIR": os.path.join(vlib.BUILD, "cargo_feat_nightly")}
        cmd = ["cargo", "+nightly", "build", "--offline", "--lib", "--no-default-features"] + (["--features", ",".join(sub)] if sub else [])
        rc, o = vlib.sh(cmd, 900, cwd=vlib.REPO, env=env2)
        if rc != 0:
            _feat.append({"deps_of": list(sub), "error": "nightly build failed"})
            continue
        rc, o = vlib.sh(["rustc", "+nightly", "-Zls=root", os.path.join(env2["CARGO_TARGET_DIR"], "debug", "libelf.rlib")], 120)
        deps = re.findall(r"^\d+ ([A-Za-z_0-9]+)-[0-9a-f]+ hash", o, flags=re.M)
        _feat.append({"deps_of": list(sub), "external_crates": deps})
        extra = [d for d in deps if d not in allowed]
        if rc == 0 and extra:
            out.append(("features %s (dependencies)" % (",".join(sub) or "(none)"), "with features {%s} the crate links %s" % (",".join(sub), extra)))
    return out


def nontrivial(case, impl):
    m = re.match(r"allocs=0 max=0 out=(\d+)", impl)
    return bool(m) and int(m.group(1)) > 8


def distribution(cases, impl, model):
    d = {"calls_measured": len(cases), "with_zero_allocations": sum(1 for il in impl if il.startswith("allocs=0 ")),
         "feature_matrix": list(_feat)}
    return d
