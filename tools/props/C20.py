"""C20 — alternative access paths to the same data agree."""
import re
from gen import *
import vlib, elfgen, filegen, fileq, streamgen
import props.C02 as C02

LEVEL = "proof"
RULE = ("generated objects with/without each section kind, the section header table in random order (sh_link kept pointing at "
        "the same sections), duplicate kinds, section names that are prefixes/suffixes/duplicates of each other, non-UTF-8 and "
        "out-of-table names placed before the queried one; queries: find_common_data (with hash lookups), the targeted accessors, "
        "by-name lookups of every present name, prefixes, extensions and absent names, every typed view on every section and "
        "segment. Oracles (on the implementation's own outputs): common data == targeted accessors when each kind occurs at most "
        "once; by-name == first section whose name string equals the query (python scan of the printed headers and name table); "
        "typed views refused exactly when the type differs, else as many entries as whole entries in the raw data; plus equality "
        "with the model; every second file also through ElfStream on one handle (typed views and by-name lookups in random order, "
        "segment notes first) compared with ElfBytes; sh_link of symbol tables re-pointed at any section, the linked string table "
        "made NOBITS or flagged compressed. Non-trivial: a file with section headers that opens.")
ASSUMPTIONS = ["from_utf8 environment model (section names)"]
_info = {}
_pairs = {}
KIND_T = {2: "symtab", 11: "dynsym", 6: "dynamic", 5: "hash", 0x6ffffff6: "gnuhash"}


def gen(rng, tier):
    cases = []
    n = 320 if tier == "quick" else 3000
    for i in range(n):
        kinds = [k for k in ("text", "symtab", "dynsym", "hash", "gnuhash", "dynamic", "note", "rel", "rela", "nobits", "strtab2", "versions") if rng.random() < 0.65]
        e, info = elfgen.sample_elf(rng, kinds=kinds)
        e.with_shdrs = rng.random() < 0.93
        # name games
        extra = [b".text", b".tex", b".text.hot", b".symtab", b".dynsy", b".dyn", b"\xff\xfe", b".caf\xc3\xa9", b"", b".zdebug_info", b".debug_str", b".zdebug_str"]
        for nm in rng.sample(extra, rng.randrange(0, 4)):
            e.add(nm, 1, rand_bytes(rng, rng.randrange(0, 5)))
        if rng.random() < 0.15 and "symtab" in kinds:       # a duplicate kind: the uniqueness hypothesis fails
            sd, st = elfgen.build_symtab(e.cl, e.little, [b"dup"])
            si = e.add(b".symtab2", elfgen.SHT["SYMTAB"], sd, entsize=C02.size_of("sym", e.cl), align=8)
            e.sections[si - 1]["link"] = e.add(b".strtab2", elfgen.SHT["STRTAB"], st)
        if rng.random() < 0.7:
            e.permute(rng)
        data, meta = e.build(rng)
        if meta["nsh"] and rng.random() < 0.2:              # a name offset outside the name table, early in the table
            data = elfgen.patch(data, meta, "shdr", "sh_name", rng.choice([2**31, 4000]), rng.randrange(0, meta["nsh"]))
        # sh_link of a symbol table pointing at any section; the linked string table made NOBITS / flagged compressed
        o0 = fileq.py_open("any", data)
        hs = fileq.py_shdrs(o0, data) if o0 else None
        if hs and rng.random() < 0.35:
            for k, h in enumerate(hs):
                if h and h["sh_type"] in (2, 11, 6) and rng.random() < 0.7:
                    r = rng.random()
                    lk = h["sh_link"]
                    if r < 0.15:           # exactly SHN_XINDEX / a reserved index, with shdr[0].sh_link naming a string table
                        data = elfgen.patch(data, meta, "shdr", "sh_link", rng.choice([0xffff, 0xffff, 0xff00]), k)
                        st = [i for i, x in enumerate(hs) if x and x["sh_type"] == 3]
                        if st:
                            data = elfgen.patch(data, meta, "shdr", "sh_link", rng.choice(st), 0)
                    elif r < 0.4:
                        data = elfgen.patch(data, meta, "shdr", "sh_link", rng.randrange(0, meta["nsh"] + 1), k)
                    elif r < 0.7 and lk < len(hs) and hs[lk]:
                        data = elfgen.patch(data, meta, "shdr", "sh_type", 8, lk)
                    elif lk < len(hs) and hs[lk]:
                        data = elfgen.patch(data, meta, "shdr", "sh_flags", hs[lk]["sh_flags"] | 0x800, lk)
        if hs and rng.random() < 0.12:         # a hash section too short for its header: find_common_data must fail as a whole
            for k, h in enumerate(hs):
                if h and h["sh_type"] in (5, 0x6ffffff6):
                    data = elfgen.patch(data, meta, "shdr", "sh_size", rng.choice([0, 4, 7] if h["sh_type"] == 5 else [0, 8, 15]), k)
        if hs and rng.random() < 0.12:
            data = streamgen.odd_shstrtab(rng, data, meta)
        if hs and rng.random() < 0.15:       # a .dynamic section holding no whole entry while PT_DYNAMIC designates the real table
            for k, h in enumerate(hs):
                if h and h["sh_type"] == 6:
                    data = elfgen.patch(data, meta, "shdr", "sh_size", rng.choice([0, 1, 7]), k)
        if hs and rng.random() < 0.15:       # relocation sections whose sh_entsize is not the structure size
            for k, h in enumerate(hs):
                if h and h["sh_type"] in (4, 9):
                    data = elfgen.patch(data, meta, "shdr", "sh_entsize", rng.choice([0, 1, 8, 12, 16, 24, 25]), k)
        if hs and rng.random() < 0.15:       # typed views over sections flagged SHF_COMPRESSED: they see the payload after the compression header
            for k, h in enumerate(hs):
                if h and h["sh_type"] in (3, 4, 7, 9) and rng.random() < 0.6:
                    data = elfgen.patch(data, meta, "shdr", "sh_flags", h["sh_flags"] | 0x800, k)
        ps0 = fileq.py_phdrs(o0, data) if o0 else None
        if ps0 and rng.random() < 0.25:     # the PT_DYNAMIC segment designates bytes outside the file while the .dynamic section is fine
            for j, ph in enumerate(ps0):
                if ph and ph["p_type"] == 2:
                    mask = 2**32 if meta["cl"] == 32 else 2**64
                    data = elfgen.patch(data, meta, "phdr", "p_offset", rng.choice([len(data), 2**31, 2**64 - 8, len(data) - 1]) % mask, j)
        dupq = []
        if hs and len(hs) >= 3 and rng.random() < 0.3:
            # the same name string read from two different offsets of the name table (a tail of a longer name, a second
            # copy), header order opposite to string-table order: by-name must still return the first HEADER
            o1 = fileq.py_open("any", data)
            h1 = fileq.py_shdrs(o1, data) if o1 else None
            sx = o1["eh"]["e_shstrndx"] if o1 else 0
            if h1 and 0 < sx < len(h1) and h1[sx] and h1[sx]["sh_offset"] + h1[sx]["sh_size"] <= len(data):
                tab = data[h1[sx]["sh_offset"]:h1[sx]["sh_offset"] + h1[sx]["sh_size"]]
                occ = {}
                for off in range(len(tab)):
                    z = tab.find(b"\0", off)
                    if z > off:
                        occ.setdefault(tab[off:z], []).append(off)
                multi = [(nm, offs) for nm, offs in occ.items() if len(offs) >= 2 and len(nm) >= 2]
                if multi:
                    nm, offs = rng.choice(multi)
                    i, j = sorted(rng.sample(range(1, len(h1)), 2))
                    data = elfgen.patch(data, meta, "shdr", "sh_name", max(offs), i)
                    data = elfgen.patch(data, meta, "shdr", "sh_name", min(offs), j)
                    dupq = [nm]
        fam = filegen.fam_for(rng, meta["little"])
        names = [s["name"] for s in e.sections] + [b".shstrtab"] + dupq
        qn = list(dict.fromkeys(dupq + rng.sample(names, min(len(names), 4)) + [b".text", b".tex", b".text.h", b"absent", b"", b".symtab", b".gnu.hash", b".debug_info", b".debug_str"]))
        def utf8(b):
            try:
                b.decode("utf-8")
                return True
            except UnicodeDecodeError:
                return False
        qn = [x for x in qn if utf8(x)]        # the API takes &str
        syms = info.get("syms", [])
        qs = ["shdrs", "shstr", "symtab", "dynsym", "dynamic", "common " + " ".join(hx(x) for x in (rng.sample(syms, min(len(syms), 3)) + [b"absent"]))]
        qs += ["byname %s" % hx(x) for x in qn]
        for k in range(meta["nsh"]):
            qs += ["secdata %d" % k, "strtab %d 0 1" % k, "rels %d" % k, "relas %d" % k, "notes %d" % k]
        for j in range(meta["nph"]):
            qs += ["segdata %d" % j, "segnotes %d" % j]
        c = "bytes %s %s | %s" % (fam, hx(data), " | ".join(qs))
        _info[c] = (data, meta, qn)
        cases.append(c)
        if i % 2 == 0:          # the same paths through ElfStream, in a random order on one handle (segments before the sections inside them)
            q2 = ["byname %s" % hx(x) for x in qn]
            for k in range(meta["nsh"]):
                q2 += ["secdata %d" % k, "strtab %d 0 1" % k, "rels %d" % k, "relas %d" % k, "notes %d" % k]
            rng.shuffle(q2)
            q2 = ["ehdr", "shdrs", "phdrs"] + ["segnotes %d" % j for j in range(meta["nph"])] + q2[:24] + ["symtab", "dynsym", "dynamic"]
            sc = streamgen.stream_case(fam, data, "plain", [], q2)
            bc = streamgen.bytesc_case(fam, data, q2)
            _pairs[sc] = (bc, q2, data, fam)
            cases += [sc, bc]
    return cases


def project(line):
    return vlib.collapse_errors(streamgen.strip_alloc(line)[0])


def post(cases, impl, model, a):
    out = []
    idx = {c: k for k, c in enumerate(cases)}
    for sc, (bc, qs, data, fam) in _pairs.items():
        if sc not in idx or bc not in idx:
            continue
        sres, _ = streamgen.split_stream(project(impl[idx[sc]]))
        why = streamgen.compare_stream_slice(qs, sres, project(impl[idx[bc]]), data, fam)
        if why:
            out.append((sc, why))
    return out


_default = default_oracle(project)


def oracle(case, impl, model):
    why = _default(case, impl, model)
    if why:
        return why
    if case not in _info or impl.startswith("E:"):
        return None
    data, meta, qn = _info[case]
    pi = project(impl)
    items = vlib.split_top(pi[1:-1])
    qs = case.split(" | ")[1:]
    res = dict(zip(qs, items))
    shdrs = res["shdrs"]
    hdrs = None
    if shdrs != "none":
        hl = vlib.split_top(shdrs[1:-1])
        hdrs = [[int(x) for x in h[3:-1].split(" ")] for h in hl]        # ok(name type flags addr off size link info align entsize)
    # 1. common vs targeted accessors
    cm = res[[q for q in qs if q.startswith("common")][0]]
    if cm != "E":
        parts = vlib.split_top(cm[1:-1])
        count = lambda t: sum(1 for h in (hdrs or []) if h[1] == t)
        if count(2) <= 1 and parts[0] != res["symtab"]:
            return "find_common_data symtab %s differs from symbol_table() %s" % (parts[0][:100], res["symtab"][:100])
        if count(11) <= 1 and parts[1] != res["dynsym"]:
            return "find_common_data dynsyms %s differs from dynamic_symbol_table() %s" % (parts[1][:100], res["dynsym"][:100])
        if (hdrs is None or count(6) == 1) and parts[2] != res["dynamic"]:
            return "find_common_data dynamic %s differs from dynamic() %s" % (parts[2][:100], res["dynamic"][:100])
        if hdrs is not None:
            if count(5) == 0 and parts[3] != "none":
                return "find_common_data reports a SysV hash table but there is no SHT_HASH section"
            if count(5) >= 1 and parts[3] == "none":
                return "find_common_data lost the SysV hash table of the SHT_HASH section"
            if count(0x6ffffff6) == 0 and parts[4] != "none":
                return "find_common_data reports a GNU hash table but there is no SHT_GNU_HASH section"
            if count(0x6ffffff6) >= 1 and parts[4] == "none":
                return "find_common_data lost the GNU hash table of the SHT_GNU_HASH section"
    elif hdrs is not None:
        count = lambda t: sum(1 for h in hdrs if h[1] == t)
        if (count(2) <= 1 and count(11) <= 1 and count(6) == 1 and count(5) == 0 and count(0x6ffffff6) == 0
                and "E" not in (res["symtab"], res["dynsym"], res["dynamic"])):
            return ("find_common_data fails although symbol_table(), dynamic_symbol_table() and dynamic() all succeed, each kind "
                    "occurs at most once, .dynamic is present and there is no hash section to fail on")
    # 2. by name
    st = res["shstr"]
    if st != "E" and hdrs is not None:
        sp = vlib.split_top(st[1:-1])
        tab = bytes.fromhex(sp[1][1:]) if sp[1] != "none" else None
        hl = vlib.split_top(shdrs[1:-1])
        for q in qs:
            if not q.startswith("byname "):
                continue
            want = bytes.fromhex(q.split(" ")[1][1:])
            exp = "none"
            if tab is not None:
                for k, h in enumerate(hdrs):
                    off = h[0]
                    if off >= len(tab) or len(tab) == 0:
                        continue
                    z = tab.find(b"\0", off)
                    if z < 0:
                        continue
                    nm = tab[off:z]
                    try:
                        nm.decode("utf-8")
                    except UnicodeDecodeError:
                        continue
                    if nm == want:
                        exp = hl[k]
                        break
            if res[q] != exp:
                return "section_header_by_name(%r) = %s, the first section with that name is %s" % (want, res[q][:120], exp[:120])
    # 3. typed views
    if hdrs is not None:
        cl = meta["cl"]
        for k, h in enumerate(hdrs):
            for q, ty, esz in (("rels %d" % k, 9, C02.size_of("rel", cl)), ("relas %d" % k, 4, C02.size_of("rela", cl))):
                r = res.get(q)
                if r is None:
                    continue
                if h[1] != ty:
                    if r != "E":
                        return "%s accepted a section of type %d" % (q, h[1])
                else:
                    sd = res.get("secdata %d" % k)
                    if sd and sd != "E" and r != "E":
                        m = re.match(r"\[@(\d+):(\d+) ", sd)
                        nbytes = (int(m.group(2)) - int(m.group(1))) if m else 0
                        got = len(vlib.split_top(r[1:-1]))
                        if got != nbytes // esz:
                            return "%s yields %d entries, the raw data holds %d whole entries" % (q, got, nbytes // esz)
            for q, ty in (("strtab %d 0 1" % k, 3), ("notes %d" % k, 7)):
                r = res.get(q)
                if r is not None and h[1] != ty and r != "E":
                    return "%s accepted a section of type %d" % (q, h[1])
    return None


def nontrivial(case, impl):
    return not impl.startswith(("E:", "stream(E")) and "ok(" in impl


def distribution(cases, impl, model):
    d = {"files": len(cases), "opened": 0, "common_ok": 0, "common_err": 0, "byname_found": 0, "byname_none": 0, "permuted_or_named": 0}
    for c, il in zip(cases, impl):
        if not c.startswith("bytes "):
            d["stream_or_slice_histories"] = d.get("stream_or_slice_histories", 0) + 1
            continue
        if il.startswith("E:"):
            continue
        d["opened"] += 1
        items = vlib.split_top(project(il)[1:-1])
        qs = c.split(" | ")[1:]
        for q, it in zip(qs, items):
            if q.startswith("common"):
                d["common_err" if it == "E" else "common_ok"] += 1
            if q.startswith("byname"):
                d["byname_none" if it == "none" else "byname_found"] += 1
    return d


def tie_covered(case):
    """the independent oracle of this module decides the property on every case it generates"""
    return True
