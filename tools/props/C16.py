"""C16 — every lookup and iteration terminates within work bounded by the input size."""
import time
from gen import *
import vlib, elfgen, hashgen
import props.C02 as C02

LEVEL = "proof"
SHARD_TIMEOUT = 10
RULE = ("adversarial structures: SysV hash chains with cycles of every length 1..8 and self-loops over named and unnamed symbols, "
        "GNU chains without a stop bit, version sections with next = 0 / next -> overlapping records / counts 2^16-1 and 2^32-1 / aux "
        "offsets 2^32-1 / aux chains that keep linking past the declared count / vd_ndx != vd_cnt, note buffers of garbage, entry "
        "tables up to 64 KiB, plus 64 KiB worst cases (stride-16 verneed x aux chains, full-length hash chains) timed on the "
        "implementation. A watchdog kills a shard that stalls and marks the in-flight case HANG. Oracles: no HANG/PANIC; item counts "
        "<= declared count and <= bytes; implementation == model; every 64 KiB case completes within 10 s. Non-trivial: a case that "
        "yields at least one item or answers a lookup.")
ASSUMPTIONS = ["wall-clock time is measured, not proved (the theorems bound the number of loop iterations)"]
_big = []
_counts = {}


def le32(v):
    return enc(True, 4, v)


def sysv_cycle_case(rng, cyc, named, cl=64):
    """one bucket; chain 1 -> 2 -> ... -> cyc -> 1 (a cycle); symbols unnamed (st_name 0) or named"""
    nsym = cyc + 1
    names = [b"n%d" % k for k in range(cyc)] if named else [b""] * cyc
    st = elfgen.StrTab()
    symtab = elfgen.sym_bytes(cl, True, 0, 0, 0, 0, 0, 0)
    for nm in names:
        symtab += elfgen.sym_bytes(cl, True, st.add(nm))
    chains = [0] + [(k % cyc) + 1 for k in range(1, cyc + 1)]
    tab = le32(1) + le32(nsym) + le32(1) + b"".join(le32(v) for v in chains)
    qs = [b"x", b"", b"n0", b"zz"]
    return "sysv le %d %s %s %s | %s" % (cl, hx(tab), hx(symtab), hx(bytes(st.data)), " | ".join(hx(q) for q in qs))


def gnu_nostop_case(rng, n, cl=64):
    names = [b"a%d" % k for k in range(n)]
    order = elfgen.gnu_sort(names, 1)
    symtab, strtab = elfgen.build_symtab(cl, True, order)
    tab = bytearray(elfgen.build_gnu_hash(cl, True, order, 1, 1, 5, 1))
    # clear every stop bit and make the bloom filter accept everything
    w = 4 if cl == 32 else 8
    tab[16:16 + w] = b"\xff" * w
    base = 16 + w + 4
    for k in range(n):
        tab[base + 4 * k] &= 0xfe
    qs = [b"absent", b"a0", b"zz", b""]
    return "gnu le %d %s %s %s | %s" % (cl, hx(tab), hx(symtab), hx(strtab), " | ".join(hx(q) for q in qs))


def viter_case(rng, kind, little=True):
    size = {"verdef": 20, "verneed": 16, "verdaux": 8, "vernaux": 16}[kind]
    n = rng.choice([1, 2, 3, 8, 40])
    step = rng.choice([size, size, size + 4, 1, 4, 0, 2**31, 2**32 - 1])
    recs = b""
    data = bytearray(rand_bytes(rng, n * max(size, 8) + 64))
    off = 0
    for k in range(n):
        nxt = step if rng.random() < 0.85 else rng.choice([0, 1, size, 2**32 - 1])
        if kind == "verdef":
            b = elfgen.pack("verdef", 0, little, dict(vd_version=rng.choice([1, 1, 1, 2]), vd_flags=0, vd_ndx=rng.choice([1, 5, 9, 200]), vd_cnt=rng.choice([0, 1, 2, 0xffff]),
                                                      vd_hash=k, vd_aux=rng.choice([20, 0, 8, 2**32 - 1, size]), vd_next=nxt))
        elif kind == "verneed":
            b = elfgen.pack("verneed", 0, little, dict(vn_version=rng.choice([1, 1, 1, 0]), vn_cnt=rng.choice([0, 1, 3, 0xffff]), vn_file=1,
                                                       vn_aux=rng.choice([16, 0, 2**32 - 1]), vn_next=nxt))
        elif kind == "verdaux":
            b = elfgen.pack("verdaux", 0, little, dict(vda_name=k, vda_next=nxt))
        else:
            b = elfgen.pack("vernaux", 0, little, dict(vna_hash=k, vna_flags=0, vna_other=k + 2, vna_name=1, vna_next=nxt))
        if off + size <= len(data):
            data[off:off + size] = b
        off += nxt if nxt < 4096 else size
    count = rng.choice([0, 1, n, n + 5, 0xffff, 2**32 - 1])
    start = rng.choice([0, 0, 0, 1, len(data) - 1, len(data), 2**32])
    forced = False
    if rng.random() < 0.2:               # a well-formed first record whose link is 0 while more records are declared
        first = {"verdef": dict(vd_version=1, vd_flags=0, vd_ndx=1, vd_cnt=1, vd_hash=9, vd_aux=20, vd_next=0),
                 "verneed": dict(vn_version=1, vn_cnt=1, vn_file=1, vn_aux=16, vn_next=0),
                 "verdaux": dict(vda_name=1, vda_next=0),
                 "vernaux": dict(vna_hash=3, vna_flags=0, vna_other=2, vna_name=1, vna_next=0)}[kind]
        data[0:size] = elfgen.pack(kind, 0, little, first)
        count, start = rng.choice([2, 3, n + 5, 0xffff]), 0
        forced = True
    c = "viter %s %s %d %d %d %s | all | nexts %d" % (kind, "le" if little else "be", rng.choice((32, 64)), count, start, hx(data), n + 3)
    import props.C09 as C09
    c += " | %s" % C09.walk_script(rng, min(n, 4))      # provided Iterator methods (count / last / nth / ...) on the same chain
    if forced:
        c += " | walk 3 0 | walk 4 0 | walk 0 0 3 0 | walk 6 1"     # count / last / skip on a chain that ends before its declared count
    if kind == "verdaux":            # the names iterator over the same chain (public constructor)
        c += " | names %s" % hx(bytes(rng.choice([0, 0x41, 0x42, 0xc3, 0xa9, 0xff]) for _ in range(rng.choice([0, 1, 4, 12, 40]))))
    _counts[c] = (count, len(data))
    return c


def verdef_long_aux(rng, little=True):
    """vd_ndx > vd_cnt and an aux chain that keeps linking forward past the declared count"""
    naux = rng.randrange(3, 9)
    cnt = rng.randrange(1, naux)
    ndx = rng.randrange(cnt + 1, 60)
    d = elfgen.pack("verdef", 0, little, dict(vd_version=1, vd_flags=0, vd_ndx=ndx, vd_cnt=cnt, vd_hash=7, vd_aux=20, vd_next=0))
    for k in range(naux):
        d += elfgen.pack("verdaux", 0, little, dict(vda_name=k, vda_next=8))
    c = "viter verdef %s %d 1 0 %s | all" % ("le" if little else "be", rng.choice((32, 64)), hx(d))
    _counts[c] = (1, len(d))
    return c


def gen(rng, tier):
    cases = []
    for cyc in range(1, 9):
        for named in (False, True):
            for cl in (32, 64):
                cases.append(sysv_cycle_case(rng, cyc, named, cl))
    for n in (1, 2, 5, 40):
        for cl in (32, 64):
            cases.append(gnu_nostop_case(rng, n, cl))
    m = 60 if tier == "quick" else 1000
    for _ in range(m):
        for kind in ("verdef", "verneed", "verdaux", "vernaux"):
            cases.append(viter_case(rng, kind, rng.random() < 0.5))
        cases.append(verdef_long_aux(rng, rng.random() < 0.5))
        cases.append(hashgen.corrupt_case(rng, rng.choice(["sysv", "gnu"]), tier))
        # garbage notes
        cases.append("notes %s %d %d %s | all" % (rng.choice(SPECS), rng.choice((32, 64)), rng.choice([0, 1, 4, 8, 3]), hx(rand_bytes(rng, rng.choice([11, 12, 13, 100, 600])))))
    # adversarial version tables through the query API
    for _ in range(20 if tier == "quick" else 600):
        n = rng.choice([2, 8, 30])
        vn = b"".join(elfgen.pack("verneed", 0, True, dict(vn_version=1, vn_cnt=0xffff, vn_file=1, vn_aux=rng.choice([16, 0, 32]), vn_next=rng.choice([16, 16, 1, 0])))
                      + elfgen.pack("vernaux", 0, True, dict(vna_hash=k, vna_flags=0, vna_other=rng.choice([2, 3, 9]), vna_name=1, vna_next=rng.choice([16, 0, 1])))
                      for k in range(n))
        vs = b"".join(enc(True, 2, v) for v in (2, 3, 9, 0x8003, 77))
        cases.append("symvert le 64 %s 1 %d 0 %s %s 0 0 0 x x | 0 | 1 | 2 | 3 | 4 | 5" % (hx(vs), rng.choice([n, 2**32 - 1, 0xffff]), hx(vn), hx(b"\0lib\0")))
    # medium tables: tie at 8 KiB
    for ty, sz in (("sym", 24), ("shdr", 64), ("u32", 4)):
        cases.append("table %s le 64 %s | len | nexts 3" % (ty, hx(rand_bytes(rng, 8192 + 3))))
    # provided Iterator adaptors on plain entry iterators must end too (step_by / skip / count after a partial walk)
    import props.C09 as C09
    for ty in ("shdr", "phdr", "sym", "rel", "rela", "dyn", "u32", "u64", "versym"):
        cl = rng.choice((32, 64))
        d = rand_bytes(rng, 5 * C02.size_of(ty, cl) + rng.randrange(0, 4))
        cases.append("table %s %s %d %s | len | iter | walk 0 0 5 2 | walk 0 0 0 0 6 1 | walk 0 0 3 0 | %s" % (ty, rng.choice(SPECS), cl, hx(d), C09.walk_script(rng, 5)))
    # 64 KiB worst cases, timed on the implementation only (the extracted model computes on binary
    # positives and would take minutes on the quadratic ones)
    del _big[:]
    n = 4096
    vn = b"".join(elfgen.pack("verneed", 0, True, dict(vn_version=1, vn_cnt=0xffff, vn_file=1, vn_aux=0, vn_next=16)) for _ in range(n))
    _big.append("symvert le 64 %s 1 %d 0 %s %s 0 0 0 x x | 0 | 1" % (hx(enc(True, 2, 2) * 2), 2**32 - 1, hx(vn), hx(b"\0lib\0")))
    va = b"".join(elfgen.pack("vernaux", 0, True, dict(vna_hash=1, vna_flags=0, vna_other=5, vna_name=1, vna_next=16)) for _ in range(n))
    _big.append("symvert le 64 %s 1 %d 0 %s %s 0 0 0 x x | 0 | 1" % (hx(enc(True, 2, 2) * 2), 2**32 - 1, hx(va), hx(b"\0lib\0")))
    nsym = 2700
    chains = [0] + [(k % (nsym - 1)) + 1 for k in range(1, nsym)]
    tab = le32(1) + le32(nsym) + le32(1) + b"".join(le32(v) for v in chains)
    _big.append("sysv le 64 %s %s %s | %s | %s" % (hx(tab), hx(bytes(24 * nsym)), hx(b"\0"), hx(b"x"), hx(b"")))
    _big.append("notes le 64 4 %s | all" % hx(bytes(65536)))
    _big.append("table shdr le 64 %s | len | nexts 2" % hx(rand_bytes(rng, 65536)))
    return cases


def project(line):
    return vlib.collapse_errors(line)


_default = default_oracle(project)


def oracle(case, impl, model):
    why = _default(case, impl, model)
    if why:
        return why
    if case in _counts:
        count, nbytes = _counts[case]
        first = vlib.split_top(project(impl)[1:-1])[0]
        if first.startswith("["):
            items = len(vlib.split_top(first[1:-1]))
            if items > count:
                return "the iterator yields %d records, its declared count is %d" % (items, count)
            if items > nbytes + 1:
                return "the iterator yields %d records from %d bytes" % (items, nbytes)
    return None


def post(cases, impl, model, a):
    out = []
    for c in _big:
        t0 = time.time()
        r = vlib.run_one(vlib.HARNESS_BIN, c, timeout=30)
        dt = time.time() - t0
        if r.startswith(("HANG", "PANIC", "CRASH")):
            out.append((c, "64 KiB input: implementation %s" % r.split(" ")[0]))
        elif dt > 10:
            out.append((c, "64 KiB input took %.1f s" % dt))
    return out


def nontrivial(case, impl):
    return "ok(" in impl or "none" in impl or "note(" in impl


def distribution(cases, impl, model):
    d = {"sysv_cycles": 0, "gnu_no_stop_bit": 0, "version_iterators": 0, "version_queries": 0, "notes": 0, "tables": 0,
         "timed_64KiB_cases": len(_big), "hangs": 0}
    for c, il in zip(cases, impl):
        k = c.split(" ")[0]
        d[{"sysv": "sysv_cycles", "gnu": "gnu_no_stop_bit", "viter": "version_iterators", "symvert": "version_queries",
           "notes": "notes", "table": "tables"}.get(k, "tables")] += 1
        d["hangs"] += il.startswith("HANG")
    return d
