"""C07 — stream parser and slice parser are observationally equivalent."""
from gen import *
import vlib, elfgen, filegen, fileq, streamgen

LEVEL = "proof"
RULE = ("generated and structurally corrupted objects (incl. header-only files of 52..64 bytes, files without section headers, "
        "permuted section tables, empty header tables declared at EOF), each opened through ElfStream over a scripted Read+Seek (plain, 1..7-byte chunked reads, "
        "Interrupted injections) and through ElfBytes; 4..14 queries in random order with repetition and with caller-made headers "
        "whose ranges share a start or an end (longer first and shorter first). Oracles: (metamorphic, implementation only) open "
        "success coincides, headers identical, each stream answer equals the slice answer whenever the slice answer is Ok (both "
        "directions for section data, symbol tables, versions, segment notes), scoped as the property says; (tie) stream "
        "implementation == stream model incl. the I/O trace, slice implementation == slice model. Non-trivial: a history on a file "
        "that opens.")
ASSUMPTIONS = ["Read::read_exact contract: delivers exactly the bytes at the reader's position or fails (chunking / Interrupted are absorbed by std)",
               "HashMap<(usize,usize),_> modelled as an association list with exact-key lookup"]
_pairs = {}


def gen(rng, tier):
    cases = []
    n = 330 if tier == "quick" else 3000
    for i in range(n):
        data, meta, info = streamgen.gen_file(rng, small=(i % 11 == 0))
        fam = filegen.fam_for(rng, meta["little"])
        qs = ["ehdr", "shdrs", "phdrs"] + streamgen.history(rng, data, meta, info, rng.randrange(4, 15))
        script = rng.choice(["plain", "plain", "chunk:1", "chunk:%d" % rng.randrange(2, 8), "chunk:%d,intr:%d" % (rng.randrange(1, 5), rng.randrange(2, 6))])
        sc = streamgen.stream_case(fam, data, script, [], qs)
        bc = streamgen.bytesc_case(fam, data, qs)
        _pairs[sc] = (bc, qs, data, fam)
        cases += [sc, bc]
        cv = streamgen.covering_variant(rng, data, meta) if i % 3 == 0 else None
        if cv:                    # overlapping symbol / string / version sections covering the whole file
            q3 = ["ehdr", "shdrs", "phdrs"] + cv[1]
            sc2, bc2 = streamgen.stream_case(fam, cv[0], "plain", [], q3), streamgen.bytesc_case(fam, cv[0], q3)
            _pairs[sc2] = (bc2, q3, cv[0], fam)
            cases += [sc2, bc2]
        for dv in streamgen.dynamic_path_variants(rng, data, meta):      # the dynamic table through the section only / the segment only
            q3 = ["ehdr", "shdrs", "phdrs", "dynamic"]
            sc2, bc2 = streamgen.stream_case(fam, dv, "plain", [], q3), streamgen.bytesc_case(fam, dv, q3)
            _pairs[sc2] = (bc2, q3, dv, fam)
            cases += [sc2, bc2]
        vv = streamgen.version_link_variant(rng, data, meta, info)
        if vv:                    # version sections naming different string tables
            q3 = ["ehdr", "shdrs", "phdrs"] + vv[1]
            sc2, bc2 = streamgen.stream_case(fam, vv[0], "plain", [], q3), streamgen.bytesc_case(fam, vv[0], q3)
            _pairs[sc2] = (bc2, q3, vv[0], fam)
            cases += [sc2, bc2]
        if i % 5 == 0:            # an empty program header table declared exactly at EOF (and one past it)
            for off in (len(data), len(data) + 1, len(data) - 1):
                d2 = elfgen.patch(elfgen.patch(elfgen.patch(data, meta, "ehdr", "e_phoff", off), meta, "ehdr", "e_phnum", 0),
                                  meta, "ehdr", "e_phentsize", meta["phsz"])
                sc2 = streamgen.stream_case(fam, d2, "plain", [], ["ehdr", "phdrs", "shdrs"])
                bc2 = streamgen.bytesc_case(fam, d2, ["ehdr", "phdrs", "shdrs"])
                _pairs[sc2] = (bc2, ["ehdr", "phdrs", "shdrs"], d2, fam)
                cases += [sc2, bc2]
        if i % 11 == 0:           # every truncation of a small file: open success must coincide
            for cut in range(0, len(data)):
                sc2 = streamgen.stream_case(fam, data[:cut], "plain", [], ["ehdr", "phdrs"])
                bc2 = streamgen.bytesc_case(fam, data[:cut], ["ehdr", "phdrs"])
                _pairs[sc2] = (bc2, ["ehdr", "phdrs"], data[:cut], fam)
                cases += [sc2, bc2]
    for k in range(2 if tier == "quick" else 20):       # PN_XNUM with no parsed section header
        for d2, meta in streamgen.xnum_variants(rng):
            q3 = ["ehdr", "shdrs", "phdrs", "shstr"]
            sc2, bc2 = streamgen.stream_case("any", d2, "plain", [], q3), streamgen.bytesc_case("any", d2, q3)
            _pairs[sc2] = (bc2, q3, d2, "any")
            cases += [sc2, bc2]
    return cases


def project(line):
    return vlib.collapse_errors(streamgen.strip_alloc(line)[0])


def oracle(case, impl, model):
    if impl.startswith(("PANIC", "HANG", "CRASH")):
        return "implementation %s" % impl.split(" ")[0]
    if project(impl) != project(model):
        return "implementation and model disagree"
    return None


def post(cases, impl, model, a):
    out = []
    idx = {c: k for k, c in enumerate(cases)}
    for sc, (bc, qs, data, fam) in _pairs.items():
        if sc not in idx or bc not in idx:
            continue
        sres, _ = streamgen.split_stream(project(impl[idx[sc]]))
        bres = project(impl[idx[bc]])
        why = streamgen.compare_stream_slice(qs, sres, bres, data, fam)
        if why:
            out.append((sc, why))
    return out


def nontrivial(case, impl):
    return case.startswith("stream") and impl.startswith("stream([")


def distribution(cases, impl, model):
    d = {"stream_histories": 0, "opened": 0, "chunked_or_interrupted": 0, "queries": 0, "stream_ok_answers": 0, "stream_err_answers": 0}
    for c, il in zip(cases, impl):
        if not c.startswith("stream"):
            continue
        d["stream_histories"] += 1
        d["opened"] += il.startswith("stream([")
        d["chunked_or_interrupted"] += " chunk:" in c[:c.index("|")]
        d["queries"] += c.count(" | ") - 1
        d["stream_err_answers"] += il.count("E:")
    return d


def tie_covered(case):
    """the independent oracle of this module decides the property on every case it generates"""
    return True
