"""C01 — slice parser is total: arbitrary bytes give Ok/Err/None, never a panic."""
import importlib
from gen import *
import vlib, elfgen, hashgen, filegen

LEVEL = "proof"
SHARD_TIMEOUT = 15
RULE = ("the union of the case generators of every other slice-parser property (integers, 17 structures, tables, string tables, "
        "notes, hash tables well-formed and corrupted, version iterators and tables, whole files with structured corruption) "
        "plus arguments drawn from {0, 1, len-1, len, len+1, 2^31, 2^32-1, 2^63, 2^64-1}: GNU hash headers with nshift in "
        "{31,32,33,40,63,64,96,2^32-1} x class with an all-ones bloom filter, nbloom = 0, nbucket = 0, note alignments "
        "{0, 2^63, 2^64-16 .. 2^64-1}, table indexes and string offsets at usize::MAX, version iterators started at any "
        "offset with any count, idents of every length 0..16, random bytes and random bytes after a valid ident. The harness "
        "is built with overflow-checks and debug-assertions ON and catches unwinding per call. Oracle: the implementation returned "
        "(no PANIC, no HANG), and the model did not predict a panic either. Non-trivial: a case whose top-level result is not a bare open/parse error.")
ASSUMPTIONS = ["usize is 64 bit (the harness asserts it); slice length <= isize::MAX"]
OTHERS = ["C02", "C04", "C09", "C15", "C14", "C11", "C12", "C13", "C16", "C03", "C05", "C20", "C10"]
EDGE = [0, 1, 2**31, 2**32 - 1, 2**63, 2**63 + 1, 2**64 - 16, 2**64 - 2, 2**64 - 1]


def gnu_shift_cases(rng):
    out = []
    for cl in (32, 64):
        for little in (True, False):
            names = [b"alpha", b"beta", b"gamma", b"\xff\xfe"]
            order = elfgen.gnu_sort(names, 2)
            symtab, strtab = elfgen.build_symtab(cl, little, order)
            for nshift in (0, 31, 32, 33, 40, 63, 64, 96, 2**31, 2**32 - 1):
                for nbloom, nbucket in ((1, 2), (0, 2), (1, 0), (2**32 - 1, 2), (1, 2**32 - 1)):
                    tab = bytearray(elfgen.build_gnu_hash(cl, little, order, 2, 1, 5, 1))
                    tab[0:4] = enc(little, 4, nbucket)
                    tab[8:12] = enc(little, 4, nbloom)
                    tab[12:16] = enc(little, 4, nshift)
                    w = 4 if cl == 32 else 8
                    tab[16:16 + w] = b"\xff" * w
                    qs = names + [b"absent", b""]
                    out.append("gnu %s %d %s %s %s | %s" % ("le" if little else "be", cl, hx(tab), hx(symtab), hx(strtab), " | ".join(hx(q) for q in qs)))
    return out


def gen(rng, tier):
    cases = []
    for name in OTHERS:
        mod = importlib.import_module("props." + name)
        sub = list(mod.gen(random_fork(rng), "quick"))
        sub = [c for c in sub if not c.startswith(("stream", "bytesc", "const", "layout", "tostr"))]
        k = 450 if tier == "quick" else 4000
        if len(sub) > k:
            sub = rng.sample(sub, k)
        cases += sub
    cases += gnu_shift_cases(rng)
    # every spec x integer kind at offsets whose end overflows usize (a spec may override a provided reader)
    for spec in SPECS:
        for kind in ("u8", "u16", "u32", "u64", "i32", "i64"):
            for off in (USIZE_MAX, USIZE_MAX - 1, USIZE_MAX - 3, USIZE_MAX - 7, 2**63, 9):
                cases.append("int %s %s %d %s" % (spec, kind, off, hx(bytes(range(1, 10)))))
    # notes with absurd alignments, after a header and name that parse
    for little in (True, False):
        data = elfgen.enc_notes(little, 4, [(1, b"GNU\0", bytes(16)), (5, b"XY\0", b"abc"), (3, b"GNU\0", b"12345")])
        for al in EDGE + [3, 7, 2**64 - 3, 2**64 - 4, 2**64 - 8, 2**63 - 1]:
            for cl in (32, 64):
                cases.append("notes %s %d %d %s | all | nexts 5" % ("le" if little else "be", cl, al, hx(data)))
                cases.append("notes %s %d %d %s | all" % ("le" if little else "be", cl, al, hx(data[:rng.randrange(0, len(data))])))
    # tables / strings at extreme indexes
    for ty in ("shdr", "phdr", "sym", "rel", "rela", "dyn", "u32", "u64", "versym"):
        d = rand_bytes(rng, rng.choice([0, 1, 7, 64, 200]))
        qs = " | ".join("get %d" % i for i in EDGE + [2**61, 2**62, 2**61 + 1, 2**60])
        cases.append("table %s %s %d %s | len | empty | iter | %s" % (ty, rng.choice(SPECS), rng.choice((32, 64)), hx(d), qs))
    for d in (b"", b"\0", b"abc", b"ab\0"):
        cases.append("strtab %s | %s" % (hx(d), " | ".join("raw %d | get %d" % (i, i) for i in EDGE)))
    # version iterators from any state
    for kind in ("verdef", "verneed", "verdaux", "vernaux"):
        for _ in range(25 if tier == "quick" else 400):
            d = rand_bytes(rng, rng.choice([0, 8, 16, 20, 64, 200]))
            if d and rng.random() < 0.7:
                d = enc(rng.random() < 0.5, 2, 1) + d[2:]
            cases.append("viter %s %s %d %d %d %s | all | nexts 4%s" % (kind, rng.choice(SPECS), rng.choice((32, 64)), rng.choice(EDGE + [0xffff]), rng.choice(EDGE + [len(d)]), hx(d),
                                                                       " | names %s" % hx(rand_bytes(rng, rng.choice([0, 3, 30]))) if kind == "verdaux" else ""))
    # idents of every length; random bytes; random bytes after a valid ident
    ident = bytes([0x7f, 0x45, 0x4c, 0x46, 2, 1, 1, 0, 0]) + bytes(7)
    for ln in range(0, 17):
        for fam in ("le", "be", "any"):
            cases.append("ident %s %s" % (fam, hx(ident[:ln])))
            cases.append("bytes %s %s | ehdr" % (fam, hx(ident[:ln])))
    for _ in range(150 if tier == "quick" else 5000):
        body = rand_bytes(rng, rng.choice([0, 10, 36, 48, 64, 200]))
        head = rng.choice([ident, bytes([0x7f, 0x45, 0x4c, 0x46, 1, 2, 1, 0, 0]) + bytes(7), rand_bytes(rng, 16)])
        data = head + body
        cases.append("bytes any %s | %s" % (hx(data), " | ".join(["ehdr", "shnum", "phnum", "shstr", "shdrs", "phdrs", "symtab", "dynsym", "dynamic",
                                                                   "common %s" % hx(b"x"), "symver 0 1", "secdata 0", "secdata 1", "segdata 0", "byname %s" % hx(b".text")])))
    return cases


def random_fork(rng):
    import random
    return random.Random(rng.getrandbits(64))


def oracle(case, impl, model):
    if impl.startswith(("PANIC", "HANG", "CRASH")) or "PANIC" in impl:
        return "implementation %s" % impl[:120]
    if "PANIC" in model:
        return "the model predicts a panic"
    return None


def nontrivial(case, impl):
    return not impl.startswith("E:")


def distribution(cases, impl, model):
    d = {}
    for c, il in zip(cases, impl):
        k = c.split(" ")[0]
        d[k] = d.get(k, 0) + 1
    d["results_with_errors"] = sum(1 for il in impl if "E:" in il)
    d["distinct_result_lines"] = len(set(impl))
    return d
