"""Shared helpers for the case generators."""
import struct

SPECS = ["le", "be", "anyle", "anybe", "native"]
USIZE_MAX = 2**64 - 1
BOUNDARY64 = [0, 1, 2, 0x7f, 0x80, 0xff, 0x100, 0x7fff, 0x8000, 0xffff, 2**31 - 1, 2**31, 2**32 - 1, 2**32,
              2**63 - 1, 2**63, 2**64 - 1]


def hx(b):
    return "x" + bytes(b).hex()


def spec_little(spec):
    return spec in ("le", "anyle", "native")


def enc(little, width, v):
    return int(v % (1 << (8 * width))).to_bytes(width, "little" if little else "big")


def rand_bytes(rng, n):
    return bytes(rng.getrandbits(8) for _ in range(n))


def interesting_value(rng, width):
    bits = 8 * width
    r = rng.random()
    if r < 0.35:
        cands = [0, 1, (1 << (bits - 1)) - 1, 1 << (bits - 1), (1 << bits) - 1, (1 << bits) - 2,
                 int.from_bytes(bytes(range(1, width + 1)), "big"), 0x80 << (bits - 8), 0xff]
        return rng.choice(cands) % (1 << bits)
    return rng.getrandbits(bits)


def default_oracle(project):
    def oracle(case, impl, model):
        if impl.startswith("PANIC") or impl.startswith("HANG") or impl.startswith("CRASH"):
            return "implementation %s" % impl.split(" ")[0]
        if project(impl) != project(model):
            return "implementation and model disagree"
        return None
    return oracle
