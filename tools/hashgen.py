"""Generators for C11/C12: well-formed hash sections over name sets, colliding absent names, corrupted tables."""
from gen import *
import elfgen, itertools


def name_set(rng, maxn=300):
    n = rng.choice([0, 1, 2, 3, 5, 8, 20, 60, maxn]) if rng.random() < 0.9 else rng.randrange(0, maxn + 1)
    names = elfgen.random_names(rng, n, ("ascii", "ascii", "high", "long"))
    if rng.random() < 0.3:
        names.append(b"")
    if rng.random() < 0.3 and names:
        names.append(rng.choice(names))          # duplicate
    # deliberate djb2 collisions: "ab" vs two-byte names with 33*a+b equal
    if rng.random() < 0.4:
        a, b = rng.randrange(1, 200), rng.randrange(40, 200)
        names += [bytes([a, b]), bytes([a + 1, b - 33])]
    # names on which the gABI elf_hash step h*16+c carries out of 32 bits (running 28-bit value >= 0xffffff1 followed by
    # a byte >= 0x10): a transcription over a wider word agrees with the 32-bit routine everywhere else
    if rng.random() < 0.3:
        names += [carry_name(rng) for _ in range(rng.choice([1, 2, 4]))]
    rng.shuffle(names)
    return names


def carry_name(rng):
    while True:
        t = t0 = rng.randrange(0xffffff1, 0x10000000)
        bs = []
        for i in range(6):                     # least significant digit first; digits are bytes 1..255
            ks = [b for b in range(1, 256) if b % 16 == t % 16 and b <= t]
            if not ks:
                break
            b = rng.choice(ks[:3] if rng.random() < 0.7 else ks)
            bs.append(b)
            t = (t - b) // 16
        if len(bs) == 6 and 1 <= t <= 255:
            bs.append(t)
            name = bytes(reversed(bs)) + bytes([rng.randrange(2**32 - 16 * t0, 0x100)]) + bytes(rng.randrange(1, 256) for _ in range(rng.choice([0, 0, 1, 3])))
            return name


def colliding_absent(rng, names, hashfn, nbucket, k=6):
    """absent names whose hash (or bucket) collides with present ones"""
    present = set(names)
    out = []
    target_h = {hashfn(n) for n in names}
    target_b = {hashfn(n) % nbucket for n in names} if nbucket else set()
    tries = 0
    while len(out) < k and tries < 4000:
        tries += 1
        cand = bytes(rng.randrange(1, 256) for _ in range(rng.choice([1, 2, 2, 3, 7])))
        if cand in present:
            continue
        h = hashfn(cand)
        if h in target_h or (h % nbucket in target_b if nbucket else False) or tries > 3000:
            out.append(cand)
    # same-hash absent for sysv: names differing only above the folded nibble are hard; 2-byte djb2 collision is easy
    for n in names[:3]:
        if len(n) == 2 and n[0] < 255 and n[1] >= 33:
            c = bytes([n[0] + 1, n[1] - 33])
            if c not in present:
                out.append(c)
    return out


def hash_case(rng, kind, tier):
    """returns (case line, expectations) for a well-formed table"""
    spec = rng.choice(SPECS)
    little = spec_little(spec)
    cl = rng.choice((32, 64))
    names = name_set(rng, 300 if tier == "thorough" else 80)
    if kind == "sysv":
        nbucket = rng.choice([1, 1, 2, 3, 7, max(1, len(names) // 2), len(names) + 1])
        order = list(names)
        symtab, strtab = elfgen.build_symtab(cl, little, order)
        tab = elfgen.build_sysv_hash(little, order, nbucket, rng.choice(["front", "front", "back", "random"]), rng)
        hashfn = elfgen.sysv_hash
        first = 1
    else:
        nbucket = rng.choice([1, 1, 2, 3, 7, max(1, len(names) // 2), len(names) + 1])
        symoffset = rng.choice([1, 1, 2, 5])
        unhashed = elfgen.random_names(rng, symoffset - 1)
        order = elfgen.gnu_sort(names, nbucket)
        symtab, strtab = elfgen.build_symtab(cl, little, unhashed + order)
        nbloom = rng.choice([1, 2, 4, 8, 16, 64])
        shift = rng.randrange(0, 32)
        tab = elfgen.build_gnu_hash(cl, little, order, nbucket, nbloom, shift, symoffset)
        hashfn = elfgen.gnu_hash
        first = symoffset
    spanning = []
    if len(order) >= 2:          # a query with an interior NUL that reads like two adjacent string-table entries: never a symbol's name
        for _ in range(2):
            k = rng.randrange(0, len(order) - 1)
            spanning += [order[k] + b"\0" + order[k + 1], order[k] + b"\0"]
    queries = list(dict.fromkeys(rng.sample(order, min(len(order), 12)) + colliding_absent(rng, order, hashfn, nbucket) + spanning + [b"absent_name", b""]))
    exp = []
    for q in queries:
        idxs = [first + k for k, n in enumerate(order) if n == q]
        exp.append(idxs)
    line = "%s %s %d %s %s %s | %s" % (kind, spec, cl, hx(tab), hx(symtab), hx(strtab), " | ".join(hx(q) for q in queries))
    return line, (queries, exp)


def forged_span_case(rng):
    """a .gnu.hash whose bloom filter passes everything and whose chain word for symbol j carries the hash of the query
    name_j + NUL + name_(j+1) (two adjacent string-table entries read as one): a sound lookup compares the whole name"""
    spec = rng.choice(SPECS)
    little = spec_little(spec)
    cl = rng.choice((32, 64))
    names = elfgen.random_names(rng, rng.choice([2, 3, 5]), ("ascii",))
    order = elfgen.gnu_sort(names, 1)
    symtab, strtab = elfgen.build_symtab(cl, little, order)
    tab = bytearray(elfgen.build_gnu_hash(cl, little, order, 1, 1, rng.randrange(0, 32), 1))
    w = 4 if cl == 32 else 8
    tab[16:16 + w] = b"\xff" * w                       # bloom: every bit set
    j = rng.randrange(0, len(order) - 1)
    q = order[j] + b"\0" + order[j + 1]
    cpos = 16 + w + 4 + 4 * j                           # header, 1 bloom word, 1 bucket, chain[j]
    old = int.from_bytes(tab[cpos:cpos + 4], "little" if little else "big")
    tab[cpos:cpos + 4] = enc(little, 4, (elfgen.gnu_hash(q) & ~1 & 0xffffffff) | (old & 1))
    return "gnu %s %d %s %s %s | %s | %s" % (spec, cl, hx(tab), hx(symtab), hx(strtab), hx(q), hx(order[j + 1]))


def corrupt_case(rng, kind, tier):
    line, _ = hash_case(rng, kind, "quick")
    toks = line.split(" ")
    # corrupt one of: table, symtab, strtab
    which = rng.choice([3, 3, 3, 4, 5])
    b = bytearray(bytes.fromhex(toks[which][1:]))
    if b:
        r = rng.random()
        if r < 0.4:
            for _ in range(rng.choice([1, 2, 4])):
                b[rng.randrange(len(b))] = rng.choice([0, 1, 0xff, 0x80, rng.randrange(256)])
        elif r < 0.6:
            pos = 4 * rng.randrange(0, max(1, min(len(b) // 4, 6)))
            v = rng.choice([0, 1, 2**31, 2**32 - 1, 31, 32, 33, 64, len(b)])
            b[pos:pos + 4] = enc(spec_little(toks[1]), 4, v)
        elif r < 0.8:
            b = b[:rng.randrange(0, len(b))]
        else:
            b = bytearray(rand_bytes(rng, rng.randrange(0, 80)))
    toks[which] = hx(b)
    return " ".join(toks)
