#!/usr/bin/env python3
"""Prints the markdown table of DESIGN.md section 15 from seeded/*/meta.json."""
import json, os, re
S = os.path.join(os.path.dirname(os.path.dirname(os.path.abspath(__file__))), "seeded")


def title(meta, name):
    k = meta.get("change_no")
    if k is None:
        k = int(name.split("-")[1])
        k = 1 if k % 2 == 1 else 2    # every property sub-agent wrote two changes: stored as (1,2), (3,4), (5,6), ...
    r = meta.get("agent_readme", "")
    for l in r.splitlines():
        m = re.match(r"^#+\s*(?:Change|Patch|Mutation|Seeded change)\s*%d\b\s*[-:—(]*\s*(.*)$" % k, l.strip(), flags=re.I)
        if m and m.group(1):
            t = re.sub(r"[`*]", "", m.group(1))
            t = re.sub(r"\(?(patch|demo)\d\.(diff|rs)[,)]*\s*", "", t).strip(" -—:()")
            return t[:110]
    return ""


rows = []
for n in sorted(os.listdir(S)):
    p = os.path.join(S, n, "meta.json")
    if not os.path.exists(p):
        continue
    m = json.load(open(p))
    cb = m.get("caught_by", {})
    own = m.get("property") or n.split("-")[0]
    catchers = [c for c, v in sorted(cb.items()) if v.get("caught")]
    inp = [c for c in catchers if cb[c].get("with_failing_input")]
    first = cb.get(own) if cb.get(own, {}).get("caught") else (cb[catchers[0]] if catchers else None)
    verdict = ""
    if first:
        rp = first.get("replay") or {}
        verdict = (rp.get("oracle") or rp.get("broken") or "") if isinstance(rp, dict) else ""
    if not catchers and m.get("note"):
        verdict = m["note"]
    rows.append("| %s | %s | %s | %s | %s |" % (n, title(m, n), ", ".join(catchers) or "—", ", ".join(inp) or "—", verdict[:(110 if catchers else 600)].replace("|", "/")))
print("| change | what it does | caught by | with a concrete failing input | verdict of the first catcher |\n|---|---|---|---|---|")
print("\n".join(rows))
