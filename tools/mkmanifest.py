#!/usr/bin/env python3
"""Regenerates MANIFEST.json from tools/manifest_data.py (kept valid at all times)."""
import json, os, sys
sys.path.insert(0, os.path.dirname(os.path.abspath(__file__)))
from manifest_data import CHECKS, NOT_APPLICABLE, NOTES

props = [json.loads(l)["id"] for l in open(os.path.join(os.path.dirname(__file__), "..", "properties.jsonl"))]
checks = []
for pid in props:
    if pid in CHECKS:
        c = CHECKS[pid]
        checks.append({
            "property_id": pid,
            "quick_cmd": "./check %s --tier quick" % pid,
            "thorough_cmd": "./check %s --tier thorough" % pid,
            "evidence_file": "/verif/evidence/%s.json" % pid,
            "replay_cmd_template": "./check %s --replay {path}" % pid,
            "engine": "coq-model+correspondence",
            "level_claimed": {"category": c.get("category", "proof"), "text": c["text"], "design_ref": c.get("design_ref", "DESIGN.md section 5 " + pid)},
            "level_note": c["note"],
            "technique": c["technique"],
        })
na = [{"property_id": p, "reason": NOT_APPLICABLE[p]} for p in props if p not in CHECKS]
m = {
    "version": 1,
    "setup_cmd": "./setup.sh",
    "hooks": {"guard": "elf_verif", "enable": "RUSTFLAGS=\"--cfg elf_verif\" (no hook is needed: everything is observed through the public API)",
              "baseline_off_cmd": "cd /repo && cargo test --workspace --no-fail-fast --offline", "source_commits": [], "add_only": True},
    "engines": [{"name": "coq-model+correspondence", "path": "/verif/check",
                 "serves_properties": [p for p in props if p in CHECKS],
                 "kind_free_text": "Coq 8.16.1 theorems about a hand-written executable Gallina model (coq/), tied to /repo on every run by extraction to OCaml and a differential correspondence check against a Rust harness built from /repo's working tree; C19 additionally by a translator regenerating Coq tables from the source"}],
    "checks": checks,
    "notes": NOTES,
    "not_applicable": na,
}
with open(os.path.join(os.path.dirname(__file__), "..", "MANIFEST.json"), "w") as f:
    json.dump(m, f, indent=1)
    f.write("\n")
print("MANIFEST.json: %d checks, %d not_applicable" % (len(checks), len(na)))
