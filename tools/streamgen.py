"""Cases over the stream parser shared by C07 (stream == slice), C08 (bounded memory / lazy I/O) and C17 (faults)."""
import re
from gen import *
import elfgen, filegen, fileq, vlib
import props.C02 as C02


def strip_alloc(line):
    m = re.match(r"^(.*) maxalloc=(\d+)$", line)
    return (m.group(1), int(m.group(2))) if m else (line, None)


def split_stream(line):
    """'stream(<results> [trace])' -> (results text, trace list)"""
    body, _ = strip_alloc(line)
    if not body.startswith("stream("):
        return body, []
    inner = body[len("stream("):-1]
    parts = vlib.split_top(inner)
    trace = vlib.split_top(parts[-1][1:-1]) if parts[-1].startswith("[") else []
    return " ".join(parts[:-1]), trace


def gen_file(rng, small=False):
    """(data, meta, info)"""
    r = rng.random()
    if small or r < 0.12:
        cl = rng.choice((32, 64))
        e = elfgen.Elf(cl, rng.random() < 0.5)
        e.with_shdrs = rng.random() < 0.4
        if rng.random() < 0.4:
            e.seg(elfgen.PT["LOAD"], off=0, filesz=8, align=1)
        if e.with_shdrs and rng.random() < 0.5:
            e.add(b".t", 1, rand_bytes(rng, 3))
        e.layout = rng.choice(["hdr,ph,data,sh", "hdr,sh,ph,data"])
        data, meta = e.build(rng)
        return data, meta, {}
    e, info = elfgen.sample_elf(rng)
    e.with_shdrs = rng.random() < 0.92
    if rng.random() < 0.3:
        dup_version_sections(rng, e, info)
    if rng.random() < 0.15:          # undecodable / odd names early in the table: a by-name scan must skip them, not stop
        for nm in rng.sample([b"\xff\xfe", b".caf\xc3\xa9", b"", b".tex", b".text.hot"], 2):
            e.add(nm, 1, rand_bytes(rng, 3))
        e.permute(rng)               # (keeps sh_link / segment references pointing at the same sections)
    if rng.random() < 0.3:
        e.permute(rng)
    data, meta = e.build(rng, pad=rng.choice([0, 0, 0, 8, 64]))
    if rng.random() < 0.2:
        data = relink(rng, data, meta)
    if rng.random() < 0.12:
        data = odd_shstrtab(rng, data, meta)
    if rng.random() < 0.12:          # relocation sections whose sh_entsize is not the structure size: the typed views ignore it alike
        o_ = fileq.py_open("any", data)
        for k, h in enumerate((fileq.py_shdrs(o_, data) if o_ else None) or []):
            if h and h["sh_type"] in (4, 9):
                data = elfgen.patch(data, meta, "shdr", "sh_entsize", rng.choice([0, 1, 8, 12, 16, 24, 25]), k)
    if rng.random() < 0.35:
        data = filegen.corrupt(rng, data, meta)
    return data, meta, info


def relink(rng, data, meta):
    """each linking section names its own string table: re-point sh_link of the symbol, version and dynamic sections at
    another string-table section (sometimes at any index)"""
    o = fileq.py_open("any", data)
    hs = fileq.py_shdrs(o, data) if o else None
    if not hs:
        return data
    strtabs = [k for k, h in enumerate(hs) if h and h["sh_type"] == 3]
    for k, h in enumerate(hs):
        if h and h["sh_type"] in (2, 11, 6, 0x6ffffffd, 0x6ffffffe, 0x6fffffff) and rng.random() < 0.5:
            tgt = rng.choice(strtabs) if strtabs and rng.random() < 0.8 else rng.randrange(0, len(hs) + 1)
            data = elfgen.patch(data, meta, "shdr", "sh_link", tgt, k)
    return data


def history(rng, data, meta, info, nq):
    cl = meta["cl"]
    nsh, nph = meta["nsh"], meta["nph"]
    pool = ["shstr", "symtab", "dynsym", "dynamic", "symver 0 1 2 3 %d" % (info.get("nversyms", 3) + 2),
            "byname %s" % hx(rng.choice([b".text", b".dynsym", b".shstrtab", b".nope", b".note.x"]))]
    for k in range(nsh):
        pool += ["secdata %d" % k, "strtab %d 0 1 %d" % (k, rng.randrange(0, 9)), "rels %d" % k, "relas %d" % k, "notes %d" % k]
    for j in range(nph):
        pool.append("segnotes %d" % j)
    qs = [rng.choice(pool) for _ in range(nq)]
    # ranges sharing a start or an end, longer first / shorter first (cache keyed by the whole range)
    ln = len(data)
    if ln > 40:
        a = rng.randrange(0, ln - 20)
        l1, l2 = rng.randrange(10, 20), rng.randrange(1, 10)
        mk = lambda off, size: "secdata " + fileq.hdr_tokens("shdr", cl, dict(sh_name=0, sh_type=1, sh_flags=0, sh_addr=0, sh_offset=off, sh_size=size,
                                                                               sh_link=0, sh_info=0, sh_addralign=1, sh_entsize=0))
        pairs = [[mk(a, l1), mk(a, l2)], [mk(a, l2), mk(a, l1)], [mk(a, l1), mk(a + l1 - l2, l2)], [mk(a, l1), mk(a, l1)], [mk(a, 0), mk(a, l2), mk(a + l2, 0)]]
        pairs.append([mk(ln, 0), mk(ln - 1, 1), mk(ln, 1)])      # empty range exactly at EOF, last byte, one past
        for p in rng.sample(pairs, 2):
            pos = rng.randrange(0, len(qs) + 1)
            qs[pos:pos] = p
    # repeat some queries (served from the cache)
    for q in rng.sample(qs, min(len(qs), 3)):
        qs.append(q)
    return qs


def stream_case(fam, data, script, faults, qs):
    return "stream %s %s %s | faults%s | %s" % (fam, hx(data), script, "".join(" %d %d" % f for f in faults), " | ".join(qs)) if qs else \
        "stream %s %s %s | faults%s" % (fam, hx(data), script, "".join(" %d %d" % f for f in faults))


def bytesc_case(fam, data, qs):
    return "bytesc %s %s | %s" % (fam, hx(data), " | ".join(qs)) if qs else "bytesc %s %s | ehdr" % (fam, hx(data))


def scoped_out(q, data, o):
    """C07's query-level clause does not cover: sections flagged SHF_COMPRESSED (the section the query resolves to)
    and files whose section header table is present but empty"""
    if o is None:
        return True
    shdrs = fileq.py_shdrs(o, data)
    if shdrs is not None and len(shdrs) == 0:
        return True
    t = q.split(" ")
    if t[0] in ("secdata", "strtab", "rels", "relas", "notes"):
        if len(t) >= 11 and t[0] != "strtab":
            return int(t[3]) & 0x800 != 0
        if shdrs is None:
            return False
        i = int(t[1])
        if i < len(shdrs) and shdrs[i] is not None:
            return shdrs[i]["sh_flags"] & 0x800 != 0
        return False
    if t[0] == "dynamic" and shdrs:
        for h in shdrs:
            if h and h["sh_type"] == 6:
                return h["sh_flags"] & 0x800 != 0
    return False


BOTH_WAYS = ("secdata", "symtab", "dynsym", "symver", "segnotes")


def compare_stream_slice(qs, sres, bres, data, fam):
    """metamorphic oracle on the implementation's own outputs. sres/bres: result texts (error kinds collapsed)"""
    s_open = not sres.startswith("E")
    b_open = not bres.startswith("E")
    if s_open != b_open:
        return "open_stream %s but minimal_parse %s on the same bytes" % ("succeeds" if s_open else "fails", "succeeds" if b_open else "fails")
    if not s_open:
        return None
    si = vlib.split_top(sres[1:-1])
    bi = vlib.split_top(bres[1:-1])
    o = fileq.py_open(fam, data)
    for k, q in enumerate(qs):
        if k >= len(si) or k >= len(bi):
            break
        a, b = si[k], bi[k]
        kind = q.split(" ")[0]
        if kind in ("ehdr", "shdrs", "phdrs"):
            if a != b:
                return "%s differs between stream and slice: %s vs %s" % (kind, a[:150], b[:150])
            continue
        if scoped_out(q, data, o):
            continue
        if b != "E" and a != b:
            return "query #%d %s: slice gives %s, stream gives %s" % (k, q[:60], b[:150], a[:150])
        if kind in BOTH_WAYS and a != "E" and b == "E":
            return "query #%d %s: stream succeeds (%s) where the slice parser fails" % (k, q[:60], a[:150])
    return None


def covering_variant(rng, data, meta):
    """the sections a multi-range query holds at once (symbol table + its string table, the version sections + theirs)
    made to overlap and to cover (almost) the whole file, so the bytes cached by one query exceed the stream's length.
    Returns (data, queries) or None"""
    o = fileq.py_open("any", data)
    hs = fileq.py_shdrs(o, data) if o else None
    if not hs:
        return None
    ln = len(data)
    d2, hit = data, False
    for k, h in enumerate(hs):
        if not h:
            continue
        if h["sh_type"] in (2, 11, 0x6fffffff) and h["sh_entsize"]:
            es = h["sh_entsize"]
            d2 = elfgen.patch(d2, meta, "shdr", "sh_offset", 0, k)
            d2 = elfgen.patch(d2, meta, "shdr", "sh_size", (ln - rng.choice([0, 1, 16])) // es * es, k)
            lk = h["sh_link"]
            if lk < len(hs) and hs[lk]:
                d2 = elfgen.patch(d2, meta, "shdr", "sh_offset", rng.choice([0, 0, 1]), lk)
                d2 = elfgen.patch(d2, meta, "shdr", "sh_size", ln - 1, lk)
            hit = True
        elif h["sh_type"] in (0x6ffffffd, 0x6ffffffe) and rng.random() < 0.5:
            d2 = elfgen.patch(d2, meta, "shdr", "sh_offset", 0, k)
            d2 = elfgen.patch(d2, meta, "shdr", "sh_size", ln, k)
            hit = True
    if not hit:
        return None
    qs = ["symtab", "dynsym", "symver 0 1 2", "symtab", "dynsym"]
    rng.shuffle(qs)
    return d2, qs


def version_link_variant(rng, data, meta, info):
    """.gnu.version_d and .gnu.version_r naming different string tables (each through its own sh_link); all version
    indexes queried. Returns (data, queries) or None"""
    o = fileq.py_open("any", data)
    hs = fileq.py_shdrs(o, data) if o else None
    if not hs:
        return None
    strtabs = [k for k, h in enumerate(hs) if h and h["sh_type"] == 3]
    vs = [k for k, h in enumerate(hs) if h and h["sh_type"] in (0x6ffffffd, 0x6ffffffe)]
    if len(strtabs) < 2 or not vs:
        return None
    k = rng.choice(vs)
    others = [t for t in strtabs if t != hs[k]["sh_link"]]
    d2 = elfgen.patch(data, meta, "shdr", "sh_link", rng.choice(others) if rng.random() < 0.85 else len(hs) + 3, k)
    return d2, ["symver " + " ".join(str(i) for i in range(info.get("nversyms", 3) + 2))]


def xnum_variants(rng):
    """PN_XNUM (e_phnum = 0xffff) where no section header was parsed: (a) e_shoff = 0 -- both parsers then decode a
    pseudo section header on top of the file header (for ELF32 its sh_info is the e_phoff field); (b) extended section
    numbering declaring zero sections (shdr[0].sh_size = 0) while shdr[0].sh_info counts the segments.
    Returns [(data, meta)]"""
    out = []
    for cl in (32, 64):
        e = elfgen.Elf(cl, rng.random() < 0.5)
        e.with_shdrs = False
        e.seg(elfgen.PT["LOAD"], off=0, filesz=8, align=1)
        e.layout = "hdr,ph,data,sh"
        data, meta = e.build(rng)
        d2 = elfgen.patch(data, meta, "ehdr", "e_phnum", 0xffff)
        d2 = d2 + bytes(4096)                  # room for the e_phoff-many entries the pseudo header declares
        out.append((d2, meta))
    e = elfgen.Elf(rng.choice((32, 64, 64)), rng.random() < 0.5)
    e.seg(elfgen.PT["LOAD"], off=0, filesz=8, align=1)
    e.seg(elfgen.PT["NOTE"], off=0, filesz=0, align=4)
    e.add(b".t", 1, b"abc")
    data, meta = e.build(rng)
    d3 = elfgen.patch(elfgen.patch(data, meta, "ehdr", "e_shnum", 0), meta, "ehdr", "e_phnum", 0xffff)
    sizes = [(0, meta["nph"]), (0, 1), (meta["nsh"], meta["nph"])]
    if meta["cl"] == 64:          # a count that only fits in 64 bits: both parsers must reject it alike
        sizes += [(2**32 + meta["nsh"], meta["nph"]), (2**32, meta["nph"])]
    for size, info_ in sizes:
        d4 = elfgen.patch(elfgen.patch(d3, meta, "shdr", "sh_size", size, 0), meta, "shdr", "sh_info", info_, 0)
        out.append((d4, meta))
    return out


def dup_version_sections(rng, e, info):
    """a second section of one of the GNU version kinds (with its own strings), anywhere in the table: which one a parser
    uses when a kind occurs twice must be the same through both parsers"""
    if not info.get("nversyms"):
        return False
    needs2 = [(b"libz.so.1", [(b"ZLIB_1.2", 0x4d2, 0, 2), (b"ZLIB_1.3", 0x4d3, 0, 3)])]
    defs2 = [(1, 1, 0x111, [b"other.so"]), (2, 0, 0x222, [b"OTHER_1"]), (3, 0, 0x333, [b"OTHER_2"])]
    vn, vd, vs = elfgen.build_versions(e.little, needs2, defs2, False, rng)
    vsi = e.add(b".verstr2", elfgen.SHT["STRTAB"], vs)
    kind = rng.choice(["n", "d", "s"])
    if kind == "n":
        e.add(b".gnu.version_r2", elfgen.SHT["GNU_VERNEED"], vn, link=vsi, info=len(needs2), align=4, flags=2)
    elif kind == "d":
        e.add(b".gnu.version_d2", elfgen.SHT["GNU_VERDEF"], vd, link=vsi, info=len(defs2), align=4, flags=2)
    else:
        e.add(b".gnu.version2", elfgen.SHT["GNU_VERSYM"], b"".join(enc(e.little, 2, rng.choice([1, 2, 3])) for _ in range(info["nversyms"])), link=0, entsize=2, align=2, flags=2)
    return True


def odd_shstrtab(rng, data, meta):
    """the section-name string table's own header says SHT_NOBITS (while the bytes are there), or carries SHF_COMPRESSED,
    or is any other type: the name table is read from the header's byte range whatever the type says"""
    o = fileq.py_open("any", data)
    hs = fileq.py_shdrs(o, data) if o else None
    if not hs:
        return data
    sx = o["eh"]["e_shstrndx"]
    if not (0 < sx < len(hs)) or not hs[sx]:
        return data
    r = rng.random()
    if r < 0.5:
        return elfgen.patch(data, meta, "shdr", "sh_type", 8, sx)
    if r < 0.75:
        return elfgen.patch(data, meta, "shdr", "sh_flags", hs[sx]["sh_flags"] | 0x800, sx)
    return elfgen.patch(data, meta, "shdr", "sh_type", rng.choice([0, 1, 2, 7]), sx)


def dynamic_path_variants(rng, data, meta):
    """.dynamic reachable two ways: section headers present but no SHT_DYNAMIC section (its header retyped) while the
    PT_DYNAMIC segment stays; or the segment retyped while the section stays. Returns [data]"""
    o = fileq.py_open("any", data)
    hs = fileq.py_shdrs(o, data) if o else None
    ps = fileq.py_phdrs(o, data) if o else None
    out = []
    ds = [k for k, h in enumerate(hs or []) if h and h["sh_type"] == 6]
    dp = [j for j, p in enumerate(ps or []) if p and p["p_type"] == 2]
    if ds and dp:
        out.append(elfgen.patch(data, meta, "shdr", "sh_type", 1, ds[0]))
        out.append(elfgen.patch(data, meta, "phdr", "p_type", 1, dp[0]))
    return out
