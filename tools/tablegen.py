#!/usr/bin/env python3
"""Translator: re-reads /repo/src on every run and regenerates
   coq/Gen/AbiConsts.v  every integer `pub const` of abi.rs (constant expressions evaluated)
   coq/Gen/ToStr.v      every match arm of every *_to_str function of to_str.rs
   coq/Gen/CStructs.v   every #[repr(C)] struct with field names and types
and harness/src/gen_tables.rs, which makes rustc print what IT thinks each constant, size_of,
offset_of! and to_str result is (the translator is validated against that on every run).
Files are rewritten only when their content changes."""
import os, re, sys

VERIF = os.path.dirname(os.path.dirname(os.path.abspath(__file__)))
REPO = os.environ.get("VERIF_REPO", "/repo")
INT_TYPES = {"u8": (0, 2**8 - 1), "u16": (0, 2**16 - 1), "u32": (0, 2**32 - 1), "u64": (0, 2**64 - 1),
             "usize": (0, 2**64 - 1), "i8": (-2**7, 2**7 - 1), "i16": (-2**15, 2**15 - 1),
             "i32": (-2**31, 2**31 - 1), "i64": (-2**63, 2**63 - 1), "isize": (-2**63, 2**63 - 1)}


class TranslateError(Exception):
    pass


def strip_comments(src):
    src = re.sub(r"/\*.*?\*/", "", src, flags=re.S)
    return re.sub(r"//[^\n]*", "", src)


def rust_eval(expr, env):
    e = expr.strip()
    e = re.sub(r"\b(0x[0-9a-fA-F_]+|0b[01_]+|0o[0-7_]+|\d[\d_]*)(u8|u16|u32|u64|usize|i8|i16|i32|i64|isize)?\b",
               lambda m: m.group(1).replace("_", ""), e)
    e = re.sub(r"\bas\s+\w+", "", e)
    e = re.sub(r"\babi::", "", e)
    if not re.fullmatch(r"[\w\s()+\-*|&<>^!x]+", e):
        raise TranslateError("unsupported constant expression: %r" % expr)
    e = e.replace("!", "~")
    try:
        return int(eval(e, {"__builtins__": {}}, dict(env)))
    except Exception as ex:
        raise TranslateError("cannot evaluate %r: %s" % (expr, ex))


def parse_consts(src):
    """-> ([(name, type, value)], [skipped non-integer names])"""
    src = strip_comments(src)
    consts, skipped, env = [], [], {}
    for m in re.finditer(r"\bpub\s+const\s+(\w+)\s*:\s*([^=]+?)\s*=\s*(.+?);", src, flags=re.S):
        name, ty, ex = m.group(1), m.group(2).strip(), m.group(3)
        if ty not in INT_TYPES:
            skipped.append(name)
            continue
        v = rust_eval(ex, env)
        lo, hi = INT_TYPES[ty]
        if not lo <= v <= hi:
            raise TranslateError("constant %s = %d does not fit %s" % (name, v, ty))
        env[name] = v
        consts.append((name, ty, v))
    return consts, skipped


def split_arms(body, fn):
    """split the inside of a match into (pattern, body) pairs; bodies may be braced"""
    i, n, out = 0, len(body), []
    while True:
        while i < n and body[i] in " \t\r\n,":
            i += 1
        if i >= n:
            return out
        j = body.find("=>", i)
        if j < 0:
            raise TranslateError("%s: arm without =>" % fn)
        pat = body[i:j].strip()
        k = j + 2
        while k < n and body[k] in " \t\r\n":
            k += 1
        if k < n and body[k] == "{":
            e = body.find("}", k)
            rhs = body[k + 1:e].strip()
            i = e + 1
        else:
            # up to the next top-level comma (string literals may contain commas)
            e, instr = k, False
            while e < n and (instr or body[e] != ","):
                if body[e] == '"' and body[e - 1] != "\\":
                    instr = not instr
                e += 1
            rhs = body[k:e].strip()
            i = e + 1
        out.append((pat, rhs))


def parse_tostr(src):
    """-> [(fn, argtype, [(const name, string)])] for every `pub fn f(x: T) -> Option<&'static str>`"""
    src = strip_comments(src)
    fns = []
    for m in re.finditer(r"pub\s+fn\s+(\w+)\s*\(\s*\w+\s*:\s*(\w+)\s*\)\s*->\s*Option<&'static\s+str>\s*\{(.*?)\n\}", src, flags=re.S):
        fn, ty, body = m.group(1), m.group(2), m.group(3)
        mm = re.search(r"match\s+\w+\s*\{(.*)\}", body, flags=re.S)
        if not mm:
            raise TranslateError("to_str function %s: no match" % fn)
        arms = []
        default_seen = False
        for pat, rhs in split_arms(mm.group(1), fn):
            ms = re.fullmatch(r"Some\(\s*\"((?:[^\"\\]|\\.)*)\"\s*\)", rhs)
            if rhs != "None" and not ms:
                raise TranslateError("%s: unsupported arm body %r" % (fn, rhs))
            s = ms.group(1) if ms else None
            if pat == "_":
                if rhs != "None":
                    raise TranslateError("%s: default arm is not None" % fn)
                default_seen = True
                continue
            if default_seen:
                raise TranslateError("%s: arm after the default arm" % fn)
            names = [p.strip() for p in pat.split("|")]
            for n in names:
                mn = re.fullmatch(r"(?:abi::)?(\w+)", n)
                if not mn:
                    raise TranslateError("%s: unsupported pattern %r" % (fn, pat))
                if rhs == "None":
                    raise TranslateError("%s: non-default arm returning None" % fn)
                arms.append((mn.group(1), s))
        if not default_seen:
            raise TranslateError("%s: no default arm" % fn)
        fns.append((fn, ty, arms))
    return fns


def parse_structs():
    """-> [(file, struct, [(field, type)])] for every #[repr(C)] struct under src/"""
    out = []
    for f in sorted(os.listdir(os.path.join(REPO, "src"))):
        if not f.endswith(".rs"):
            continue
        src = strip_comments(open(os.path.join(REPO, "src", f)).read())
        for m in re.finditer(r"#\[repr\(C\)\]\s*(?:#\[[^\]]*\]\s*)*pub\s+struct\s+(\w+)\s*\{(.*?)\}", src, flags=re.S):
            fields = []
            for fm in re.finditer(r"pub\s+(\w+)\s*:\s*([^,]+?)\s*,", m.group(2) + ",", flags=re.S):
                fields.append((fm.group(1), re.sub(r"\s+", "", fm.group(2))))
            out.append((f[:-3], m.group(1), fields))
    return out


def parse_aliases():
    """`pub type X = T;` declarations under src/ -> {X: T} (so a struct written with <elf.h>-style typedef names translates)"""
    out = {}
    for f in sorted(os.listdir(os.path.join(REPO, "src"))):
        if f.endswith(".rs"):
            src = strip_comments(open(os.path.join(REPO, "src", f)).read())
            for m in re.finditer(r"^\s*(?:pub(?:\([^)]*\))?\s+)?type\s+(\w+)\s*=\s*([^;]+?)\s*;", src, flags=re.M):
                out[m.group(1)] = re.sub(r"\s+", "", m.group(2))
    return out


_ALIASES = None


def field_type(ty, env):
    """-> ('U'|'I', width) or ('Arr', n)"""
    global _ALIASES
    if _ALIASES is None:
        _ALIASES = parse_aliases()
    for _ in range(8):                      # resolve (possibly path-qualified, possibly chained) type aliases
        base = ty.split("::")[-1]
        if ty not in ("u8", "u16", "u32", "u64", "i8", "i16", "i32", "i64") and base in _ALIASES:
            ty = _ALIASES[base]
        else:
            break
    m = re.fullmatch(r"\[u8;(.+)\]", ty)
    if m:
        return ("Arr", rust_eval(m.group(1), env))
    if ty in ("u8", "u16", "u32", "u64"):
        return ("U", int(ty[1:]) // 8)
    if ty in ("i8", "i16", "i32", "i64"):
        return ("I", int(ty[1:]) // 8)
    raise TranslateError("unsupported field type %s" % ty)


def write_if_changed(path, txt):
    old = open(path).read() if os.path.exists(path) else None
    if old != txt:
        os.makedirs(os.path.dirname(path), exist_ok=True)
        with open(path, "w") as f:
            f.write(txt)
        return True
    return False


HDR = "(* GENERATED by tools/tablegen.py from /repo/src on every run -- do not edit *)\n"


def coq_str(s):
    return '"' + s.replace('"', '""') + '"'


def gen_harness():
    """harness/src/gen_tables.rs from signatures only (robust: no expression or arm parsing), so that rustc's own
    view stays available when the translation of a table fails"""
    abi = strip_comments(open(os.path.join(REPO, "src", "abi.rs")).read())
    names = [(m.group(1), m.group(2)) for m in re.finditer(r"\bpub\s+const\s+(\w+)\s*:\s*(\w+)\s*=", abi) if m.group(2) in INT_TYPES]
    ts = strip_comments(open(os.path.join(REPO, "src", "to_str.rs")).read())
    strfns = re.findall(r"pub\s+fn\s+(\w+)\s*\(\s*\w+\s*:\s*(\w+)\s*\)\s*->\s*Option<&'static\s+str>", ts)
    stringfns = re.findall(r"pub\s+fn\s+(\w+_to_string)\s*\(\s*\w+\s*:\s*(\w+)\s*\)\s*->\s*String", ts)
    global _ALIASES
    _ALIASES = None                         # re-read on every run
    structs = parse_structs()
    r = ["// GENERATED by tools/tablegen.py -- rustc's own view of the tables the translator parsed", "#![allow(clippy::all)]",
         "use std::fmt::Write;", "pub fn const_by_name(o: &mut dyn Write, n: &str) -> std::fmt::Result {", "    match n {"]
    for n, ty in names:
        r.append('        "%s" => write!(o, "%s {}", elf::abi::%s as i128),' % (n, ty, n))
    r.append('        _ => write!(o, "unknown"),\n    }\n}')
    r.append("pub fn layout_by_name(o: &mut dyn Write, n: &str) -> std::fmt::Result {\n    match n {")
    for mod, sname, fields in structs:
        r.append('        "%s" => {' % sname)
        r.append('            write!(o, "size={} align={}", core::mem::size_of::<elf::%s::%s>(), core::mem::align_of::<elf::%s::%s>())?;' % (mod, sname, mod, sname))
        for fname, ty in fields:
            r.append('            write!(o, " %s@{}+{}", core::mem::offset_of!(elf::%s::%s, %s), { fn sz<T, F>(_: fn(&T) -> &F) -> usize { core::mem::size_of::<F>() } sz(|x: &elf::%s::%s| &x.%s) })?;'
                     % (fname, mod, sname, fname, mod, sname, fname))
        r.append("            Ok(())\n        }")
    r.append('        _ => write!(o, "unknown"),\n    }\n}')
    r.append("pub fn to_str(o: &mut dyn Write, f: &str, v: i128) -> std::fmt::Result {")
    r.append("    let r: Option<&'static str> = match f {")
    for fn, ty in strfns:
        lo, hi = INT_TYPES[ty]
        r.append('        "%s" => if v < %d || v > %d { return write!(o, "range") } else { elf::to_str::%s(v as %s) },' % (fn, lo, hi, fn, ty))
    r.append('        _ => return write!(o, "unknown"),\n    };')
    r.append('    match r { Some(s) => write!(o, "some:{}", s.as_bytes().iter().map(|b| format!("{:02x}", b)).collect::<String>()), None => write!(o, "none") }\n}')
    r.append("pub fn to_string(o: &mut dyn Write, f: &str, v: i128) -> std::fmt::Result {")
    r.append("    let s: String = match f {")
    for fn, ty in stringfns:
        lo, hi = INT_TYPES[ty]
        r.append('        "%s" => if v < %d || v > %d { return write!(o, "range") } else { elf::to_str::%s(v as %s) },' % (fn, lo, hi, fn, ty))
    r.append('        _ => return write!(o, "unknown"),\n    };')
    r.append('    write!(o, "x{}", s.as_bytes().iter().map(|b| format!("{:02x}", b)).collect::<String>())\n}')
    write_if_changed(os.path.join(VERIF, "harness", "src", "gen_tables.rs"), "\n".join(r) + "\n")
    return {"const_names": names, "str_fns": strfns, "string_fns": stringfns, "structs": structs}


TOSTRING_RE = re.compile(r"pub\s+fn\s+(\w+_to_string)\s*\(\s*(\w+)\s*:\s*(\w+)\s*\)\s*->\s*String\s*\{\s*match\s+(\w+)\s*\(\s*(\w+)\s*\)\s*\{\s*"
                         r"Some\s*\(\s*(\w+)\s*\)\s*=>\s*(\w+)\.to_string\(\)\s*,\s*None\s*=>\s*format!\(\s*\"([^\"{}]*)\(\{(\w+):#x\}\)\"\s*\)\s*,?\s*\}\s*\}")


def parse_tostring(src):
    """the `*_to_string` wrappers of the shape  match f_to_str(v) { Some(s) => s.to_string(), None => format!("p({v:#x})") }
    -> ([(fn, argument type, inner to_str function, prefix)], [names of *_to_string functions of any other shape])"""
    src = strip_comments(src)
    out, seen = [], set()
    for m in TOSTRING_RE.finditer(src):
        fn, arg, ty, inner, a2, sv, sv2, prefix, a3 = m.groups()
        if arg == a2 == a3 and sv == sv2:
            out.append((fn, ty, inner, prefix))
            seen.add(fn)
    other = [f for f in re.findall(r"pub\s+fn\s+(\w+_to_string)\s*\(", src) if f not in seen]
    return out, other


def generate():
    consts, skipped = parse_consts(open(os.path.join(REPO, "src", "abi.rs")).read())
    env = {n: v for n, _, v in consts}
    fns = parse_tostr(open(os.path.join(REPO, "src", "to_str.rs")).read())
    structs = parse_structs()
    g = os.path.join(VERIF, "coq", "Gen")
    a = [HDR, "From Coq Require Import List String ZArith.", "Import ListNotations.", "Open Scope string_scope.", "Open Scope Z_scope.",
         "(* name, declared type, value *)", "Definition abi_consts : list (string * (string * Z)) := ["]
    a.append(";\n".join('  (%s, (%s, %d))' % (coq_str(n), coq_str(t), v) for n, t, v in consts))
    a.append("].")
    write_if_changed(os.path.join(g, "AbiConsts.v"), "\n".join(a) + "\n")
    t = [HDR, "From Coq Require Import List String ZArith.", "Import ListNotations.", "Open Scope string_scope.",
         "(* function, argument type, arms in source order: (constant matched, string returned) *)",
         "Definition to_str_fns : list (string * (string * list (string * string))) := ["]
    t.append(";\n".join("  (%s, (%s, [%s]))" % (coq_str(fn), coq_str(ty), "; ".join("(%s, %s)" % (coq_str(c), coq_str(s)) for c, s in arms))
                        for fn, ty, arms in fns))
    t.append("].")
    sfns, sother = parse_tostring(open(os.path.join(REPO, "src", "to_str.rs")).read())
    t.append("(* *_to_string wrapper, (argument type, (the *_to_str function it consults, prefix of its hexadecimal fallback)) *)")
    t.append("Definition to_string_fns : list (string * (string * (string * string))) := [")
    t.append(";\n".join("  (%s, (%s, (%s, %s)))" % (coq_str(fn), coq_str(ty), coq_str(inner), coq_str(px)) for fn, ty, inner, px in sfns))
    t.append("].")
    write_if_changed(os.path.join(g, "ToStr.v"), "\n".join(t) + "\n")
    c = [HDR, "From Coq Require Import List String NArith.", "Require Import V.Ref.RefLayout.", "Import ListNotations.", "Open Scope string_scope.",
         "(* struct, fields in declaration order *)", "Definition c_structs : list (string * layout) := ["]
    rows = []
    layouts = {}
    for _, sname, fields in structs:
        fl = []
        layouts[sname] = []
        for fname, ty in fields:
            k, w = field_type(ty, env)
            layouts[sname].append((fname, k, w))
            fl.append("(%s, %s %d)" % (coq_str(fname), k, w))
        rows.append("  (%s, [%s])" % (coq_str(sname), "; ".join(fl)))
    c.append(";\n".join(rows))
    c.append("].")
    write_if_changed(os.path.join(g, "CStructs.v"), "\n".join(c) + "\n")
    return {"consts": consts, "skipped": skipped, "fns": fns, "structs": structs, "layouts": layouts, "string_fns": sfns, "string_other": sother}


if __name__ == "__main__":
    gen_harness()
    t = generate()
    print("consts=%d skipped=%s fns=%d arms=%d structs=%d" % (len(t["consts"]), t["skipped"], len(t["fns"]),
                                                              sum(len(a) for _, _, a in t["fns"]), len(t["structs"])))
