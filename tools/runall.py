#!/usr/bin/env python3
"""run every registered check (quick by default) on the current tree; prints one line per check"""
import json, os, subprocess, sys, time
V = os.path.dirname(os.path.dirname(os.path.abspath(__file__)))
tier = sys.argv[1] if len(sys.argv) > 1 else "quick"
m = json.load(open(os.path.join(V, "MANIFEST.json")))
bad = 0
for c in m["checks"]:
    t0 = time.time()
    p = subprocess.run([os.path.join(V, "check"), c["property_id"], "--tier", tier], cwd=V, stdout=subprocess.PIPE, stderr=subprocess.STDOUT, text=True)
    last = [l for l in p.stdout.splitlines() if l.strip()][-1:]
    vio = [l for l in p.stdout.splitlines() if l.startswith(("VIOLATION", "KNOWN-FINDING"))]
    print(c["property_id"], "rc=%d" % p.returncode, "%.0fs" % (time.time() - t0), last[0][:150] if last else "", vio[:2])
    bad += p.returncode != 0
sys.exit(1 if bad else 0)
