"""Structured ELF builder (G1), corruption (G2) and per-layer encoders used by the generators.
Written from the gABI; independent of /repo."""
import props.C02 as C02
from gen import enc, rand_bytes, USIZE_MAX

SHT = dict(NULL=0, PROGBITS=1, SYMTAB=2, STRTAB=3, RELA=4, HASH=5, DYNAMIC=6, NOTE=7, NOBITS=8, REL=9, DYNSYM=11,
           GNU_HASH=0x6ffffff6, GNU_VERDEF=0x6ffffffd, GNU_VERNEED=0x6ffffffe, GNU_VERSYM=0x6fffffff)
PT = dict(NULL=0, LOAD=1, DYNAMIC=2, INTERP=3, NOTE=4)
SHF_COMPRESSED = 0x800
BOUNDARY = [0, 1, 2**31, 2**32 - 1, 2**63, 2**64 - 1]


def pack(ty, cl, little, vals):
    return C02.encode_struct(ty, cl, little, vals)


def field_pos(ty, cl, name):
    off = 0
    for n, w in C02.layout(ty, cl):
        if n == name:
            return off, abs(w)
        off += abs(w)
    raise KeyError(name)


# ----------------------------------------------------------------------------- hash functions
def sysv_hash(name):
    h = 0
    for b in name:
        h = ((h << 4) + b) & 0xffffffff
        g = h & 0xf0000000
        if g:
            h ^= g >> 24
        h &= ~g & 0xffffffff
    return h


def gnu_hash(name):
    h = 5381
    for b in name:
        h = (h * 33 + b) & 0xffffffff
    return h


class StrTab:
    def __init__(self):
        self.data = bytearray(b"\0")
        self.idx = {b"": 0}

    def add(self, s):
        if s in self.idx:
            return self.idx[s]
        i = len(self.data)
        self.data += s + b"\0"
        self.idx[s] = i
        return i


def sym_bytes(cl, little, name_off, value=0, size=0, info=0x12, other=0, shndx=1):
    return pack("sym", cl, little, dict(st_name=name_off, st_value=value, st_size=size, st_info=info, st_other=other, st_shndx=shndx))


def build_symtab(cl, little, names, rng=None):
    """names: list of bytes (index 0 is the null symbol and is added here). Returns (symtab bytes, strtab bytes)."""
    st = StrTab()
    out = sym_bytes(cl, little, 0, 0, 0, 0, 0, 0)
    for k, n in enumerate(names):
        out += sym_bytes(cl, little, st.add(n), value=0x1000 + 16 * k, size=k % 7, info=0x12 if k % 3 else 0x11, other=k % 4, shndx=1 + k % 5)
    return out, bytes(st.data)


def build_sysv_hash(little, names, nbucket, order="front", rng=None):
    """hash table for symbols 1..len(names) (symbol 0 is the null symbol). The gABI fixes only that each bucket's chain
    visits exactly the symbols hashing to it; order: "front" = linker-style push-front (links descend), "back" = links
    ascend, "random" = any order"""
    nchain = len(names) + 1
    buckets = [0] * nbucket
    chains = [0] * nchain
    members = {}
    for i, n in enumerate(names, start=1):
        members.setdefault(sysv_hash(n) % nbucket, []).append(i)
    for b, ms in members.items():
        if order == "front":
            ms = ms[::-1]
        elif order == "random" and rng is not None:
            rng.shuffle(ms)
        buckets[b] = ms[0]
        for a, z in zip(ms, ms[1:] + [0]):
            chains[a] = z
    out = enc(little, 4, nbucket) + enc(little, 4, nchain)
    for v in buckets + chains:
        out += enc(little, 4, v)
    return out


def build_gnu_hash(cl, little, names, nbucket, nbloom, shift, symoffset):
    """names: the hashed symbols, which must already be sorted by (hash % nbucket) and occupy symbol
    indexes symoffset.. in the symbol table. Returns the section bytes."""
    width = 32 if cl == 32 else 64
    bloom = [0] * nbloom
    buckets = [0] * nbucket
    chain = []
    hs = [gnu_hash(n) for n in names]
    for k, h in enumerate(hs):
        w = (h // width) % nbloom
        bloom[w] |= (1 << (h % width)) | (1 << ((h >> shift) % width))
        b = h % nbucket
        if buckets[b] == 0:
            buckets[b] = symoffset + k
        last = (k + 1 == len(hs)) or (hs[k + 1] % nbucket != b)
        chain.append((h & ~1) | (1 if last else 0))
    out = enc(little, 4, nbucket) + enc(little, 4, symoffset) + enc(little, 4, nbloom) + enc(little, 4, shift)
    for w in bloom:
        out += enc(little, width // 8, w)
    for v in buckets + chain:
        out += enc(little, 4, v)
    return out


def gnu_sort(names, nbucket):
    return sorted(names, key=lambda n: gnu_hash(n) % nbucket)


# ----------------------------------------------------------------------------- notes
def pad_len(off, align):
    return (align - off % align) % align if align > 0 else 0


def enc_note(little, align, off, ntype, name, desc):
    b = enc(little, 4, len(name)) + enc(little, 4, len(desc)) + enc(little, 4, ntype) + name
    b += b"\0" * pad_len(off + len(b), align)
    b += desc
    b += b"\0" * pad_len(off + len(b), align)
    return b


def enc_notes(little, align, notes):
    out = b""
    for (t, n, d) in notes:
        out += enc_note(little, align, len(out), t, n, d)
    return out


# ----------------------------------------------------------------------------- symbol versions
def build_versions(little, needs, defs, interleaved, rng):
    """needs: [(file_bytes, [(name_bytes, hash, flags, other)])]; defs: [(ndx, flags, hash, [name_bytes])].
    Returns (verneed bytes, verdef bytes, strtab bytes). Records are linked by next/aux offsets;
    interleaved=True places all main records first, then the aux records shuffled with gaps."""
    st = StrTab()

    def lay(mains, main_size, aux_size, mk_main, mk_aux):
        # positions
        pos_main, pos_aux = [], []
        if not interleaved:
            off = 0
            for m, auxs in mains:
                pos_main.append(off)
                off += main_size
                pa = []
                for _ in auxs:
                    pa.append(off)
                    off += aux_size
                pos_aux.append(pa)
            total = off
        else:
            off = 0
            for m, auxs in mains:
                pos_main.append(off)
                off += main_size + rng.choice([0, 4, 8])
            slots = []
            for i, (m, auxs) in enumerate(mains):
                pos_aux.append([None] * len(auxs))
                for j in range(len(auxs)):
                    slots.append((i, j))
            # keep forward order within each chain but interleave the chains
            order = []
            cursors = [0] * len(mains)
            remaining = [len(a) for _, a in mains]
            while sum(remaining):
                i = rng.choice([k for k, r in enumerate(remaining) if r])
                order.append((i, cursors[i]))
                cursors[i] += 1
                remaining[i] -= 1
            for (i, j) in order:
                pos_aux[i][j] = off
                off += aux_size + rng.choice([0, 0, 8])
            total = off
        buf = bytearray(rand_bytes(rng, total) if interleaved else bytes(total))
        for i, (m, auxs) in enumerate(mains):
            nxt = (pos_main[i + 1] - pos_main[i]) if i + 1 < len(mains) else 0
            auxoff = (pos_aux[i][0] - pos_main[i]) if auxs else 0
            b = mk_main(m, len(auxs), auxoff, nxt)
            buf[pos_main[i]:pos_main[i] + main_size] = b
            for j, a in enumerate(auxs):
                anx = (pos_aux[i][j + 1] - pos_aux[i][j]) if j + 1 < len(auxs) else 0
                buf[pos_aux[i][j]:pos_aux[i][j] + aux_size] = mk_aux(a, anx)
        return bytes(buf)

    def mk_vn(file, cnt, aux, nxt):
        return pack("verneed", 0, little, dict(vn_version=1, vn_cnt=cnt, vn_file=st.add(file), vn_aux=aux, vn_next=nxt))

    def mk_vna(a, nxt):
        name, h, fl, other = a
        return pack("vernaux", 0, little, dict(vna_hash=h, vna_flags=fl, vna_other=other, vna_name=st.add(name), vna_next=nxt))

    def mk_vd(m, cnt, aux, nxt):
        ndx, fl, h = m
        return pack("verdef", 0, little, dict(vd_version=1, vd_flags=fl, vd_ndx=ndx, vd_cnt=cnt, vd_hash=h, vd_aux=aux, vd_next=nxt))

    def mk_vda(name, nxt):
        return pack("verdaux", 0, little, dict(vda_name=st.add(name), vda_next=nxt))

    vn = lay(needs, 16, 16, mk_vn, mk_vna)
    vd = lay([((ndx, fl, h), names) for (ndx, fl, h, names) in defs], 20, 8, mk_vd, mk_vda)
    return vn, vd, bytes(st.data)


# ----------------------------------------------------------------------------- whole files
class Elf:
    """sections: list of dicts with keys name,type,flags,addr,data,link,info,align,entsize (+ optional
    'off'/'size' overrides). Section 0 (null) and .shstrtab are added by build()."""

    def __init__(self, cl, little):
        self.cl, self.little = cl, little
        self.sections = []
        self.segments = []
        self.e = dict(e_type=3, e_machine=62, e_version=1, e_entry=0x1000, e_flags=0)
        self.layout = "hdr,ph,data,sh"
        self.with_shdrs = True
        self.shstrndx = None       # None = automatic
        self.ident = None

    def add(self, name, type, data=b"", flags=0, link=0, info=0, align=1, entsize=0, addr=0, **kw):
        d = dict(name=name, type=type, data=data, flags=flags, link=link, info=info, align=align, entsize=entsize, addr=addr)
        d.update(kw)
        self.sections.append(d)
        return len(self.sections)     # index in the final table (null section is 0)

    def seg(self, type, off=0, filesz=0, memsz=None, flags=4, align=1, sec=None, **kw):
        d = dict(type=type, off=off, filesz=filesz, memsz=filesz if memsz is None else memsz, flags=flags, align=align, sec=sec)
        d.update(kw)
        self.segments.append(d)

    def permute(self, rng):
        """shuffle the section header order, keeping sh_link / segment references pointing at the same sections"""
        n = len(self.sections)
        order = list(range(n))
        rng.shuffle(order)
        newpos = {old + 1: new + 1 for new, old in enumerate(order)}
        self.sections = [self.sections[o] for o in order]
        for s in self.sections:
            if s["link"] in newpos:
                s["link"] = newpos[s["link"]]
        for p in self.segments:
            if p["sec"] in newpos:
                p["sec"] = newpos[p["sec"]]
        return newpos

    def build(self, rng=None, pad=0):
        cl, little = self.cl, self.little
        ehsize = 52 if cl == 32 else 64
        shsz, phsz = C02.size_of("shdr", cl), C02.size_of("phdr", cl)
        secs = [dict(name=b"", type=0, data=b"", flags=0, link=0, info=0, align=0, entsize=0, addr=0)] + self.sections
        shstr = StrTab()
        if self.with_shdrs:
            secs = secs + [dict(name=b".shstrtab", type=SHT["STRTAB"], data=None, flags=0, link=0, info=0, align=1, entsize=0, addr=0)]
            for s in secs:
                s["name_off"] = shstr.add(s["name"])
            secs[-1]["data"] = bytes(shstr.data)
        nsh = len(secs) if self.with_shdrs else 0
        nph = len(self.segments)
        out = bytearray(ehsize)
        meta = dict(sec_off={}, cl=cl, little=little)
        phoff = shoff = 0
        for part in self.layout.split(","):
            if part == "ph" and nph:
                out += b"\0" * pad
                phoff = len(out)
                out += bytes(phsz * nph)
            elif part == "sh" and nsh:
                out += b"\0" * pad
                shoff = len(out)
                out += bytes(shsz * nsh)
            elif part == "data":
                for i, s in enumerate(secs):
                    if i == 0:
                        s["off_"] = 0
                        continue
                    out += b"\0" * pad
                    s["off_"] = len(out)
                    if s["type"] != SHT["NOBITS"]:
                        out += s["data"]
        for i, s in enumerate(secs):
            meta["sec_off"][i] = s.get("off_", 0)
        # program headers
        for j, p in enumerate(self.segments):
            off, fsz = p["off"], p["filesz"]
            if p["sec"] is not None:
                s = secs[p["sec"]]
                off, fsz = s["off_"], len(s["data"])
                if p["memsz"] == p["filesz"]:
                    p["memsz"] = fsz
            if p.get("memsz_extra") is not None:
                p["memsz"] = fsz + p["memsz_extra"]
            b = pack("phdr", cl, little, dict(p_type=p["type"], p_offset=off, p_vaddr=off, p_paddr=off, p_filesz=fsz,
                                             p_memsz=p["memsz"], p_flags=p["flags"], p_align=p["align"]))
            out[phoff + j * phsz: phoff + (j + 1) * phsz] = b
        if self.with_shdrs:
            for i, s in enumerate(secs):
                size = s.get("size", len(s["data"]) if s["type"] != SHT["NOBITS"] else s.get("nobits_size", 0x100))
                b = pack("shdr", cl, little, dict(sh_name=s["name_off"], sh_type=s["type"], sh_flags=s["flags"], sh_addr=s["addr"],
                                                 sh_offset=s.get("off", s.get("off_", 0)), sh_size=size, sh_link=s["link"], sh_info=s["info"],
                                                 sh_addralign=s["align"], sh_entsize=s["entsize"]))
                out[shoff + i * shsz: shoff + (i + 1) * shsz] = b
        shstrndx = (nsh - 1 if self.with_shdrs else 0) if self.shstrndx is None else self.shstrndx
        e = dict(self.e)
        e.update(e_phoff=phoff, e_shoff=shoff, e_ehsize=ehsize, e_phentsize=phsz if nph else 0, e_phnum=nph,
                 e_shentsize=shsz if nsh else 0, e_shnum=nsh, e_shstrndx=shstrndx)
        e.update(getattr(self, "e_override", {}))
        ident = self.ident or bytes([0x7f, 0x45, 0x4c, 0x46, 1 if cl == 32 else 2, 1 if little else 2, 1, 3, 0]) + bytes(7)
        out[0:16] = ident
        out[16:ehsize] = pack("tail", cl, little, e)
        meta.update(phoff=phoff, shoff=shoff, nsh=nsh, nph=nph, shsz=shsz, phsz=phsz, ehsize=ehsize, shstrndx=shstrndx)
        return bytes(out), meta


def patch(data, meta, what, name, value, index=0):
    """G2: overwrite one header/table field. what in {'ehdr','shdr','phdr'}"""
    cl, little = meta["cl"], meta["little"]
    if what == "ehdr":
        o, w = field_pos("tail", cl, name)
        base = 16
    elif what == "shdr":
        o, w = field_pos("shdr", cl, name)
        base = meta["shoff"] + index * meta["shsz"]
    else:
        o, w = field_pos("phdr", cl, name)
        base = meta["phoff"] + index * meta["phsz"]
    b = bytearray(data)
    if base + o + w <= len(b):
        b[base + o: base + o + w] = enc(little, w, value)
    return bytes(b)


def random_names(rng, n, kinds=("ascii",)):
    out = []
    for i in range(n):
        k = rng.choice(kinds)
        if k == "ascii":
            ln = rng.choice([1, 2, 3, 5, 8, 13, 30])
            out.append(bytes(rng.choice(b"abcdefghijklmnopqrstuvwxyz_0123456789") for _ in range(ln)))
        elif k == "high":
            out.append(bytes(rng.randrange(1, 256) for _ in range(rng.randrange(1, 12))))
        elif k == "long":
            out.append(bytes(rng.choice(b"abcdXYZ_") for _ in range(rng.randrange(7, 60))))
    return out


def sample_elf(rng, cl=None, little=None, kinds=None, rich=True):
    """G1: a structured object with a random selection of section kinds. Returns (Elf, info)."""
    cl = cl or rng.choice((32, 64))
    little = rng.choice((True, False)) if little is None else little
    e = Elf(cl, little)
    e.layout = rng.choice(["hdr,ph,data,sh", "hdr,sh,ph,data", "hdr,ph,sh,data", "hdr,data,ph,sh", "hdr,data,sh,ph"])
    info = {"names": [], "syms": []}
    kinds = kinds if kinds is not None else [k for k in ("text", "symtab", "dynsym", "hash", "gnuhash", "dynamic", "note", "rel", "rela", "nobits", "compressed", "versions", "strtab2") if rng.random() < (0.6 if rich else 0.3)]
    symsz = C02.size_of("sym", cl)
    if "text" in kinds:
        e.add(b".text", SHT["PROGBITS"], rand_bytes(rng, rng.randrange(0, 40)), flags=6, align=16)
    names = random_names(rng, rng.randrange(0, 9), ("ascii", "ascii", "high", "long"))
    names = list(dict.fromkeys(names))
    info["syms"] = names
    if "symtab" in kinds:
        sd, st = build_symtab(cl, little, names)
        si = e.add(b".symtab", SHT["SYMTAB"], sd, entsize=symsz, align=8, info=1)
        ti = e.add(b".strtab", SHT["STRTAB"], st)
        e.sections[si - 1]["link"] = ti
    dyn_idx = None
    if "dynsym" in kinds or "hash" in kinds or "gnuhash" in kinds or "versions" in kinds:
        nb = rng.randrange(1, 5)
        gn = gnu_sort(names, nb)
        sd, st = build_symtab(cl, little, gn)
        dyn_idx = e.add(b".dynsym", SHT["DYNSYM"], sd, entsize=symsz, align=8, info=1, flags=2)
        ti = e.add(b".dynstr", SHT["STRTAB"], st, flags=2)
        e.sections[dyn_idx - 1]["link"] = ti
        info["dynnames"] = gn
        if "hash" in kinds:
            e.add(b".hash", SHT["HASH"], build_sysv_hash(little, gn, rng.randrange(1, 5)), link=dyn_idx, entsize=4, align=4, flags=2)
        if "gnuhash" in kinds:
            e.add(b".gnu.hash", SHT["GNU_HASH"], build_gnu_hash(cl, little, gn, nb, rng.choice([1, 2, 4]), rng.randrange(0, 32), 1), link=dyn_idx, align=8, flags=2)
        if "versions" in kinds:
            nsyms = len(gn) + 1
            needs = [(b"libc.so.6", [(b"GLIBC_2.2.5", 0x9691a75, 0, 2), (b"GLIBC_2.34", 0x69691b4, 0, 3)]), (b"libm.so.6", [(b"GLIBC_2.29", 0x6969189, 0, 4)])]
            defs = [(1, 1, 0xabc, [b"self.so"]), (5, 0, 0xdef, [b"VERS_1", b"VERS_0"])]
            vn, vd, vs = build_versions(little, needs, defs, rng.random() < 0.5, rng)
            vsym = b"".join(enc(little, 2, rng.choice([0, 1, 2, 3, 4, 5, 0x8002, 0x8005, 9])) for _ in range(nsyms))
            vsi = e.add(b".verstr", SHT["STRTAB"], vs)
            # objects that only import (no definitions), only export (no needs), or lack the index table
            parts = rng.choice(["snd", "snd", "snd", "snd", "sn", "sd", "nd", "s"])
            if "s" in parts:
                e.add(b".gnu.version", SHT["GNU_VERSYM"], vsym, link=dyn_idx, entsize=2, align=2, flags=2)
            if "n" in parts:
                e.add(b".gnu.version_r", SHT["GNU_VERNEED"], vn, link=vsi, info=len(needs), align=4, flags=2)
            if "d" in parts:
                e.add(b".gnu.version_d", SHT["GNU_VERDEF"], vd, link=vsi, info=len(defs), align=4, flags=2)
            info["nversyms"] = nsyms
    if "dynamic" in kinds:
        dsz = C02.size_of("dyn", cl)
        dents = [(1, 1), (5, 0x400), (-2 if cl == 64 else -3, 7), (0x6ffffffe, 9), (0, 0)]
        r_ = rng.random()
        if r_ < 0.2:
            dents.insert(rng.randrange(1, 4), (0, 0))          # a DT_NULL before the end: the table is every designated entry
        elif r_ < 0.4:
            dents += [(0, 0)] * rng.choice([1, 3])             # spare DT_NULL slots after the terminator
        dd = b"".join(pack("dyn", cl, little, dict(d_tag=t, d_un=v)) for t, v in dents)
        di = e.add(b".dynamic", SHT["DYNAMIC"], dd, entsize=dsz, align=8, flags=3)
        e.seg(PT["DYNAMIC"], sec=di, align=8)
    if "note" in kinds:
        al = rng.choice([4, 4, 8, 1])
        notes = [(1, b"GNU\0", b"".join(enc(little, 4, v) for v in (0, 3, 2, 0))), (3, b"GNU\0", rand_bytes(rng, 20)), (rng.randrange(0, 9), b"XY\0", rand_bytes(rng, rng.randrange(0, 9))),
                 # name sizes that are multiples of 8 (and 0): with the 12-byte header the descriptor of an 8-aligned note then needs padding
                 (rng.randrange(0, 9), rng.choice([b"FreeBSD\0", b"stapsdt\0", b"", b"CORE\0", b"0123456789abcde\0"]), rand_bytes(rng, rng.choice([0, 4, 5, 8])))]
        rng.shuffle(notes)
        ni = e.add(b".note.x", SHT["NOTE"], enc_notes(little, al, notes), align=al, flags=2)
        e.seg(PT["NOTE"], sec=ni, align=al)
    if "rel" in kinds:
        rs = C02.size_of("rel", cl)
        e.add(b".rel.x", SHT["REL"], b"".join(pack("rel", cl, little, dict(r_offset=8 * k, r_info=(k << (8 if cl == 32 else 32)) | (k + 1))) for k in range(rng.randrange(0, 4))), entsize=rs, align=8)
    if "rela" in kinds:
        rs = C02.size_of("rela", cl)
        e.add(b".rela.x", SHT["RELA"], b"".join(pack("rela", cl, little, dict(r_offset=8 * k, r_info=(k << (8 if cl == 32 else 32)) | 7, r_addend=-k)) for k in range(rng.randrange(0, 4))), entsize=rs, align=8)
    if "nobits" in kinds:
        e.add(b".bss", SHT["NOBITS"], b"", flags=3, align=32, nobits_size=rng.choice([0, 16, 2**31, 2**40]))
    if "compressed" in kinds:
        ch = pack("chdr", cl, little, dict(ch_type=rng.choice([1, 2]), ch_reserved=0, ch_size=100, ch_addralign=8))
        body = ch + rand_bytes(rng, rng.randrange(0, 20))
        if rng.random() < 0.3:
            body = body[:rng.randrange(0, len(ch))]
        e.add(b".zdebug", SHT["PROGBITS"], body, flags=SHF_COMPRESSED)
    if "strtab2" in kinds:
        e.add(b".str2", SHT["STRTAB"], b"\0abc\0\xc3\xa9\0tail", align=1)
    if rng.random() < 0.5:
        e.seg(PT["LOAD"], off=0, filesz=rng.randrange(0, 200), memsz_extra=rng.choice([0, 16, 4096]), align=4096)
    if rng.random() < 0.2:
        e.with_shdrs = False
    return e, info
