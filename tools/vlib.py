"""Common machinery for the rust-elf Coq verification checks.

Pipeline of one check (see DESIGN.md section 2):
  build coq (make) -> check Print Assumptions of the property's theorems -> extract the
  model to OCaml and build modelrun -> cargo build the harness against /repo's working tree
  -> generate cases -> run both -> compare under the property's projection / oracle ->
  shrink + report -> evidence.
"""
import fcntl
import hashlib
import json
import os
import re
import subprocess
import sys
import time

VERIF = os.path.dirname(os.path.dirname(os.path.abspath(__file__)))
REPO = os.environ.get("VERIF_REPO", "/repo")
BUILD = os.path.join(VERIF, "_build")
COQ = os.path.join(VERIF, "coq")
HARNESS_BIN = os.path.join(BUILD, "cargo", "release", "elfharness")
MODEL_BIN = os.path.join(BUILD, "ocaml", "modelrun")
NPROC = 16

FORBIDDEN = re.compile(
    r"\b(Admitted|admit|Axiom|Axioms|Parameter|Parameters|Conjecture|Conjectures|Unset\s+Guard|"
    r"bypass_check|Admit\s+Obligations|type-in-type|impredicative-set)\b")


class Broken(Exception):
    """A proof obligation or the model/code tie no longer checks (not by itself a failing input)."""

    def __init__(self, what, detail=""):
        super().__init__(what)
        self.what = what
        self.detail = detail


def _limit_mem(gb):
    def f():
        import resource
        try:
            resource.setrlimit(resource.RLIMIT_AS, (gb << 30, gb << 30))
        except Exception:
            pass
    return f


def sh(cmd, timeout, cwd=None, env=None, input=None, mem_gb=None):
    e = dict(os.environ)
    e.update({"CARGO_NET_OFFLINE": "true"})
    if env:
        e.update(env)
    try:
        p = subprocess.run(cmd, cwd=cwd, env=e, input=input, stdout=subprocess.PIPE,
                           stderr=subprocess.STDOUT, timeout=timeout, text=True,
                           preexec_fn=_limit_mem(mem_gb) if mem_gb else None)
        return p.returncode, p.stdout
    except subprocess.TimeoutExpired as ex:
        out = ex.stdout or ""
        if isinstance(out, bytes):
            out = out.decode("utf-8", "replace")
        return 124, out + "\n[timeout after %ss]" % timeout


class Lock:
    def __init__(self, name):
        os.makedirs(BUILD, exist_ok=True)
        self.path = os.path.join(BUILD, name + ".lock")

    def __enter__(self):
        self.f = open(self.path, "w")
        fcntl.flock(self.f, fcntl.LOCK_EX)
        return self

    def __exit__(self, *a):
        fcntl.flock(self.f, fcntl.LOCK_UN)
        self.f.close()


# ----------------------------------------------------------------------------- Coq build
def coq_sources():
    out = []
    for d in ("Base", "Model", "Spec", "Ref", "Gen", "Proofs", "Properties", "Extract"):
        p = os.path.join(COQ, d)
        if os.path.isdir(p):
            for f in sorted(os.listdir(p)):
                if f.endswith(".v") and f != "Extract.v":
                    out.append(d + "/" + f)
    return out


def write_coqproject():
    lines = ["-Q . V", "-arg -w -arg -notation-overridden,-deprecated"] + coq_sources()
    txt = "\n".join(lines) + "\n"
    p = os.path.join(COQ, "_CoqProject")
    old = open(p).read() if os.path.exists(p) else None
    if old != txt or not os.path.exists(os.path.join(COQ, "Makefile")):
        with open(p, "w") as f:
            f.write(txt)
        rc, out = sh(["coq_makefile", "-f", "_CoqProject", "-o", "Makefile"], 120, cwd=COQ)
        if rc != 0:
            raise Broken("coq_makefile", out)


def grep_forbidden():
    bad = []
    for rel in coq_sources() + ["Extract/Extract.v"]:
        src = open(os.path.join(COQ, rel)).read()
        src_nc = re.sub(r"\(\*.*?\*\)", "", src, flags=re.S)
        for m in FORBIDDEN.finditer(src_nc):
            bad.append("%s: %s" % (rel, m.group(0)))
        # Variable / Hypothesis outside a section
        depth = 0
        for line in src_nc.splitlines():
            s = line.strip()
            if re.match(r"^Section\b", s):
                depth += 1
            elif re.match(r"^End\b", s) and depth > 0:
                depth -= 1
            elif depth == 0 and re.match(r"^(Variable|Variables|Hypothesis|Hypotheses|Context)\b", s):
                bad.append("%s: %s outside a section" % (rel, s.split()[0]))
    return bad


def build_coq(targets=None, timeout=1800):
    """make the .vo files (full build, no -vos). Returns make's output. Raises Broken if a
    requested target does not build."""
    with Lock("coq"):
        write_coqproject()
        # a proof script that diverges must not eat the machine: 8 GiB address space per coqc, bounded time
        rc, out = sh(["make", "-k", "-j%d" % NPROC] + (targets or []), timeout, cwd=COQ, mem_gb=8)
        if rc != 0:
            raise Broken("coq build: " + " ".join(targets or ["all"]), out[-6000:])
        return out


def theorems_of(prop_file):
    src = open(os.path.join(COQ, prop_file)).read()
    src = re.sub(r"\(\*.*?\*\)", "", src, flags=re.S)
    return re.findall(r"^\s*Theorem\s+([A-Za-z0-9_']+)", src, flags=re.M)


def print_assumptions(prop_id, module, thms):
    """Ask Coq (on the compiled .vo) which axioms each property theorem depends on."""
    d = os.path.join(BUILD, "pa")
    os.makedirs(d, exist_ok=True)
    vf = os.path.join(d, "%s_pa.v" % prop_id)
    with open(vf, "w") as f:
        f.write("Require Import V.%s.\n" % module)
        for t in thms:
            f.write('Goal True. idtac "===THM %s". Abort.\nPrint Assumptions %s.\n' % (t, t))
    rc, out = sh(["coqc", "-Q", COQ, "V", "-o", os.path.join(d, "%s_pa.vo" % prop_id), vf], 600)
    if rc != 0:
        raise Broken("Print Assumptions for " + prop_id, out[-3000:])
    res = {}
    cur = None
    for line in out.splitlines():
        m = re.match(r"===THM (\S+)", line)
        if m:
            cur = m.group(1)
            res[cur] = []
        elif cur is not None:
            if line.startswith("Closed under the global context") or line.startswith("Axioms:"):
                continue
            # an axiom is printed as `name : type` or, when long, as `name` alone followed by an
            # indented `  : type` continuation
            m2 = re.match(r"^([A-Za-z_][A-Za-z0-9_.']*)\s*(:.*)?$", line)
            if m2:
                res[cur].append(m2.group(1))
    return res


def coqchk(prop_id, timeout=1800):
    """independent re-check of the compiled property file and everything it depends on; returns the list of axioms"""
    rc, out = sh(["coqchk", "-o", "-silent", "-Q", COQ, "V", "V.Properties.%s" % prop_id], timeout, cwd=COQ, mem_gb=12)
    if rc != 0:
        raise Broken("coqchk V.Properties.%s" % prop_id, out[-3000:])
    m = re.search(r"\* Axioms:(.*?)\n\s*\n\* Constants/Inductives relying on type-in-type:(.*?)\n\s*\n\* Constants/Inductives relying on unsafe \(co\)fixpoints:(.*?)\n\s*\n\* Inductives whose positivity is assumed:(.*?)\n", out + "\n\n", flags=re.S)
    if not m:
        raise Broken("coqchk output not understood", out[-2000:])
    ax = [x.strip() for x in m.group(1).strip().splitlines() if x.strip() and x.strip() != "<none>"]
    for k, name in ((2, "type-in-type"), (3, "unsafe fixpoints"), (4, "assumed positivity")):
        if m.group(k).strip() != "<none>":
            raise Broken("coqchk reports %s" % name, m.group(k))
    return ax


# ----------------------------------------------------------------------------- model + harness
def newest_mtime(paths):
    return max([os.path.getmtime(p) for p in paths if os.path.exists(p)] or [0])


def build_model(timeout=900):
    with Lock("ocaml"):
        od = os.path.join(BUILD, "ocaml")
        os.makedirs(od, exist_ok=True)
        deps = [os.path.join(COQ, "Extract", "Extract.v"), os.path.join(VERIF, "ocaml", "driver.ml")]
        for d in ("Base", "Model", "Spec", "Extract"):
            p = os.path.join(COQ, d)
            if os.path.isdir(p):
                deps += [os.path.join(p, f) for f in os.listdir(p) if f.endswith(".vo")]
        if os.path.exists(MODEL_BIN) and os.path.getmtime(MODEL_BIN) >= newest_mtime(deps):
            return
        rc, out = sh(["coqc", "-Q", COQ, "V", os.path.join(COQ, "Extract", "Extract.v"),
                      "-o", os.path.join(od, "Extract.vo")], timeout, cwd=od)
        if rc != 0:
            raise Broken("extraction", out[-3000:])
        with open(os.path.join(VERIF, "ocaml", "driver.ml")) as f:
            drv = f.read()
        with open(os.path.join(od, "driver.ml"), "w") as f:
            f.write(drv)
        rc, out = sh(["ocamlfind", "ocamlopt", "-O3", "-w", "-a", "model.mli", "model.ml",
                      "driver.ml", "-o", "modelrun"], timeout, cwd=od)
        if rc != 0:
            raise Broken("ocaml build of the extracted model", out[-3000:])


def build_harness(timeout=1200):
    """cargo build the harness against the CURRENT working tree of /repo."""
    with Lock("cargo"):
        try:
            import tablegen
            tablegen.gen_harness()      # rustc's view of the ABI tables (C19), regenerated from /repo/src
        except Exception as ex:
            raise Broken("tablegen (harness view of the ABI tables)", str(ex))
        rc, out = sh(["cargo", "build", "--release", "--offline", "--quiet"], timeout,
                     cwd=os.path.join(VERIF, "harness"), env={"CARGO_TARGET_DIR": os.path.join(BUILD, "cargo")})
        if rc != 0:
            raise Broken("harness build against /repo (cargo)", out[-4000:])


def pre_setup():
    """regenerate the translated tables before the first full build"""
    import tablegen
    try:
        tablegen.gen_harness()
        tablegen.generate()
    except Exception as ex:
        print("setup: tablegen:", ex)


def repo_fingerprint():
    h = hashlib.sha256()
    for root in ("src",):
        base = os.path.join(REPO, root)
        for dp, dn, fn in sorted(os.walk(base)):
            for f in sorted(fn):
                p = os.path.join(dp, f)
                h.update(p.encode())
                h.update(open(p, "rb").read())
    h.update(open(os.path.join(REPO, "Cargo.toml"), "rb").read())
    return h.hexdigest()[:16]


def _big_stack():
    """the extracted model recurses on list length (65k-entry tables): lift the stack limit for the child"""
    import resource
    try:
        resource.setrlimit(resource.RLIMIT_STACK, (resource.RLIM_INFINITY, resource.RLIM_INFINITY))
    except Exception:
        try:
            soft, hard = resource.getrlimit(resource.RLIMIT_STACK)
            resource.setrlimit(resource.RLIMIT_STACK, (hard, hard))
        except Exception:
            pass


def _run_shard(binary, path, timeout):
    """Run one binary over a shard file with a PER-CASE watchdog: both binaries print and flush one line per
    case; if no line arrives within `timeout` seconds the process is killed, the in-flight case is marked HANG
    and the run resumes with the next case.  A process that dies early marks the in-flight case CRASH."""
    import select
    lines_in = [l for l in open(path).read().split("\n") if l and not l.startswith("#")]
    results = []
    start = 0
    while start < len(lines_in):
        tmp = path + ".part"
        with open(tmp, "w") as f:
            f.write("\n".join(lines_in[start:]) + "\n")
        p = subprocess.Popen([binary, tmp], stdout=subprocess.PIPE, stderr=subprocess.DEVNULL, preexec_fn=_big_stack)
        fd = p.stdout.fileno()
        buf, got, hang = b"", [], False
        deadline = time.time() + timeout
        while True:
            r, _, _ = select.select([fd], [], [], max(0.0, deadline - time.time()))
            if not r:
                hang = True
                p.kill()
                break
            chunk = os.read(fd, 1 << 16)
            if not chunk:
                break
            buf += chunk
            while b"\n" in buf:
                line, buf = buf.split(b"\n", 1)
                got.append(line.decode("utf-8", "replace"))
                deadline = time.time() + timeout
        p.wait()
        p.stdout.close()
        remaining = len(lines_in) - start
        got = got[:remaining]
        results += got
        if hang:
            results.append("HANG")
            start += len(got) + 1
        elif len(got) < remaining:
            results.append("CRASH rc=%d" % p.returncode)
            start += len(got) + 1
        else:
            start += len(got)
    return results[:len(lines_in)]


def run_both(cases, tag, timeout=None, per_shard_timeout=30, with_model=True):
    """Run the cases on the implementation harness and on the extracted model.
    Returns (impl_lines, model_lines)."""
    from concurrent.futures import ThreadPoolExecutor
    rd = os.path.join(BUILD, "run", tag)
    os.makedirs(rd, exist_ok=True)
    n = len(cases)
    nsh = max(1, min(NPROC, n // 50 + 1))
    shards = [[] for _ in range(nsh)]
    for i, c in enumerate(cases):
        shards[i % nsh].append(c)
    jobs = []
    for k, sh_cases in enumerate(shards):
        for side, binary in (("impl", HARNESS_BIN), ("model", MODEL_BIN)):
            if side == "model" and not with_model:
                continue
            p = os.path.join(rd, "shard_%s_%d.txt" % (side, k))
            with open(p, "w") as f:
                f.write("\n".join(sh_cases) + "\n")
            jobs.append((side, k, binary, p))
    with ThreadPoolExecutor(max_workers=NPROC) as ex:
        futs = {(side, k): ex.submit(_run_shard, binary, p, per_shard_timeout) for side, k, binary, p in jobs}
        res = {key: f.result() for key, f in futs.items()}
    impl = [None] * n
    model = [None] * n
    for k in range(nsh):
        ri = res[("impl", k)]
        rm = res[("model", k)] if with_model else ["-"] * len(ri)
        for j, _ in enumerate(shards[k]):
            idx = j * nsh + k
            impl[idx] = ri[j] if j < len(ri) else "MISSING"
            model[idx] = rm[j] if j < len(rm) else "MISSING"
    return impl, model


def run_one(binary, case, timeout=30):
    try:
        p = subprocess.run([binary], input=(case + "\n").encode(), stdout=subprocess.PIPE,
                           stderr=subprocess.DEVNULL, timeout=timeout, preexec_fn=_big_stack)
        out = p.stdout.decode("utf-8", "replace").strip("\n")
        return out if out else "CRASH rc=%d" % p.returncode
    except subprocess.TimeoutExpired:
        return "HANG"


# ----------------------------------------------------------------------------- projections
ERR_RE = re.compile(r"E:[A-Za-z0-9]+(\([0-9,]*\))?")


def collapse_errors(line):
    return ERR_RE.sub("E", line)


def split_top(s):
    """split the inside of a bracketed list at top level blanks"""
    out, depth, cur = [], 0, ""
    for ch in s:
        if ch in "[(":
            depth += 1
        elif ch in "])":
            depth -= 1
        if ch == " " and depth == 0:
            if cur:
                out.append(cur)
            cur = ""
        else:
            cur += ch
    if cur:
        out.append(cur)
    return out


def parse_out(s):
    """parse a canonical result line into nested python lists: [..] -> list, tag(..) -> (tag, list)"""
    s = s.strip()
    if s.startswith("[") and s.endswith("]"):
        return [parse_out(x) for x in split_top(s[1:-1])]
    m = re.match(r"^([A-Za-z_][A-Za-z0-9_:]*)\((.*)\)$", s)
    if m and _balanced(m.group(2)):
        return (m.group(1), [parse_out(x) for x in split_top(m.group(2))])
    return s


def _balanced(s):
    d = 0
    for ch in s:
        if ch in "[(":
            d += 1
        elif ch in "])":
            d -= 1
            if d < 0:
                return False
    return d == 0


# ----------------------------------------------------------------------------- shrinking
def shrink_case(case, fails, budget=150):
    """Greedy shrink of a case line: drop query groups, then cut bytes from hex tokens."""
    best = case
    tries = 0

    def attempt(c):
        nonlocal best, tries
        if tries >= budget or c == best:
            return False
        tries += 1
        if fails(c):
            best = c
            return True
        return False

    changed = True
    while changed and tries < budget:
        changed = False
        groups = best.split(" | ")
        if len(groups) > 2:
            for i in range(len(groups) - 1, 0, -1):
                g2 = groups[:i] + groups[i + 1:]
                if attempt(" | ".join(g2)):
                    changed = True
                    break
            if changed:
                continue
        toks = best.split(" ")
        for i, t in enumerate(toks):
            if re.fullmatch(r"x[0-9a-f]{4,}", t):
                nb = (len(t) - 1) // 2
                for cut in (nb // 2, nb // 4, 1):
                    if cut >= 1 and nb - cut >= 0:
                        t2 = "x" + t[1:1 + 2 * (nb - cut)]
                        if attempt(" ".join(toks[:i] + [t2] + toks[i + 1:])):
                            changed = True
                            break
                if changed:
                    break
    return best


# ----------------------------------------------------------------------------- findings
def load_known_findings():
    p = os.path.join(VERIF, "known_findings.txt")
    out = []
    if os.path.exists(p):
        for line in open(p):
            line = line.rstrip("\n")
            m = re.match(r"^finding: property=(\S+) case=\{(.*?)\} (.*)$", line)
            if m:
                out.append({"property": m.group(1), "case": m.group(2), "what": m.group(3)})
    return out


def write_json(path, obj):
    os.makedirs(os.path.dirname(path), exist_ok=True)
    tmp = path + ".tmp"
    with open(tmp, "w") as f:
        json.dump(obj, f, indent=1, sort_keys=True)
        f.write("\n")
    os.replace(tmp, path)
