#!/usr/bin/env python3
"""Is each seeded change caught under OTHER seeds too? (an audit: a catch that depends on the luck of one PRNG stream is
a weak catch).  For every stored change: apply to /repo, run the check of its (first) property with VERIF_SEED=2,3,..,
revert.  Prints the (change, seed) pairs that are missed; never touches meta.json or committed evidence.

  python3 tools/seedrobust.py [name-prefix] [seed ...]     (default seeds: 2 3; SEEDROBUST_RE=<regex> filters names too)
"""
import json, os, re, subprocess, sys
V = os.path.dirname(os.path.dirname(os.path.abspath(__file__)))
S = os.path.join(V, "seeded")
prefix = next((a for a in sys.argv[1:] if not a.isdigit()), "")        # e.g. "F-" to audit only the per-file / per-theme rounds
seeds = [int(x) for x in sys.argv[1:] if x.isdigit()] or [2, 3]


def sh(cmd, env=None):
    p = subprocess.run(cmd, stdout=subprocess.PIPE, stderr=subprocess.STDOUT, text=True, env=env, cwd=V)
    return p.returncode, p.stdout


rc, o = sh(["git", "-C", "/repo", "status", "--porcelain", "--untracked-files=no"])
if o.strip():
    print("refusing: /repo has local modifications"); sys.exit(2)
ev = {f: open(os.path.join(V, "evidence", f)).read() for f in os.listdir(os.path.join(V, "evidence"))}
missed = []
try:
    for n in sorted(os.listdir(S)):
        mp = os.path.join(S, n, "meta.json")
        if not os.path.exists(mp) or not n.startswith(prefix) or not re.search(os.environ.get("SEEDROBUST_RE", ""), n):
            continue
        m = json.load(open(mp))
        prop = m["property"]
        cb = m.get("caught_by", {})
        if not cb.get(prop, {}).get("caught"):        # caught only through another property's check: use that one
            c2 = [c for c, v in cb.items() if v.get("caught")]
            if not c2:
                continue
            prop = c2[0]
        rc, o = sh(["git", "-C", "/repo", "apply", os.path.join(S, n, "patch.diff")])
        if rc != 0:
            print(n, "apply failed"); continue
        try:
            for sd in seeds:
                rc, o = sh([os.path.join(V, "check"), prop, "--tier", "quick"], env=dict(os.environ, VERIF_SEED=str(sd), CARGO_NET_OFFLINE="true", VERIF_NO_CORPUS="1"))
                vio = [l for l in o.splitlines() if l.startswith("VIOLATION")]
                ok = rc != 0 and bool(vio)
                inp = ok and not vio[0].endswith("no-failing-input-found")
                print(n, prop, "seed", sd, "CAUGHT" if ok else "MISSED", "" if inp or not ok else "(no failing input)", flush=True)
                if not ok:
                    missed.append((n, prop, sd))
        finally:
            sh(["git", "-C", "/repo", "checkout", "--", "."])
finally:
    for f, txt in ev.items():
        open(os.path.join(V, "evidence", f), "w").write(txt)
print("missed:", missed)
