#!/usr/bin/env python3
"""One round of sub-agent changes, from confirmation to the table (the steps rounds 10-12 were done with).

  seedround.py <root> <round-no> <ID> [<ID> ...]

<root>/<ID>/{wt (scratch worktree of /repo), out/{patchK.diff, demoK.rs, metaK.json}} for K = 1, 2 as the sub-agents
left them.  Confirms each change in its worktree (tools/seed.py confirm: suite unchanged, demo fails with / passes
without), stores it as seeded/<ID>-<next free k>, applies each to /repo and runs its property's quick check
(tools/seed.py run), removes the worktrees, rebuilds the corpus and prints the table rows.
"""
import json, os, subprocess, sys
V = os.path.dirname(os.path.dirname(os.path.abspath(__file__)))
sys.path.insert(0, os.path.join(V, "tools"))
import seed

root, rnd, ids = sys.argv[1], int(sys.argv[2]), sys.argv[3:]
new = []
for pid in ids:
    out = "%s/%s/out" % (root, pid)
    have = [int(n.split("-")[1]) for n in os.listdir(seed.SEEDED) if n.startswith(pid + "-")]
    nxt = max(have or [0]) + 1
    for k in (1, 2):
        if not os.path.exists("%s/patch%d.diff" % (out, k)):
            print(pid, k, "no patch"); continue
        if seed.confirm(pid, str(k), root, str(nxt)):
            name = "%s-%d" % (pid, nxt)
            mp = os.path.join(seed.SEEDED, name, "meta.json")
            m = json.load(open(mp))
            try:
                o = json.load(open("%s/meta%d.json" % (out, k)))
            except Exception:
                o = {"what": "", "needs": ""}
            m["agent_readme"] = "## Change %d: %s\n\nNeeds to manifest: %s\n" % (k, o.get("what", ""), o.get("needs", ""))
            m["needs"] = o.get("needs", ""); m["round"] = rnd
            json.dump(m, open(mp, "w"), indent=1)
            new.append(name); nxt += 1
for name in new:
    seed.run(name)
for pid in ids:
    subprocess.run(["git", "-C", "/repo", "worktree", "remove", "--force", "%s/%s/wt" % (root, pid)])
subprocess.run(["git", "-C", "/repo", "worktree", "prune"])
subprocess.run(["python3", os.path.join(V, "tools", "mkcorpus.py")], stdout=subprocess.DEVNULL)
tab = subprocess.run(["python3", os.path.join(V, "tools", "seedtable.py")], capture_output=True, text=True).stdout
for l in tab.splitlines():
    if any(l.startswith("| %s |" % n) for n in new):
        print(l[:240])
