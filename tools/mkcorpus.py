#!/usr/bin/env python3
"""Rebuilds corpus/<ID>.txt from the replay files the seeded runs left behind (seeded/*/meta.json -> caught_by -> replay
path under _build/replay) plus the inputs of the repaired genuine defects.  Run after `tools/seed.py runall`."""
import json, glob, os, re
V = os.path.dirname(os.path.dirname(os.path.abspath(__file__)))
found, missing = {}, 0
for f in sorted(glob.glob(V + "/seeded/*/meta.json")):
    m = json.load(open(f)); name = f.split("/")[-2]
    for c, v in m.get("caught_by", {}).items():
        if not v.get("caught") or not v.get("violation"):
            continue
        mm = re.search(r"replay=(\S+)", v["violation"][0])
        if not mm:
            continue
        if os.path.exists(mm.group(1)):
            r = json.load(open(mm.group(1)))
            case = r.get("original_case") or r.get("case")
            if case and r.get("kind") == "input" and not case.startswith("features"):
                found.setdefault(c, []).append((name, case))
        else:
            missing += 1
fixed = {"C01": ["ident any x7f454c4601", "ident le x", "ident be x7f"], "C10": ["ident any x7f454c4601"],
         "C19": ["const R_PPC64_TPREL16_LO", "tostr e_machine_to_str p 243", "tostr ch_type_to_str p 2", "layout Elf32_Sym"]}
os.makedirs(V + "/corpus", exist_ok=True)
old = {}
for p in glob.glob(V + "/corpus/*.txt"):          # keep what is already there (replay files are ephemeral)
    c = os.path.basename(p)[:-4]
    lab = None
    for l in open(p):
        l = l.rstrip("\n")
        if l.startswith("#"):
            lab = l[2:]
        elif l.strip():
            old.setdefault(c, []).append((lab or "", l))
for c in sorted(set(found) | set(fixed) | set(old)):
    lines = ["# minimized / original failing inputs of earlier findings and seeded changes; they run first on every check of %s" % c]
    seen = set()
    for case in fixed.get(c, []):
        if case not in seen:
            lines += ["# genuine defect (fixed in /repo)", case]; seen.add(case)
    for name, case in old.get(c, []) + found.get(c, []):
        if case in seen or len(case) > 20000 or name.startswith("minimized"):
            continue
        seen.add(case)
        lines += ["# " + name, case]
    open(V + "/corpus/%s.txt" % c, "w").write("\n".join(lines) + "\n")
print({c: len(v) for c, v in found.items()}, "replay files missing:", missing)
