#!/usr/bin/env python3
"""Mutation test of the MODEL (an audit, not a check): each entry changes one Gallina definition of coq/Model or
coq/Base in a scratch copy of /verif; the named property checks are then run there against the unchanged /repo.
A mutant is KILLED by a proof (a theorem no longer checks) or by the tie (model and implementation disagree);
a SURVIVOR is a part of the model that neither a theorem nor the correspondence pins down.

  python3 tools/modelmut.py [first [last]]     -> _build/modelmut.json, printed table
"""
import json, os, shutil, subprocess, sys, time
VERIF = os.path.dirname(os.path.dirname(os.path.abspath(__file__)))
SCR = "/tmp/modelmut"

M = [
    ("Model/Table.v", "if blen d <? start then Err (EBadOffset i)", "if blen d <=? start then Err (EBadOffset i)", ["C09", "C01"]),
    ("Model/Table.v", "if blen d =? 0 then (None, off) else", "if blen d =? 1 then (None, off) else", ["C09"]),
    ("Model/StrTab.v", "if blen d <? off then Err (EBadOffset off) else", "if blen d <=? off then Err (EBadOffset off) else", ["C15"]),
    ("Model/StrTab.v", "| Some p => Ok (off, p)", "| Some p => Ok (off, p + 1)", ["C15"]),
    ("Model/Note.v", "if 0 <? off mod align then", "if 1 <? off mod align then", ["C14"]),
    ("Model/Note.v", "match parse_nhdr s ELF32 d off with", "match parse_nhdr s c d off with", ["C14"]),
    ("Model/Note.v", "(snd r - fst r =? 4) && (bN d (fst r) =? 71)", "(snd r - fst r =? 4) && (bN d (fst r) =? 103)", ["C14"]),
    ("Model/Note.v", "else if n_type nh =? 3 then (Ok (NBuildId (ds, de)), nx)", "else if n_type nh =? 2 then (Ok (NBuildId (ds, de)), nx)", ["C14"]),
    ("Model/Note.v", "| (Err _, o) => (Ok None, o)", "| (Err _, o) => (Ok None, off)", ["C14"]),
    ("Model/Hash.v", "N.lxor h1 (N.land (N.shiftr h1 24) 240)", "N.lxor h1 (N.land (N.shiftr h1 24) 15)", ["C12"]),
    ("Model/Hash.v", "(((h * 33) mod M32) + b) mod M32", "(((h * 31) mod M32) + b) mod M32", ["C11"]),
    ("Model/Hash.v", "sysv_walk (N.to_nat (table_len 4 chains)) index", "sysv_walk (N.to_nat (table_len 4 buckets)) index", ["C12", "C16"]),
    ("Model/Hash.v", "if chain_start <? gh_symoffset hdr then Ok None else", "if chain_start <=? gh_symoffset hdr then Ok None else", ["C11"]),
    ("Model/Hash.v", "if N.lor hash 1 =? N.lor chain_hash 1 then", "if hash =? chain_hash then", ["C11"]),
    ("Model/Hash.v", "let? hash2 := if gh_nshift hdr <? 32 then", "let? hash2 := if gh_nshift hdr <=? 32 then", ["C11", "C01"]),
    ("Model/Hash.v", "if negb (N.land chain_hash 1 =? 0) then Ok None else gnu_walk f hash (chain_idx + 1)", "if negb (N.land chain_hash 1 =? 0) then Ok None else gnu_walk f hash (chain_idx + 2)", ["C11"]),
    ("Model/SymVer.v", "let cnt3 := if (0 <? cnt2) && (nxt x =? 0) then 0 else cnt2 in", "let cnt3 := cnt2 in", ["C13", "C16"]),
    ("Model/SymVer.v", "if negb (vna_other vna =? vx_index ver) then Some (Ok None) else", "if negb (vna_other vna =? ver) then Some (Ok None) else", ["C13"]),
    ("Model/SymVer.v", "let? aoff := add_or_panic off (vd_aux vd) in", "let? aoff := add_or_panic (vi_off st) (vd_aux vd + 0) in", ["C13"]),
    ("Model/SymVer.v", "rq_flags := vna_flags vna; rq_hidden := vx_is_hidden ver", "rq_flags := vna_flags vna; rq_hidden := false", ["C13"]),
    ("Model/ElfBytes.v", "let? shnum := if e_shnum eh =? 0", "let? shnum := if e_shnum eh <=? 0", ["C05"]),
    ("Model/ElfBytes.v", "let? phnum := if e_phnum eh =? PN_XNUM", "let? phnum := if PN_XNUM <=? e_phnum eh", ["C05"]),
    ("Model/ElfBytes.v", "let? size := ok_or (checked_mul entsize shnum) EIntegerOverflow in", "let? size := ok_or (checked_mul entsize (shnum + 0)) EIntegerOverflow in", ["C05"]),
    ("Model/Stream.v", "if r_slen r <? e then (Err (EBadOffset e), r) else", "if r_slen r <=? e then (Err (EBadOffset e), r) else", ["C07", "C08"]),
    ("Model/File.v", None, None, []),
    # ---- batch 2
    ("Model/ElfBytes.v", "if sh_type h =? SHT_NOBITS then Ok ((0, 0), None) else", "if sh_type h =? 0 then Ok ((0, 0), None) else", ["C03"]),
    ("Model/ElfBytes.v", "if b - a <? off then Err (ESliceReadError off (sh_size h)) else Ok ((a + off, b), Some ch)", "if b - a <=? off then Err (ESliceReadError off (sh_size h)) else Ok ((a + off, b), Some ch)", ["C03"]),
    ("Model/ElfBytes.v", "      | Some _, Some _, Some _ => (vs', nd', df')", "      | Some _, Some _, Some _ => symver_scan t vs' nd' df'", ["C13", "C07"]),
    ("Model/ElfBytes.v", "Some (let? _ := validate_entsize 2 (sh_entsize vsh) in", "Some (let? _ := validate_entsize 2 2 in", ["C13", "C05"]),
    ("Model/ElfBytes.v", "    Ok (sh_info h, dr, tr).", "    Ok (sh_info h, tr, dr).", ["C13"]),
    ("Model/ElfBytes.v", "if negb (p_type h =? PT_NOTE) then Err (EUnexpectedSegmentType (p_type h) PT_NOTE) else", "if negb (p_type h =? PT_NOTE) then Err (EUnexpectedSectionType (p_type h) PT_NOTE) else", ["C20", "C03"]),
    ("Model/ElfBytes.v", "let? r := section_data_typed SHT_NOTE h in Ok (r, sh_addralign h).", "let? r := section_data_typed SHT_NOTE h in Ok (r, sh_entsize h).", ["C14", "C03", "C20"]),
    ("Model/Utf8.v", "inr 160 191 b && cont c && utf8_valid t3", "inr 128 191 b && cont c && utf8_valid t3", ["C15"]),
    ("Model/Utf8.v", "inr 128 159 b && cont c && utf8_valid t3", "inr 128 191 b && cont c && utf8_valid t3", ["C15"]),
    ("Model/Utf8.v", "inr 128 143 b && cont c && cont e && utf8_valid t4", "inr 128 191 b && cont c && cont e && utf8_valid t4", ["C15"]),
    ("Model/Utf8.v", "else if inr 194 223 a then", "else if inr 192 223 a then", ["C15"]),
    ("Model/Note.v", "Ok (fst r, snd r - count_trailing_nul bs) else Err EUtf8Error", "Ok (fst r, snd r) else Err EUtf8Error", ["C14"]),
    ("Model/Structs.v", "Definition st_vis (y : sym) : N := N.land (st_other y) 3.", "Definition st_vis (y : sym) : N := N.land (st_other y) 7.", ["C02"]),
    ("Model/Structs.v", "ret {| r_offset := o; r_sym := N.shiftr i 8; r_type := N.land i 255 |}", "ret {| r_offset := o; r_sym := N.shiftr i 8; r_type := N.land i 127 |}", ["C02"]),
    ("Model/Structs.v", "| ELF64 => t <- u32 s d ;; _ <- u32 s d ;; z <- u64 s d ;; a <- u64 s d ;;", "| ELF64 => t <- u32 s d ;; z <- u64 s d ;; a <- u64 s d ;; _ <- u32 s d ;;", ["C02"]),
    ("Model/Stream.v", "| ((s', e'), b) :: t => if (s' =? s) && (e' =? e) then Some b else cache_lookup s e t", "| ((s', e'), b) :: t => if (s' =? s) && (e <=? e') then Some b else cache_lookup s e t", ["C07", "C17"]),
    ("Model/Stream.v", "    if n =? 0 then (Ok (view (content w) (r_pos r, r_pos r + n)), r) else", "    if n <? 0 then (Ok (view (content w) (r_pos r, r_pos r + n)), r) else", ["C07", "C08", "C17"]),
    ("Model/Stream.v", "  | (Ok _, r0) => let (x, r1) := run_real w (open_prog fam) r0 in (x, clear_cache r1)", "  | (Ok _, r0) => let (x, r1) := run_real w (open_prog fam) r0 in (x, r1)", ["C07", "C08"]),
    ("Model/SymVer.v", "Definition link_fuel (d : buf) : nat := S (S (N.to_nat (blen d))).", "Definition link_fuel (d : buf) : nat := S (N.to_nat (blen d)).", ["C13", "C16"]),
    ("Model/Table.v", "Definition iter_fuel (d : buf) : nat := S (N.to_nat (blen d)).", "Definition iter_fuel (d : buf) : nat := N.to_nat (blen d).", ["C09", "C16"]),
    # ---- batch 3: the hand-written reading of p_flags_to_string (Spec/AbiTables.v)
    ("Spec/AbiTables.v", "  if Z.ltb v 8 then flag_letter tab", "  if Z.leb v 8 then flag_letter tab", ["C19"]),
    ("Spec/AbiTables.v", 'flag_letter tab "PF_W" "W" v ++ flag_letter tab "PF_X" "E" v', 'flag_letter tab "PF_X" "W" v ++ flag_letter tab "PF_W" "E" v', ["C19"]),
    ("Spec/AbiTables.v", '  | Some m => if Z.eqb (Z.land v m) 0 then " " else letter', '  | Some m => if Z.eqb (Z.land v m) m then letter else " "', ["C19"]),      # equivalent for single-bit masks: survives, rightly
    ("Spec/AbiTables.v", '  | None => "?"', '  | None => " "', ["C19"]),      # unreachable while the crate exports PF_R/PF_W/PF_X: survives, rightly
    ("Spec/AbiTables.v", '  else "p_flags(" ++ hex0xl (Z.to_N v) ++ ")".', '  else "p_flags(" ++ hex0xl (Z.to_N (v - 1)) ++ ")".', ["C19"]),
]


def sh(cmd, cwd=None, timeout=7200):
    p = subprocess.run(cmd, cwd=cwd, shell=isinstance(cmd, str), stdout=subprocess.PIPE, stderr=subprocess.STDOUT, text=True, timeout=timeout)
    return p.returncode, p.stdout


def main():
    lo = int(sys.argv[1]) if len(sys.argv) > 1 else 0
    hi = int(sys.argv[2]) if len(sys.argv) > 2 else len(M)
    out_path = os.path.join(VERIF, "_build", "modelmut.json")
    res = json.load(open(out_path)) if os.path.exists(out_path) else {}
    if os.path.exists(SCR):
        shutil.rmtree(SCR)
    # a scratch copy with the compiled Coq files (only what depends on the mutated file is rebuilt) but its own _build
    sh("mkdir -p %s && rsync -a --exclude _build --exclude .git --exclude seeded %s/ %s/verif/" % (SCR, VERIF, SCR))
    os.makedirs(SCR + "/verif/_build", exist_ok=True)
    sh("rsync -a %s/_build/cargo %s/_build/ocaml %s/verif/_build/ 2>/dev/null" % (VERIF, VERIF, SCR))
    W = SCR + "/verif"
    for k, (f, old, new, props) in enumerate(M):
        if k < lo or k >= hi or old is None:
            continue
        p = os.path.join(W, "coq", f)
        src = open(p).read()
        if src.count(old) != 1:
            print(k, f, "TARGET NOT UNIQUE (%d)" % src.count(old)); continue
        open(p, "w").write(src.replace(old, new))
        verdict, detail = "SURVIVED", []
        t0 = time.time()
        for c in props:
            rc, o = sh(["./check", c, "--tier", "quick"], cwd=W)
            vio = [l for l in o.splitlines() if l.startswith("VIOLATION")]
            if vio:
                rp = vio[0].split("replay=")[1].split(" ")[0]
                why = ""
                try:
                    rj = json.load(open(rp))
                    why = rj.get("broken") or rj.get("oracle") or ""
                except Exception:
                    pass
                kind = "PROOF" if ("make" in why or "Properties" in why or "coq" in why.lower() and "correspondence" not in why) else "TIE"
                verdict = "KILLED"
                also = [l for l in o.splitlines() if l.startswith("note: additionally broken")]
                if also and kind == "TIE":
                    kind = "PROOF+TIE"
                detail.append("%s:%s:%s" % (c, kind, (why + " " + " ".join(also))[:160]))
                break
            detail.append("%s:pass" % c)
        open(p, "w").write(src)
        res[str(k)] = {"file": f, "old": old, "new": new, "verdict": verdict, "detail": detail, "wall_s": round(time.time() - t0)}
        print(k, f, verdict, detail, flush=True)
        json.dump(res, open(out_path, "w"), indent=1)
    shutil.rmtree(SCR)


if __name__ == "__main__":
    main()
