#!/usr/bin/env python3
"""Seeded-change bookkeeping.

  seed.py confirm <ID> <k>      confirm a sub-agent's change /tmp/mut/<ID>/out/patch<k>.diff in its scratch
                                worktree /tmp/mut/<ID>/wt (suite still passes, demo fails with / passes without),
                                then store it as /verif/seeded/<ID>-<k>/
  seed.py run <name> [checks..] apply /verif/seeded/<name>/patch.diff to /repo, run the quick checks (default: the
                                property it targets), undo, record which checks caught it in meta.json
  seed.py runall                run every stored change against its own property's check
"""
import json, os, re, shutil, subprocess, sys, time

VERIF = os.path.dirname(os.path.dirname(os.path.abspath(__file__)))
SEEDED = os.path.join(VERIF, "seeded")
ENV = dict(os.environ, CARGO_NET_OFFLINE="true")


def sh(cmd, cwd=None, timeout=1800):
    p = subprocess.run(cmd, cwd=cwd, shell=isinstance(cmd, str), stdout=subprocess.PIPE, stderr=subprocess.STDOUT,
                       text=True, env=ENV, timeout=timeout)
    return p.returncode, p.stdout


def suite(wt):
    rc, out = sh("cargo test --offline --no-fail-fast 2>&1", cwd=wt)
    passed = sum(int(m.group(1)) for m in re.finditer(r"test result: \w+\. (\d+) passed", out))
    failed = re.findall(r"^test (\S+) \.\.\. FAILED", out, flags=re.M)
    return passed, sorted(set(failed)), out


def demo(wt, src, k):
    dst = os.path.join(wt, "tests", "demo%s.rs" % k)
    os.makedirs(os.path.dirname(dst), exist_ok=True)
    shutil.copy(src, dst)
    rc, out = sh("cargo test --offline --test demo%s 2>&1" % k, cwd=wt)
    os.remove(dst)
    return rc, out


def confirm(pid, k, root="/tmp/mut", outk=None):
    base = "%s/%s" % (root, pid)
    wt, out = base + "/wt", base + "/out"
    patch, dm = "%s/patch%s.diff" % (out, k), "%s/demo%s.rs" % (out, k)
    sh("git checkout -- . && git clean -fdq tests", cwd=wt)
    log = {}
    rc, o = demo(wt, dm, k)
    log["demo_pristine_rc"] = rc
    rc, o = sh(["git", "apply", patch], cwd=wt)
    if rc != 0:
        print("patch does not apply:", o)
        return False
    passed, failed, o = suite(wt)
    log["suite_with_patch"] = {"passed": passed, "failed": failed}
    rc, o = demo(wt, dm, k)
    log["demo_patched_rc"] = rc
    log["demo_patched_tail"] = o[-600:]
    sh("git checkout -- . && git clean -fdq tests", cwd=wt)
    known = ["elf_bytes::interface_tests::shnum_and_shstrndx_in_shdr0", "elf_stream::interface_tests::shnum_and_shstrndx_in_shdr0"]
    ok = (log["demo_pristine_rc"] == 0 and log["demo_patched_rc"] != 0 and passed >= 239 + 6 and failed == known)
    print(pid, k, "confirmed" if ok else "NOT confirmed", json.dumps(log)[:400])
    if ok:
        byfile = not re.fullmatch(r"C\d\d", pid)          # round 6: sub-agents were given a source file, not a property
        d = os.path.join(SEEDED, ("F-%s-%s" if byfile else "%s-%s") % (pid, outk or k))
        os.makedirs(d, exist_ok=True)
        shutil.copy(patch, os.path.join(d, "patch.diff"))
        shutil.copy(dm, os.path.join(d, "demo.rs"))
        readme = open(out + "/README.md").read() if os.path.exists(out + "/README.md") else ""
        props = []
        if byfile:
            m = re.search(r"^#+\s*Change\s*%s\b.*?\n(?:.*\n){0,3}?\s*\**Properties\**\s*:\s*\**\s*(.*)$" % k, readme, flags=re.M)
            props = re.findall(r"C\d\d", m.group(1)) if m else []
        meta = {"property": (props[0] if props else pid), "properties": props, "change_no": int(k), "source": "independent sub-agent given only the property text and a scratch worktree",
                "confirmed": log, "what_i_ran": ["git apply patch.diff (scratch worktree)", "cargo test --offline --no-fail-fast (239 lib + 6 doc tests pass, the 2 known failures unchanged)",
                                                 "cargo test --offline --test demo (fails with the patch, passes without)"],
                "agent_readme": readme[:6000], "caught_by": {}}
        json.dump(meta, open(os.path.join(d, "meta.json"), "w"), indent=1)
    return ok


def run(name, checks=None, tier="quick"):
    d = os.path.join(SEEDED, name)
    meta = json.load(open(os.path.join(d, "meta.json")))
    checks = checks or (meta.get("properties") or [meta["property"]])
    rc, o = sh(["git", "-C", "/repo", "status", "--porcelain", "--untracked-files=no"])
    if o.strip():
        print("refusing: /repo has local modifications"); sys.exit(2)
    rc, o = sh(["git", "-C", "/repo", "apply", os.path.join(d, "patch.diff")])
    if rc != 0:
        print("apply failed", o); sys.exit(2)
    saved = {}
    for c in checks:
        ep = os.path.join(VERIF, "evidence", c + ".json")
        saved[ep] = open(ep).read() if os.path.exists(ep) else None
    try:
        for c in checks:
            t0 = time.time()
            rc, o = sh([os.path.join(VERIF, "check"), c, "--tier", tier], cwd=VERIF, timeout=3600)
            vio = [l for l in o.splitlines() if l.startswith("VIOLATION")]
            caught = rc != 0 and bool(vio)
            rp = ""
            if vio:
                m = re.search(r"replay=(\S+)", vio[0])
                if m and os.path.exists(m.group(1)):
                    rj = json.load(open(m.group(1)))
                    rp = {k: (str(v)[:300]) for k, v in rj.items() if k in ("kind", "case", "impl", "model", "oracle", "broken")}
            meta.setdefault("caught_by", {})[c] = {"tier": tier, "caught": caught, "violation": vio[:1], "replay": rp, "wall_s": round(time.time() - t0, 1),
                                                    "with_failing_input": bool(vio) and not vio[0].endswith("no-failing-input-found")}
            print(name, c, "CAUGHT" if caught else "MISSED", vio[:1], rp if caught else o[-300:])
    finally:
        sh(["git", "-C", "/repo", "checkout", "--", "."])
        for ep, txt in saved.items():       # evidence must describe the unchanged tree, not a seeded change
            if txt is not None:
                open(ep, "w").write(txt)
    json.dump(meta, open(os.path.join(d, "meta.json"), "w"), indent=1)


if __name__ == "__main__":
    cmd = sys.argv[1]
    if cmd == "confirm":
        confirm(*sys.argv[2:6])
    elif cmd == "run":
        run(sys.argv[2], sys.argv[3:] or None)
    elif cmd == "runall":
        for n in sorted(os.listdir(SEEDED)):
            if os.path.exists(os.path.join(SEEDED, n, "meta.json")):
                prev = json.load(open(os.path.join(SEEDED, n, "meta.json"))).get("caught_by", {})
                m0 = json.load(open(os.path.join(SEEDED, n, "meta.json")))
                run(n, sorted(set((m0.get("properties") or [m0["property"]]) + list(prev))))
