NOTES = ("Machine-checked proof in Coq 8.16.1 about an executable model of rust-elf, tied to /repo by extraction + "
         "differential correspondence (and a translator for the ABI tables). See DESIGN.md.")
PENDING = "check not built yet in this session (work in progress; see DESIGN.md section 5 for the planned theorem and tie)"
NOT_APPLICABLE = {("C%02d" % i): PENDING for i in range(1, 21)}
STD_NOTE = ("Trusted: Coq kernel, extraction (ExtrOcamlBasic only) + OCaml driver, Rust harness and generators; the theorems are "
            "about the hand-written model, which the correspondence check compares with the implementation on generated inputs; "
            "buf_ok (slice length <= isize::MAX), usize = 64 bit.")
CHECKS = {
    "C04": {
        "text": "Coq theorems C04_read_unsigned/C04_read_signed (for every spec, width, buffer, offset: value = positional "
                "interpretation of buffer[off..off+w), cursor += w; otherwise Err and cursor unchanged), C04_value_is_positional "
                "(inverse of the ABI encoding, both orders, signed), C04_any_is_fixed; closed under the global context. The model is "
                "tied to the code by running >8k reads (exhaustive u8, sampled/exhaustive u16, boundary offsets incl. usize::MAX) on both.",
        "note": STD_NOTE,
        "technique": "Coq proof over executable model + extraction-based differential correspondence",
    },
}
