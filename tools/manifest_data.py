NOTES = ("Machine-checked proof in Coq 8.16.1 about an executable model of rust-elf, tied to /repo by extraction + "
         "differential correspondence (and a translator for the ABI tables). See DESIGN.md.")
PENDING = "check not built yet in this session (work in progress; see DESIGN.md section 5 for the planned theorem and tie)"
NOT_APPLICABLE = {("C%02d" % i): PENDING for i in range(1, 21)}
STD_NOTE = ("Trusted: Coq kernel, extraction (ExtrOcamlBasic only) + OCaml driver, Rust harness and generators; the theorems are "
            "about the hand-written model, which the correspondence check compares with the implementation on generated inputs; "
            "buf_ok (slice length <= isize::MAX), usize = 64 bit.")
CHECKS = {
    "C04": {
        "text": "Coq theorems C04_read_unsigned/C04_read_signed (for every spec, width, buffer, offset: value = positional "
                "interpretation of buffer[off..off+w), cursor += w; otherwise Err and cursor unchanged), C04_value_is_positional "
                "(inverse of the ABI encoding, both orders, signed), C04_any_is_fixed; closed under the global context. The model is "
                "tied to the code by running >8k reads (exhaustive u8, sampled/exhaustive u16, boundary offsets incl. usize::MAX) on both.",
        "note": STD_NOTE,
        "technique": "Coq proof over executable model + extraction-based differential correspondence",
    },
    "C02": {
        "text": "Coq theorems C02_*_decode for the 17 ParseAt types and the file-header tail: for every buffer, offset, class and spec the monadic "
                "parser transcribed from the source equals the record built from the frozen gABI layout table (field F = positional value of ABI "
                "field F; unsigned into N, signed two's complement into Z) and consumes exactly the ABI size; C02_short (never a value on short "
                "input), C02_roundtrip_* (decode of the ABI encoding gives the value back), C02_packed (r_info/st_info/st_other/version index as "
                "the ABI macros' div/mod). Tie: ~3k (quick) encodings of boundary/distinct-byte field values checked against an independent python encoder.",
        "note": STD_NOTE + " Frozen reference layouts in coq/Ref/RefLayout.v were written from the gABI/<elf.h>.",
        "technique": "Coq proof over executable model + extraction-based differential correspondence",
    },
    "C09": {
        "text": "Coq theorem C09_coherent, generic in any regular entry parser (succeeds iff size bytes remain, then advances by size): len = "
                "bytes/size, is_empty <-> len = 0, get(i) Ok <-> i < len for every i (incl. overflow), iteration yields exactly len items with "
                "j-th = get(j), None forever after the first None; C09_next_sequence (the j-th next() call is get(j) or None, for any number of "
                "calls), C09_nth (provided Iterator::nth after k next() calls = entry k+n or None); C09_entry_types shows the 9 entry types are "
                "regular. Tie + metamorphic oracle: the laws are evaluated on the implementation's own outputs for every ragged length "
                "0..4*entsize-1, incl. scripts of next/nth/take/count/last/step_by/skip/fold on a partly advanced iterator.",
        "note": STD_NOTE,
        "technique": "Coq proof (induction over entries) + correspondence + metamorphic laws on implementation outputs",
    },
    "C10": {
        "text": "Coq theorems C10_ident (decision table of parse_ident with error kinds and payloads), C10_accepts, C10_gate (open succeeds only "
                "if EI_DATA is accepted), C10_ident_error_surfaces, C10_any_open / C10_any_queries / C10_any_common (the any-endian handle equals "
                "the fixed-spec handle up to the spec tag and every query returns the identical result), C10_message_or_source / C10_message_numbers "
                "(Display of a reported error: own message or wrapped source; rendered numbers read back to the payload). Tie: all 256 values of EI_DATA/EI_CLASS/"
                "EI_VERSION and magic corruptions x 4 specs on ident and open, error kind+payload compared; any-vs-fixed full-content equivalence "
                "on generated files. Stream-side gating is covered with C07.",
        "note": STD_NOTE + " NativeEndian is LittleEndian on the build target.",
        "technique": "Coq proof (case analysis, conversion) + exhaustive ident-byte correspondence",
    },
    "C15": {
        "text": "Coq theorems C15_get_raw (Ok exactly when off is inside the table and a NUL follows inside it; result = the longest NUL-free "
                "run at off; otherwise Err), C15_get (same bytes iff well-formed UTF-8), C15_utf8_valid_iff (the from_utf8 environment model "
                "accepts exactly Unicode Table 3-7). Tie: exhaustive tables <= 5/7 bytes over {NUL, ASCII, lead, continuation} x every offset, "
                "8..40-byte tables over bytes adjacent to NUL in every bit position, random 4 KiB tables incl. offset usize::MAX; error kinds (bad offset / "
                "missing NUL / not UTF-8) compared with the model, payloads not; from_utf8 validated against the real function on structured byte strings.",
        "note": STD_NOTE + " core::str::from_utf8 is an environment model (validated each run against the real function and python's strict decoder).",
        "technique": "Coq proof + exhaustive small-domain correspondence",
    },
    "C11": {
        "text": "Coq theorems C11_hash_fn (gnu_hash = djb2 fold h*33+c mod 2^32 from 5381, every name), C11_sound (for ANY table, symbol-table "
                "and string-table bytes, class and spec: a returned (i, sym) is the symbol-table entry at i and its name equals the query), "
                "C11_complete_present / C11_complete_absent (on a table satisfying the declarative predicate gnu_wf -- every hashed symbol "
                "named, its chain entry carrying its hash, both bloom bits set in its bloom word of the class's width, its bucket's chain "
                "starting at or before it with no stop bit in between -- every hashed name is found and every absent name, colliding in "
                "hash, bloom bits or bucket or not, gives None), C11_find_is_find_in; C11_wf_example proves gnu_wf for a concrete built "
                "table. Tie: built tables (bloom words 1..64, shift 0..31, symoffset, class x spec) queried with present and colliding "
                "absent names vs a linear scan; corrupted tables: soundness on the implementation's own answers.",
        "note": STD_NOTE,
        "technique": "Coq proof (soundness by inspection of the return point, completeness by induction along the chain segment) + extraction-based differential correspondence with linear-scan oracle",
    },
    "C12": {
        "text": "Coq theorems C12_hash_fn (sysv_hash with u32 wrapping arithmetic = the gABI elf_hash routine over a 32-bit word, every name), "
                "C12_sound (any table bytes: returned symbol is the entry at the returned index and carries the queried name), "
                "C12_complete_present / C12_complete_absent (on a table satisfying the declarative well-formedness predicate sysv_wf every "
                "present name is found and every absent name, colliding or not, gives None). Tie: hash on all strings <= 3 over a 16-symbol "
                "alphabet + long/high-byte strings vs an independent reference; lookups on built and corrupted tables vs a linear scan.",
        "note": STD_NOTE + " gABI elf_hash is read over a 32-bit word (the 64-bit unsigned long reading of the printed routine is a known erratum).",
        "technique": "Coq proof (bitwise invariant, induction on the chain) + extraction-based differential correspondence",
    },
    "C14": {
        "text": "Coq theorems C14_roundtrip (any buffer holding the ABI encoding of any list of notes, any alignment >= 1, either class, any "
                "spec, iterates to exactly those notes, typed for GNU ABI-tag/build-id, name/desc = the file ranges), C14_one_record, "
                "C14_zero_align, C14_name_str, C14_wiring (sections pass sh_addralign, segments p_align). Tie: 0..20 notes, every residue of "
                "namesz/descsz, align in {1,2,4,8,16,random}, truncation, garbage tails, through sections, segments and the stand-alone "
                "iterator, against an independent python reference walk.",
        "note": STD_NOTE + " from_utf8 is an environment model (C15).",
        "technique": "Coq proof (induction over the note list) + extraction-based differential correspondence",
    },
    "C13": {
        "text": "Coq theorems over a declarative layout predicate (records linked by their next/aux offsets in any forward placement): "
                "C13_iter_aux / C13_iter_outer (the four iterators yield exactly the linked records in chain order), C13_requirement "
                "(get_requirement = file, version name, hash, flags of the FIRST auxiliary record whose vna_other equals versym[i] mod 2^15, "
                "hidden = bit 15, Ok None when none matches, the versym error when i is beyond the table), C13_definition, "
                "C13_definition_names, C13_index_bits, C13_beyond_versym, C13_wiring (counts from sh_info, strings via sh_link). Tie: version "
                "models with contiguous and interleaved placement, hidden bits, duplicates, unknown indexes, class x spec, through the "
                "stand-alone table and through ElfBytes, against the generator's ground truth.",
        "note": STD_NOTE + " from_utf8 is an environment model (C15).",
        "technique": "Coq proof (chain induction, first-match refinement) + extraction-based differential correspondence with ground-truth oracle",
    },
    "C19": {
        "text": "Coq theorems over tables REGENERATED from /repo/src on every run by the translator tools/tablegen.py: C19_constants (every "
                "name of the frozen reference table -- glibc elf.h + LLVM 14 where they agree + a cited gABI/GNU list, 1123 names -- that the "
                "crate exports has the reference value), C19_layout (each of the 16 #[repr(C)] structs has the gABI's fields, types, offsets "
                "and size under the repr(C) layout function), C19_to_str (for the ten symbolic helpers and EVERY argument value: a returned "
                "string is the identifier of an exported constant with that value; first-match semantics of the generated arm table), C19_to_string "
                "(the eight *_to_string wrappers, translated too: the text is such an identifier or prefix(0x<hex>) whose digits read back to the value), C19_p_flags (p_flags_to_string, modelled by hand with the PF_* masks taken from the regenerated constants: for any u32 the gABI letters below 8, p_flags(0x<hex>) from 8 on). Finite "
                "tables: forallb by vm_compute lifted by lemmas. Translator validated each run against rustc's own constants, size_of, "
                "offset_of! and to_str results; independent implementation-only oracle names the failing constant / field / arm.",
        "note": STD_NOTE + " Trusted in addition: the translator, the frozen reference tables (47 exported names have no reference and are not covered; 4 names on which glibc and LLVM disagree are excluded), the repr(C) layout model (validated against rustc each run). p_flags_to_string (not of the wrapper shape) has a hand-written model, tied by evaluating it in coqc on the probe values and comparing the exact text.",
        "technique": "Coq proof over tables regenerated from the source by a translator (finite forallb by vm_compute + lifting lemmas), translator validated against rustc",
    },
    "C03": {
        "text": "Coq theorems about the slice-parser model in which every slice handed out IS an absolute (start,end) range of the caller's "
                "buffer: C03_section_nobits / _unfit / _plain / _compressed (empty for NOBITS; error when [sh_offset, sh_offset+sh_size) "
                "does not fit; exactly that range otherwise; with SHF_COMPRESSED the C02 decoding of the compression header and the "
                "remainder, error when shorter than the header), C03_segment_data ([p_offset, p_offset+p_filesz) or error; p_memsz never "
                "enters), C03_strtab_entry and C03_note_ranges (typed views hand out sub-ranges of their own range holding the file's "
                "bytes). Tie: the harness prints every returned borrow as pointer range relative to the input; generated objects plus "
                "caller-made headers at EOF-1/EOF/EOF+1, overflow, NOBITS with absurd ranges, compressed sizes around the header size; "
                "independent python oracle for the designated range.",
        "note": STD_NOTE + " That the returned slices borrow from (are not copies of) the input is observed by the harness through pointer arithmetic; in the model it holds by construction (ranges, not bytes, are returned).",
        "technique": "Coq proof (case analysis + arithmetic) + extraction-based differential correspondence with pointer-range observation",
    },
    "C05": {
        "text": "Coq theorems: C05_section_headers / C05_program_headers (find_shdrs / find_phdrs return Ok r exactly when the declarative "
                "table_spec gives r: offset 0 = absent; else declared entry size = the class's structure size and [off, off+size*n) inside the "
                "file, n = e_shnum or shdr[0].sh_size when 0 / e_phnum or shdr[0].sh_info when 0xffff; otherwise not Ok), C05_entry_count "
                "(the located table has exactly n entries), C05_open (minimal_parse = Ok eb IFF open_spec: ident accepted, header = C02 "
                "decoding, both tables per the rule), C05_open_stream (the stream parser opens IFF open_spec and then holds that handle's header and "
                "eager tables), C05_strtab (e_shstrndx = 0 / index / SHN_XINDEX -> shdr[0].sh_link), C05_entsize, "
                "C05_validate_entsize. Tie: boundary values in every table-locating field of the ELF header and shdr[0], wrong entry "
                "sizes, extended numbering incl. files with > 0xff00 sections, tables touching EOF, each file through ElfBytes and through ElfStream; independent python reading of the header.",
        "note": STD_NOTE,
        "technique": "Coq proof (iff between the monadic code and a declarative spec) + extraction-based differential correspondence",
    },
    "C20": {
        "text": "Coq theorems: C20_common_symtabs / _dynamic / _hashes (one-pass find_common_data leaves in each field the entry of the LAST "
                "section of the kind; with at most one section of the kind this is what symbol_table / dynamic_symbol_table / dynamic "
                "return, and the hash tables are `new` of the hash sections' ranges), C20_by_name + C20_name_is (the FIRST section in table "
                "order whose name is valid UTF-8 and equals the query; None otherwise), C20_typed_section / C20_typed_views (refused when "
                "the type differs, else exactly the range of section_data / segment_data), C20_dynamic_paths. Tie + metamorphic oracles on "
                "the implementation's own outputs: common == targeted, by-name == python scan of printed headers, typed views vs raw data; "
                "section tables in random order, duplicate kinds, prefix/suffix/duplicate/non-UTF-8/out-of-table names.",
        "note": STD_NOTE + " from_utf8 is an environment model (C15).",
        "technique": "Coq proof (induction over the section list, first/last-match lemmas) + correspondence + metamorphic oracles on implementation outputs",
    },
    "C07": {
        "text": "Coq model in which every ElfStream method is ONE program over the CachingReader's operations (free monad), interpreted "
                "over a stream (content, cache, I/O step counter, arbitrary fault schedule). Generic theorems for every program, cache state "
                "and history: C07_cache_inv (the cache only ever holds true, fully read content ranges), C07_history_free (fault-free answers "
                "depend only on content and call: any order, repetition, ranges sharing a start or an end), C07_methods_safe (every method "
                "loads before it gets). Equivalence with the slice parser's model on the same bytes: C07_open_stream + C07_open_equiv "
                "(opens IFF minimal_parse opens; identical header and header vectors), C07_section_data, C07_typed_views, C07_notes, "
                "C07_segment_notes, C07_symbol_tables, C07_symbol_versions, C07_name_table, C07_by_name (same success, identical content; scoped to "
                "non-compressed sections and absent/non-empty section header tables), C07_dynamic (slice Ok => stream Ok, same bytes). "
                "Tie + metamorphic oracle: stream vs slice on the same bytes over scripted readers (chunked, Interrupted), random histories.",
        "note": STD_NOTE + " Every public ElfStream method is covered by a theorem. Environment models: Read::read_exact / Seek contract, HashMap as association list.",
        "technique": "Coq proof (free-monad refinement: real interpreter vs pure reading, per-method equivalence with the slice model) + differential correspondence + metamorphic stream-vs-slice oracle",
    },
    "C08": {
        "text": "Coq theorems over the same stream model, for every method/program, every content, every cache state satisfying the invariant "
                "and every fault schedule: C08_no_panic (incl. the `expect` in get_bytes), C08_alloc_and_read_bound (every buffer allocation "
                "and every read is <= the stream length whatever the headers claim: the length guard precedes the allocation), C08_io_exact "
                "(fault-free, the I/O of a call is exactly one seek + one allocation + one read per not-yet-cached range it loads: lazy, "
                "nothing twice), C08_oversized_is_error (a range past the stream is BadOffset before any I/O), C08_open_loads + C08_io_from_loads (open_stream asks only for the ident, the header tail, shdr[0] under extended numbering and the two declared tables; all I/O comes from the ranges a method loads). Tie: exact I/O trace of "
                "implementation vs model; measured: largest single allocation <= 4*len + 8192 with a counting allocator, reads of "
                "open_stream inside header/shdr[0]/declared tables (independent python oracle), streams claiming up to 2^64-1.",
        "note": STD_NOTE + " Measured, not modelled: Vec growth of the header vectors and HashMap bucket growth (covered by the allocation bound oracle only).",
        "technique": "Coq proof (trace invariant by induction over programs) + I/O-trace correspondence + allocation measurement",
    },
    "C17": {
        "text": "Coq theorems over the stream model with an ARBITRARY fault schedule N -> option fault (error / premature EOF at any I/O "
                "call incl. the initial seek): C17_call (any method from any state satisfying the invariant: the answer is an I/O error or "
                "EXACTLY the fault-free content-only answer, never a panic, and the invariant survives), C17_history (every answer of every "
                "history likewise: no residue), C17_open, C17_failed_load_leaves_cache. Tie + metamorphic oracle on the implementation: a "
                "fault at every single I/O step (error, EOF, short read) and random multi-fault schedules; every query asked again after "
                "the failure; each answer must be an error or equal the fault-free run.",
        "note": STD_NOTE + " Environment model: a read_exact that fails delivers nothing the caller may use (std contract).",
        "technique": "Coq proof (error-or-same by induction over programs, invariant preservation) + exhaustive single-fault injection correspondence",
    },
    "C18": {
        "text": "Coq theorems with trunc n f = the file cut after n bytes, for EVERY file f and cut n: C18_views (a byte range that exists "
                "in the prefix is the same buffer in the whole file), C18_open (the prefix opens => the whole file opens with the identical "
                "handle), C18_slice_queries (all 15 slice-parser queries: an Ok answer on the prefix is the answer on the whole file; table "
                "entries identical), C18_stream (EVERY stream-parser method -- any program that loads before it gets, open included). Appending "
                "bytes is the same statement read from the shorter file. Tie + metamorphic oracle on the implementation: every prefix length "
                "of generated files (tables placed early) and files with random suffixes, slice and stream: each answer on the prefix is an "
                "error or equals the answer on the whole file.",
        "note": STD_NOTE + " AXIOM: the C18 theorems depend on FunctionalExtensionality.functional_extensionality_dep (Coq standard library), used once (sub_trunc / view_nil) to identify a view of the truncated file with the same view of the whole file; it is the only axiom in the development and is allow-listed for C18 only.",
        "technique": "Coq proof (one view lemma via functional extensionality + monotone bounds checks, per-query and generic-over-programs) + correspondence + metamorphic prefix oracle",
    },
    "C16": {
        "text": "Coq theorems that the fuel of every total model loop is never exhausted and that more fuel changes nothing (so the model "
                "function IS the terminating real loop), with item bounds: C16_entry_iterators (exactly blen/size <= blen items), C16_notes "
                "(any bytes, any alignment: terminates, <= blen/12 notes), C16_version_iterators (any declared count and start offset: "
                "terminate, <= count items, <= blen+1 items), C16_version_fuel_free, C16_version_queries + C16_definition_names (the nested "
                "loops of get_requirement / get_definition / names always complete); hash-chain walks recurse structurally on the code's "
                "own bound (nchain; chain_len - start), non-vacuity example on a self-loop chain. Tie: adversarial structures (cycles of "
                "every length, no stop bit, next = 0/overlapping, counts 2^32-1, aux chains past the count) vs the model, watchdog for hangs.",
        "note": STD_NOTE + " PARTIAL by nature: the wall-clock clause ('every query on <= 64 KiB completes within seconds') is a run-time fact; it is measured on five 64 KiB worst cases per run (10 s limit), not proved.",
        "technique": "Coq proof (termination measures, fuel independence, item bounds) + adversarial correspondence with watchdog + timed 64 KiB cases",
    },
    "C01": {
        "text": "Coq theorems that no entry point of the slice-parser model reaches a Panic result (the model has an explicit Panic branch, "
                "guarded by the exact failing condition, at every site where the Rust code could panic: unchecked arithmetic under overflow "
                "checks, indexing, split_at, unwrap/expect, % by a length): C01_integers, C01_structures (all 17 ParseAt types + header tail, "
                "any offset), C01_tables_and_strings (any index/offset incl. overflowing products), C01_notes (any alignment), C01_hash "
                "(construction and lookup on arbitrary bytes: nbloom = 0, empty buckets, nshift >= 32, chain_start < symoffset guarded), "
                "C01_versions (the four iterators from ANY state), C01_version_queries, C01_ident (any length), C01_file (minimal_parse and "
                "all 14 accessors with arbitrary caller-supplied headers). For every buffer of at most isize::MAX bytes. Tie: the union of "
                "all other generators + boundary arguments; harness built with overflow-checks and debug-assertions, catch_unwind per call.",
        "note": STD_NOTE + " The correspondence of the Panic sites themselves (that the model has a Panic branch wherever the code can panic) is what the differential check validates: the harness reports PANIC with the message, and a panic the model does not predict is a violation with the input as replay.",
        "technique": "Coq proof (no-Panic, compositional over the result monad) + differential correspondence with panic capture",
    },
    "C06": {
        "category": "other",
        "text": "MEASURED, not proved: this property lives in the allocator and in rustc's feature-gated compilation, which an executable "
                "Gallina model cannot exhibit. On every run against /repo's working tree: (a) a counting GlobalAlloc is active around every "
                "slice-parser call of the C01 case set (valid and corrupted inputs, every accessor, long and cyclic hash chains, version "
                "queries) with a non-allocating output sink: the allocation count must be 0; (b) cargo check for all 8 subsets of "
                "{alloc, std, to_str}; (c) rustc -Zls=root on the rlib: with default features off the external crates are within {core, "
                "compiler_builtins}; with alloc only, within that plus alloc. The Coq development contributes only C03 (every returned "
                "slice is a range of the caller's buffer: nothing is copied).",
        "note": "Level 'other' on purpose. Trusted: the counting allocator hook, cargo/rustc (stable for the matrix, nightly for -Zls), the harness printers being allocation-free (the two that are not pause the counter).",
        "technique": "measurement: counting global allocator over the differential case set + feature-matrix builds + rlib dependency listing (no theorem; see DESIGN.md section 5 C06)",
    },
}
