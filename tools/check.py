#!/usr/bin/env python3
"""./check <ID> [--tier quick|thorough] [--seed N] [--replay FILE]

Exit 0: the property held on everything explored.  Exit 1: prints
`VIOLATION property=<id> replay=<path>` (ending in ` no-failing-input-found` when a proof
obligation or the model/code correspondence broke and no concrete failing input was found).
"""
import argparse
import importlib
import json
import os
import random
import sys
import time

sys.path.insert(0, os.path.dirname(os.path.abspath(__file__)))
import vlib
from vlib import Broken

TRUSTED_BASE = [
    "Coq 8.16.1 kernel (coqc; coqchk re-check in the thorough tier); vm_compute; no native_compute",
    "Coq standard library only; axioms per theorem as reported by Print Assumptions (see 'axioms')",
    "extraction to OCaml with ExtrOcamlBasic only (bool, option, unit, list, prod, sumbool, sumor, andb, orb); N/Z/positive/nat/byte/string stay extracted inductives; OCaml 4.13.1; ocaml/driver.ml",
    "Rust harness harness/src/*.rs built against /repo's working tree (overflow-checks, debug-assertions on), case generators, canonical printers",
    "modelled not verified: core::str::from_utf8, Read/Seek contract, HashMap, Vec growth, format!, repr(C) layout, usize = 64 bit, slice len <= isize::MAX",
]


def report_violation(prop, replay, nofail=False):
    rp = os.path.join(vlib.BUILD, "replay")
    os.makedirs(rp, exist_ok=True)
    k = 0
    while os.path.exists(os.path.join(rp, "%s-%d.json" % (prop, k))):
        k += 1
    path = os.path.join(rp, "%s-%d.json" % (prop, k))
    vlib.write_json(path, replay)
    print("VIOLATION property=%s replay=%s%s" % (prop, path, " no-failing-input-found" if nofail else ""))
    sys.stdout.flush()
    return path


def first_diff(a, b):
    n = min(len(a), len(b))
    i = next((k for k in range(n) if a[k] != b[k]), n)
    return "at char %d: impl ...%s | model ...%s" % (i, a[max(0, i - 160):i + 160], b[max(0, i - 160):i + 160])


def main():
    ap = argparse.ArgumentParser()
    ap.add_argument("prop")
    ap.add_argument("--tier", default=os.environ.get("VERIF_TIER", "quick"))
    ap.add_argument("--seed", type=int, default=int(os.environ.get("VERIF_SEED", "1")))
    ap.add_argument("--replay")
    ap.add_argument("--no-proof", action="store_true", help="(development) skip the Coq proof step")
    a = ap.parse_args()
    if a.tier not in ("quick", "thorough"):
        a.tier = "quick"
    prop = a.prop
    t0 = time.time()
    mod = importlib.import_module("props." + prop)
    ev = {"property_id": prop, "tier": a.tier, "seed": a.seed, "level": getattr(mod, "LEVEL", "proof"),
          "coverage": {}, "assumptions": list(getattr(mod, "ASSUMPTIONS", [])), "wall_s": 0.0, "violations": 0}
    cov = ev["coverage"]
    violations = 0
    known = [k for k in vlib.load_known_findings() if k["property"] == prop]

    # ---------------- replay mode
    if a.replay:
        rp = json.load(open(a.replay))
        vlib.build_model()
        vlib.build_harness()
        case = rp.get("case")
        if not case:
            print("replay file names no concrete input: broken obligation was %r" % rp.get("broken"))
            sys.exit(1)
        if hasattr(mod, "pre_build"):
            try:
                mod.pre_build(a)
            except Broken as b:
                print("note: %s" % b.what)
        if hasattr(mod, "run_both"):
            ils, mls = mod.run_both([case], prop)
            il, ml = ils[0], mls[0]
        else:
            il = vlib.run_one(vlib.HARNESS_BIN, case)
            ml = vlib.run_one(vlib.MODEL_BIN, case)
        why = mod.oracle(case, il, ml) if not case.startswith("features ") else None
        if hasattr(mod, "post"):
            try:
                for c2, w2 in mod.post([case], [il], [ml], a):
                    if c2 == case or case.startswith("features "):
                        why = why or w2
            except Broken as b:
                why = why or b.what
        print("case : %s\nimpl : %s\nmodel: %s\noracle: %s" % (case[:2000], il[:2000], ml[:2000], why or "holds"))
        if why:
            print("VIOLATION property=%s replay=%s" % (prop, a.replay))
            sys.exit(1)
        sys.exit(0)

    broken = None
    # ---------------- 1. proofs
    thms = []
    axioms = {}
    try:
        if hasattr(mod, "pre_build"):
            mod.pre_build(a)           # e.g. regenerate coq/Gen from /repo
        bad = vlib.grep_forbidden()
        if bad:
            raise Broken("forbidden construct in the Coq development", "\n".join(bad))
        pfile = "Properties/%s.v" % prop
        if not a.no_proof and not getattr(mod, "NO_PROOF", False):
            vlib.build_coq(["Properties/%s.vo" % prop] + list(getattr(mod, "EXTRA_VO", [])))
            thms = vlib.theorems_of(pfile)
            axioms = vlib.print_assumptions(prop, "Properties." + prop, thms)
            allow = set(getattr(mod, "AXIOM_ALLOW", []))
            for t in thms:
                extra = [x for x in axioms.get(t, []) if x not in allow]
                if t not in axioms:
                    raise Broken("theorem %s: no Print Assumptions output" % t)
                if extra:
                    raise Broken("theorem %s depends on axioms outside the allow-list" % t, ", ".join(extra))
            if a.tier == "thorough":
                ax = vlib.coqchk(prop)
                cov["coqchk_axioms"] = ax
                extra = [x for x in ax if x.split(".")[-1] not in set(y.split(".")[-1] for y in allow)]
                if extra:
                    raise Broken("coqchk: axioms outside the allow-list", ", ".join(extra))
        cov["obligations"] = len(thms)
        cov["discharged"] = len(thms)
        if hasattr(mod, "EXPLANATION"):
            cov["explanation"] = mod.EXPLANATION
        cov["theorems"] = thms
        cov["axioms"] = {t: axioms.get(t, []) for t in thms}
    except Broken as b:
        broken = b
        cov["obligations"] = max(1, len(thms))
        cov["discharged"] = 0
    cov["checker_cmd"] = "make -C coq Properties/%s.vo (coqc 8.16.1, full .vo build) + Print Assumptions per theorem" % prop
    cov["trusted_base"] = TRUSTED_BASE + list(getattr(mod, "TRUSTED_EXTRA", []))

    # ---------------- 2. correspondence
    cases, impl, model = [], [], []
    corpus, corpus_set = [], set()
    fails = []
    tie_fails = []
    try:
        vlib.build_coq(["Extract/DispatchS.vo"])
        vlib.build_model()
        vlib.build_harness()
        rng = random.Random(a.seed)
        corpus = []
        cdir = os.path.join(vlib.VERIF, "corpus", prop + ".txt")
        if os.path.exists(cdir) and not os.environ.get("VERIF_NO_CORPUS"):      # (the seed-robustness audit measures the generators alone)
            corpus = [l.strip() for l in open(cdir) if l.strip() and not l.startswith("#")]
        gen_cases = list(mod.gen(rng, a.tier))
        corpus = [c for c in dict.fromkeys(corpus) if c not in set(gen_cases)]
        corpus_set = set(corpus)
        cases = corpus + gen_cases
        impl, model = getattr(mod, "run_both", vlib.run_both)(cases, prop, per_shard_timeout=getattr(mod, "SHARD_TIMEOUT", 30))
        for c, il, ml in zip(cases, impl, model):
            if ml.startswith(("MODEL-", "BADCASE", "CRASH", "HANG", "MISSING")) or il.startswith(("BADCASE", "MISSING")):
                raise Broken("correspondence: case not executable on %s" % ("model" if not il.startswith(("BADCASE", "MISSING")) else "harness"),
                             "case: %s\nimpl: %s\nmodel: %s" % (c[:500], il[:300], ml[:300]))
            if c in corpus_set:
                # corpus lines (minimized earlier failures) need not have the shape the module's generator produces:
                # they are decided by the module's oracle where it accepts them, else by the plain comparison with the model
                if il.startswith(("PANIC", "HANG", "CRASH")):
                    why = "implementation %s" % il.split(" ")[0]
                else:
                    try:
                        why = mod.oracle(c, il, ml)          # the module's own notion of agreement (it knows what is compared)
                    except Exception:
                        pj = getattr(mod, "project", lambda x: x)
                        try:
                            why = None if (ml == "-" or pj(il) == pj(ml)) else "implementation and model disagree"
                        except Exception:
                            why = None if il == ml else "implementation and model disagree"
                if why:
                    fails.append((c, il, ml, why))
                continue
            why = mod.oracle(c, il, ml)
            if why and why.startswith("implementation and model disagree") and hasattr(mod, "tie_covered") and mod.tie_covered(c):
                # the model/code correspondence broke on this case.  Ask the module's independent oracle
                # (python reference / metamorphic law, evaluated on the implementation's output alone) whether
                # the PROPERTY fails here; if it does not, this is a broken tie, not a failing input
                why2 = mod.oracle(c, il, il)
                if why2:
                    fails.append((c, il, ml, why2))
                else:
                    tie_fails.append((c, il, ml))
            elif why:
                fails.append((c, il, ml, why))
        if hasattr(mod, "post"):
            for c, why in mod.post(cases, impl, model, a):
                fails.append((c, "", "", why))
        if tie_fails and not fails:
            c, il, ml = tie_fails[0]
            raise Broken("correspondence: implementation and model disagree on %d case(s) on which the independent oracle finds the property intact" % len(tie_fails),
                         "first case: %s\nimpl : %s\nmodel: %s\nfirst difference: %s" % (c[:1500], il[:600], ml[:600], first_diff(il, ml)))
    except Broken as b:
        broken = broken or b

    # ---------------- 3. report
    reported = set()
    for c, il, ml, why in fails[:200]:
        def still(c2):
            i2 = vlib.run_one(vlib.HARNESS_BIN, c2, timeout=8)
            m2 = vlib.run_one(vlib.MODEL_BIN, c2, timeout=20)
            if m2.startswith(("MODEL-", "BADCASE")) or i2.startswith("BADCASE"):
                return False
            return bool(mod.oracle(c2, i2, m2))
        small = vlib.shrink_case(c, still, budget=(25 if il.startswith("HANG") else 150)) if (len(reported) < 5 and getattr(mod, "SHRINK", True) and il != "") else c
        key = small
        if key in reported:
            continue
        reported.add(key)
        kf = [k for k in known if k["case"] == small]
        if kf:
            print("KNOWN-FINDING: property=%s %s" % (prop, kf[0]["what"]))
            continue
        if len(reported) > 5:
            continue
        violations += 1
        i2 = vlib.run_one(vlib.HARNESS_BIN, small) if il != "" else ""
        m2 = vlib.run_one(vlib.MODEL_BIN, small) if il != "" else ""
        verdict = why
        if il != "":
            verdict = mod.oracle(small, i2, m2)
            if verdict and verdict.startswith("implementation and model disagree") and hasattr(mod, "tie_covered") and mod.tie_covered(small):
                verdict = mod.oracle(small, i2, i2) or verdict
        report_violation(prop, {"property": prop, "kind": "input", "case": small, "original_case": c,
                                "impl": i2, "model": m2, "oracle": verdict or why,
                                "seed": a.seed, "shrunk": small != c})
    if broken is not None and violations == 0:
        # a proof obligation or the tie broke; the search above (the whole case budget on the
        # current tree) found no input on which the property fails
        violations += 1
        report_violation(prop, {"property": prop, "kind": "theorem-or-correspondence", "broken": broken.what,
                                "detail": broken.detail, "seed": a.seed,
                                "searched": len(cases)}, nofail=True)
    elif broken is not None:
        print("note: additionally broken: %s" % broken.what)

    # ---------------- 4. evidence
    nontriv = set()
    for c, il in zip(cases, impl):
        try:
            if mod.nontrivial(c, il):
                nontriv.add(c)
        except Exception:
            pass
    cov["evaluations"] = len(cases)
    cov["distinct_nontrivial"] = len(nontriv)
    cov["rule"] = getattr(mod, "RULE", "")
    cov["samples"] = [{"case": c[:400], "impl": il[:300]} for c, il in list(zip(cases, impl))[:: max(1, len(cases) // 5)][:6]]
    if hasattr(mod, "distribution"):
        k0 = len(corpus) if cases else 0
        cov["distribution"] = mod.distribution(cases[k0:], impl[k0:], model[k0:])
        cov["corpus_cases"] = k0
    cov["repo_fingerprint"] = vlib.repo_fingerprint()
    if getattr(mod, "EXHAUSTIVE", False):
        cov["exhaustive"] = True
    ev["violations"] = violations
    ev["wall_s"] = round(time.time() - t0, 2)
    vlib.write_json(os.path.join(vlib.VERIF, "evidence", prop + ".json"), ev)
    print("%s tier=%s seed=%d theorems=%d cases=%d nontrivial=%d violations=%d wall=%.1fs" % (
        prop, a.tier, a.seed, len(thms), len(cases), len(nontriv), violations, ev["wall_s"]))
    sys.exit(1 if violations else 0)


if __name__ == "__main__":
    main()
