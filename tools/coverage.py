#!/usr/bin/env python3
"""Source coverage of /repo/src under the correspondence-check case sets (an audit of the tie, not a check):
builds the harness with -C instrument-coverage (nightly + its llvm-tools), feeds it every quick-tier case of every
property, and prints per-file line coverage and the uncovered non-test lines of /repo/src.

  python3 tools/coverage.py [quick|thorough] [ID ...]      -> _build/cov/report.txt, uncovered.txt
"""
import importlib, os, random, subprocess, sys, glob, re
sys.path.insert(0, os.path.dirname(os.path.abspath(__file__)))
import vlib

TOOLS = os.path.expanduser("~/.rustup/toolchains/nightly-x86_64-unknown-linux-gnu/lib/rustlib/x86_64-unknown-linux-gnu/bin")
COV = os.path.join(vlib.BUILD, "cov")


def main():
    tier = sys.argv[1] if len(sys.argv) > 1 and sys.argv[1] in ("quick", "thorough") else "quick"
    ids = [a for a in sys.argv[1:] if a.startswith("C")] or ["C%02d" % k for k in range(1, 21)]
    os.makedirs(COV, exist_ok=True)
    for f in glob.glob(COV + "/*.profraw"):
        os.remove(f)
    import tablegen
    tablegen.gen_harness()
    env = dict(os.environ, CARGO_TARGET_DIR=os.path.join(COV, "target"), RUSTFLAGS="-C instrument-coverage", CARGO_NET_OFFLINE="true")
    subprocess.run(["cargo", "+nightly", "build", "--release", "--offline", "--quiet"], cwd=os.path.join(vlib.VERIF, "harness"), env=env, check=True)
    exe = os.path.join(COV, "target", "release", "elfharness")
    for pid in ids:
        mod = importlib.import_module("props." + pid)
        if hasattr(mod, "pre_build"):
            try:
                mod.pre_build(None)
            except Exception as ex:
                print("pre_build:", ex)
        cases = list(mod.gen(random.Random(1), tier))
        cases = [c for c in cases if not c.startswith("features ")]
        n = 16
        procs = []
        for k in range(n):
            part = cases[k::n]
            if not part:
                continue
            p = subprocess.Popen([exe], stdin=subprocess.PIPE, stdout=subprocess.DEVNULL, stderr=subprocess.DEVNULL,
                                 env=dict(os.environ, LLVM_PROFILE_FILE=os.path.join(COV, "%s-%d.profraw" % (pid, k))))
            procs.append((p, "\n".join(part) + "\n"))
        for p, inp in procs:
            try:
                p.communicate(inp.encode(), timeout=600)
            except subprocess.TimeoutExpired:
                p.kill()
        print(pid, len(cases), "cases", flush=True)
    prof = os.path.join(COV, "all.profdata")
    subprocess.run([os.path.join(TOOLS, "llvm-profdata"), "merge", "-sparse", "-o", prof] + glob.glob(COV + "/*.profraw"), check=True)
    rep = subprocess.run([os.path.join(TOOLS, "llvm-cov"), "report", exe, "-instr-profile=" + prof, "-ignore-filename-regex=(harness|rustc|registry|library)"],
                         capture_output=True, text=True).stdout
    open(os.path.join(COV, "report.txt"), "w").write(rep)
    print(rep)
    show = subprocess.run([os.path.join(TOOLS, "llvm-cov"), "show", exe, "-instr-profile=" + prof, "-ignore-filename-regex=(harness|rustc|registry|library)",
                           "-show-line-counts-or-regions", "-show-instantiations=false"], capture_output=True, text=True).stdout
    open(os.path.join(COV, "show.txt"), "w").write(show)
    # uncovered lines outside #[cfg(test)] modules
    out, cur, intest = [], None, False
    for l in show.splitlines():
        m = re.match(r"^(/repo/src/\S+):$", l)
        if m:
            cur, intest = m.group(1), False
            continue
        m = re.match(r"^\s*(\d+)\|\s*([0-9.kMG]*)\|(.*)$", l)
        if not m or cur is None:
            continue
        ln, cnt, txt = int(m.group(1)), m.group(2), m.group(3)
        if "#[cfg(test)]" in txt:
            intest = True
        if not intest and cnt == "0":
            out.append("%s:%d: %s" % (cur, ln, txt.rstrip()))
    open(os.path.join(COV, "uncovered.txt"), "w").write("\n".join(out) + "\n")
    print("uncovered non-test lines: %d (see %s)" % (len(out), os.path.join(COV, "uncovered.txt")))


if __name__ == "__main__":
    main()
