"""Helpers shared by the whole-file properties (C03, C05, C20, C07, C17, C18): an independent python reading of
ELF headers (written from the gABI, not from /repo) used by the implementation-only oracles."""
import struct
from gen import *
import elfgen
import props.C02 as C02

USZ = 2**64 - 1


def rd(data, off, w, little):
    if off + w > len(data):
        return None
    return int.from_bytes(data[off:off + w], "little" if little else "big")


def read_struct(ty, cl, little, data, off):
    out, o = {}, off
    for n, w in C02.layout(ty, cl):
        v = rd(data, o, abs(w), little)
        if v is None:
            return None
        if w < 0 and v >= 1 << (8 * abs(w) - 1):
            v -= 1 << (8 * abs(w))
        out[n] = v
        o += abs(w)
    return out


def py_open(fam, data):
    """independent reading of what opening must give: None if it must fail, else dict with the ehdr and the
    located tables (offset, count) or None when absent"""
    if len(data) < 16 or data[:4] != b"\x7fELF" or data[6] != 1 or data[4] not in (1, 2):
        return None
    acc = {"le": (1,), "be": (2,), "any": (1, 2), "native": (1,)}[fam]
    if data[5] not in acc:
        return None
    cl = 32 if data[4] == 1 else 64
    little = data[5] == 1
    eh = read_struct("tail", cl, little, data, 16)
    if eh is None:
        return None
    shsz, phsz = C02.size_of("shdr", cl), C02.size_of("phdr", cl)
    res = {"cl": cl, "little": little, "eh": eh}

    def sh0():
        return read_struct("shdr", cl, little, data, eh["e_shoff"])

    def locate(off, decl, entsize, esz):
        if off == 0:
            return ("absent",)
        if decl is None or entsize != esz:
            return None
        if off + esz * decl > len(data):
            return None
        return (off, decl)

    if eh["e_shoff"] == 0:
        sh = ("absent",)
    else:
        n = eh["e_shnum"]
        if n == 0:
            h0 = sh0()
            n = None if h0 is None else h0["sh_size"]
        sh = locate(eh["e_shoff"], n, eh["e_shentsize"], shsz)
    if sh is None:
        return None
    if eh["e_phoff"] == 0:
        ph = ("absent",)
    else:
        n = eh["e_phnum"]
        if n == 0xffff:
            h0 = sh0()
            n = None if h0 is None else h0["sh_info"]
        ph = locate(eh["e_phoff"], n, eh["e_phentsize"], phsz)
    if ph is None:
        return None
    res["sh"], res["ph"] = sh, ph
    return res


def py_shdrs(o, data):
    if o["sh"] == ("absent",):
        return None
    off, n = o["sh"]
    sz = C02.size_of("shdr", o["cl"])
    return [read_struct("shdr", o["cl"], o["little"], data, off + i * sz) for i in range(n)]


def py_phdrs(o, data):
    if o["ph"] == ("absent",):
        return None
    off, n = o["ph"]
    sz = C02.size_of("phdr", o["cl"])
    return [read_struct("phdr", o["cl"], o["little"], data, off + i * sz) for i in range(n)]


def rng_str(a, b):
    return "@-" if a == b else "@%d:%d" % (a, b)


def py_secdata(o, data, h):
    """expected canonical text of `secdata` for a section header dict (range form), or 'E'"""
    if h["sh_type"] == 8:
        return "[@- none]"
    a, z = h["sh_offset"], h["sh_size"]
    if a + z > USZ or a + z > len(data):
        return "E"
    if h["sh_flags"] & 0x800 == 0:
        return "[%s none]" % rng_str(a, a + z)
    chsz = 12 if o["cl"] == 32 else 24
    if z < chsz:
        return "E"
    ch = read_struct("chdr", o["cl"], o["little"], data, a)
    return "[%s ok(%d %d %d)]" % (rng_str(a + chsz, a + z), ch["ch_type"], ch["ch_size"], ch["ch_addralign"])


def py_segdata(data, p):
    a, z = p["p_offset"], p["p_filesz"]
    if a + z > USZ or a + z > len(data):
        return "E"
    return rng_str(a, a + z)


def hdr_tokens(ty, cl, vals):
    return " ".join(str(vals[n]) for n in C02.ORDER[ty])


def edge_values(rng, ln):
    return [0, 1, ln - 1, ln, ln + 1, 2**31, 2**32 - 1, 2**63, 2**64 - 1, 2**64 - ln, rng.randrange(0, ln + 2)]
