// Canonical printers for the crate's types (grammar shared with ocaml/driver.ml).
use crate::W;
use elf::endian::EndianParse;
use elf::file::{Class, FileHeader};
use elf::parse::ParseError;
use std::fmt::Write as FW;

pub fn show_err(o: W, e: &ParseError) -> std::fmt::Result {
    match e {
        ParseError::BadMagic(m) => write!(o, "E:BadMagic({},{},{},{})", m[0], m[1], m[2], m[3]),
        ParseError::UnsupportedElfClass(c) => write!(o, "E:UnsupportedElfClass({})", c),
        ParseError::UnsupportedElfEndianness(c) => write!(o, "E:UnsupportedElfEndianness({})", c),
        ParseError::UnsupportedVersion((a, b)) => write!(o, "E:UnsupportedVersion({},{})", a, b),
        ParseError::BadOffset(a) => write!(o, "E:BadOffset({})", a),
        ParseError::StringTableMissingNul(a) => write!(o, "E:StringTableMissingNul({})", a),
        ParseError::BadEntsize((a, b)) => write!(o, "E:BadEntsize({},{})", a, b),
        ParseError::UnexpectedSectionType((a, b)) => write!(o, "E:UnexpectedSectionType({},{})", a, b),
        ParseError::UnexpectedSegmentType((a, b)) => write!(o, "E:UnexpectedSegmentType({},{})", a, b),
        ParseError::UnexpectedAlignment(a) => write!(o, "E:UnexpectedAlignment({})", a),
        ParseError::SliceReadError((a, b)) => write!(o, "E:SliceReadError({},{})", a, b),
        ParseError::IntegerOverflow => o.write_str("E:IntegerOverflow"),
        ParseError::Utf8Error(_) => o.write_str("E:Utf8Error"),
        ParseError::TryFromSliceError(_) => o.write_str("E:TryFromSliceError"),
        ParseError::TryFromIntError(_) => o.write_str("E:TryFromIntError"),
        ParseError::IOError(_) => o.write_str("E:IOError"),
    }
}

pub fn show_res<T>(
    o: W,
    r: Result<T, ParseError>,
    f: impl FnOnce(W, T) -> std::fmt::Result,
) -> std::fmt::Result {
    match r {
        Ok(v) => f(o, v),
        Err(e) => show_err(o, &e),
    }
}

/// A borrow handed out by the crate, as a range of the buffer it must come from.
pub fn show_range(o: W, base: &[u8], s: &[u8]) -> std::fmt::Result {
    if s.is_empty() {
        return o.write_str("@-");
    }
    let b0 = base.as_ptr() as usize;
    let p = s.as_ptr() as usize;
    if p >= b0 && p + s.len() <= b0 + base.len() {
        write!(o, "@{}:{}", p - b0, p - b0 + s.len())
    } else {
        o.write_str("@copy")
    }
}

pub fn show_hex(o: W, s: &[u8]) -> std::fmt::Result {
    o.write_str("x")?;
    for b in s {
        write!(o, "{:02x}", b)?;
    }
    Ok(())
}

/// value of a (possibly private) field as printed by the derived Debug impl
pub fn dbg_field<T: core::fmt::Debug>(v: &T, name: &str) -> u64 {
    let was = crate::alloc_count::suspend();
    let r = dbg_field_inner(v, name);
    crate::alloc_count::restore(was);
    r
}
fn dbg_field_inner<T: core::fmt::Debug>(v: &T, name: &str) -> u64 {
    let s = format!("{:?}", v);
    let key = format!("{}: ", name);
    let i = s.find(&key).expect("debug field") + key.len();
    let rest = &s[i..];
    let end = rest.find(|c: char| !c.is_ascii_digit()).unwrap_or(rest.len());
    rest[..end].parse().unwrap()
}

/// Drains an iterator of the crate while also exercising `size_hint()` before and after every `next()`
/// (a public entry point that `collect()` and friends call): it must not panic either.
pub struct Hinted<I>(pub I);
impl<I: Iterator> Iterator for Hinted<I> {
    type Item = I::Item;
    fn next(&mut self) -> Option<I::Item> {
        let _ = self.0.size_hint();
        let r = self.0.next();
        let _ = self.0.size_hint();
        r
    }
}

/// "walk c1 a1 c2 a2 ...": a script of Iterator calls on one iterator of the crate, through the
/// methods a caller would use (whatever the crate overrides is what runs):
/// 0 next | 1 nth(a) | 2 by_ref().take(a) | 3 count() | 4 last() | 5 step_by(a).take(64) | 6 skip(a) drained | 7 fold
pub fn walk_iter<T, I: Iterator<Item = T>>(o: W, mut it: I, acts: &[usize], show: &dyn Fn(W, &T) -> std::fmt::Result) -> std::fmt::Result {
    // nothing here allocates: the zero-allocation check (C06) runs the same scripts
    fn opt<T>(o: W, x: Option<T>, show: &dyn Fn(W, &T) -> std::fmt::Result) -> std::fmt::Result {
        match x {
            Some(v) => show(o, &v),
            None => o.write_str("none"),
        }
    }
    fn list<T>(o: W, it: impl Iterator<Item = T>, show: &dyn Fn(W, &T) -> std::fmt::Result) -> std::fmt::Result {
        o.write_str("[")?;
        for (i, x) in it.enumerate() {
            if i > 0 {
                o.write_str(" ")?;
            }
            show(o, &x)?;
            if i > 100000 {
                break;
            }
        }
        o.write_str("]")
    }
    o.write_str("[")?;
    let mut k = 0;
    while k + 1 < acts.len() {
        if k > 0 {
            o.write_str(" ")?;
        }
        let (c, a) = (acts[k], acts[k + 1]);
        k += 2;
        let _ = it.size_hint(); // a public entry point in whatever state the script left the iterator
        match c {
            0 => opt(o, it.next(), show)?,
            1 => {
                opt(o, it.nth(a), show)?;
                let _ = it.size_hint();
            }
            2 => {
                list(o, it.by_ref().take(a), show)?;
                let _ = it.size_hint();
            }
            3 => {
                write!(o, "{}", it.count())?;
                break;
            }
            4 => {
                opt(o, it.last(), show)?;
                break;
            }
            5 => {
                list(o, it.step_by(a.max(1)).take(64), show)?;
                break;
            }
            6 => {
                list(o, it.skip(a), show)?;
                break;
            }
            7 => {
                o.write_str("[")?;
                let r = it.fold(Ok(0usize), |acc: Result<usize, std::fmt::Error>, x| {
                    let n = acc?;
                    if n > 0 {
                        o.write_str(" ")?;
                    }
                    show(o, &x)?;
                    Ok(n + 1)
                });
                r?;
                o.write_str("]")?;
                break;
            }
            _ => return Err(std::fmt::Error),
        }
    }
    o.write_str("]")
}

pub trait Show {
    fn show(&self, o: W) -> std::fmt::Result;
}

impl Show for elf::section::SectionHeader {
    fn show(&self, o: W) -> std::fmt::Result {
        write!(
            o,
            "ok({} {} {} {} {} {} {} {} {} {})",
            self.sh_name,
            self.sh_type,
            self.sh_flags,
            self.sh_addr,
            self.sh_offset,
            self.sh_size,
            self.sh_link,
            self.sh_info,
            self.sh_addralign,
            self.sh_entsize
        )
    }
}
impl Show for elf::segment::ProgramHeader {
    fn show(&self, o: W) -> std::fmt::Result {
        write!(
            o,
            "ok({} {} {} {} {} {} {} {})",
            self.p_type, self.p_offset, self.p_vaddr, self.p_paddr, self.p_filesz, self.p_memsz, self.p_flags, self.p_align
        )
    }
}
impl Show for elf::symbol::Symbol {
    fn show(&self, o: W) -> std::fmt::Result {
        write!(
            o,
            "ok({} {} {} {} {} {} {} {} {} {})",
            self.st_name,
            self.st_shndx,
            self.st_info,
            self.st_other,
            self.st_value,
            self.st_size,
            self.is_undefined() as u8,
            self.st_symtype(),
            self.st_bind(),
            self.st_vis()
        )
    }
}
impl Show for elf::relocation::Rel {
    fn show(&self, o: W) -> std::fmt::Result {
        write!(o, "ok({} {} {})", self.r_offset, self.r_sym, self.r_type)
    }
}
impl Show for elf::relocation::Rela {
    fn show(&self, o: W) -> std::fmt::Result {
        write!(o, "ok({} {} {} {})", self.r_offset, self.r_sym, self.r_type, self.r_addend)
    }
}
impl Show for elf::dynamic::Dyn {
    fn show(&self, o: W) -> std::fmt::Result {
        write!(o, "ok({} {} {})", self.d_tag, self.d_val(), self.d_ptr())
    }
}
impl Show for elf::compression::CompressionHeader {
    fn show(&self, o: W) -> std::fmt::Result {
        write!(o, "ok({} {} {})", self.ch_type, self.ch_size, self.ch_addralign)
    }
}
impl Show for elf::note::NoteGnuAbiTag {
    fn show(&self, o: W) -> std::fmt::Result {
        write!(o, "ok({} {} {} {})", self.os, self.major, self.minor, self.subminor)
    }
}
impl Show for elf::hash::SysVHashHeader {
    fn show(&self, o: W) -> std::fmt::Result {
        write!(o, "ok({} {})", self.nbucket, self.nchain)
    }
}
impl Show for elf::hash::GnuHashHeader {
    fn show(&self, o: W) -> std::fmt::Result {
        write!(o, "ok({} {} {} {})", self.nbucket, self.table_start_idx, self.nbloom, self.nshift)
    }
}
impl Show for u32 {
    fn show(&self, o: W) -> std::fmt::Result {
        write!(o, "ok({})", self)
    }
}
impl Show for u64 {
    fn show(&self, o: W) -> std::fmt::Result {
        write!(o, "ok({})", self)
    }
}
impl Show for elf::gnu_symver::VersionIndex {
    fn show(&self, o: W) -> std::fmt::Result {
        write!(
            o,
            "ok({} {} {} {} {})",
            self.0,
            self.index(),
            self.is_hidden() as u8,
            self.is_local() as u8,
            self.is_global() as u8
        )
    }
}
impl Show for elf::gnu_symver::VerDef {
    fn show(&self, o: W) -> std::fmt::Result {
        write!(
            o,
            "ok({} {} {} {} {} {})",
            self.vd_flags,
            self.vd_ndx,
            self.vd_cnt,
            self.vd_hash,
            dbg_field(self, "vd_aux"),
            dbg_field(self, "vd_next")
        )
    }
}
impl Show for elf::gnu_symver::VerDefAux {
    fn show(&self, o: W) -> std::fmt::Result {
        write!(o, "ok({} {})", self.vda_name, dbg_field(self, "vda_next"))
    }
}
impl Show for elf::gnu_symver::VerNeed {
    fn show(&self, o: W) -> std::fmt::Result {
        write!(
            o,
            "ok({} {} {} {})",
            self.vn_cnt,
            self.vn_file,
            dbg_field(self, "vn_aux"),
            dbg_field(self, "vn_next")
        )
    }
}
impl Show for elf::gnu_symver::VerNeedAux {
    fn show(&self, o: W) -> std::fmt::Result {
        write!(
            o,
            "ok({} {} {} {} {})",
            self.vna_hash,
            self.vna_flags,
            self.vna_other,
            self.vna_name,
            dbg_field(self, "vna_next")
        )
    }
}

pub fn show_ehdr<E: EndianParse>(o: W, h: &FileHeader<E>) -> std::fmt::Result {
    write!(
        o,
        "ok({} {} {} {} {} {} {} {} {} {} {} {} {} {} {} {} {})",
        match h.class {
            Class::ELF32 => 32,
            Class::ELF64 => 64,
        },
        h.endianness.is_little() as u8,
        h.version,
        h.osabi,
        h.abiversion,
        h.e_type,
        h.e_machine,
        h.e_entry,
        h.e_phoff,
        h.e_shoff,
        h.e_flags,
        h.e_ehsize,
        h.e_phentsize,
        h.e_phnum,
        h.e_shentsize,
        h.e_shnum,
        h.e_shstrndx
    )
}
