// Counting global allocator: counts allocations and the largest single request inside a
// measurement window of the current thread.
use std::alloc::{GlobalAlloc, Layout, System};
use std::cell::Cell;

pub struct Counting;

thread_local! {
    static ACTIVE: Cell<bool> = const { Cell::new(false) };
    static COUNT: Cell<u64> = const { Cell::new(0) };
    static MAXSZ: Cell<u64> = const { Cell::new(0) };
}

unsafe impl GlobalAlloc for Counting {
    unsafe fn alloc(&self, l: Layout) -> *mut u8 {
        note(l.size());
        System.alloc(l)
    }
    unsafe fn dealloc(&self, p: *mut u8, l: Layout) {
        System.dealloc(p, l)
    }
    unsafe fn alloc_zeroed(&self, l: Layout) -> *mut u8 {
        note(l.size());
        System.alloc_zeroed(l)
    }
    unsafe fn realloc(&self, p: *mut u8, l: Layout, new_size: usize) -> *mut u8 {
        note(new_size);
        System.realloc(p, l, new_size)
    }
}

fn note(sz: usize) {
    let _ = ACTIVE.try_with(|a| {
        if a.get() {
            COUNT.with(|c| c.set(c.get() + 1));
            if sz >= TRACE_AT.load(std::sync::atomic::Ordering::Relaxed) {
                // debugging aid (VERIF_ALLOC_TRACE=<bytes>): who asked for this much
                a.set(false);
                eprintln!("alloc of {} bytes:\n{}", sz, std::backtrace::Backtrace::force_capture());
                a.set(true);
            }
            MAXSZ.with(|m| {
                if (sz as u64) > m.get() {
                    m.set(sz as u64)
                }
            });
        }
    });
}

pub static TRACE_AT: std::sync::atomic::AtomicUsize = std::sync::atomic::AtomicUsize::new(usize::MAX);

#[global_allocator]
static GLOBAL: Counting = Counting;

pub fn start() {
    if let Some(v) = std::env::var("VERIF_ALLOC_TRACE").ok().and_then(|v| v.parse::<usize>().ok()) {
        TRACE_AT.store(v, std::sync::atomic::Ordering::Relaxed);
    }
    COUNT.with(|c| c.set(0));
    MAXSZ.with(|c| c.set(0));
    ACTIVE.with(|a| a.set(true));
}
pub fn pause() {
    ACTIVE.with(|a| a.set(false));
}
/// pause and return whether counting was on, for `restore` (nesting-safe)
pub fn suspend() -> bool {
    ACTIVE.with(|a| a.replace(false))
}
pub fn restore(was: bool) {
    ACTIVE.with(|a| a.set(was));
}
pub fn resume() {
    ACTIVE.with(|a| a.set(true));
}
pub fn stop() -> (u64, u64) {
    ACTIVE.with(|a| a.set(false));
    (COUNT.with(|c| c.get()), MAXSZ.with(|c| c.get()))
}
