// Operations on files, notes, hash tables and symbol versions.
use crate::show::*;
use crate::{bad, class_of, Tok, W};
use elf::endian::{AnyEndian, BigEndian, EndianParse, LittleEndian, NativeEndian};
use elf::file::Class;
use elf::gnu_symver::*;
use elf::hash::{GnuHashTable, SysVHashTable};
use elf::note::{Note, NoteIterator};
use elf::parse::{ParseAt, ParseError, ParsingIterator, ParsingTable};
use elf::section::SectionHeader;
use elf::segment::ProgramHeader;
use elf::string_table::StringTable;
use elf::symbol::{Symbol, SymbolTable};
use elf::ElfBytes;
use std::fmt::Write as FW;

type R = std::fmt::Result;

pub fn sep(o: W, k: usize) -> R {
    if k > 0 {
        o.write_str(" ")
    } else {
        Ok(())
    }
}

/// bytes of a `data: [..]` field as printed by a derived Debug impl (StringTable has no accessor)
pub fn dbg_bytes<T: core::fmt::Debug>(v: &T) -> Vec<u8> {
    let was = crate::alloc_count::suspend();
    let s = format!("{:?}", v);
    let i = s.find("data: [").expect("debug data") + 7;
    let j = s[i..].find(']').unwrap() + i;
    let r = s[i..j]
        .split(',')
        .filter(|x| !x.trim().is_empty())
        .map(|x| x.trim().parse::<u8>().unwrap())
        .collect();
    crate::alloc_count::restore(was);
    r
}

pub fn show_note(o: W, base: &[u8], n: &Note) -> R {
    match n {
        Note::GnuAbiTag(a) => write!(o, "abitag({} {} {} {})", a.os, a.major, a.minor, a.subminor),
        Note::GnuBuildId(b) => {
            o.write_str("buildid(")?;
            show_range(o, base, b.0)?;
            o.write_str(")")
        }
        Note::Unknown(a) => {
            write!(o, "note({} ", a.n_type)?;
            show_range(o, base, a.name)?;
            o.write_str(" ")?;
            show_range(o, base, a.desc)?;
            o.write_str(" ")?;
            show_res(o, a.name_str(), |o, s| show_range(o, base, s.as_bytes()))?;
            o.write_str(")")
        }
    }
}

pub fn show_notes<E: EndianParse>(o: W, base: &[u8], it: NoteIterator<E>) -> R {
    o.write_str("[")?;
    for (k, n) in Hinted(it).enumerate() {
        sep(o, k)?;
        show_note(o, base, &n)?;
    }
    o.write_str("]")
}

pub fn show_iter<T: Show>(o: W, it: impl Iterator<Item = T>) -> R {
    o.write_str("[")?;
    for (k, x) in Hinted(it).enumerate() {
        sep(o, k)?;
        x.show(o)?;
    }
    o.write_str("]")
}

pub fn show_found(o: W, r: Result<Option<(usize, Symbol)>, ParseError>) -> R {
    show_res(o, r, |o, v| match v {
        None => o.write_str("none"),
        Some((i, s)) => {
            write!(o, "[{} ", i)?;
            s.show(o)?;
            o.write_str("]")
        }
    })
}

pub fn show_symtab<E: EndianParse>(o: W, t: &SymbolTable<E>, s: &StringTable) -> R {
    o.write_str("[")?;
    show_iter(o, t.iter())?;
    o.write_str(" ")?;
    let b = dbg_bytes(s);
    show_hex(o, &b)?;
    o.write_str("]")
}

// ---------- stand-alone notes ----------
pub fn run_notes<E: EndianParse>(o: W, e: E, c: Class, align: usize, d: &[u8], qs: &[Vec<Tok>]) -> R {
    o.write_str("[")?;
    for (k, q) in qs.iter().enumerate() {
        sep(o, k)?;
        match (q[0].w(), q.len()) {
            ("all", 1) => show_notes(o, d, NoteIterator::new(e, c, align, d))?,
            ("walk", _) => {
                let was = crate::alloc_count::suspend();
                let acts: Vec<usize> = q[1..].iter().map(|t| t.us()).collect();
                crate::alloc_count::restore(was);
                walk_iter(o, NoteIterator::new(e, c, align, d), &acts, &|o, n: &Note| show_note(o, d, n))?;
            }
            ("nexts", 2) => {
                let mut it = NoteIterator::new(e, c, align, d);
                o.write_str("[")?;
                for i in 0..q[1].us() {
                    sep(o, i)?;
                    match { let _ = it.size_hint(); let r = it.next(); let _ = it.size_hint(); r } {
                        Some(n) => show_note(o, d, &n)?,
                        None => o.write_str("none")?,
                    }
                }
                o.write_str("]")?;
            }
            _ => return bad(),
        }
    }
    o.write_str("]")
}

// ---------- stand-alone hash tables ----------
pub fn run_hash<E: EndianParse>(
    o: W,
    gnu: bool,
    e: E,
    c: Class,
    tab: &[u8],
    symtab: &[u8],
    strtab: &[u8],
    qs: &[Vec<Tok>],
) -> R {
    let st = SymbolTable::new(e, c, symtab);
    let strs = StringTable::new(strtab);
    if gnu {
        let t = match GnuHashTable::new(e, c, tab) {
            Ok(t) => t,
            Err(x) => return show_err(o, &x),
        };
        o.write_str("[")?;
        for (k, q) in qs.iter().enumerate() {
            sep(o, k)?;
            show_found(o, t.find(q[0].b(), &st, &strs))?;
        }
        o.write_str("]")
    } else {
        let t = match SysVHashTable::new(e, c, tab) {
            Ok(t) => t,
            Err(x) => return show_err(o, &x),
        };
        o.write_str("[")?;
        for (k, q) in qs.iter().enumerate() {
            sep(o, k)?;
            show_found(o, t.find(q[0].b(), &st, &strs))?;
        }
        o.write_str("]")
    }
}

// ---------- version record iterators ----------
pub fn run_viter<E: EndianParse>(
    o: W,
    kind: &str,
    e: E,
    c: Class,
    count: u128,
    off: usize,
    d: &[u8],
    qs: &[Vec<Tok>],
) -> R {
    o.write_str("[")?;
    for (k, q) in qs.iter().enumerate() {
        sep(o, k)?;
        if q[0].w() == "names" && q.len() == 2 && kind == "verdaux" {
            // the public constructor of the names iterator (get_definition builds the same thing)
            let st = StringTable::new(q[1].b());
            let it = elf::gnu_symver::SymbolNamesIterator::new(VerDefAuxIterator::new(e, c, count as u16, off, d), &st);
            o.write_str("[")?;
            for (i, n) in Hinted(it).enumerate() {
                sep(o, i)?;
                show_res(o, n, |o, s| show_range(o, q[1].b(), s.as_bytes()))?;
            }
            o.write_str("]")?;
            continue;
        }
        if q[0].w() == "walk" {
            let was = crate::alloc_count::suspend();
            let acts: Vec<usize> = q[1..].iter().map(|t| t.us()).collect();
            crate::alloc_count::restore(was);
            match kind {
                "verdef" => walk_iter(o, VerDefIterator::new(e, c, count as u64, off, d), &acts, &|o, x: &(VerDef, VerDefAuxIterator<E>)| x.0.show(o))?,
                "verneed" => walk_iter(o, VerNeedIterator::new(e, c, count as u64, off, d), &acts, &|o, x: &(VerNeed, VerNeedAuxIterator<E>)| x.0.show(o))?,
                "verdaux" => walk_iter(o, VerDefAuxIterator::new(e, c, count as u16, off, d), &acts, &|o, x: &VerDefAux| x.show(o))?,
                "vernaux" => walk_iter(o, VerNeedAuxIterator::new(e, c, count as u16, off, d), &acts, &|o, x: &VerNeedAux| x.show(o))?,
                _ => return bad(),
            }
            continue;
        }
        let all = match (q[0].w(), q.len()) {
            ("all", 1) => None,
            ("nexts", 2) => Some(q[1].us()),
            _ => return bad(),
        };
        macro_rules! plain {
            ($it:expr) => {{
                let mut it = $it;
                o.write_str("[")?;
                match all {
                    None => {
                        for (i, x) in Hinted(it).enumerate() {
                            sep(o, i)?;
                            x.show(o)?;
                        }
                    }
                    Some(n) => {
                        for i in 0..n {
                            sep(o, i)?;
                            match { let _ = it.size_hint(); let r = it.next(); let _ = it.size_hint(); r } {
                                Some(x) => x.show(o)?,
                                None => o.write_str("none")?,
                            }
                        }
                    }
                }
                o.write_str("]")?;
            }};
        }
        macro_rules! outer {
            ($it:expr) => {{
                let mut it = $it;
                o.write_str("[")?;
                match all {
                    None => {
                        for (i, (x, aux)) in Hinted(it).enumerate() {
                            sep(o, i)?;
                            o.write_str("[")?;
                            x.show(o)?;
                            o.write_str(" ")?;
                            show_iter(o, aux)?;
                            o.write_str("]")?;
                        }
                    }
                    Some(n) => {
                        for i in 0..n {
                            sep(o, i)?;
                            match { let _ = it.size_hint(); let r = it.next(); let _ = it.size_hint(); r } {
                                Some((x, _)) => x.show(o)?,
                                None => o.write_str("none")?,
                            }
                        }
                    }
                }
                o.write_str("]")?;
            }};
        }
        match kind {
            "verdef" => outer!(VerDefIterator::new(e, c, count as u64, off, d)),
            "verneed" => outer!(VerNeedIterator::new(e, c, count as u64, off, d)),
            "verdaux" => plain!(VerDefAuxIterator::new(e, c, count as u16, off, d)),
            "vernaux" => plain!(VerNeedAuxIterator::new(e, c, count as u16, off, d)),
            _ => return bad(),
        }
    }
    o.write_str("]")
}

pub fn show_symver_q<E: EndianParse>(
    o: W,
    t: &SymbolVersionTable<E>,
    nbase: &[u8],
    dbase: &[u8],
    i: usize,
) -> R {
    o.write_str("[")?;
    show_res(o, t.get_requirement(i), |o, r| match r {
        None => o.write_str("none"),
        Some(r) => {
            o.write_str("req(")?;
            show_range(o, nbase, r.file.as_bytes())?;
            o.write_str(" ")?;
            show_range(o, nbase, r.name.as_bytes())?;
            write!(o, " {} {} {})", r.hash, r.flags, r.hidden as u8)
        }
    })?;
    o.write_str(" ")?;
    show_res(o, t.get_definition(i), |o, r| match r {
        None => o.write_str("none"),
        Some(d) => {
            write!(o, "def({} {} {} [", d.hash, d.flags, d.hidden as u8)?;
            for (k, n) in Hinted(d.names).enumerate() {
                sep(o, k)?;
                show_res(o, n, |o, s| show_range(o, dbase, s.as_bytes()))?;
            }
            o.write_str("])")
        }
    })?;
    o.write_str("]")
}

pub fn run_symvert<E: EndianParse>(o: W, e: E, c: Class, h: &[Tok], qs: &[Vec<Tok>]) -> R {
    // symvert spec class xVERSYM hasn ncnt noff xND xNSTRS hasd dcnt doff xDD xDSTRS
    let versym = VersionIndexTable::new(e, c, h[3].b());
    let needs = if h[4].n() != 0 {
        Some((
            VerNeedIterator::new(e, c, h[5].n() as u64, h[6].us(), h[7].b()),
            StringTable::new(h[8].b()),
        ))
    } else {
        None
    };
    let defs = if h[9].n() != 0 {
        Some((
            VerDefIterator::new(e, c, h[10].n() as u64, h[11].us(), h[12].b()),
            StringTable::new(h[13].b()),
        ))
    } else {
        None
    };
    let t = SymbolVersionTable::new(versym, needs, defs);
    o.write_str("[")?;
    for (k, q) in qs.iter().enumerate() {
        sep(o, k)?;
        show_symver_q(o, &t, h[8].b(), h[13].b(), q[0].us())?;
    }
    o.write_str("]")
}

// ---------- slice file ----------
fn shdr_arg<E: EndianParse>(eb: &ElfBytes<E>, q: &[Tok]) -> Option<SectionHeader> {
    if q.len() == 1 {
        eb.section_headers().and_then(|t| t.get(q[0].us()).ok())
    } else {
        Some(SectionHeader {
            sh_name: q[0].n() as u32,
            sh_type: q[1].n() as u32,
            sh_flags: q[2].n() as u64,
            sh_addr: q[3].n() as u64,
            sh_offset: q[4].n() as u64,
            sh_size: q[5].n() as u64,
            sh_link: q[6].n() as u32,
            sh_info: q[7].n() as u32,
            sh_addralign: q[8].n() as u64,
            sh_entsize: q[9].n() as u64,
        })
    }
}
fn phdr_arg<E: EndianParse>(eb: &ElfBytes<E>, q: &[Tok]) -> Option<ProgramHeader> {
    if q.len() == 1 {
        eb.segments().and_then(|t| t.get(q[0].us()).ok())
    } else {
        Some(ProgramHeader {
            p_type: q[0].n() as u32,
            p_offset: q[1].n() as u64,
            p_vaddr: q[2].n() as u64,
            p_paddr: q[3].n() as u64,
            p_filesz: q[4].n() as u64,
            p_memsz: q[5].n() as u64,
            p_flags: q[6].n() as u32,
            p_align: q[7].n() as u64,
        })
    }
}

pub fn bytes_q<E: EndianParse>(o: W, f: &[u8], eb: &ElfBytes<E>, q: &[Tok]) -> R {
    let nargs = q.len() - 1;
    let rest = &q[1..];
    macro_rules! with_shdr {
        ($h:ident, $body:expr) => {
            if nargs != 1 && nargs != 10 {
                return bad();
            } else {
                match shdr_arg(eb, rest) {
                    None => o.write_str("nohdr"),
                    Some($h) => $body,
                }
            }
        };
    }
    macro_rules! with_phdr {
        ($h:ident, $body:expr) => {
            if nargs != 1 && nargs != 8 {
                return bad();
            } else {
                match phdr_arg(eb, rest) {
                    None => o.write_str("nohdr"),
                    Some($h) => $body,
                }
            }
        };
    }
    match q[0].w() {
        "ehdr" => show_ehdr(o, &eb.ehdr),
        "shnum" => match eb.section_headers() {
            None => o.write_str("none"),
            Some(t) => write!(o, "{}", t.len()),
        },
        "phnum" => match eb.segments() {
            None => o.write_str("none"),
            Some(t) => write!(o, "{}", t.len()),
        },
        "shdrs" => match eb.section_headers() {
            None => o.write_str("none"),
            Some(t) => show_iter(o, t.iter()),
        },
        "phdrs" => match eb.segments() {
            None => o.write_str("none"),
            Some(t) => show_iter(o, t.iter()),
        },
        "shdr" => match eb.section_headers() {
            None => o.write_str("none"),
            Some(t) => show_res(o, t.get(rest[0].us()), |o, v| v.show(o)),
        },
        "phdr" => match eb.segments() {
            None => o.write_str("none"),
            Some(t) => show_res(o, t.get(rest[0].us()), |o, v| v.show(o)),
        },
        "shstr" => show_res(o, eb.section_headers_with_strtab(), |o, (t, s)| {
            o.write_str("[")?;
            match t {
                None => o.write_str("none")?,
                Some(t) => write!(o, "{}", t.len())?,
            }
            o.write_str(" ")?;
            match s {
                None => o.write_str("none")?,
                Some(s) => {
                    let b = dbg_bytes(&s);
                    show_hex(o, &b)?
                }
            }
            o.write_str("]")
        }),
        "byname" => {
            let name = match core::str::from_utf8(rest[0].b()) {
                Ok(n) => n,
                Err(_) => return bad(),
            };
            show_res(o, eb.section_header_by_name(name), |o, v| match v {
                None => o.write_str("none"),
                Some(h) => h.show(o),
            })
        }
        "secdata" => with_shdr!(h, show_res(o, eb.section_data(&h), |o, (b, ch)| {
            o.write_str("[")?;
            show_range(o, f, b)?;
            o.write_str(" ")?;
            match ch {
                None => o.write_str("none")?,
                Some(c) => c.show(o)?,
            }
            o.write_str("]")
        })),
        "strtab" => {
            let h = match shdr_arg(eb, &rest[..1]) {
                None => return o.write_str("nohdr"),
                Some(h) => h,
            };
            show_res(o, eb.section_data_as_strtab(&h), |o, t| {
                o.write_str("[")?;
                for (k, off) in rest[1..].iter().enumerate() {
                    sep(o, k)?;
                    show_res(o, t.get_raw(off.us()), |o, s| show_range(o, f, s))?;
                }
                o.write_str("]")
            })
        }
        "rels" => with_shdr!(h, show_res(o, eb.section_data_as_rels(&h), |o, it| show_iter(o, it))),
        "relas" => with_shdr!(h, show_res(o, eb.section_data_as_relas(&h), |o, it| show_iter(o, it))),
        "notes" => with_shdr!(h, show_res(o, eb.section_data_as_notes(&h), |o, it| show_notes(o, f, it))),
        "segdata" => with_phdr!(h, show_res(o, eb.segment_data(&h), |o, b| show_range(o, f, b))),
        "segnotes" => with_phdr!(h, show_res(o, eb.segment_data_as_notes(&h), |o, it| show_notes(o, f, it))),
        "dynamic" => show_res(o, eb.dynamic(), |o, v| match v {
            None => o.write_str("none"),
            Some(t) => show_iter(o, t.iter()),
        }),
        "symtab" => show_res(o, eb.symbol_table(), |o, v| match v {
            None => o.write_str("none"),
            Some((t, s)) => show_symtab(o, &t, &s),
        }),
        "dynsym" => show_res(o, eb.dynamic_symbol_table(), |o, v| match v {
            None => o.write_str("none"),
            Some((t, s)) => show_symtab(o, &t, &s),
        }),
        "common" => show_res(o, eb.find_common_data(), |o, cd| {
            o.write_str("[")?;
            match (&cd.symtab, &cd.symtab_strs) {
                (Some(t), Some(s)) => show_symtab(o, t, s)?,
                _ => o.write_str("none")?,
            }
            o.write_str(" ")?;
            match (&cd.dynsyms, &cd.dynsyms_strs) {
                (Some(t), Some(s)) => show_symtab(o, t, s)?,
                _ => o.write_str("none")?,
            }
            o.write_str(" ")?;
            match &cd.dynamic {
                Some(t) => show_iter(o, t.iter())?,
                None => o.write_str("none")?,
            }
            o.write_str(" ")?;
            match &cd.sysv_hash {
                None => o.write_str("none")?,
                Some(h) => {
                    o.write_str("[")?;
                    if let (Some(t), Some(s)) = (&cd.dynsyms, &cd.dynsyms_strs) {
                        for (k, n) in rest.iter().enumerate() {
                            sep(o, k)?;
                            show_found(o, h.find(n.b(), t, s))?;
                        }
                    }
                    o.write_str("]")?;
                }
            }
            o.write_str(" ")?;
            match &cd.gnu_hash {
                None => o.write_str("none")?,
                Some(h) => {
                    o.write_str("[")?;
                    if let (Some(t), Some(s)) = (&cd.dynsyms, &cd.dynsyms_strs) {
                        for (k, n) in rest.iter().enumerate() {
                            sep(o, k)?;
                            show_found(o, h.find(n.b(), t, s))?;
                        }
                    }
                    o.write_str("]")?;
                }
            }
            o.write_str("]")
        }),
        "symver" => show_res(o, eb.symbol_version_table(), |o, v| match v {
            None => o.write_str("none"),
            Some(t) => {
                o.write_str("[")?;
                for (k, i) in rest.iter().enumerate() {
                    sep(o, k)?;
                    show_symver_q(o, &t, f, f, i.us())?;
                }
                o.write_str("]")
            }
        }),
        _ => bad(),
    }
}

pub fn run_bytes<E: EndianParse>(o: W, f: &[u8], qs: &[Vec<Tok>]) -> R {
    let eb = match ElfBytes::<E>::minimal_parse(f) {
        Ok(e) => e,
        Err(e) => return show_err(o, &e),
    };
    o.write_str("[")?;
    for (k, q) in qs.iter().enumerate() {
        sep(o, k)?;
        if q.is_empty() {
            return bad();
        }
        bytes_q(o, f, &eb, q)?;
    }
    o.write_str("]")
}

pub fn run_ident<E: EndianParse>(o: W, d: &[u8]) -> R {
    show_res(o, elf::file::parse_ident::<E>(d), |o, (e, c, osabi, abiver)| {
        write!(
            o,
            "ok({} {} {} {})",
            e.is_little() as u8,
            match c {
                Class::ELF32 => 32,
                Class::ELF64 => 64,
            },
            osabi,
            abiver
        )
    })
}
