// elfharness: runs case lines against the real crate in /repo and prints one canonical
#![allow(dead_code, unused_imports)]
// result line per case, in the grammar shared with the extracted Coq model (ocaml/driver.ml).
#![allow(clippy::all)]
use std::fmt::Write as FW;
use std::io::{BufRead, Write};

use elf::endian::{AnyEndian, BigEndian, EndianParse, LittleEndian, NativeEndian};
use elf::file::Class;
use elf::parse::{ParseAt, ParseError, ParsingIterator, ParsingTable};

mod alloc_count;
mod gen_tables;
mod ops;
mod show;
mod stream;
use show::*;

pub type W<'a> = &'a mut dyn FW;

#[derive(Debug, Clone)]
pub enum Tok {
    N(u128),
    B(Vec<u8>),
    W(String),
}

pub fn parse_line(line: &str) -> Vec<Vec<Tok>> {
    let mut groups = vec![vec![]];
    for t in line.split_ascii_whitespace() {
        if t == "|" {
            groups.push(vec![]);
            continue;
        }
        let c = t.as_bytes()[0];
        let tok = if c.is_ascii_digit() {
            Tok::N(t.parse::<u128>().unwrap())
        } else if c == b'x'
            && t.len() % 2 == 1
            && t[1..].bytes().all(|b| b.is_ascii_digit() || (b'a'..=b'f').contains(&b))
        {
            let h = &t.as_bytes()[1..];
            let hv = |b: u8| if b <= b'9' { b - b'0' } else { b - b'a' + 10 };
            Tok::B(h.chunks(2).map(|p| hv(p[0]) * 16 + hv(p[1])).collect())
        } else {
            Tok::W(t.to_string())
        };
        groups.last_mut().unwrap().push(tok);
    }
    groups
}

impl Tok {
    pub fn w(&self) -> &str {
        match self {
            Tok::W(s) => s,
            _ => "",
        }
    }
    pub fn n(&self) -> u128 {
        match self {
            Tok::N(n) => *n,
            _ => 0,
        }
    }
    pub fn us(&self) -> usize {
        self.n() as usize
    }
    pub fn b(&self) -> &[u8] {
        match self {
            Tok::B(b) => b,
            _ => &[],
        }
    }
}

pub fn class_of(n: u128) -> Option<Class> {
    match n {
        32 => Some(Class::ELF32),
        64 => Some(Class::ELF64),
        _ => None,
    }
}

#[macro_export]
macro_rules! with_spec {
    ($w:expr, $e:ident, $body:expr) => {
        match $w {
            "le" => {
                let $e = LittleEndian;
                $body
            }
            "be" => {
                let $e = BigEndian;
                $body
            }
            "anyle" => {
                let $e = AnyEndian::Little;
                $body
            }
            "anybe" => {
                let $e = AnyEndian::Big;
                $body
            }
            "native" => {
                let $e = NativeEndian;
                $body
            }
            _ => bad(),
        }
    };
}

#[macro_export]
macro_rules! with_fam {
    ($w:expr, $E:ident, $body:expr) => {
        match $w {
            "le" => {
                type $E = LittleEndian;
                $body
            }
            "be" => {
                type $E = BigEndian;
                $body
            }
            "any" => {
                type $E = AnyEndian;
                $body
            }
            "native" => {
                type $E = NativeEndian;
                $body
            }
            _ => bad(),
        }
    };
}

/// a writer that discards its input without allocating (counts the bytes)
pub struct NullW(pub usize);
impl FW for NullW {
    fn write_str(&mut self, s: &str) -> std::fmt::Result {
        self.0 += s.len();
        Ok(())
    }
}

pub fn bad() -> std::fmt::Result {
    Err(std::fmt::Error)
}

/// fmt::Write sink that hex-encodes what is written to it (allocation-free)
struct HexW<'a>(&'a mut dyn FW);
impl<'a> FW for HexW<'a> {
    fn write_str(&mut self, s: &str) -> std::fmt::Result {
        for b in s.bytes() {
            write!(self.0, "{:02x}", b)?;
        }
        Ok(())
    }
}

// ---------- integers ----------
fn run_int<E: EndianParse>(o: W, e: E, kind: &str, off: usize, d: &[u8]) -> std::fmt::Result {
    let mut cur = off;
    o.write_str("[")?;
    match kind {
        "u8" => show_res(o, e.parse_u8_at(&mut cur, d), |o, v| write!(o, "{}", v))?,
        "u16" => show_res(o, e.parse_u16_at(&mut cur, d), |o, v| write!(o, "{}", v))?,
        "u32" => show_res(o, e.parse_u32_at(&mut cur, d), |o, v| write!(o, "{}", v))?,
        "u64" => show_res(o, e.parse_u64_at(&mut cur, d), |o, v| write!(o, "{}", v))?,
        "i32" => show_res(o, e.parse_i32_at(&mut cur, d), |o, v| write!(o, "{}", v))?,
        "i64" => show_res(o, e.parse_i64_at(&mut cur, d), |o, v| write!(o, "{}", v))?,
        _ => return bad(),
    }
    write!(o, " {}]", cur)
}

// ---------- structures ----------
fn run_parse<E: EndianParse, P: ParseAt + Show>(
    o: W,
    e: E,
    c: Class,
    off: usize,
    d: &[u8],
) -> std::fmt::Result {
    let mut cur = off;
    let r = P::parse_at(e, c, &mut cur, d);
    o.write_str("[")?;
    show_res(o, r, |o, v| v.show(o))?;
    write!(o, " {} {}]", cur, P::size_for(c))
}

// ---------- tables ----------
fn run_table<E: EndianParse, P: ParseAt + Show>(
    o: W,
    e: E,
    c: Class,
    d: &[u8],
    qs: &[Vec<Tok>],
) -> std::fmt::Result {
    let t: ParsingTable<E, P> = ParsingTable::new(e, c, d);
    o.write_str("[")?;
    for (k, q) in qs.iter().enumerate() {
        if k > 0 {
            o.write_str(" ")?;
        }
        match (q[0].w(), q.len()) {
            ("len", 1) => write!(o, "{}", t.len())?,
            ("empty", 1) => write!(o, "{}", t.is_empty() as u8)?,
            ("iter", 1) => {
                o.write_str("[")?;
                for (i, x) in Hinted(t.iter()).enumerate() {
                    if i > 0 {
                        o.write_str(" ")?;
                    }
                    x.show(o)?;
                }
                o.write_str("]")?;
            }
            ("intoiter", 1) => {
                o.write_str("[")?;
                for (i, x) in ParsingTable::<E, P>::new(e, c, d).into_iter().enumerate() {
                    if i > 0 {
                        o.write_str(" ")?;
                    }
                    x.show(o)?;
                }
                o.write_str("]")?;
            }
            ("get", 2) => show_res(o, t.get(q[1].us()), |o, v| v.show(o))?,
            ("walk", _) => {
                let was = alloc_count::suspend();
                let acts: Vec<usize> = q[1..].iter().map(|t| t.us()).collect();
                alloc_count::restore(was);
                let it: ParsingIterator<E, P> = ParsingIterator::new(e, c, d);
                walk_iter(o, it, &acts, &|o, x: &P| x.show(o))?;
            }
            ("nexts", 2) => {
                let mut it: ParsingIterator<E, P> = ParsingIterator::new(e, c, d);
                o.write_str("[")?;
                for i in 0..q[1].us() {
                    if i > 0 {
                        o.write_str(" ")?;
                    }
                    let _ = it.size_hint();
                    match it.next() {
                        Some(x) => x.show(o)?,
                        None => o.write_str("none")?,
                    }
                }
                o.write_str("]")?;
            }
            _ => return bad(),
        }
    }
    o.write_str("]")
}

#[macro_export]
macro_rules! with_type {
    ($w:expr, $f:ident, $($args:expr),*) => {
        match $w {
            "shdr" => $f::<_, elf::section::SectionHeader>($($args),*),
            "phdr" => $f::<_, elf::segment::ProgramHeader>($($args),*),
            "sym" => $f::<_, elf::symbol::Symbol>($($args),*),
            "rel" => $f::<_, elf::relocation::Rel>($($args),*),
            "rela" => $f::<_, elf::relocation::Rela>($($args),*),
            "dyn" => $f::<_, elf::dynamic::Dyn>($($args),*),
            "chdr" => $f::<_, elf::compression::CompressionHeader>($($args),*),
            "abitag" => $f::<_, elf::note::NoteGnuAbiTag>($($args),*),
            "sysvhdr" => $f::<_, elf::hash::SysVHashHeader>($($args),*),
            "gnuhdr" => $f::<_, elf::hash::GnuHashHeader>($($args),*),
            "u32" => $f::<_, u32>($($args),*),
            "u64" => $f::<_, u64>($($args),*),
            "versym" => $f::<_, elf::gnu_symver::VersionIndex>($($args),*),
            "verdef" => $f::<_, elf::gnu_symver::VerDef>($($args),*),
            "verdaux" => $f::<_, elf::gnu_symver::VerDefAux>($($args),*),
            "verneed" => $f::<_, elf::gnu_symver::VerNeed>($($args),*),
            "vernaux" => $f::<_, elf::gnu_symver::VerNeedAux>($($args),*),
            _ => bad(),
        }
    };
}

// ---------- string tables ----------
fn run_strtab(o: W, d: &[u8], qs: &[Vec<Tok>]) -> std::fmt::Result {
    let t = elf::string_table::StringTable::new(d);
    o.write_str("[")?;
    for (k, q) in qs.iter().enumerate() {
        if k > 0 {
            o.write_str(" ")?;
        }
        match (q[0].w(), q.len()) {
            ("raw", 2) => show_res(o, t.get_raw(q[1].us()), |o, v| show_range(o, d, v))?,
            ("get", 2) => show_res(o, t.get(q[1].us()), |o, v| show_range(o, d, v.as_bytes()))?,
            _ => return bad(),
        }
    }
    o.write_str("]")
}

pub fn run_case(o: W, g: &[Vec<Tok>]) -> std::fmt::Result {
    let h = &g[0];
    if h.is_empty() {
        return bad();
    }
    match (h[0].w(), h.len()) {
        ("errfmt", 6) => {
            // Display and Error::source of a ParseError built from its public variants (std-wrapping ones via From)
            let (a, b, c, d) = (h[2].n(), h[3].n(), h[4].n(), h[5].n());
            let was = alloc_count::suspend(); // building a std::io::Error allocates: that is the harness, not the crate
            let e = match h[1].n() {
                0 => ParseError::BadMagic([a as u8, b as u8, c as u8, d as u8]),
                1 => ParseError::UnsupportedElfClass(a as u8),
                2 => ParseError::UnsupportedElfEndianness(a as u8),
                3 => ParseError::UnsupportedVersion((a as u64, b as u64)),
                4 => ParseError::BadOffset(a as u64),
                5 => ParseError::StringTableMissingNul(a as u64),
                6 => ParseError::BadEntsize((a as u64, b as u64)),
                7 => ParseError::UnexpectedSectionType((a as u32, b as u32)),
                8 => ParseError::UnexpectedSegmentType((a as u32, b as u32)),
                9 => ParseError::UnexpectedAlignment(a as usize),
                10 => ParseError::SliceReadError((a as usize, b as usize)),
                11 => ParseError::IntegerOverflow,
                12 => ParseError::from(core::str::from_utf8(&[0x61, 0xff]).unwrap_err()),
                13 => ParseError::from(<[u8; 4]>::try_from(&[0u8; 3][..]).unwrap_err()),
                14 => ParseError::from(u8::try_from(300u32).unwrap_err()),
                15 => ParseError::from(std::io::Error::new(std::io::ErrorKind::Other, "x")),
                _ => return bad(),
            };
            alloc_count::restore(was);
            let src = std::error::Error::source(&e).is_some();
            o.write_str("[")?;
            if h[1].n() >= 12 {
                write!(NullW(0), "{}", e)?; // std's own messages: run, not compared
                o.write_str("none")?;
            } else {
                o.write_str("x")?;
                write!(HexW(o), "{}", e)?; // Display straight into a hex-encoding sink: no String in between
            }
            write!(o, " {}]", src as u8)
        }
        ("endian", 2) => with_spec!(h[1].w(), e, write!(o, "[{} {}]", e.is_little() as u8, e.is_big() as u8)),
        ("int", 5) => with_spec!(h[1].w(), e, run_int(o, e, h[2].w(), h[3].us(), h[4].b())),
        ("parse", 6) => {
            let c = class_of(h[3].n()).ok_or(std::fmt::Error)?;
            with_spec!(h[2].w(), e, with_type!(h[1].w(), run_parse, o, e, c, h[4].us(), h[5].b()))
        }
        ("tail", 6) => {
            let c = class_of(h[2].n()).ok_or(std::fmt::Error)?;
            with_spec!(h[1].w(), e, {
                let r = elf::file::FileHeader::parse_tail((e, c, h[3].n() as u8, h[4].n() as u8), h[5].b());
                show_res(o, r, |o, v| show_ehdr(o, &v))
            })
        }
        ("table", 5) => {
            let c = class_of(h[3].n()).ok_or(std::fmt::Error)?;
            with_spec!(h[2].w(), e, with_type!(h[1].w(), run_table, o, e, c, h[4].b(), &g[1..]))
        }
        ("strtab", 2) => run_strtab(o, h[1].b(), &g[1..]),
        ("utf8", 2) => write!(o, "{}", core::str::from_utf8(h[1].b()).is_ok() as u8),
        ("sysvhash", 2) => write!(o, "{}", elf::hash::sysv_hash(h[1].b())),
        ("gnuhash", 2) => write!(o, "{}", elf::hash::gnu_hash(h[1].b())),
        ("const", 2) => gen_tables::const_by_name(o, h[1].w()),
        ("layout", 2) => gen_tables::layout_by_name(o, h[1].w()),
        ("tostr", 4) | ("tostring", 4) => {
            let v = if h[2].w() == "m" { -(h[3].n() as i128) } else { h[3].n() as i128 };
            if h[0].w() == "tostr" {
                gen_tables::to_str(o, h[1].w(), v)
            } else {
                gen_tables::to_string(o, h[1].w(), v)
            }
        }
        ("ident", 3) => with_fam!(h[1].w(), E, ops::run_ident::<E>(o, h[2].b())),
        ("bytes", 3) => with_fam!(h[1].w(), E, ops::run_bytes::<E>(o, h[2].b(), &g[1..])),
        ("stream", 4) => with_fam!(h[1].w(), E, stream::run_stream::<E>(o, h[2].b(), h[3].w(), &g[1..])),
        ("bytesc", 3) => with_fam!(h[1].w(), E, stream::run_bytesc::<E>(o, h[2].b(), &g[1..])),
        ("notes", 5) => {
            let c = class_of(h[2].n()).ok_or(std::fmt::Error)?;
            with_spec!(h[1].w(), e, ops::run_notes(o, e, c, h[3].us(), h[4].b(), &g[1..]))
        }
        ("sysv", 6) | ("gnu", 6) => {
            let c = class_of(h[2].n()).ok_or(std::fmt::Error)?;
            let gnu = h[0].w() == "gnu";
            with_spec!(h[1].w(), e, ops::run_hash(o, gnu, e, c, h[3].b(), h[4].b(), h[5].b(), &g[1..]))
        }
        ("viter", 7) => {
            let c = class_of(h[3].n()).ok_or(std::fmt::Error)?;
            with_spec!(h[2].w(), e, ops::run_viter(o, h[1].w(), e, c, h[4].n(), h[5].us(), h[6].b(), &g[1..]))
        }
        ("symvert", 14) => {
            let c = class_of(h[2].n()).ok_or(std::fmt::Error)?;
            with_spec!(h[1].w(), e, ops::run_symvert(o, e, c, h, &g[1..]))
        }
        _ => bad(),
    }
}

fn main() {
    assert_eq!(usize::BITS, 64);
    assert!(cfg!(target_endian = "little"));
    std::panic::set_hook(Box::new(|_| {}));
    let args: Vec<String> = std::env::args().collect();
    let input: Box<dyn BufRead> = if args.len() > 1 {
        Box::new(std::io::BufReader::new(std::fs::File::open(&args[1]).unwrap()))
    } else {
        Box::new(std::io::BufReader::new(std::io::stdin()))
    };
    let stdout = std::io::stdout();
    let mut out = stdout.lock();
    for line in input.lines() {
        let line = line.unwrap();
        if line.is_empty() || line.starts_with('#') {
            continue;
        }
        let mut g = parse_line(&line);
        let mut s = String::new();
        // `alloc <case>`: run the case with a writer that discards (and never allocates), counting every heap
        // allocation made while the crate's code (and our non-allocating printers) run
        if !g.is_empty() && !g[0].is_empty() && g[0][0].w() == "alloc" {
            g[0].remove(0);
            let r = std::panic::catch_unwind(std::panic::AssertUnwindSafe(|| {
                let mut nw = NullW(0);
                alloc_count::start();
                let r = run_case(&mut nw, &g);
                let (n, mx) = alloc_count::stop();
                (r, n, mx, nw.0)
            }));
            let line = match r {
                Ok((Ok(()), n, mx, bytes)) => format!("allocs={} max={} out={}", n, mx, bytes),
                Ok((Err(_), _, _, _)) => "BADCASE".to_string(),
                Err(_) => {
                    alloc_count::stop();
                    "PANIC".to_string()
                }
            };
            out.write_all(line.as_bytes()).unwrap();
            out.write_all(b"\n").unwrap();
            out.flush().unwrap();
            continue;
        }
        let r = std::panic::catch_unwind(std::panic::AssertUnwindSafe(|| {
            let mut s2 = String::new();
            let r = run_case(&mut s2, &g);
            (r, s2)
        }));
        match r {
            Ok((Ok(()), s2)) => s = s2,
            Ok((Err(_), _)) => s.push_str("BADCASE"),
            Err(p) => {
                let msg = if let Some(m) = p.downcast_ref::<String>() {
                    m.clone()
                } else if let Some(m) = p.downcast_ref::<&str>() {
                    m.to_string()
                } else {
                    String::new()
                };
                s = format!("PANIC {}", msg.replace('\n', " "));
            }
        }
        out.write_all(s.as_bytes()).unwrap();
        out.write_all(b"\n").unwrap();
        out.flush().unwrap();
    }
}
