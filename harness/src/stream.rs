// ElfStream over a scripted Read+Seek (chunked / interrupted reads, fault injection at a logical
// I/O step, I/O trace, allocation sizes) and the slice parser printed in the same content form.
use crate::alloc_count;
use crate::ops::{sep, show_found};
use crate::show::*;
use crate::{bad, Tok, W};
use elf::endian::EndianParse;
use elf::note::{Note, NoteIterator};
use elf::parse::ParseError;
use elf::section::SectionHeader;
use elf::segment::ProgramHeader;
use elf::string_table::StringTable;
use elf::symbol::SymbolTable;
use elf::{ElfBytes, ElfStream};
use std::cell::RefCell;
use std::fmt::Write as FW;
use std::io::{self, Read, Seek, SeekFrom};
use std::rc::Rc;

type R = std::fmt::Result;

#[derive(Default)]
pub struct Trace {
    pub ev: Vec<(char, u64, u64)>,
}

pub struct ScriptReader {
    data: Vec<u8>,
    pos: u64,
    op: u64,
    faults: Vec<(u64, u8)>, // (logical step, kind: 0 error, 1 premature EOF, 2 short read then EOF)
    chunk: usize,           // 0 = deliver everything asked for
    intr_every: u64,        // 0 = never; else every n-th read call returns Interrupted first
    calls: u64,
    cont: Option<usize>,
    force_eof: bool,
    trace: Rc<RefCell<Trace>>,
}

impl ScriptReader {
    fn fault_at(&self, i: u64) -> Option<u8> {
        self.faults.iter().find(|(k, _)| *k == i).map(|(_, f)| *f)
    }
}

impl Seek for ScriptReader {
    fn seek(&mut self, p: SeekFrom) -> io::Result<u64> {
        let i = self.op;
        self.op += 1;
        self.cont = None;
        self.force_eof = false;
        if self.fault_at(i).is_some() {
            return Err(io::Error::new(io::ErrorKind::Other, "injected seek fault"));
        }
        match p {
            SeekFrom::Start(x) => {
                self.pos = x;
                self.trace.borrow_mut().ev.push(('S', x, 0));
            }
            SeekFrom::End(off) => self.pos = (self.data.len() as i64 + off) as u64,
            SeekFrom::Current(off) => self.pos = (self.pos as i64 + off) as u64,
        }
        Ok(self.pos)
    }
}

impl Read for ScriptReader {
    fn read(&mut self, buf: &mut [u8]) -> io::Result<usize> {
        if buf.is_empty() {
            return Ok(0);
        }
        self.calls += 1;
        let continuation = self.cont == Some(buf.len());
        let mut short = false;
        if !continuation {
            let i = self.op;
            self.op += 1;
            self.force_eof = false;
            match self.fault_at(i) {
                Some(0) => return Err(io::Error::new(io::ErrorKind::Other, "injected read fault")),
                Some(1) => return Ok(0),
                Some(_) => short = true,
                None => {}
            }
        } else if self.force_eof {
            return Ok(0);
        }
        if self.intr_every != 0 && self.calls % self.intr_every == 0 {
            // an interrupted call transfers nothing; the caller retries with the same buffer
            if !continuation {
                self.op -= 1;
            }
            return Err(io::Error::new(io::ErrorKind::Interrupted, "interrupted"));
        }
        let avail = (self.data.len() as u64).saturating_sub(self.pos) as usize;
        let mut n = buf.len().min(avail);
        if self.chunk != 0 {
            n = n.min(self.chunk);
        }
        if short {
            if buf.len() <= 1 {
                return Ok(0);
            }
            n = n.min(1);
            self.force_eof = true;
        }
        let p = self.pos as usize;
        buf[..n].copy_from_slice(&self.data[p..p + n]);
        {
            let mut t = self.trace.borrow_mut();
            if continuation {
                if let Some(last) = t.ev.last_mut() {
                    last.2 += n as u64;
                }
            } else {
                t.ev.push(('R', self.pos, n as u64));
            }
        }
        self.pos += n as u64;
        self.cont = if n < buf.len() { Some(buf.len() - n) } else { None };
        Ok(n)
    }
}

fn parse_script(s: &str, data: &[u8], trace: Rc<RefCell<Trace>>) -> Option<ScriptReader> {
    let mut r = ScriptReader {
        data: data.to_vec(),
        pos: 0,
        op: 0,
        faults: vec![],
        chunk: 0,
        intr_every: 0,
        calls: 0,
        cont: None,
        force_eof: false,
        trace,
    };
    for part in s.split(',') {
        let kv: Vec<&str> = part.split(':').collect();
        match (kv[0], kv.len()) {
            ("plain", 1) => {}
            ("chunk", 2) => r.chunk = kv[1].parse().ok()?,
            ("intr", 2) => r.intr_every = kv[1].parse().ok()?,
            ("fault", 3) => r.faults.push((kv[1].parse().ok()?, kv[2].parse().ok()?)),
            _ => return None,
        }
    }
    Some(r)
}

// ---------- content-form printers ----------
fn hexs(o: W, b: &[u8]) -> R {
    show_hex(o, b)
}
fn show_note_c(o: W, n: &Note) -> R {
    match n {
        Note::GnuAbiTag(a) => write!(o, "abitag({} {} {} {})", a.os, a.major, a.minor, a.subminor),
        Note::GnuBuildId(b) => {
            o.write_str("buildid(")?;
            hexs(o, b.0)?;
            o.write_str(")")
        }
        Note::Unknown(a) => {
            write!(o, "note({} ", a.n_type)?;
            hexs(o, a.name)?;
            o.write_str(" ")?;
            hexs(o, a.desc)?;
            o.write_str(" ")?;
            show_res(o, a.name_str(), |o, s| hexs(o, s.as_bytes()))?;
            o.write_str(")")
        }
    }
}
fn show_notes_c<E: EndianParse>(o: W, it: NoteIterator<E>) -> R {
    o.write_str("[")?;
    for (k, n) in Hinted(it).enumerate() {
        sep(o, k)?;
        show_note_c(o, &n)?;
    }
    o.write_str("]")
}
fn show_list<T: Show>(o: W, it: impl Iterator<Item = T>) -> R {
    o.write_str("[")?;
    for (k, x) in Hinted(it).enumerate() {
        sep(o, k)?;
        x.show(o)?;
    }
    o.write_str("]")
}
fn show_symtab_c<E: EndianParse>(o: W, t: &SymbolTable<E>, s: &StringTable) -> R {
    o.write_str("[")?;
    show_list(o, t.iter())?;
    o.write_str(" ")?;
    let b = crate::ops::dbg_bytes(s);
    hexs(o, &b)?;
    o.write_str("]")
}
fn show_strtab_q(o: W, t: &StringTable, offs: &[Tok]) -> R {
    o.write_str("[")?;
    for (k, off) in offs.iter().enumerate() {
        sep(o, k)?;
        show_res(o, t.get_raw(off.us()), |o, s| hexs(o, s))?;
    }
    o.write_str("]")
}
fn show_symver_c<E: EndianParse>(o: W, t: &elf::gnu_symver::SymbolVersionTable<E>, idx: &[Tok]) -> R {
    o.write_str("[")?;
    for (k, i) in idx.iter().enumerate() {
        sep(o, k)?;
        o.write_str("[")?;
        show_res(o, t.get_requirement(i.us()), |o, r| match r {
            None => o.write_str("none"),
            Some(r) => {
                o.write_str("req(")?;
                hexs(o, r.file.as_bytes())?;
                o.write_str(" ")?;
                hexs(o, r.name.as_bytes())?;
                write!(o, " {} {} {})", r.hash, r.flags, r.hidden as u8)
            }
        })?;
        o.write_str(" ")?;
        show_res(o, t.get_definition(i.us()), |o, r| match r {
            None => o.write_str("none"),
            Some(d) => {
                write!(o, "def({} {} {} [", d.hash, d.flags, d.hidden as u8)?;
                for (k, n) in Hinted(d.names).enumerate() {
                    sep(o, k)?;
                    show_res(o, n, |o, s| hexs(o, s.as_bytes()))?;
                }
                o.write_str("])")
            }
        })?;
        o.write_str("]")?;
    }
    o.write_str("]")
}

fn shdr_of(q: &[Tok], table: Option<Vec<SectionHeader>>) -> Option<SectionHeader> {
    if q.len() == 1 {
        table.and_then(|t| t.get(q[0].us()).copied())
    } else if q.len() == 10 {
        Some(SectionHeader {
            sh_name: q[0].n() as u32,
            sh_type: q[1].n() as u32,
            sh_flags: q[2].n() as u64,
            sh_addr: q[3].n() as u64,
            sh_offset: q[4].n() as u64,
            sh_size: q[5].n() as u64,
            sh_link: q[6].n() as u32,
            sh_info: q[7].n() as u32,
            sh_addralign: q[8].n() as u64,
            sh_entsize: q[9].n() as u64,
        })
    } else {
        None
    }
}
fn phdr_of(q: &[Tok], table: Option<Vec<ProgramHeader>>) -> Option<ProgramHeader> {
    if q.len() == 1 {
        table.and_then(|t| t.get(q[0].us()).copied())
    } else if q.len() == 8 {
        Some(ProgramHeader {
            p_type: q[0].n() as u32,
            p_offset: q[1].n() as u64,
            p_vaddr: q[2].n() as u64,
            p_paddr: q[3].n() as u64,
            p_filesz: q[4].n() as u64,
            p_memsz: q[5].n() as u64,
            p_flags: q[6].n() as u32,
            p_align: q[7].n() as u64,
        })
    } else {
        None
    }
}

macro_rules! counted {
    ($e:expr) => {{
        alloc_count::resume();
        let r = $e;
        alloc_count::pause();
        r
    }};
}

// ---------- the stream parser ----------
pub fn run_stream<E: EndianParse>(o: W, data: &[u8], script: &str, qs: &[Vec<Tok>]) -> R {
    let trace = Rc::new(RefCell::new(Trace::default()));
    let mut rd = match parse_script(script, data, trace.clone()) {
        Some(r) => r,
        None => return bad(),
    };
    if qs.is_empty() || qs[0].is_empty() || qs[0][0].w() != "faults" || qs[0].len() % 2 != 1 {
        return bad();
    }
    for p in qs[0][1..].chunks(2) {
        rd.faults.push((p[0].n() as u64, p[1].n() as u8));
    }
    let qs = &qs[1..];
    alloc_count::start();
    alloc_count::pause();
    let opened = counted!(ElfStream::<E, _>::open_stream(rd));
    let mut es = match opened {
        Ok(e) => e,
        Err(e) => {
            let (_, mx) = alloc_count::stop();
            o.write_str("stream(")?;
            show_err(o, &e)?;
            write!(o, " [")?;
            show_trace(o, &trace.borrow())?;
            return write!(o, "]) maxalloc={}", mx);
        }
    };
    o.write_str("stream([")?;
    for (k, q) in qs.iter().enumerate() {
        sep(o, k)?;
        if q.is_empty() {
            return bad();
        }
        let rest = &q[1..];
        match q[0].w() {
            "ehdr" => show_ehdr(o, &es.ehdr)?,
            "shdrs" => show_list(o, es.section_headers().iter().cloned())?,
            "phdrs" => show_list(o, es.segments().iter().cloned())?,
            "shstr" => {
                let r = counted!(es.section_headers_with_strtab());
                show_res(o, r, |o, (t, s)| {
                    write!(o, "[{} ", t.len())?;
                    match s {
                        None => o.write_str("none")?,
                        Some(s) => hexs(o, &crate::ops::dbg_bytes(&s))?,
                    }
                    o.write_str("]")
                })?
            }
            "byname" => {
                let name = match core::str::from_utf8(rest[0].b()) {
                    Ok(n) => n,
                    Err(_) => return bad(),
                };
                let r = counted!(es.section_header_by_name(name));
                show_res(o, r, |o, v| match v {
                    None => o.write_str("none"),
                    Some(h) => h.show(o),
                })?
            }
            "secdata" | "strtab" | "rels" | "relas" | "notes" => {
                let nh = if q[0].w() == "strtab" { 1 } else { rest.len() };
                let h = match shdr_of(&rest[..nh.min(rest.len())], Some(es.section_headers().clone())) {
                    None => {
                        o.write_str("nohdr")?;
                        continue;
                    }
                    Some(h) => h,
                };
                match q[0].w() {
                    "secdata" => {
                        let r = counted!(es.section_data(&h));
                        show_res(o, r, |o, (b, ch)| {
                            o.write_str("[")?;
                            hexs(o, b)?;
                            o.write_str(" ")?;
                            match ch {
                                None => o.write_str("none")?,
                                Some(c) => c.show(o)?,
                            }
                            o.write_str("]")
                        })?
                    }
                    "strtab" => {
                        let r = counted!(es.section_data_as_strtab(&h));
                        show_res(o, r, |o, t| show_strtab_q(o, &t, &rest[1..]))?
                    }
                    "rels" => {
                        let r = counted!(es.section_data_as_rels(&h));
                        show_res(o, r, |o, it| show_list(o, it))?
                    }
                    "relas" => {
                        let r = counted!(es.section_data_as_relas(&h));
                        show_res(o, r, |o, it| show_list(o, it))?
                    }
                    _ => {
                        let r = counted!(es.section_data_as_notes(&h));
                        show_res(o, r, |o, it| show_notes_c(o, it))?
                    }
                }
            }
            "segnotes" => {
                let h = match phdr_of(rest, Some(es.segments().clone())) {
                    None => {
                        o.write_str("nohdr")?;
                        continue;
                    }
                    Some(h) => h,
                };
                let r = counted!(es.segment_data_as_notes(&h));
                show_res(o, r, |o, it| show_notes_c(o, it))?
            }
            "dynamic" => {
                let r = counted!(es.dynamic());
                show_res(o, r, |o, v| match v {
                    None => o.write_str("none"),
                    Some(t) => show_list(o, t.iter()),
                })?
            }
            "symtab" => {
                let r = counted!(es.symbol_table());
                show_res(o, r, |o, v| match v {
                    None => o.write_str("none"),
                    Some((t, s)) => show_symtab_c(o, &t, &s),
                })?
            }
            "dynsym" => {
                let r = counted!(es.dynamic_symbol_table());
                show_res(o, r, |o, v| match v {
                    None => o.write_str("none"),
                    Some((t, s)) => show_symtab_c(o, &t, &s),
                })?
            }
            "symver" => {
                let r = counted!(es.symbol_version_table());
                show_res(o, r, |o, v| match v {
                    None => o.write_str("none"),
                    Some(t) => show_symver_c(o, &t, rest),
                })?
            }
            _ => return bad(),
        }
    }
    let (_, mx) = alloc_count::stop();
    o.write_str("] [")?;
    show_trace(o, &trace.borrow())?;
    write!(o, "]) maxalloc={}", mx)
}

fn show_trace(o: W, t: &Trace) -> R {
    for (k, (c, a, b)) in t.ev.iter().enumerate() {
        sep(o, k)?;
        if *c == 'S' {
            write!(o, "S({})", a)?;
        } else {
            write!(o, "R({} {})", a, b)?;
        }
    }
    Ok(())
}

// ---------- the slice parser in the same content form ----------
pub fn run_bytesc<E: EndianParse>(o: W, f: &[u8], qs: &[Vec<Tok>]) -> R {
    let eb = match ElfBytes::<E>::minimal_parse(f) {
        Ok(e) => e,
        Err(e) => return show_err(o, &e),
    };
    o.write_str("[")?;
    for (k, q) in qs.iter().enumerate() {
        sep(o, k)?;
        if q.is_empty() {
            return bad();
        }
        let rest = &q[1..];
        let shv = || eb.section_headers().map(|t| t.iter().collect::<Vec<_>>());
        let phv = || eb.segments().map(|t| t.iter().collect::<Vec<_>>());
        match q[0].w() {
            "ehdr" => show_ehdr(o, &eb.ehdr)?,
            "shdrs" => show_list(o, shv().unwrap_or_default().into_iter())?,
            "phdrs" => show_list(o, phv().unwrap_or_default().into_iter())?,
            "shstr" => show_res(o, eb.section_headers_with_strtab(), |o, (t, s)| {
                write!(o, "[{} ", t.map(|t| t.len()).unwrap_or(0))?;
                match s {
                    None => o.write_str("none")?,
                    Some(s) => hexs(o, &crate::ops::dbg_bytes(&s))?,
                }
                o.write_str("]")
            })?,
            "byname" => {
                let name = match core::str::from_utf8(rest[0].b()) {
                    Ok(n) => n,
                    Err(_) => return bad(),
                };
                show_res(o, eb.section_header_by_name(name), |o, v| match v {
                    None => o.write_str("none"),
                    Some(h) => h.show(o),
                })?
            }
            "secdata" | "strtab" | "rels" | "relas" | "notes" => {
                let nh = if q[0].w() == "strtab" { 1 } else { rest.len() };
                let h = match shdr_of(&rest[..nh.min(rest.len())], shv()) {
                    None => {
                        o.write_str("nohdr")?;
                        continue;
                    }
                    Some(h) => h,
                };
                match q[0].w() {
                    "secdata" => show_res(o, eb.section_data(&h), |o, (b, ch)| {
                        o.write_str("[")?;
                        hexs(o, b)?;
                        o.write_str(" ")?;
                        match ch {
                            None => o.write_str("none")?,
                            Some(c) => c.show(o)?,
                        }
                        o.write_str("]")
                    })?,
                    "strtab" => show_res(o, eb.section_data_as_strtab(&h), |o, t| show_strtab_q(o, &t, &rest[1..]))?,
                    "rels" => show_res(o, eb.section_data_as_rels(&h), |o, it| show_list(o, it))?,
                    "relas" => show_res(o, eb.section_data_as_relas(&h), |o, it| show_list(o, it))?,
                    _ => show_res(o, eb.section_data_as_notes(&h), |o, it| show_notes_c(o, it))?,
                }
            }
            "segnotes" => {
                let h = match phdr_of(rest, phv()) {
                    None => {
                        o.write_str("nohdr")?;
                        continue;
                    }
                    Some(h) => h,
                };
                show_res(o, eb.segment_data_as_notes(&h), |o, it| show_notes_c(o, it))?
            }
            "dynamic" => show_res(o, eb.dynamic(), |o, v| match v {
                None => o.write_str("none"),
                Some(t) => show_list(o, t.iter()),
            })?,
            "symtab" => show_res(o, eb.symbol_table(), |o, v| match v {
                None => o.write_str("none"),
                Some((t, s)) => show_symtab_c(o, &t, &s),
            })?,
            "dynsym" => show_res(o, eb.dynamic_symbol_table(), |o, v| match v {
                None => o.write_str("none"),
                Some((t, s)) => show_symtab_c(o, &t, &s),
            })?,
            "symver" => show_res(o, eb.symbol_version_table(), |o, v| match v {
                None => o.write_str("none"),
                Some(t) => show_symver_c(o, &t, rest),
            })?,
            _ => return bad(),
        }
    }
    o.write_str("]")
}
