(* C03 / C05: what the slice parser hands out and where it finds the header tables. *)
Require Import V.Base.Prim V.Spec.Ints V.Ref.RefLayout V.Spec.AbiLayout V.Model.Structs V.Model.Table
        V.Model.StrTab V.Model.Utf8 V.Model.File V.Model.Hash V.Model.Note V.Model.SymVer V.Model.ElfBytes
        V.Proofs.PrimFacts V.Proofs.StructsP V.Proofs.TableP V.Proofs.FileP V.Proofs.NoteP V.Proofs.StrTabP.
From Coq Require Import Lia ZifyBool ZifyN ZifyNat String.
Ltac Zify.zify_post_hook ::= Z.div_mod_to_equations.
Open Scope N_scope.

(* ---------- ranges ---------- *)
(* [fits f a sz]: the declared range [a, a+sz) lies inside the file (and a+sz is a usize) *)
Definition fits (f : buf) (a sz : N) : bool := a + sz <=? blen f.

Lemma range_in_spec f a sz : buf_ok f ->
  range_in f (data_range a sz) =
  if USIZE_MAX <? a + sz then Err EIntegerOverflow
  else if fits f a sz then Ok (a, a + sz) else Err (ESliceReadError a (a + sz)).
Proof.
  intros Hf. unfold range_in, data_range, checked_add, get_bytes, sub, fits, ok_or, buf_ok, ISIZE_MAX, USIZE_MAX in *.
  destruct (a + sz <=? 18446744073709551615) eqn:E1; cbn [rbind].
  - replace (18446744073709551615 <? a + sz) with false by lia.
    replace (a <=? a + sz) with true by lia. cbn [andb].
    destruct (a + sz <=? blen f); reflexivity.
  - replace (18446744073709551615 <? a + sz) with true by lia. reflexivity.
Qed.

Lemma view_sub f a b : a <= b -> b <= blen f -> sub f a b = Some (view f (a, b)).
Proof.
  intros H1 H2. unfold view. cbn [fst snd]. unfold sub.
  replace ((a <=? b) && (b <=? blen f)) with true by lia. reflexivity.
Qed.
Lemma view_blen f a b : a <= b -> b <= blen f -> blen (view f (a, b)) = b - a.
Proof. intros H1 H2. pose proof (view_sub f a b H1 H2) as E. apply sub_blen in E. tauto. Qed.
Lemma view_ok f r : buf_ok f -> buf_ok (view f r).
Proof.
  intros Hf. unfold view, buf_ok, ISIZE_MAX in *. destruct (sub f (fst r) (snd r)) as [b|] eqn:E; [|cbn; lia].
  apply sub_blen in E. lia.
Qed.
Lemma bytes_at_view f a b o n : a <= b -> b <= blen f -> o + N.of_nat n <= b - a ->
  bytes_at (view f (a, b)) o n = bytes_at f (a + o) n.
Proof. intros H1 H2 H3. apply (bytes_at_sub f a b); [now apply view_sub|exact H3]. Qed.

(* the compression header at the start of a view is the header at that file offset *)
Lemma chdr_spec_view s c f a b : a <= b -> b <= blen f -> chdr_size c <= b - a ->
  chdr_spec s c (view f (a, b)) 0 = chdr_spec s c f a.
Proof.
  intros H1 H2 H3. destruct c; cbn [chdr_size] in H3; unfold chdr_spec, fval, pick; repeat lookup; cbv beta iota;
  cbn [fty_size]; rewrite !(bytes_at_view f a b) by (cbn; lia); rewrite ?N.add_0_r, ?N.add_0_l; reflexivity.
Qed.

Section SectionData.
  Variables (f : buf) (eb : elfbytes).
  Hypothesis Hf : buf_ok f.
  Let s := e_spec (eb_ehdr eb).
  Let c := e_class (eb_ehdr eb).

  (* ---------- C03: section_data ---------- *)
  Theorem section_data_nobits h : sh_type h = SHT_NOBITS -> section_data f eb h = Ok ((0, 0), None).
  Proof. intros E. unfold section_data. rewrite E. reflexivity. Qed.

  Theorem section_data_unfit h : sh_type h <> SHT_NOBITS ->
    fits f (sh_offset h) (sh_size h) = false -> is_ok (section_data f eb h) = false.
  Proof.
    intros Ht Hn. unfold section_data. replace (sh_type h =? SHT_NOBITS) with false by lia.
    unfold sh_range. rewrite (range_in_spec f _ _ Hf). rewrite Hn.
    destruct (USIZE_MAX <? sh_offset h + sh_size h); reflexivity.
  Qed.

  Lemma fits_usize a sz : fits f a sz = true -> (USIZE_MAX <? a + sz) = false.
  Proof. unfold fits, buf_ok, ISIZE_MAX, USIZE_MAX in *. lia. Qed.

  Theorem section_data_plain h : sh_type h <> SHT_NOBITS ->
    fits f (sh_offset h) (sh_size h) = true -> N.land (sh_flags h) SHF_COMPRESSED = 0 ->
    section_data f eb h = Ok ((sh_offset h, sh_offset h + sh_size h), None).
  Proof.
    intros Ht Hfit Hc. unfold section_data. replace (sh_type h =? SHT_NOBITS) with false by lia.
    unfold sh_range. rewrite (range_in_spec f _ _ Hf), (fits_usize _ _ Hfit), Hfit. cbn [rbind].
    rewrite Hc. reflexivity.
  Qed.

  Theorem section_data_compressed h : sh_type h <> SHT_NOBITS ->
    fits f (sh_offset h) (sh_size h) = true -> N.land (sh_flags h) SHF_COMPRESSED <> 0 ->
    if sh_size h <? chdr_size c then is_ok (section_data f eb h) = false
    else section_data f eb h =
         Ok ((sh_offset h + chdr_size c, sh_offset h + sh_size h), Some (chdr_spec s c f (sh_offset h))).
  Proof.
    intros Ht Hfit Hc. unfold section_data. replace (sh_type h =? SHT_NOBITS) with false by lia.
    unfold sh_range. rewrite (range_in_spec f _ _ Hf), (fits_usize _ _ Hfit), Hfit. cbn [rbind].
    replace (N.land (sh_flags h) SHF_COMPRESSED =? 0) with false by lia.
    set (a := sh_offset h) in *. set (z := sh_size h) in *. fold s c.
    assert (Hab : a <= a + z) by lia. assert (Hb : a + z <= blen f) by (unfold fits in Hfit; lia).
    pose proof (view_blen f a (a + z) Hab Hb) as Hl. pose proof (view_ok f (a, a + z) Hf) as Hv.
    destruct (z <? chdr_size c) eqn:Ez.
    - destruct (regular_short _ _ (view f (a, a + z)) 0 (regular_chdr s c) Hv ltac:(lia)) as [e [o' E]].
      rewrite E. reflexivity.
    - rewrite (parse_chdr_ok s c _ 0 Hv) by lia. rewrite N.add_0_l.
      replace (a + z - a <? chdr_size c) with false by lia.
      rewrite (chdr_spec_view s c f a (a + z)) by lia. reflexivity.
  Qed.

  (* ---------- C03: segment_data: [p_offset, p_offset + p_filesz); p_memsz never enters ---------- *)
  Theorem segment_data_spec h :
    segment_data f h =
    if USIZE_MAX <? p_offset h + p_filesz h then Err EIntegerOverflow
    else if fits f (p_offset h) (p_filesz h) then Ok (p_offset h, p_offset h + p_filesz h)
         else Err (ESliceReadError (p_offset h) (p_offset h + p_filesz h)).
  Proof. unfold segment_data, ph_range. apply range_in_spec. exact Hf. Qed.

  (* typed views: refused when the type differs, else exactly the section data *)
  Theorem section_data_typed_spec ty h :
    section_data_typed f eb ty h =
    if sh_type h =? ty then (let? p := section_data f eb h in Ok (fst p))
    else Err (EUnexpectedSectionType (sh_type h) ty).
  Proof.
    unfold section_data_typed. destruct (sh_type h =? ty); cbn [negb]; [|reflexivity].
    destruct (section_data f eb h) as [[r ch]| |]; reflexivity.
  Qed.
End SectionData.

(* ---------- C03: views hand out sub-ranges of their own range, holding the file's bytes ---------- *)
Lemma get_raw_in d off a b : get_raw d off = Ok (a, b) -> a = off /\ off <= b /\ b < blen d.
Proof.
  unfold get_raw. destruct (blen d =? 0); [discriminate|]. destruct (blen d <? off) eqn:E; [discriminate|].
  destruct (scan_nul _ d off) as [p|] eqn:Es; [|discriminate]. intros [= <- <-].
  apply scan_nul_some in Es. lia.
Qed.

(* a string-table entry of a section: absolute range inside the section's range, bytes = file bytes *)
Theorem strtab_entry_in_file f r off a b : buf_ok f -> fst r <= snd r -> snd r <= blen f ->
  get_raw (view f r) off = Ok (a, b) ->
  fst r + b < snd r /\
  bytes_at (view f r) a (N.to_nat (b - a)) = bytes_at f (fst r + a) (N.to_nat (b - a)).
Proof.
  intros Hf H1 H2 H. destruct r as [x y]. cbn [fst snd] in *.
  apply get_raw_in in H. rewrite (view_blen f x y H1 H2) in H. split; [lia|].
  apply bytes_at_view; lia.
Qed.

(* note name / descriptor ranges lie inside the note buffer *)
Definition note_ranges (n : note) : list (N * N) :=
  match n with NAbiTag _ => [] | NBuildId d => [d] | NAny _ nm ds => [nm; ds] end.
Lemma sub_some_le d a b x : sub d a b = Some x -> a <= b /\ b <= blen d.
Proof. unfold sub. destruct ((a <=? b) && (b <=? blen d)) eqn:E; [|discriminate]. intros _. lia. Qed.
Theorem note_ranges_in s c align d off n nx :
  note_parse s c align d off = (Ok n, nx) ->
  Forall (fun r => off <= fst r /\ fst r <= snd r /\ snd r <= blen d) (note_ranges n).
Proof.
  unfold note_parse. destruct (align =? 0); [discriminate|].
  destruct (parse_nhdr s ELF32 d off) as [[nh| |] o1] eqn:Eh; try discriminate.
  assert (Ho1 : off <= o1).
  { unfold parse_nhdr in Eh. unfold bind, u32, parse_uint, checked_add in Eh.
    repeat match type of Eh with
           | context [if ?b then _ else _] => destruct b eqn:?; try discriminate
           end; cbn in Eh; injection Eh as _ <-; lia. }
  destruct (checked_add o1 (n_namesz nh)) as [ne|] eqn:E1; [|discriminate].
  destruct (sub d o1 ne) as [nb|] eqn:E2; [|discriminate]. apply sub_some_le in E2.
  destruct (pad_to ne align) as [ds| |] eqn:E3; try discriminate.
  assert (Hds : ne <= ds).
  { unfold pad_to in E3. destruct (0 <? ne mod align); [|injection E3 as <-; lia].
    unfold checked_add, ok_or in E3. destruct (_ <=? USIZE_MAX); [injection E3 as <-; lia|discriminate]. }
  destruct (checked_add ds (n_descsz nh)) as [de|] eqn:E4; [|discriminate].
  destruct (sub d ds de) as [db|] eqn:E5; [|discriminate]. apply sub_some_le in E5.
  destruct (pad_to de align) as [nx'| |]; try discriminate.
  destruct (is_gnu_name d (o1, ne)).
  - destruct (n_type nh =? 1).
    + destruct (fst (parse_abitag s c db 0)); try discriminate. intros [= <- _]. constructor.
    + destruct (n_type nh =? 3); intros [= <- _]; cbn [note_ranges]; repeat constructor; cbn [fst snd]; lia.
  - intros [= <- _]. cbn [note_ranges]; repeat constructor; cbn [fst snd]; lia.
Qed.

(* ---------- C05: the header tables are where the ELF header (and shdr[0]) declare ---------- *)
Section Tables.
  Variables (eh : ehdr) (f : buf).
  Hypothesis Hf : buf_ok f.
  Let s := e_spec eh.
  Let c := e_class eh.

  (* the section header at file offset [off], when it lies inside the file *)
  Definition shdr0_at (off : N) : option shdr :=
    if off + shdr_size c <=? blen f then Some (shdr_spec s c f off) else None.
  Lemma shdr0_parse off : fst (parse_shdr s c f off) =
    match shdr0_at off with Some h => Ok h | None => fst (parse_shdr s c f off) end /\
    (shdr0_at off = None -> is_ok (fst (parse_shdr s c f off)) = false).
  Proof.
    unfold shdr0_at. destruct (off + shdr_size c <=? blen f) eqn:E.
    - rewrite (parse_shdr_ok s c f off Hf) by lia. split; [reflexivity|discriminate].
    - split; [reflexivity|]. intros _.
      destruct (regular_short _ _ f off (regular_shdr s c) Hf ltac:(lia)) as [e [o' E2]]. rewrite E2. reflexivity.
  Qed.

  (* declared number of section headers: e_shnum, or shdr[0].sh_size when e_shnum = 0 *)
  Definition shnum_decl : option N :=
    if e_shnum eh =? 0 then option_map sh_size (shdr0_at (e_shoff eh)) else Some (e_shnum eh).
  (* declared number of program headers: e_phnum, or shdr[0].sh_info when e_phnum = PN_XNUM *)
  Definition phnum_decl : option N :=
    if e_phnum eh =? PN_XNUM then option_map sh_info (shdr0_at (e_shoff eh)) else Some (e_phnum eh).

  Definition table_spec (off entsize esz : N) (n : option N) : option (option (N * N)) :=
    if off =? 0 then Some None else
    match n with
    | None => None
    | Some n => if (entsize =? esz) && (off + esz * n <=? blen f) then Some (Some (off, off + esz * n)) else None
    end.

  (* Ok exactly when the declarative spec says so, and then exactly that range *)
  Theorem find_shdrs_spec :
    match table_spec (e_shoff eh) (e_shentsize eh) (shdr_size c) shnum_decl with
    | Some r => find_shdrs eh f = Ok r
    | None => is_ok (find_shdrs eh f) = false
    end.
  Proof.
    unfold table_spec, find_shdrs, shnum_decl, hspec, hclass. fold s c.
    destruct (e_shoff eh =? 0) eqn:E0; [reflexivity|].
    destruct (shdr0_parse (e_shoff eh)) as [Hp Hn].
    assert (Hs : 0 < shdr_size c) by (destruct c; reflexivity).
    assert (G : forall n, match (if (e_shentsize eh =? shdr_size c) && (e_shoff eh + shdr_size c * n <=? blen f)
                                 then Some (Some (e_shoff eh, e_shoff eh + shdr_size c * n)) else None) with
               | Some r => (let? entsize := validate_entsize (shdr_size c) (e_shentsize eh) in
                            let? size := ok_or (checked_mul entsize n) EIntegerOverflow in
                            let? en := ok_or (checked_add (e_shoff eh) size) EIntegerOverflow in
                            let? _ := get_bytes f (e_shoff eh) en in Ok (Some (e_shoff eh, en))) = Ok r
               | None => is_ok (let? entsize := validate_entsize (shdr_size c) (e_shentsize eh) in
                            let? size := ok_or (checked_mul entsize n) EIntegerOverflow in
                            let? en := ok_or (checked_add (e_shoff eh) size) EIntegerOverflow in
                            let? _ := get_bytes f (e_shoff eh) en in Ok (Some (e_shoff eh, en))) = false
               end).
    { intros n. unfold validate_entsize. destruct (e_shentsize eh =? shdr_size c) eqn:Ee; cbn [andb rbind]; [|reflexivity].
      assert (e_shentsize eh = shdr_size c) as -> by lia.
      unfold checked_mul, checked_add, ok_or, get_bytes, sub, buf_ok, ISIZE_MAX, USIZE_MAX in *.
      destruct (e_shoff eh + shdr_size c * n <=? blen f) eqn:Ef.
      - replace (shdr_size c * n <=? 18446744073709551615) with true by lia. cbn [rbind].
        replace (e_shoff eh + shdr_size c * n <=? 18446744073709551615) with true by lia. cbn [rbind].
        replace ((e_shoff eh <=? e_shoff eh + shdr_size c * n) && (e_shoff eh + shdr_size c * n <=? blen f)) with true by lia.
        reflexivity.
      - destruct (shdr_size c * n <=? 18446744073709551615); cbn [rbind]; [|reflexivity].
        destruct (e_shoff eh + shdr_size c * n <=? 18446744073709551615); cbn [rbind]; [|reflexivity].
        replace ((e_shoff eh <=? e_shoff eh + shdr_size c * n) && (e_shoff eh + shdr_size c * n <=? blen f)) with false by lia.
        reflexivity. }
    destruct (e_shnum eh =? 0).
    - destruct (shdr0_at (e_shoff eh)) as [h0|] eqn:E1; cbn [option_map].
      + rewrite Hp. cbn [rbind]. apply G.
      + specialize (Hn eq_refl). destruct (fst (parse_shdr s c f (e_shoff eh))); [discriminate|reflexivity|reflexivity].
    - cbn [rbind]. apply G.
  Qed.

  Theorem find_phdrs_spec :
    match table_spec (e_phoff eh) (e_phentsize eh) (phdr_size c) phnum_decl with
    | Some r => find_phdrs eh f = Ok r
    | None => is_ok (find_phdrs eh f) = false
    end.
  Proof.
    unfold table_spec, find_phdrs, phnum_decl, hspec, hclass. fold s c.
    destruct (e_phoff eh =? 0) eqn:E0; [reflexivity|].
    destruct (shdr0_parse (e_shoff eh)) as [Hp Hn].
    assert (G : forall n, match (if (e_phentsize eh =? phdr_size c) && (e_phoff eh + phdr_size c * n <=? blen f)
                                 then Some (Some (e_phoff eh, e_phoff eh + phdr_size c * n)) else None) with
               | Some r => (let? entsize := validate_entsize (phdr_size c) (e_phentsize eh) in
                            let? size := ok_or (checked_mul entsize n) EIntegerOverflow in
                            let? en := ok_or (checked_add (e_phoff eh) size) EIntegerOverflow in
                            let? _ := get_bytes f (e_phoff eh) en in Ok (Some (e_phoff eh, en))) = Ok r
               | None => is_ok (let? entsize := validate_entsize (phdr_size c) (e_phentsize eh) in
                            let? size := ok_or (checked_mul entsize n) EIntegerOverflow in
                            let? en := ok_or (checked_add (e_phoff eh) size) EIntegerOverflow in
                            let? _ := get_bytes f (e_phoff eh) en in Ok (Some (e_phoff eh, en))) = false
               end).
    { intros n. unfold validate_entsize. destruct (e_phentsize eh =? phdr_size c) eqn:Ee; cbn [andb rbind]; [|reflexivity].
      assert (e_phentsize eh = phdr_size c) as -> by lia.
      unfold checked_mul, checked_add, ok_or, get_bytes, sub, buf_ok, ISIZE_MAX, USIZE_MAX in *.
      destruct (e_phoff eh + phdr_size c * n <=? blen f) eqn:Ef.
      - replace (phdr_size c * n <=? 18446744073709551615) with true by lia. cbn [rbind].
        replace (e_phoff eh + phdr_size c * n <=? 18446744073709551615) with true by lia. cbn [rbind].
        replace ((e_phoff eh <=? e_phoff eh + phdr_size c * n) && (e_phoff eh + phdr_size c * n <=? blen f)) with true by lia.
        reflexivity.
      - destruct (phdr_size c * n <=? 18446744073709551615); cbn [rbind]; [|reflexivity].
        destruct (e_phoff eh + phdr_size c * n <=? 18446744073709551615); cbn [rbind]; [|reflexivity].
        replace ((e_phoff eh <=? e_phoff eh + phdr_size c * n) && (e_phoff eh + phdr_size c * n <=? blen f)) with false by lia.
        reflexivity. }
    destruct (e_phnum eh =? PN_XNUM).
    - destruct (shdr0_at (e_shoff eh)) as [h0|] eqn:E1; cbn [option_map].
      + rewrite Hp. cbn [rbind]. apply G.
      + specialize (Hn eq_refl). destruct (fst (parse_shdr s c f (e_shoff eh))); [discriminate|reflexivity|reflexivity].
    - cbn [rbind]. apply G.
  Qed.

  (* a located table has exactly the declared number of entries *)
  Theorem located_len off esz n : 0 < esz -> off + esz * n <= blen f ->
    table_len esz (view f (off, off + esz * n)) = n.
  Proof.
    intros He Hb. unfold table_len. rewrite view_blen by lia.
    replace (off + esz * n - off) with (n * esz) by lia. apply N.div_mul. lia.
  Qed.
End Tables.

(* the entry-size check of symbol tables, .dynamic (slice parser) and .gnu.version *)
Theorem entsize_gates f eb h strh :
  (sh_entsize h <> sym_size (e_class (eb_ehdr eb)) -> is_ok (symtab_of f eb h strh) = false) /\
  (sh_entsize h <> dyn_size (e_class (eb_ehdr eb)) -> is_ok (section_data_as_dynamic f eb h) = false).
Proof.
  split; intros H.
  - unfold symtab_of, validate_entsize. replace (sh_entsize h =? _) with false by lia. reflexivity.
  - unfold section_data_as_dynamic, validate_entsize. destruct (negb _); [reflexivity|].
    replace (sh_entsize h =? _) with false by lia. reflexivity.
Qed.

(* ---------- C05: opening a file ---------- *)
Lemma parse_tail_view s c osabi abiver f : buf_ok f -> 16 + tail_size c <= blen f ->
  parse_tail s c osabi abiver (view f (16, 16 + tail_size c)) 0
  = (Ok (ehdr_spec s c osabi abiver f 0), tail_size c).
Proof.
  intros Hf Hb.
  pose proof (view_ok f (16, 16 + tail_size c) Hf) as Hv.
  pose proof (view_blen f 16 (16 + tail_size c) ltac:(lia) Hb) as Hl.
  destruct c; cbn [tail_size] in *;
  match goal with |- context [view f ?r] => set (v := view f r) in * end;
  replace (16 + 36 - 16) with 36 in Hl by lia; replace (16 + 48 - 16) with 48 in Hl by lia;
  unfold parse_tail; do 13 step;
  unfold ret, ehdr_spec, fval, pick; repeat lookup; cbv beta iota; norm_off; cbn [fty_size];
  subst v; rewrite !(bytes_at_view f 16) by (cbn; lia); norm_off; rewrite ?N.add_0_r; reflexivity.
Qed.

Definition open_spec (fam : specfam) (f : buf) (eb : elfbytes) : Prop :=
  16 <= blen f /\
  exists s c osabi abiver,
    parse_ident fam (view f (0, 16)) = Ok (s, c, osabi, abiver) /\
    16 + tail_size c <= blen f /\
    eb_ehdr eb = ehdr_spec s c osabi abiver f 0 /\
    table_spec f (e_shoff (eb_ehdr eb)) (e_shentsize (eb_ehdr eb)) (shdr_size c) (shnum_decl (eb_ehdr eb) f)
      = Some (eb_shdrs eb) /\
    table_spec f (e_phoff (eb_ehdr eb)) (e_phentsize (eb_ehdr eb)) (phdr_size c) (phnum_decl (eb_ehdr eb) f)
      = Some (eb_phdrs eb).

Theorem minimal_parse_iff fam f eb : buf_ok f -> (minimal_parse fam f = Ok eb <-> open_spec fam f eb).
Proof.
  intros Hf. unfold minimal_parse, open_spec, get_bytes.
  destruct (N.le_gt_cases 16 (blen f)) as [H16|H16].
  2:{ unfold sub. replace ((0 <=? 16) && (16 <=? blen f)) with false by lia. cbn [ok_or rbind].
      split; [discriminate|intros [H _]; lia]. }
  rewrite (view_sub f 0 16) by lia. cbn [ok_or rbind].
  destruct (parse_ident fam (view f (0, 16))) as [[[[s c] osabi] abiver]| |] eqn:Ei; cbn [rbind].
  2,3: split; [discriminate|intros [_ [s [c [o [a [E _]]]]]]; discriminate].
  unfold open_after_ident, get_bytes.
  destruct (N.le_gt_cases (16 + tail_size c) (blen f)) as [Ht|Ht].
  2:{ unfold sub. replace ((16 <=? 16 + tail_size c) && (16 + tail_size c <=? blen f)) with false by lia.
      cbn [ok_or rbind]. split; [discriminate|].
      intros [_ [s' [c' [o' [a' [E [Hb _]]]]]]]. injection E as <- <- <- <-. lia. }
  rewrite (view_sub f 16 (16 + tail_size c)) by lia. cbn [ok_or rbind].
  rewrite (parse_tail_view s c osabi abiver f Hf Ht). cbn [fst rbind].
  set (eh := ehdr_spec s c osabi abiver f 0).
  assert (Hc : e_class eh = c) by reflexivity. assert (Hs : e_spec eh = s) by reflexivity.
  pose proof (find_shdrs_spec eh f Hf) as HS. pose proof (find_phdrs_spec eh f Hf) as HP.
  rewrite Hc in HS, HP.
  split.
  - destruct (find_shdrs eh f) as [sh| |]; cbn [rbind]; try discriminate.
    destruct (find_phdrs eh f) as [ph| |]; cbn [rbind]; try discriminate.
    intros [= <-]. split; [exact H16|]. exists s, c, osabi, abiver. cbn [eb_ehdr eb_shdrs eb_phdrs]. fold eh.
    split; [reflexivity|]. split; [exact Ht|]. split; [reflexivity|].
    destruct (table_spec f (e_shoff eh) _ _ _) as [r|]; [|discriminate]. injection HS as <-.
    destruct (table_spec f (e_phoff eh) _ _ _) as [r2|]; [|discriminate]. injection HP as <-. tauto.
  - intros [_ [s' [c' [o' [a' [E [Hb [He [H1 H2]]]]]]]]]. injection E as <- <- <- <-. fold eh in He.
    rewrite He in H1, H2. rewrite H1 in HS. rewrite H2 in HP. rewrite HS, HP. cbn [rbind].
    destruct eb as [e1 s1 p1]. cbn [eb_ehdr eb_shdrs eb_phdrs] in *. now subst e1.
Qed.

(* section_headers_with_strtab: the name table is section e_shstrndx, or shdr[0].sh_link under SHN_XINDEX *)
Theorem strtab_located f eb r : buf_ok f -> eb_shdrs eb = Some r ->
  shdrs_with_strtab f eb =
  if e_shstrndx (eb_ehdr eb) =? 0 then Ok (Some r, None) else
  let? ndx := (if e_shstrndx (eb_ehdr eb) =? SHN_XINDEX
               then (let? sh0 := shdr_get f eb r 0 in Ok (sh_link sh0)) else Ok (e_shstrndx (eb_ehdr eb))) in
  let? st := shdr_get f eb r ndx in
  if USIZE_MAX <? sh_offset st + sh_size st then Err EIntegerOverflow
  else if fits f (sh_offset st) (sh_size st) then Ok (Some r, Some (sh_offset st, sh_offset st + sh_size st))
       else Err (ESliceReadError (sh_offset st) (sh_offset st + sh_size st)).
Proof.
  intros Hf Hr. unfold shdrs_with_strtab. rewrite Hr.
  destruct (e_shstrndx (eb_ehdr eb) =? 0); [reflexivity|].
  destruct (if e_shstrndx (eb_ehdr eb) =? SHN_XINDEX then _ else _) as [ndx| |]; cbn [rbind]; try reflexivity.
  destruct (shdr_get f eb r ndx) as [st| |]; cbn [rbind]; try reflexivity.
  unfold sh_range. rewrite (range_in_spec f _ _ Hf).
  destruct (USIZE_MAX <? _); [reflexivity|]. destruct (fits f _ _); reflexivity.
Qed.
