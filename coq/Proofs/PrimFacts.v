(* Basic facts about the primitives of Base/Prim.v *)
Require Import V.Base.Prim V.Spec.Ints.
From Coq Require Import Lia ZifyBool ZifyN ZifyNat.
Ltac Zify.zify_post_hook ::= Z.div_mod_to_equations.
Arguments N.add : simpl never. Arguments N.mul : simpl never. Arguments N.sub : simpl never.
Arguments N.leb : simpl never. Arguments N.ltb : simpl never. Arguments N.eqb : simpl never.

Lemma llen_app {A} (a b : list A) : llen (a ++ b) = llen a + llen b.
Proof. unfold llen. rewrite app_length. lia. Qed.
Lemma llen_cons {A} (x : A) a : llen (x :: a) = 1 + llen a.
Proof. unfold llen. cbn [length]. lia. Qed.

Lemma nth_error_ext {A} (l l' : list A) : (forall j, nth_error l j = nth_error l' j) -> l = l'.
Proof.
  revert l'; induction l as [|x l IH]; intros [|y l'] H; try reflexivity.
  - specialize (H O). discriminate.
  - specialize (H O). discriminate.
  - pose proof (H O) as H0. cbn in H0. injection H0 as <-. f_equal. apply IH. intros j. exact (H (S j)).
Qed.

Lemma bytes_at_length d o n : length (bytes_at d o n) = n.
Proof. revert o; induction n; intros; cbn [bytes_at length]; auto. Qed.

Lemma bytes_at_nth d o n i : (i < n)%nat -> nth i (bytes_at d o n) x00 = bat d (o + N.of_nat i).
Proof.
  revert o i; induction n as [|n IH]; intros o i Hi; [lia|].
  cbn [bytes_at]. destruct i as [|i]; cbn [nth].
  - f_equal. lia.
  - rewrite IH by lia. f_equal. lia.
Qed.

Lemma has_bytes_bytes_at d o n : has_bytes d o (bytes_at d o n).
Proof. intros i Hi. rewrite bytes_at_length in Hi. now rewrite bytes_at_nth. Qed.

Lemma has_bytes_nil d o : has_bytes d o []. Proof. intros i H. cbn in H. lia. Qed.
Lemma has_bytes_cons d o x bs : has_bytes d o (x :: bs) <-> bat d o = x /\ has_bytes d (o + 1) bs.
Proof.
  split.
  - intros H. split.
    + specialize (H 0%nat ltac:(cbn; lia)). cbn in H. now rewrite N.add_0_r in H.
    + intros i Hi. specialize (H (S i) ltac:(cbn; lia)). cbn [nth] in H. rewrite <- H. f_equal. lia.
  - intros [H0 H1] [|i] Hi.
    + cbn. now rewrite N.add_0_r.
    + cbn [nth]. rewrite <- (H1 i ltac:(cbn in Hi; lia)). f_equal. lia.
Qed.
Lemma has_bytes_app d o a b : has_bytes d o (a ++ b) <-> has_bytes d o a /\ has_bytes d (o + llen a) b.
Proof.
  revert o. induction a as [|x a IH]; intros o.
  - cbn [app]. unfold llen; cbn. rewrite N.add_0_r.
    split; [intros H; split; [apply has_bytes_nil|exact H] | intros [_ H]; exact H].
  - cbn [app]. rewrite !has_bytes_cons, IH, llen_cons.
    replace (o + (1 + llen a)) with (o + 1 + llen a) by lia. tauto.
Qed.

Lemma has_bytes_eq d o bs : has_bytes d o bs -> bytes_at d o (length bs) = bs.
Proof.
  revert o; induction bs as [|x bs IH]; intros o H; cbn [length bytes_at]; [reflexivity|].
  apply has_bytes_cons in H. destruct H as [H0 H1]. now rewrite H0, IH.
Qed.

(* ---------- positional values ---------- *)
Lemma le_val_app a b : le_val (a ++ b) = le_val a + 256 ^ llen a * le_val b.
Proof.
  induction a as [|x a IH]; cbn [app le_val].
  - unfold llen; cbn. lia.
  - rewrite IH, llen_cons, N.pow_add_r. change (256 ^ 1) with 256. lia.
Qed.

Lemma le_val_bound bs : le_val bs < 256 ^ llen bs.
Proof.
  induction bs as [|x bs IH]; cbn [le_val].
  - unfold llen; cbn. lia.
  - rewrite llen_cons, N.pow_add_r. change (256 ^ 1) with 256.
    pose proof (Byte.to_N_bounded x). lia.
Qed.

Lemma le_at_val d o w : le_at d o w = le_val (bytes_at d o w).
Proof. revert o; induction w as [|w IH]; intros o; cbn [le_at bytes_at le_val]; [reflexivity|now rewrite IH]. Qed.

Lemma be_val_cons x bs : be_val (x :: bs) = Byte.to_N x * 256 ^ llen bs + be_val bs.
Proof.
  unfold be_val. cbn [rev]. rewrite le_val_app. cbn [le_val].
  unfold llen. rewrite rev_length. lia.
Qed.

Lemma be_at_val d o w acc : be_at d o w acc = acc * 256 ^ N.of_nat w + be_val (bytes_at d o w).
Proof.
  revert o acc; induction w as [|w IH]; intros o acc; cbn [be_at bytes_at].
  - unfold be_val; cbn. lia.
  - rewrite IH, be_val_cons. unfold llen. rewrite bytes_at_length.
    rewrite Nat2N.inj_succ, N.pow_succ_r'. lia.
Qed.

Lemma byte_of_to_N v : Byte.to_N (byte_of v) = v mod 256.
Proof.
  unfold byte_of. destruct (Byte.of_N (v mod 256)) eqn:E.
  - now apply Byte.to_of_N in E.
  - exfalso. apply Byte.of_N_None_iff in E. lia.
Qed.
Lemma byte_of_to_N_id b : byte_of (Byte.to_N b) = b.
Proof.
  unfold byte_of. pose proof (Byte.to_N_bounded b).
  rewrite N.mod_small by lia. now rewrite Byte.of_to_N.
Qed.

Lemma enc_le_length w v : length (enc_le w v) = w.
Proof. revert v; induction w; intros; cbn [enc_le length]; auto. Qed.

Lemma le_val_enc w v : v < 256 ^ N.of_nat w -> le_val (enc_le w v) = v.
Proof.
  revert v; induction w as [|w IH]; intros v Hv.
  - cbn in *. lia.
  - cbn [enc_le le_val]. rewrite byte_of_to_N, IH.
    + lia.
    + rewrite Nat2N.inj_succ, N.pow_succ_r' in Hv. lia.
Qed.

Lemma enc_le_val bs : enc_le (length bs) (le_val bs) = bs.
Proof.
  induction bs as [|x bs IH]; cbn [length enc_le le_val]; [reflexivity|].
  pose proof (Byte.to_N_bounded x) as Hx.
  replace ((Byte.to_N x + 256 * le_val bs) / 256) with (le_val bs) by lia.
  rewrite IH. f_equal.
  unfold byte_of. replace ((Byte.to_N x + 256 * le_val bs) mod 256) with (Byte.to_N x) by lia.
  now rewrite Byte.of_to_N.
Qed.

(* ---------- parse_uint ---------- *)
Lemma parse_uint_ok w le o d :
  buf_ok d -> o + N.of_nat w <= blen d ->
  parse_uint w le o d = (Ok (uvalue le (bytes_at d o w)), o + N.of_nat w).
Proof.
  intros Hl Hb. unfold parse_uint, checked_add, buf_ok, USIZE_MAX, ISIZE_MAX, uvalue in *.
  destruct (o + N.of_nat w <=? 18446744073709551615) eqn:E1; [|lia].
  destruct (o + N.of_nat w <=? blen d) eqn:E2; [|lia].
  destruct le; [now rewrite le_at_val | rewrite be_at_val; f_equal; f_equal; lia].
Qed.

Lemma parse_uint_short w le o d :
  buf_ok d -> blen d < o + N.of_nat w ->
  parse_uint w le o d =
  (Err (if USIZE_MAX <? o + N.of_nat w then EIntegerOverflow
        else ESliceReadError o (o + N.of_nat w)), o).
Proof.
  intros Hl Hb. unfold parse_uint, checked_add.
  destruct (o + N.of_nat w <=? USIZE_MAX) eqn:E1.
  - replace (USIZE_MAX <? o + N.of_nat w) with false by lia.
    destruct (o + N.of_nat w <=? blen d) eqn:E2; [lia|reflexivity].
  - replace (USIZE_MAX <? o + N.of_nat w) with true by lia. reflexivity.
Qed.

Lemma to_signed_svalue w le bs : length bs = w -> to_signed w (uvalue le bs) = svalue le bs.
Proof. intros <-. reflexivity. Qed.

Lemma parse_int_ok w le o d :
  buf_ok d -> o + N.of_nat w <= blen d ->
  parse_int w le o d = (Ok (svalue le (bytes_at d o w)), o + N.of_nat w).
Proof.
  intros Hl Hb. unfold parse_int. rewrite parse_uint_ok by assumption.
  rewrite to_signed_svalue by apply bytes_at_length. reflexivity.
Qed.

Lemma parse_int_short w le o d :
  buf_ok d -> blen d < o + N.of_nat w ->
  parse_int w le o d =
  (Err (if USIZE_MAX <? o + N.of_nat w then EIntegerOverflow
        else ESliceReadError o (o + N.of_nat w)), o).
Proof. intros Hl Hb. unfold parse_int. now rewrite parse_uint_short. Qed.

(* signed round trip *)
Lemma svalue_encode_z le w z :
  (0 < w)%nat -> (- Z.pow 2 (8 * Z.of_nat w - 1) <= z < Z.pow 2 (8 * Z.of_nat w - 1))%Z ->
  svalue le (encode le w (Z.to_N (z mod Z.pow 2 (8 * Z.of_nat w)))) = z.
Proof.
  intros Hw Hz.
  set (m := Z.pow 2 (8 * Z.of_nat w)) in *.
  assert (Hm : (m = 2 * Z.pow 2 (8 * Z.of_nat w - 1))%Z).
  { unfold m. rewrite <- Z.pow_succ_r by lia. f_equal. lia. }
  assert (Hp : (0 < Z.pow 2 (8 * Z.of_nat w - 1))%Z) by (apply Z.pow_pos_nonneg; lia).
  set (h := Z.pow 2 (8 * Z.of_nat w - 1)) in *.
  assert (Hu : uvalue le (encode le w (Z.to_N (z mod m))) = Z.to_N (z mod m)).
  { assert (Hb : Z.to_N (z mod m) < 256 ^ N.of_nat w).
    { assert (Z.of_N (256 ^ N.of_nat w) = m) as Hc.
      { unfold m. rewrite N2Z.inj_pow. change (Z.of_N 256) with (2 ^ 8)%Z.
        rewrite <- Z.pow_mul_r by lia. f_equal. lia. }
      assert (0 <= z mod m < m)%Z by (apply Z.mod_pos_bound; lia). lia. }
    unfold uvalue, encode, enc_be, be_val. destruct le.
    - now apply le_val_enc.
    - rewrite rev_involutive. now apply le_val_enc. }
  unfold svalue. rewrite Hu.
  assert (Hlen : length (encode le w (Z.to_N (z mod m))) = w).
  { unfold encode, enc_be. destruct le; [|rewrite rev_length]; apply enc_le_length. }
  rewrite Hlen. fold m.
  assert (0 <= z mod m < m)%Z by (apply Z.mod_pos_bound; lia).
  rewrite Z2N.id by lia.
  replace (m / 2)%Z with h by lia.
  destruct (Z.ltb_spec (z mod m) h).
  - destruct (Z.le_gt_cases 0 z).
    + rewrite Z.mod_small by lia. reflexivity.
    + assert (z mod m = z + m)%Z.
      { symmetry. apply Z.mod_unique with (q := (-1)%Z); lia. } lia.
  - destruct (Z.le_gt_cases 0 z).
    + rewrite Z.mod_small in * by lia. lia.
    + assert (z mod m = z + m)%Z.
      { symmetry. apply Z.mod_unique with (q := (-1)%Z); lia. } lia.
Qed.
