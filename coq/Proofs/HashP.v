(* C11 / C12: hash functions equal their references; lookups are sound on any table. *)
Require Import V.Base.Prim V.Model.Structs V.Model.Table V.Model.StrTab V.Model.Hash V.Proofs.PrimFacts.
From Coq Require Import Lia ZifyBool ZifyN ZifyNat.
Ltac Zify.zify_post_hook ::= Z.div_mod_to_equations.
Open Scope N_scope.

(* ---------- gABI elf_hash, transcribed with its g / h ^= g >> 24 / h &= ~g steps over a
   32-bit word ---------- *)
Definition elf_step_ref (h b : N) : N :=
  let h1 := (N.shiftl h 4 + b) mod M32 in
  let g := N.land h1 4026531840 in
  N.ldiff (N.lxor h1 (N.shiftr g 24)) g.
Definition elf_hash_ref (name : list N) : N := fold_left elf_step_ref name 0.

Lemma tb_240 n : N.testbit 240 n = (4 <=? n) && (n <? 8).
Proof.
  destruct (N.ltb_spec n 8).
  - assert (n = 0 \/ n = 1 \/ n = 2 \/ n = 3 \/ n = 4 \/ n = 5 \/ n = 6 \/ n = 7) as H0 by lia.
    destruct H0 as [->|[->|[->|[->|[->|[->|[->| ->]]]]]]]; reflexivity.
  - rewrite N.bits_above_log2; [lia|]. change (N.log2 240) with 7. lia.
Qed.
Lemma tb_hi n : N.testbit 4026531840 n = (28 <=? n) && (n <? 32).
Proof.
  change 4026531840 with (N.shiftl 15 28).
  destruct (N.ltb_spec n 28).
  - rewrite N.shiftl_spec_low by lia. lia.
  - rewrite N.shiftl_spec_high' by lia.
    destruct (N.ltb_spec (n-28) 4).
    + assert (n - 28 = 0 \/ n - 28 = 1 \/ n - 28 = 2 \/ n - 28 = 3) as H1 by lia.
      destruct H1 as [->|[->|[->| ->]]]; cbn; lia.
    + rewrite N.bits_above_log2; [lia|]. change (N.log2 15) with 3. lia.
Qed.
Lemma tb_low28 n : N.testbit 268435455 n = (n <? 28).
Proof.
  change 268435455 with (N.ones 28).
  destruct (N.ltb_spec n 28).
  - apply N.ones_spec_low. lia.
  - apply N.ones_spec_high. lia.
Qed.

Lemma step_rel h r b : b < 256 -> r = N.land h 268435455 -> h < M32 ->
  elf_step_ref r b = N.land (sysv_step h b) 268435455 /\ sysv_step h b < M32.
Proof.
  intros Hb Hr Hh. unfold elf_step_ref, sysv_step.
  assert (Hr28 : r = h mod 268435456).
  { rewrite Hr. change 268435455 with (N.ones 28). rewrite N.land_ones. reflexivity. }
  assert (E1 : (N.shiftl r 4 + b) mod M32 = ((h * 16) mod M32 + b) mod M32).
  { rewrite N.shiftl_mul_pow2. change (2^4) with 16. unfold M32.
    assert (Hm : h mod 268435456 < 268435456) by (apply N.mod_lt; lia).
    assert (A : (h * 16) mod 4294967296 = r * 16).
    { rewrite Hr28. rewrite (N.div_mod h 268435456) at 1 by lia.
      replace ((268435456 * (h / 268435456) + h mod 268435456) * 16)
        with (h mod 268435456 * 16 + (h / 268435456) * 4294967296) by ring.
      rewrite N.mod_add by lia. apply N.mod_small. lia. }
    rewrite A. reflexivity. }
  rewrite E1. set (h1 := ((h * 16) mod M32 + b) mod M32).
  assert (H1 : h1 < M32) by (unfold h1, M32; lia).
  split.
  - apply N.bits_inj. intros n.
    repeat (rewrite ?N.ldiff_spec, ?N.land_spec, ?N.lxor_spec, ?N.shiftr_spec'). rewrite ?tb_hi, ?tb_240, ?tb_low28.
    assert (HA : forall n, 32 <= n -> N.testbit h1 n = false).
    { clear n. intros n Hn. destruct (N.eq_dec h1 0) as [->|Hne]; [apply N.bits_0|].
      apply N.bits_above_log2. apply N.log2_lt_pow2; [lia|].
      eapply N.lt_le_trans; [exact H1|]. unfold M32. change 4294967296 with (2^32). apply N.pow_le_mono_r; lia. }
    destruct (N.ltb_spec n 32) as [Hlt|Hge].
    + destruct (N.testbit h1 n) eqn:EA, (N.testbit h1 (n+24)) eqn:EB;
      destruct (N.leb_spec 28 (n+24)), (N.ltb_spec (n+24) 32), (N.leb_spec 28 n),
               (N.leb_spec 4 n), (N.ltb_spec n 8), (N.ltb_spec n 28); cbn; try reflexivity; try lia;
      (exfalso; first [specialize (HA n ltac:(lia)) | specialize (HA (n + 24) ltac:(lia))]; congruence).
    + rewrite (HA n Hge). assert (N.testbit h1 (n + 24) = false) as -> by (apply HA; lia).
      replace (n <? 28) with false by lia. cbn. rewrite ?andb_false_r. reflexivity.
  - destruct (N.eq_dec (N.lxor h1 (N.land (N.shiftr h1 24) 240)) 0) as [->|Hne]; [unfold M32; lia|].
    unfold M32. change 4294967296 with (2^32). apply N.log2_lt_pow2; [lia|].
    eapply N.le_lt_trans; [apply N.log2_lxor|].
    apply N.max_lub_lt.
    + destruct (N.eq_dec h1 0) as [->|]; [cbn; lia|]. apply N.log2_lt_pow2; [lia|exact H1].
    + destruct (N.eq_dec (N.land (N.shiftr h1 24) 240) 0) as [->|Hz]; [cbn; lia|].
      eapply N.le_lt_trans; [apply N.log2_land|]. eapply N.le_lt_trans; [apply N.le_min_r|]. change (N.log2 240) with 7. lia.
Qed.

Theorem sysv_hash_is_ref name : Forall (fun b => b < 256) name -> sysv_hash name = elf_hash_ref name.
Proof.
  intros Hall. unfold sysv_hash, elf_hash_ref.
  enough (G : forall h r, r = N.land h 268435455 -> h < M32 ->
     N.land (fold_left sysv_step name h) 268435455 = fold_left elf_step_ref name r).
  { apply G; [reflexivity|unfold M32; lia]. }
  induction Hall as [|b l Hb Hl IH]; intros h r Hr Hh; cbn [fold_left].
  - now subst.
  - destruct (step_rel h r b Hb Hr Hh) as [E B]. apply IH; [exact E | exact B].
Qed.

(* ---------- GNU hash: djb2, h*33 + c, seed 5381, modulo 2^32 ---------- *)
Definition gnu_step_ref (h c : N) : N := (33 * h + c) mod 4294967296.
Theorem gnu_hash_is_ref name : gnu_hash name = fold_left gnu_step_ref name 5381.
Proof.
  unfold gnu_hash. generalize 5381. induction name as [|b l IH]; intros h; cbn [fold_left]; [reflexivity|].
  rewrite IH. f_equal. unfold gnu_step, gnu_step_ref, M32.
  rewrite N.add_mod_idemp_l by lia. f_equal. lia.
Qed.

(* ---------- soundness of both lookups on arbitrary bytes ---------- *)
Lemma list_eqb_eq a b : list_eqb a b = true <-> a = b.
Proof.
  revert b; induction a as [|x a IH]; intros [|y b]; cbn [list_eqb]; split; intros H; try discriminate; try reflexivity.
  - apply andb_prop in H. destruct H as [H1 H2]. apply IH in H2. f_equal; [lia|exact H2].
  - injection H as -> ->. rewrite (proj2 (IH b) eq_refl). rewrite N.eqb_refl. reflexivity.
Qed.

(* what a sound answer is: the symbol at the returned index, whose name is the queried name *)
Definition sound_answer (s : espec) (c : class) (symtab strtab : buf) (name : list N) (i : N) (y : sym) : Prop :=
  table_get (parse_sym s c) (sym_size c) symtab i = Ok y /\
  exists r, get_raw strtab (st_name y) = Ok r /\ range_bytes strtab r = name.

Lemma sysv_walk_sound s c chains symtab strtab name fuel : forall index i y,
  sysv_walk s c chains symtab strtab name fuel index = Ok (Some (i, y)) ->
  sound_answer s c symtab strtab name i y.
Proof.
  induction fuel as [|f IH]; intros index i y H; cbn [sysv_walk] in H; [discriminate|].
  destruct (index =? 0); [discriminate|].
  destruct (table_get (parse_sym s c) (sym_size c) symtab index) as [symbol| |] eqn:Es; cbn [rbind] in H; try discriminate.
  destruct (get_raw strtab (st_name symbol)) as [r| |] eqn:Er; cbn [rbind] in H; try discriminate.
  destruct (list_eqb (range_bytes strtab r) name) eqn:El.
  - injection H as <- <-. split; [exact Es|]. exists r. split; [exact Er|]. now apply list_eqb_eq.
  - destruct (table_get (parse_u32 s c) 4 chains index) as [nxt| |]; cbn [rbind] in H; try discriminate.
    exact (IH _ _ _ H).
Qed.

Theorem sysv_find_sound s c d t name symtab strtab i y :
  sysv_find s c d t name symtab strtab = Ok (Some (i, y)) -> sound_answer s c symtab strtab name i y.
Proof.
  unfold sysv_find, sysv_find_in.
  destruct (table_is_empty 4 (view d (sv_buckets t))); [discriminate|].
  destruct (table_len 4 (view d (sv_buckets t)) =? 0); [discriminate|].
  destruct (table_get (parse_u32 s c) 4 (view d (sv_buckets t)) _) as [index| |]; cbn [rbind]; try discriminate.
  apply sysv_walk_sound.
Qed.

Lemma gnu_walk_sound s c hdr chains symtab strtab name fuel : forall hash idx i y,
  gnu_walk s c hdr chains symtab strtab name fuel hash idx = Ok (Some (i, y)) ->
  sound_answer s c symtab strtab name i y.
Proof.
  induction fuel as [|f IH]; intros hash idx i y H; cbn [gnu_walk] in H; [discriminate|].
  destruct (table_get (parse_u32 s c) 4 chains idx) as [ch| |]; cbn [rbind] in H; try discriminate.
  assert (Hcont : (if negb (N.land ch 1 =? 0) then Ok None
                   else gnu_walk s c hdr chains symtab strtab name f hash (idx + 1)) = Ok (Some (i, y)) ->
                  sound_answer s c symtab strtab name i y).
  { destruct (negb (N.land ch 1 =? 0)); [discriminate|]. apply IH. }
  destruct (N.lor hash 1 =? N.lor ch 1); [|exact (Hcont H)].
  destruct (checked_add idx (gh_symoffset hdr)) as [si|]; cbn [ok_or rbind] in H; [|discriminate].
  destruct (table_get (parse_sym s c) (sym_size c) symtab si) as [symbol| |] eqn:Es; cbn [rbind] in H; try discriminate.
  destruct (get_raw strtab (st_name symbol)) as [r| |] eqn:Er; cbn [rbind] in H; try discriminate.
  destruct (list_eqb (range_bytes strtab r) name) eqn:El; [|exact (Hcont H)].
  injection H as <- <-. split; [exact Es|]. exists r. split; [exact Er|]. now apply list_eqb_eq.
Qed.

Theorem gnu_find_sound s d t name symtab strtab i y :
  gnu_find s d t name symtab strtab = Ok (Some (i, y)) ->
  sound_answer s (g_class t) symtab strtab name i y.
Proof.
  unfold gnu_find, gnu_find_in.
  destruct (table_is_empty 4 (view d (g_buckets t)) || (gh_nbloom (g_hdr t) =? 0)); [discriminate|].
  set (c := g_class t).
  destruct (match c with ELF32 => _ | ELF64 => _ end) as [filter| |]; cbn [rbind]; try discriminate.
  destruct (N.land filter _ =? 0); [discriminate|].
  destruct (gh_nshift (g_hdr t) <? 32); cbn [rbind]; [|discriminate].
  destruct (N.land filter _ =? 0); [discriminate|].
  destruct (table_len 4 (view d (g_buckets t)) =? 0); [discriminate|].
  destruct (table_get (parse_u32 s c) 4 (view d (g_buckets t)) _) as [cs| |]; cbn [rbind]; try discriminate.
  destruct (cs <? gh_symoffset (g_hdr t)); [discriminate|].
  apply gnu_walk_sound.
Qed.

