(* C11: completeness of the GNU hash lookup on well-formed tables *)
Require Import V.Base.Prim V.Model.Structs V.Model.Table V.Model.StrTab V.Model.Hash V.Spec.HashWf
        V.Proofs.PrimFacts V.Proofs.StructsP V.Proofs.TableP V.Proofs.HashP.
From Coq Require Import Lia ZifyBool ZifyN ZifyNat.
Open Scope N_scope.

Section GnuComplete.
  Variables (s : espec) (c : class) (hdr : gnuhdr) (bloom buckets chains symtab strtab : buf) (name : list N).
  Hypotheses (Hchains : buf_ok chains) (Hbuckets : buf_ok buckets).
  Hypothesis Hwf : gnu_wf s c hdr bloom buckets chains symtab strtab.
  Notation so := (gh_symoffset hdr).
  Notation nch := (table_len 4 chains).
  Notation walk := (gnu_walk s c hdr chains symtab strtab name).
  Notation gn := (gname s c hdr symtab strtab).

  (* a chain entry inside the array is readable *)
  Lemma chain_readable k : k < nch -> exists ch, table_get (parse_u32 s c) 4 chains k = Ok ch.
  Proof.
    intros Hk. pose proof (proj2 (get_ok_iff (parse_u32 s c) 4 ltac:(reflexivity) (regular_u32 s c) chains k Hchains) Hk) as H.
    destruct (table_get (parse_u32 s c) 4 chains k) as [ch| |]; try discriminate. eauto.
  Qed.

  (* the symbol of chain entry k and its name, as the walk reads them *)
  Lemma named_reads k nm : gn k = Some nm ->
    exists y r, table_get (parse_sym s c) (sym_size c) symtab (k + so) = Ok y /\
                get_raw strtab (st_name y) = Ok r /\ range_bytes strtab r = nm.
  Proof.
    unfold gname, sym_name. destruct (table_get (parse_sym s c) (sym_size c) symtab (k + so)) as [y| |]; try discriminate.
    destruct (get_raw strtab (st_name y)) as [r| |] eqn:Er; try discriminate. intros [= <-]. exists y, r. split; [reflexivity|]. split; [exact Er|reflexivity].
  Qed.
  Lemma so_add k : k < nch -> checked_add k so = Some (k + so).
  Proof.
    intros Hk. pose proof (gwf_symoffset _ _ _ _ _ _ _ _ Hwf). pose proof (gwf_chains_small _ _ _ _ _ _ _ _ Hwf).
    unfold checked_add, USIZE_MAX, U32_MAX in *. replace (k + so <=? 18446744073709551615) with true by nia. reflexivity.
  Qed.

  (* walking from k towards j (no stop bit in [k, j)): the symbol j, named [name], or an earlier
     symbol with that name, is found *)
  Lemma walk_finds j : j < nch -> gn j = Some name -> forall fuel k, k <= j -> (N.to_nat (j - k) < fuel)%nat ->
    (forall k' ch, k <= k' -> k' < j -> word_at s c chains k' = Some ch -> N.land ch 1 = 0) ->
    exists i y, walk fuel (gnu_hash name) k = Ok (Some (i, y)).
  Proof.
    intros Hj Hn. induction fuel as [|f IH]; intros k Hk Hf Hns; [lia|]. cbn [gnu_walk].
    destruct (chain_readable k ltac:(lia)) as [ch Ech]. rewrite Ech. cbn [rbind].
    assert (Hw : word_at s c chains k = Some ch) by (unfold word_at; now rewrite Ech).
    destruct (gwf_named _ _ _ _ _ _ _ _ Hwf k ltac:(lia)) as [nmk Hnk].
    destruct (named_reads k nmk Hnk) as [y [r [Ey [Er Enm]]]].
    destruct (N.eq_dec k j) as [->|Hne].
    - (* reached j: its chain entry carries the hash and its name is the query *)
      pose proof (gwf_chain_hash _ _ _ _ _ _ _ _ Hwf j name ch Hj Hn Hw) as Hh.
      replace (N.lor (gnu_hash name) 1 =? N.lor ch 1) with true by lia.
      rewrite (so_add j Hj). cbn [ok_or rbind]. assert (Hq : nmk = name) by congruence. rewrite Hq in *.
      rewrite Ey. cbn [rbind]. rewrite Er. cbn [rbind].
      rewrite (proj2 (list_eqb_eq _ _) Enm). eauto.
    - assert (Hlt : k < j) by lia. pose proof (Hns k ch ltac:(lia) Hlt Hw) as Hstop.
      assert (Hcont : exists i y0, (if negb (N.land ch 1 =? 0) then Ok None else walk f (gnu_hash name) (k + 1)) = Ok (Some (i, y0))).
      { replace (N.land ch 1 =? 0) with true by lia. cbn [negb]. apply IH; [lia|lia|].
        intros k' ch' H1 H2. apply Hns; lia. }
      destruct (N.lor (gnu_hash name) 1 =? N.lor ch 1); [|exact Hcont].
      rewrite (so_add k ltac:(lia)). cbn [ok_or rbind]. rewrite Ey. cbn [rbind]. rewrite Er. cbn [rbind].
      destruct (list_eqb (range_bytes strtab r) name); [eauto|exact Hcont].
  Qed.

  (* no hashed symbol has the name: the walk ends with None (stop bit, or the end of the array) *)
  Lemma walk_absent : (forall j, j < nch -> gn j <> Some name) -> forall fuel k, (N.to_nat k + fuel <= N.to_nat nch)%nat ->
    walk fuel (gnu_hash name) k = Ok None.
  Proof.
    intros Hno. induction fuel as [|f IH]; intros k Hf; [reflexivity|]. cbn [gnu_walk].
    assert (Hk : k < nch) by lia.
    destruct (chain_readable k Hk) as [ch Ech]. rewrite Ech. cbn [rbind].
    destruct (gwf_named _ _ _ _ _ _ _ _ Hwf k Hk) as [nmk Hnk].
    destruct (named_reads k nmk Hnk) as [y [r [Ey [Er Enm]]]].
    assert (Hcont : (if negb (N.land ch 1 =? 0) then Ok None else walk f (gnu_hash name) (k + 1)) = Ok None).
    { destruct (negb _); [reflexivity|]. apply IH. lia. }
    destruct (N.lor (gnu_hash name) 1 =? N.lor ch 1); [|exact Hcont].
    rewrite (so_add k Hk). cbn [ok_or rbind]. rewrite Ey. cbn [rbind]. rewrite Er. cbn [rbind].
    destruct (list_eqb (range_bytes strtab r) name) eqn:El; [|exact Hcont].
    exfalso. apply list_eqb_eq in El. apply (Hno k Hk). congruence.
  Qed.

  Notation find := (gnu_find_in s c hdr bloom buckets chains symtab strtab name).
  Lemma bloom_read i w : bloom_word s c bloom i = Some w ->
    match c with
    | ELF32 => table_get (parse_u32 s c) 4 bloom i
    | ELF64 => table_get (parse_u64 s c) 8 bloom i
    end = Ok w.
  Proof.
    unfold bloom_word. destruct c.
    - destruct (table_get (parse_u32 s ELF32) 4 bloom i); try discriminate. now intros [= <-].
    - destruct (table_get (parse_u64 s ELF64) 8 bloom i); try discriminate. now intros [= <-].
  Qed.

  (* every hashed symbol is found by name (a symbol with that name is returned: by C11_sound its
     name is the query) *)
  Theorem gnu_complete_present : (exists j, j < nch /\ gn j = Some name) -> exists i y, find = Ok (Some (i, y)).
  Proof.
    intros [j [Hj Hn]]. unfold gnu_find_in, table_is_empty.
    pose proof (gwf_nbucket _ _ _ _ _ _ _ _ Hwf) as Hnb. pose proof (gwf_nbloom _ _ _ _ _ _ _ _ Hwf) as Hbl.
    replace (table_len 4 buckets =? 0) with false by lia. replace (gh_nbloom hdr =? 0) with false by lia. cbn [orb].
    destruct (gwf_bloom _ _ _ _ _ _ _ _ Hwf j name Hj Hn) as [w [Hw [B1 B2]]].
    fold (gwidth c). rewrite (bloom_read _ _ Hw). cbn [rbind].
    unfold bit_set in B1, B2. replace (N.land w (N.shiftl 1 (gnu_hash name mod gwidth c)) =? 0) with false by lia.
    pose proof (gwf_nshift _ _ _ _ _ _ _ _ Hwf) as Hsh. replace (gh_nshift hdr <? 32) with true by lia. cbn [rbind].
    replace (N.land w (N.shiftl 1 (N.shiftr (gnu_hash name) (gh_nshift hdr) mod gwidth c)) =? 0) with false by lia.
    destruct (gwf_bucket _ _ _ _ _ _ _ _ Hwf j name Hj Hn) as [st [Hst [H1 [H2 H3]]]].
    unfold word_at in Hst. destruct (table_get (parse_u32 s c) 4 buckets _) as [st'| |]; try discriminate.
    injection Hst as ->. cbn [rbind]. replace (st <? so) with false by lia.
    apply (walk_finds j Hj Hn); [lia|lia|]. intros k' ch Ha Hb Hc. now apply (H3 k' ch).
  Qed.

  (* every absent name -- also one whose hash, bloom bits or bucket collide -- gives None *)
  Theorem gnu_complete_absent : (forall j, j < nch -> gn j <> Some name) -> find = Ok None.
  Proof.
    intros Hno. unfold gnu_find_in, table_is_empty.
    pose proof (gwf_nbucket _ _ _ _ _ _ _ _ Hwf) as Hnb. pose proof (gwf_nbloom _ _ _ _ _ _ _ _ Hwf) as Hbl.
    replace (table_len 4 buckets =? 0) with false by lia. replace (gh_nbloom hdr =? 0) with false by lia. cbn [orb].
    assert (Hi : (gnu_hash name / gwidth c) mod gh_nbloom hdr < gh_nbloom hdr) by (apply N.mod_lt; lia).
    destruct (gwf_bloom_words _ _ _ _ _ _ _ _ Hwf _ Hi) as [w Hw].
    fold (gwidth c). rewrite (bloom_read _ _ Hw). cbn [rbind].
    destruct (N.land w _ =? 0); [reflexivity|].
    pose proof (gwf_nshift _ _ _ _ _ _ _ _ Hwf) as Hsh. replace (gh_nshift hdr <? 32) with true by lia. cbn [rbind].
    destruct (N.land w _ =? 0); [reflexivity|].
    assert (Hb : gnu_hash name mod table_len 4 buckets < table_len 4 buckets) by (apply N.mod_lt; lia).
    pose proof (proj2 (get_ok_iff (parse_u32 s c) 4 ltac:(reflexivity) (regular_u32 s c) buckets _ Hbuckets) Hb) as Hg.
    destruct (table_get (parse_u32 s c) 4 buckets _) as [st| |]; try discriminate. cbn [rbind].
    destruct (st <? so) eqn:Es; [reflexivity|].
    destruct (N.le_gt_cases (st - so) nch) as [Hle|Hgt].
    - apply (walk_absent Hno). lia.
    - replace (N.to_nat (nch - (st - so))) with O by lia. reflexivity.
  Qed.
End GnuComplete.
