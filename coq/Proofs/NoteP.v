(* C14: note iteration yields exactly the notes laid out in the section/segment. *)
Require Import V.Base.Prim V.Spec.Ints V.Ref.RefLayout V.Spec.AbiLayout V.Model.Structs V.Model.Utf8
        V.Model.StrTab V.Model.Note V.Spec.NoteRef V.Proofs.PrimFacts V.Proofs.StructsP V.Proofs.FileP.
From Coq Require Import Lia ZifyBool ZifyN ZifyNat.
Ltac Zify.zify_post_hook ::= Z.div_mod_to_equations.
Open Scope N_scope.

Lemma zeros_len n : llen (zeros n) = n.
Proof. unfold llen, zeros. rewrite repeat_length. lia. Qed.
Lemma encode_llen le w v : llen (encode le w v) = N.of_nat w.
Proof. unfold llen. now rewrite encode_length. Qed.

Lemma padlen_bound x align : 1 <= align -> padlen x align < align.
Proof.
  intros Ha. unfold padlen. assert (Hm : x mod align < align) by (apply N.mod_lt; lia).
  set (m := x mod align) in *. clearbody m. destruct (0 <? m) eqn:E; lia.
Qed.
Lemma pad_to_ok off align : 1 <= align -> off + padlen off align <= USIZE_MAX ->
  pad_to off align = Ok (off + padlen off align).
Proof.
  intros Ha H. unfold pad_to, padlen, checked_add in *.
  assert (Hm : off mod align < align) by (apply N.mod_lt; lia).
  set (m := off mod align) in *. clearbody m.
  revert H. destruct (0 <? m) eqn:E; intros H.
  - destruct (off + (align - m) <=? USIZE_MAX) eqn:E2; [reflexivity|lia].
  - now rewrite N.add_0_r.
Qed.

Lemma enc_note_len le align p n : p + llen (enc_note le align p n) = note_end align p n.
Proof.
  unfold enc_note, note_end, desc_end, desc_start, name_end.
  rewrite !llen_app, !encode_llen, !zeros_len. change (N.of_nat 4) with 4. lia.
Qed.
Lemma enc_notes_len le align p l : p + llen (enc_notes le align p l) = notes_end align p l.
Proof.
  revert p; induction l as [|n t IH]; intros p; cbn [enc_notes notes_end].
  - unfold llen; cbn. lia.
  - rewrite llen_app, <- IH, <- (enc_note_len le). lia.
Qed.

(* reading one encoded 32-bit word *)
Lemma u32_enc s d o v : buf_ok d -> o + 4 <= blen d -> v < 4294967296 ->
  has_bytes d o (encode (is_little s) 4 v) -> u32 s d o = (Ok v, o + 4).
Proof.
  intros Hd Hb Hv H. unfold u32. rewrite parse_uint_ok by (try assumption; cbn; lia).
  apply has_bytes_eq in H. rewrite encode_length in H. rewrite H.
  rewrite uvalue_encode by (cbn; lia). reflexivity.
Qed.

Lemma is_gnu_name_spec d o name : has_bytes d o name ->
  is_gnu_name d (o, o + llen name) = is_gnu name.
Proof.
  intros H. unfold is_gnu_name, is_gnu. cbn [fst snd].
  destruct name as [|a [|b [|c [|e [|x t]]]]];
    try (replace (o + llen _ - o =? 4) with false by (unfold llen; cbn [length]; lia); reflexivity).
  replace (o + llen [a; b; c; e] - o =? 4) with true by (unfold llen; cbn [length]; lia).
  apply has_bytes_cons in H. destruct H as [Ha H].
  apply has_bytes_cons in H. destruct H as [Hb H].
  apply has_bytes_cons in H. destruct H as [Hc H].
  apply has_bytes_cons in H. destruct H as [He _].
  unfold bN. rewrite Ha. replace (o + 1 + 1) with (o + 2) in Hc by lia.
  replace (o + 1 + 1 + 1) with (o + 3) in He by lia. rewrite Hb, Hc, He. reflexivity.
Qed.

(* the ABI-tag descriptor decodes to its four words *)
Lemma bytes_at_sub d s e b o n : sub d s e = Some b -> o + N.of_nat n <= e - s ->
  bytes_at b o n = bytes_at d (s + o) n.
Proof.
  intros Hs. revert o; induction n as [|n IH]; intros o Ho; cbn [bytes_at]; [reflexivity|].
  f_equal.
  - pose proof (sub_bN d s e b o Hs ltac:(lia)) as Hb. unfold bN in Hb.
    apply (f_equal byte_of) in Hb. now rewrite !byte_of_to_N_id in Hb.
  - rewrite IH by lia. f_equal. lia.
Qed.
Lemma has_bytes_skipn d o l k : has_bytes d o l -> (k <= length l)%nat ->
  has_bytes d (o + N.of_nat k) (skipn k l).
Proof.
  intros H Hk. rewrite <- (firstn_skipn k l) in H. apply has_bytes_app in H. destruct H as [_ H].
  unfold llen in H. rewrite firstn_length in H. now replace (Nat.min k (length l)) with k in H by lia.
Qed.
Lemma has_bytes_firstn d o l n : has_bytes d o l -> has_bytes d o (firstn n l).
Proof. intros H. rewrite <- (firstn_skipn n l) in H. apply has_bytes_app in H. tauto. Qed.
Lemma bytes_at_firstn_skipn d o l k n :
  has_bytes d o l -> (k + n <= length l)%nat ->
  bytes_at d (o + N.of_nat k) n = firstn n (skipn k l).
Proof.
  intros H Hk. pose proof (has_bytes_firstn d _ _ n (has_bytes_skipn d o l k H ltac:(lia))) as H2.
  apply has_bytes_eq in H2. rewrite firstn_length, skipn_length in H2.
  now replace (Nat.min n (length l - k)) with n in H2 by lia.
Qed.

Lemma abitag_of_desc s c d ds de desc l :
  buf_ok d -> sub d ds de = Some desc -> has_bytes d ds l -> llen l = 16 -> de = ds + 16 ->
  fst (parse_abitag s c desc 0) =
  Ok {| at_os := word (is_little s) l 0; at_major := word (is_little s) l 1;
        at_minor := word (is_little s) l 2; at_subminor := word (is_little s) l 3 |}.
Proof.
  intros Hd Hs Hl Hlen ->. destruct (sub_blen _ _ _ _ Hs) as [Hbl Hin].
  rewrite parse_abitag_ok; [|unfold buf_ok in *; lia|lia]. cbn [fst]. f_equal.
  unfold abitag_spec, fval. repeat lookup. cbv beta iota. cbn [fty_size].
  unfold word. unfold llen in Hlen.
  assert (W : forall k, (k < 4)%nat ->
              bytes_at desc (0 + N.of_nat (4 * k)) 4 = firstn 4 (skipn (4 * k) l)).
  { intros k Hk. rewrite (bytes_at_sub d ds (ds + 16) desc) by (exact Hs || (cbn; lia)).
    replace (ds + (0 + N.of_nat (4 * k))) with (ds + N.of_nat (4 * k)) by lia.
    apply bytes_at_firstn_skipn; [exact Hl|lia]. }
  change (0 + 0) with (0 + N.of_nat (4 * 0)). change (0 + 4) with (0 + N.of_nat (4 * 1)).
  change (0 + 8) with (0 + N.of_nat (4 * 2)). change (0 + 12) with (0 + N.of_nat (4 * 3)).
  rewrite !W by lia. reflexivity.
Qed.

Theorem parse_enc_note s c align d p n :
  1 <= align -> align <= ISIZE_MAX -> buf_ok d -> note_wf n ->
  has_bytes d p (enc_note (is_little s) align p n) ->
  (* the record up to the end of its descriptor lies inside the buffer; the final padding need not *)
  desc_end align p n <= blen d ->
  note_parse s c align d p = (Ok (expected_note (is_little s) align p n), note_end align p n).
Proof.
  intros Ha Hal Hd [Hn [Hds [Ht Habi]]] H Hin.
  unfold enc_note in H.
  apply has_bytes_app in H. destruct H as [H1 H]. rewrite encode_llen in H.
  apply has_bytes_app in H. destruct H as [H2 H]. rewrite encode_llen in H.
  apply has_bytes_app in H. destruct H as [H3 H]. rewrite encode_llen in H.
  apply has_bytes_app in H. destruct H as [H4 H].
  apply has_bytes_app in H. destruct H as [_ H]. rewrite zeros_len in H.
  apply has_bytes_app in H. destruct H as [H5 _].
  change (N.of_nat 4) with 4 in *.
  pose proof (padlen_bound (name_end p n) align Ha) as Hp1.
  pose proof (padlen_bound (desc_end align p n) align Ha) as Hp2.
  unfold desc_end, desc_start, name_end in *.
  set (ne := p + 12 + llen (rn_name n)) in *.
  set (ds := ne + padlen ne align) in *.
  set (de := ds + llen (rn_desc n)) in *.
  unfold buf_ok, ISIZE_MAX in *.
  unfold note_parse. replace (align =? 0) with false by lia.
  unfold parse_nhdr, bind.
  rewrite (u32_enc s d p _ Hd ltac:(lia) Hn H1).
  rewrite (u32_enc s d (p + 4) _ Hd ltac:(lia) Hds H2).
  rewrite (u32_enc s d (p + 4 + 4) _ Hd ltac:(lia) Ht H3).
  unfold ret. cbn [n_namesz n_descsz n_type].
  replace (p + 4 + 4 + 4) with (p + 12) in * by lia.
  unfold checked_add at 1. fold ne. unfold USIZE_MAX.
  destruct (ne <=? 18446744073709551615) eqn:E1; [|lia].
  unfold sub at 1. destruct ((p + 12 <=? ne) && (ne <=? blen d)) eqn:E2; [|lia].
  rewrite (pad_to_ok ne align Ha) by (unfold USIZE_MAX; lia). fold ds.
  unfold checked_add at 1. fold de. unfold USIZE_MAX.
  destruct (de <=? 18446744073709551615) eqn:E3; [|lia].
  destruct (sub d ds de) as [desc|] eqn:E4; [|unfold sub in E4; destruct ((ds <=? de) && (de <=? blen d)) eqn:E5; [discriminate|lia]].
  rewrite (pad_to_ok de align Ha) by (unfold USIZE_MAX; lia).
  unfold note_end, desc_end, desc_start, name_end. fold ne. fold ds. fold de.
  replace (p + 12 + llen (rn_name n) + padlen ne align) with ds in H5 by (unfold ds, ne; lia).
  unfold expected_note, desc_end, desc_start, name_end. fold ne. fold ds. fold de.
  replace ne with (p + 12 + llen (rn_name n)) at 1 by reflexivity.
  rewrite (is_gnu_name_spec d (p + 12) (rn_name n) H4).
  destruct (is_gnu (rn_name n)) eqn:Eg; [|reflexivity].
  destruct (rn_type n =? 1) eqn:Et1; [|destruct (rn_type n =? 3); reflexivity].
  rewrite (abitag_of_desc s c d ds de desc (rn_desc n)); [reflexivity|unfold buf_ok, ISIZE_MAX; lia|exact E4|exact H5| |].
  - apply Habi; [reflexivity|lia].
  - unfold de. rewrite Habi; [reflexivity|reflexivity|lia].
Qed.

(* ---------- the whole iteration ---------- *)
Lemma note_parse_short s c align d p : buf_ok d -> blen d < p + 12 ->
  exists e o, note_parse s c align d p = (Err e, o).
Proof.
  intros Hd H. unfold note_parse. destruct (align =? 0); [eauto|].
  destruct (regular_nhdr s ELF32 d p Hd) as [_ Hs]. cbn [nhdr_size] in Hs.
  destruct (Hs H) as [e [o [E _]]]. rewrite E. eauto.
Qed.

Lemma note_end_ge align p n : desc_end align p n <= note_end align p n /\ p + 12 <= desc_end align p n.
Proof. unfold note_end, desc_end, desc_start, name_end. lia. Qed.
Lemma last_desc_end_ge align l : forall p, p + 12 * llen l <= last_desc_end align p l /\
  last_desc_end align p l <= notes_end align p l.
Proof.
  induction l as [|n t IH]; intros p; cbn [last_desc_end notes_end].
  - unfold llen; cbn. lia.
  - pose proof (note_end_ge align p n) as [H1 H2]. destruct t as [|n' t'].
    + cbn [notes_end]. unfold llen; cbn. lia.
    + specialize (IH (note_end align p n)). rewrite llen_cons. cbn [notes_end] in *. lia.
Qed.

Lemma notes_collect_enc s c align d : 1 <= align -> align <= ISIZE_MAX -> buf_ok d ->
  forall l p fuel, Forall note_wf l ->
  has_bytes d p (enc_notes (is_little s) align p l) ->
  (l <> [] -> last_desc_end align p l <= blen d) -> blen d < notes_end align p l + 12 ->
  (l = [] -> blen d = 0 \/ blen d < p + 12) ->
  (length l < fuel)%nat ->
  notes_collect fuel s c align d p = Some (Ok (expected_notes (is_little s) align p l)).
Proof.
  intros Ha Hal Hd. induction l as [|n t IH]; intros p fuel Hwf Hb Hle Hlt Hnil Hf.
  - destruct fuel as [|f]; [cbn in Hf; lia|]. cbn [notes_collect expected_notes].
    unfold note_next. destruct (blen d =? 0) eqn:E0; [reflexivity|].
    destruct (note_parse_short s c align d p Hd) as [e [o E]]; [specialize (Hnil eq_refl); lia|].
    now rewrite E.
  - destruct fuel as [|f]; [cbn in Hf; lia|]. cbn [notes_collect expected_notes].
    inversion Hwf as [|? ? Hn Ht]; subst.
    cbn [enc_notes] in Hb. apply has_bytes_app in Hb. destruct Hb as [Hb1 Hb2].
    rewrite enc_note_len in Hb2.
    pose proof (note_end_ge align p n) as [G1 G2].
    specialize (Hle ltac:(discriminate)).
    assert (Hde : desc_end align p n <= blen d).
    { cbn [last_desc_end] in Hle. destruct t; [exact Hle|].
      pose proof (last_desc_end_ge align (r :: t) (note_end align p n)). lia. }
    unfold note_next. destruct (blen d =? 0) eqn:E0; [lia|].
    rewrite (parse_enc_note s c align d p n Ha Hal Hd Hn Hb1 Hde).
    rewrite (IH (note_end align p n) f Ht Hb2).
    + reflexivity.
    + intros Hne. cbn [last_desc_end] in Hle. destruct t; [congruence|exact Hle].
    + exact Hlt.
    + intros ->. cbn [notes_end] in Hlt. right. exact Hlt.
    + cbn [length] in Hf. lia.
Qed.

Theorem notes_roundtrip s c align d l : 1 <= align -> align <= ISIZE_MAX -> buf_ok d ->
  Forall note_wf l -> has_bytes d 0 (enc_notes (is_little s) align 0 l) ->
  (l <> [] -> last_desc_end align 0 l <= blen d) -> blen d < notes_end align 0 l + 12 ->
  notes_all s c align d = Some (Ok (expected_notes (is_little s) align 0 l)).
Proof.
  intros Ha Hal Hd Hwf Hb Hle Hlt. unfold notes_all.
  apply notes_collect_enc; try assumption; [intros ->; cbn [notes_end] in Hlt; right; lia|].
  pose proof (last_desc_end_ge align l 0) as [H _]. unfold llen in H.
  destruct l; [cbn; lia|]. specialize (Hle ltac:(discriminate)). cbn [length] in *. lia.
Qed.

(* a zero alignment yields nothing *)
Theorem notes_zero_align s c d : notes_all s c 0 d = Some (Ok []).
Proof.
  unfold notes_all. cbn [notes_collect]. unfold note_next, note_parse.
  destruct (blen d =? 0); reflexivity.
Qed.

(* name_str: the name without trailing NULs when it is valid UTF-8 *)
Lemma count_trailing_nul_le l : count_trailing_nul l <= llen l.
Proof.
  induction l as [|a t IH]; cbn [count_trailing_nul]; [unfold llen; cbn; lia|].
  rewrite llen_cons. destruct ((count_trailing_nul t =? llen t) && (a =? 0)); lia.
Qed.
Theorem name_str_spec d r :
  name_str d r = if utf8_valid (range_bytes d r)
                 then Ok (fst r, snd r - count_trailing_nul (range_bytes d r)) else Err EUtf8Error.
Proof. reflexivity. Qed.
