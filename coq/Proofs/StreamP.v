(* C07 / C08 / C17, generic part: the CachingReader interpreter against the pure reading, for
   EVERY program (hence every ElfStream method), every stream content, every cache state that
   satisfies the invariant, and every fault schedule. *)
Require Import V.Base.Prim V.Model.Structs V.Model.Table V.Model.Hash V.Model.ElfBytes V.Model.Stream
        V.Proofs.PrimFacts V.Proofs.FileP.
From Coq Require Import Lia ZifyBool ZifyN ZifyNat.
Open Scope N_scope.

Section Generic.
  Variable w : world.
  Notation f := (content w).

  (* the cache only ever holds fully read, true content ranges, and the cached length is the stream's *)
  Definition inv (r : rd) : Prop :=
    r_slen r = blen f /\
    forall s e b, cache_lookup s e (r_cache r) = Some b -> e <= blen f /\ b = view f (s, s + (e - s)).
  Definition keys_of (r : rd) : list (N * N) := map fst (r_cache r).

  Lemma mem_key_lookup s e c : mem_key s e (map fst c) = true <-> cache_lookup s e c <> None.
  Proof.
    induction c as [|[[s' e'] b] t IH]; cbn [map fst mem_key cache_lookup]; [split; [discriminate|congruence]|].
    destruct ((s' =? s) && (e' =? e)); cbn [orb]; [split; [discriminate|reflexivity]|exact IH].
  Qed.
  Lemma mem_key_lookup_false s e c : mem_key s e (map fst c) = false <-> cache_lookup s e c = None.
  Proof.
    pose proof (mem_key_lookup s e c) as H. destruct (mem_key s e (map fst c)), (cache_lookup s e c); split; intros; try reflexivity; try discriminate.
    - exfalso. apply (proj1 H); reflexivity.
    - exfalso. assert (false = true) by (apply H; discriminate). discriminate.
  Qed.

  Definition no_faults : Prop := forall k, faults w k = None.

  (* ---------- load_bytes ---------- *)
  Lemma load_bytes_cases s e r : inv r ->
    let '(x, r') := load_bytes w s e r in
    inv r' /\ r_slen r' = r_slen r /\
    match x with
    | Ok _ => cache_lookup s e (r_cache r') <> None /\ e <= blen f /\
              (* hit: nothing changes; miss: one entry is added *)
              ((cache_lookup s e (r_cache r) <> None /\ r' = r) \/
               (cache_lookup s e (r_cache r) = None /\
                r_cache r' = ((s, e), view f (s, s + (e - s))) :: r_cache r /\
                r_log r' = r_log r ++ io_of_load s e))
    | Err x => r_cache r' = r_cache r /\ cache_lookup s e (r_cache r) = None /\
               ((x = EBadOffset e /\ blen f < e /\ r' = r) \/ (x = EIOError /\ ~ no_faults))
    | Panic => False
    end.
  Proof.
    intros [Hl Hc]. unfold load_bytes.
    destruct (cache_lookup s e (r_cache r)) as [b|] eqn:L.
    - split; [split; assumption|]. split; [reflexivity|]. rewrite L. destruct (Hc _ _ _ L) as [He _].
      split; [discriminate|]. split; [exact He|]. left. split; [discriminate|reflexivity].
    - destruct (r_slen r <? e) eqn:G.
      + split; [split; assumption|]. split; [reflexivity|]. split; [reflexivity|]. split; [reflexivity|]. left. repeat split; lia.
      + unfold seek. destruct (faults w (r_step r)) eqn:F1.
        * cbn [bump r_cache r_slen]. split; [split; assumption|]. split; [reflexivity|]. split; [reflexivity|]. split; [reflexivity|].
          right. split; [reflexivity|]. intros NF. rewrite NF in F1. discriminate.
        * unfold read_exact, logev, set_pos, bump. cbn [r_pos r_step r_cache r_slen r_log].
          destruct (e - s =? 0) eqn:Z.
          { cbn [r_pos r_step r_cache r_slen r_log]. split; [|split; [reflexivity|]].
            - split; [exact Hl|]. intros s1 e1 b1. cbn [cache_lookup r_cache].
              destruct ((s =? s1) && (e =? e1)) eqn:K; [|apply Hc].
              intros [= <-]. assert (s1 = s) by lia. assert (e1 = e) by lia. subst. split; [lia|reflexivity].
            - cbn [cache_lookup r_cache r_log]. rewrite !N.eqb_refl. cbn [andb]. split; [discriminate|]. split; [lia|].
              right. split; [reflexivity|]. split; [reflexivity|]. unfold io_of_load. rewrite Z.
              rewrite <- app_assoc. reflexivity. }
          destruct (faults w (r_step r + 1)) eqn:F2.
          { cbn [bump r_cache r_slen]. split; [split; assumption|]. split; [reflexivity|]. split; [reflexivity|]. split; [reflexivity|].
            right. split; [reflexivity|]. intros NF. rewrite NF in F2. discriminate. }
          destruct (s + (e - s) <=? blen f) eqn:B.
          { cbn [r_pos r_step r_cache r_slen r_log]. split; [|split; [reflexivity|]].
            - split; [exact Hl|]. intros s1 e1 b1. cbn [cache_lookup r_cache].
              destruct ((s =? s1) && (e =? e1)) eqn:K; [|apply Hc].
              intros [= <-]. assert (s1 = s) by lia. assert (e1 = e) by lia. subst. split; [lia|reflexivity].
            - cbn [cache_lookup r_cache r_log]. rewrite !N.eqb_refl. cbn [andb]. split; [discriminate|]. split; [lia|].
              right. split; [reflexivity|]. split; [reflexivity|]. unfold io_of_load. rewrite Z.
              rewrite <- !app_assoc. reflexivity. }
          (* unreachable: the length guard admitted e <= stream length *)
          exfalso. lia.
  Qed.

  (* ---------- every program ---------- *)
  (* fault-free: result, I/O trace and cache contents are exactly the pure reading's *)
  Theorem real_exact : no_faults -> forall A (p : prog A) r, inv r ->
    let '(x, r') := run_real w p r in
    let '(y, (t, ks)) := run_pure f p (keys_of r) in
    x = y /\ r_log r' = r_log r ++ t /\ keys_of r' = ks /\ inv r'.
  Proof.
    intros NF A p. induction p as [a|e| |s e k IH|s e k IH|n k IH]; intros r Hi; cbn [run_real run_pure].
    - rewrite app_nil_r. tauto.
    - rewrite app_nil_r. tauto.
    - rewrite app_nil_r. tauto.
    - pose proof (load_bytes_cases s e r Hi) as L. destruct (load_bytes w s e r) as [[[]|x|] r1].
      + destruct L as [Hi1 [_ [Hin [He [[Hhit ->]|[Hmiss [Hc Hlog]]]]]]].
        * unfold keys_of. rewrite (proj2 (mem_key_lookup s e (r_cache r)) Hhit). fold (keys_of r). apply IH. exact Hi.
        * unfold keys_of. rewrite (proj2 (mem_key_lookup_false s e (r_cache r)) Hmiss).
          replace (blen f <? e) with false by lia.
          specialize (IH r1 Hi1). destruct (run_real w k r1) as [x r2].
          unfold keys_of in IH. rewrite Hc in IH. cbn [map fst] in IH.
          destruct (run_pure f k ((s, e) :: map fst (r_cache r))) as [y [t ks]].
          destruct IH as [E1 [E2 [E3 E4]]]. split; [exact E1|]. split; [|split; assumption].
          rewrite E2, Hlog. now rewrite app_assoc.
      + destruct L as [Hi1 [_ [Hc [Hmiss [[-> [Hb ->]]|[_ Hnf]]]]]]; [|contradiction].
        unfold keys_of. rewrite (proj2 (mem_key_lookup_false s e (r_cache r)) Hmiss).
        replace (blen f <? e) with true by lia. rewrite app_nil_r. tauto.
      + destruct L as [_ [_ []]].
    - unfold get_bytes_r. destruct (cache_lookup s e (r_cache r)) as [b|] eqn:L.
      + unfold keys_of. rewrite (proj2 (mem_key_lookup s e (r_cache r))) by congruence.
        fold (keys_of r). destruct Hi as [Hl Hc]. destruct (Hc _ _ _ L) as [_ ->]. apply IH. split; assumption.
      + unfold keys_of. rewrite (proj2 (mem_key_lookup_false s e (r_cache r)) L). rewrite app_nil_r. tauto.
    - assert (Hi' : inv (logev (EvVec n) r)) by exact Hi.
      specialize (IH _ Hi'). destruct (run_real w k (logev (EvVec n) r)) as [x r2].
      change (keys_of (logev (EvVec n) r)) with (keys_of r) in IH.
      destruct (run_pure f k (keys_of r)) as [y [t ks]]. destruct IH as [E1 [E2 [E3 E4]]].
      split; [exact E1|]. split; [|split; assumption]. rewrite E2. cbn [logev r_log]. now rewrite <- app_assoc.
  Qed.

  (* any fault schedule: the result is the pure reading's or an I/O error -- never fabricated data,
     never a panic the pure reading does not have -- and the invariant survives (no residue) *)
  Theorem real_sound : forall A (p : prog A) r, inv r ->
    let '(x, r') := run_real w p r in
    inv r' /\ (x = fst (run_pure f p (keys_of r)) \/ (x = Err EIOError /\ ~ no_faults)).
  Proof.
    intros A p. induction p as [a|e| |s e k IH|s e k IH|n k IH]; intros r Hi; cbn [run_real run_pure fst].
    - tauto.
    - tauto.
    - tauto.
    - pose proof (load_bytes_cases s e r Hi) as L. destruct (load_bytes w s e r) as [[[]|x|] r1].
      + destruct L as [Hi1 [_ [Hin [He [[Hhit ->]|[Hmiss [Hc Hlog]]]]]]].
        * unfold keys_of. rewrite (proj2 (mem_key_lookup s e (r_cache r)) Hhit). fold (keys_of r). apply IH. exact Hi.
        * unfold keys_of. rewrite (proj2 (mem_key_lookup_false s e (r_cache r)) Hmiss).
          replace (blen f <? e) with false by lia.
          specialize (IH r1 Hi1). destruct (run_real w k r1) as [x r2].
          unfold keys_of in IH. rewrite Hc in IH. cbn [map fst] in IH.
          destruct (run_pure f k ((s, e) :: map fst (r_cache r))) as [y [t ks]]. exact IH.
      + destruct L as [Hi1 [_ [Hc [Hmiss [[-> [Hb ->]]|[-> Hnf]]]]]].
        * unfold keys_of. rewrite (proj2 (mem_key_lookup_false s e (r_cache r)) Hmiss).
          replace (blen f <? e) with true by lia. tauto.
        * split; [exact Hi1|]. right. tauto.
      + destruct L as [_ [_ []]].
    - unfold get_bytes_r. destruct (cache_lookup s e (r_cache r)) as [b|] eqn:L.
      + unfold keys_of. rewrite (proj2 (mem_key_lookup s e (r_cache r))) by congruence.
        fold (keys_of r). destruct Hi as [Hl Hc]. destruct (Hc _ _ _ L) as [_ ->]. apply IH. split; assumption.
      + unfold keys_of. rewrite (proj2 (mem_key_lookup_false s e (r_cache r)) L). tauto.
    - assert (Hi' : inv (logev (EvVec n) r)) by exact Hi.
      specialize (IH _ Hi'). destruct (run_real w k (logev (EvVec n) r)) as [x r2].
      change (keys_of (logev (EvVec n) r)) with (keys_of r) in IH.
      destruct (run_pure f k (keys_of r)) as [y [t ks]]. exact IH.
  Qed.
End Generic.

Lemma nth_n_eq {T} (l : list T) : forall i, nth_n l i = nth_error l (N.to_nat i).
Proof.
  induction l as [|x t IH]; intros i; cbn [nth_n].
  - destruct (N.to_nat i); reflexivity.
  - destruct (N.eqb_spec i 0) as [->|Hn]; [reflexivity|].
    rewrite IH. replace (N.to_nat i) with (S (N.to_nat (N.pred i))) by lia. reflexivity.
Qed.
