(* C15: string table lookup *)
Require Import V.Base.Prim V.Model.Utf8 V.Model.StrTab V.Proofs.PrimFacts.
From Coq Require Import Lia ZifyBool ZifyN ZifyNat.
Open Scope N_scope.

Lemma scan_nul_some n d p q : scan_nul n d p = Some q ->
  p <= q < p + N.of_nat n /\ bN d q = 0 /\ forall i, p <= i < q -> bN d i <> 0.
Proof.
  revert p; induction n as [|n IH]; intros p H; cbn [scan_nul] in H; [discriminate|].
  destruct (bN d p =? 0) eqn:E.
  - injection H as <-. repeat split; lia.
  - apply IH in H. destruct H as [H1 [H2 H3]]. repeat split; try lia.
    intros i Hi. destruct (N.eq_dec i p) as [->|]; [lia|]. apply H3. lia.
Qed.
Lemma scan_nul_none n d p : scan_nul n d p = None ->
  forall i, p <= i < p + N.of_nat n -> bN d i <> 0.
Proof.
  revert p; induction n as [|n IH]; intros p H i Hi; cbn [scan_nul] in H; [lia|].
  destruct (bN d p =? 0) eqn:E; [discriminate|].
  destruct (N.eq_dec i p) as [->|]; [lia|]. apply (IH (p + 1) H). lia.
Qed.

Theorem get_raw_spec d off :
  match get_raw d off with
  | Ok (s, e) => s = off /\ off <= e < blen d /\ bN d e = 0 /\ (forall i, off <= i < e -> bN d i <> 0)
  | Err _ => blen d <= off \/ (forall i, off <= i < blen d -> bN d i <> 0)
  | Panic => False
  end.
Proof.
  unfold get_raw. destruct (blen d =? 0) eqn:E0; [left; lia|].
  destruct (blen d <? off) eqn:E1; [left; lia|].
  destruct (scan_nul (N.to_nat (blen d - off)) d off) as [q|] eqn:E.
  - apply scan_nul_some in E. destruct E as [H1 [H2 H3]]. repeat split; try lia. exact H3.
  - right. intros i Hi. apply (scan_nul_none _ _ _ E). lia.
Qed.

Theorem strtab_get_spec d off :
  match get_raw d off with
  | Ok r => strtab_get d off = if utf8_valid (range_bytes d r) then Ok r else Err EUtf8Error
  | Err e => strtab_get d off = Err e
  | Panic => True
  end.
Proof. unfold strtab_get. destruct (get_raw d off); reflexivity. Qed.

(* ---------- the UTF-8 automaton accepts exactly Table 3-7 of the Unicode standard ---------- *)
Definition rng (lo hi x : N) : Prop := lo <= x <= hi.
Inductive wf_utf8 : list N -> Prop :=
| wf_nil : wf_utf8 []
| wf_ascii a t : rng 0 127 a -> wf_utf8 t -> wf_utf8 (a :: t)
| wf_2 a b t : rng 194 223 a -> rng 128 191 b -> wf_utf8 t -> wf_utf8 (a :: b :: t)
| wf_3_e0 b c t : rng 160 191 b -> rng 128 191 c -> wf_utf8 t -> wf_utf8 (224 :: b :: c :: t)
| wf_3 a b c t : rng 225 236 a \/ rng 238 239 a -> rng 128 191 b -> rng 128 191 c -> wf_utf8 t ->
                 wf_utf8 (a :: b :: c :: t)
| wf_3_ed b c t : rng 128 159 b -> rng 128 191 c -> wf_utf8 t -> wf_utf8 (237 :: b :: c :: t)
| wf_4_f0 b c e t : rng 144 191 b -> rng 128 191 c -> rng 128 191 e -> wf_utf8 t ->
                    wf_utf8 (240 :: b :: c :: e :: t)
| wf_4 a b c e t : rng 241 243 a -> rng 128 191 b -> rng 128 191 c -> rng 128 191 e -> wf_utf8 t ->
                   wf_utf8 (a :: b :: c :: e :: t)
| wf_4_f4 b c e t : rng 128 143 b -> rng 128 191 c -> rng 128 191 e -> wf_utf8 t ->
                    wf_utf8 (244 :: b :: c :: e :: t).

Lemma inr_iff lo hi x : inr lo hi x = true <-> rng lo hi x.
Proof. unfold inr, rng. lia. Qed.

Lemma utf8_valid_sound l : utf8_valid l = true -> wf_utf8 l.
Proof.
  remember (length l) as n eqn:Hn. revert l Hn.
  induction n as [n IH] using lt_wf_ind. intros l Hn H.
  destruct l as [|a t]; [constructor|]. cbn [utf8_valid] in H.
  assert (IHt : forall t', (length t' < n)%nat -> utf8_valid t' = true -> wf_utf8 t').
  { intros t' Hl Hv. exact (IH (length t') Hl t' eq_refl Hv). }
  cbn [length] in Hn.
  destruct (a <=? 127) eqn:E1.
  { apply wf_ascii; [unfold rng; lia|apply IHt; [lia|exact H]]. }
  destruct (inr 194 223 a) eqn:E2.
  { destruct t as [|b t2]; [discriminate|]. apply andb_prop in H. destruct H as [Hb Ht].
    apply wf_2; [now apply inr_iff|now apply inr_iff|apply IHt; [cbn [length] in *; lia|exact Ht]]. }
  destruct (a =? 224) eqn:E3.
  { destruct t as [|b [|c t3]]; try discriminate. apply andb_prop in H. destruct H as [H Ht].
    apply andb_prop in H. destruct H as [Hb Hc]. replace a with 224 by lia.
    apply wf_3_e0; [now apply inr_iff|now apply inr_iff|apply IHt; [cbn [length] in *; lia|exact Ht]]. }
  destruct (inr 225 236 a || inr 238 239 a) eqn:E4.
  { destruct t as [|b [|c t3]]; try discriminate. apply andb_prop in H. destruct H as [H Ht].
    apply andb_prop in H. destruct H as [Hb Hc].
    apply wf_3; [unfold inr, rng in *; lia|now apply inr_iff|now apply inr_iff|
                 apply IHt; [cbn [length] in *; lia|exact Ht]]. }
  destruct (a =? 237) eqn:E5.
  { destruct t as [|b [|c t3]]; try discriminate. apply andb_prop in H. destruct H as [H Ht].
    apply andb_prop in H. destruct H as [Hb Hc]. replace a with 237 by lia.
    apply wf_3_ed; [now apply inr_iff|now apply inr_iff|apply IHt; [cbn [length] in *; lia|exact Ht]]. }
  destruct (a =? 240) eqn:E6.
  { destruct t as [|b [|c [|e t4]]]; try discriminate. apply andb_prop in H. destruct H as [H Ht].
    apply andb_prop in H. destruct H as [H He]. apply andb_prop in H. destruct H as [Hb Hc].
    replace a with 240 by lia.
    apply wf_4_f0; [now apply inr_iff|now apply inr_iff|now apply inr_iff|
                    apply IHt; [cbn [length] in *; lia|exact Ht]]. }
  destruct (inr 241 243 a) eqn:E7.
  { destruct t as [|b [|c [|e t4]]]; try discriminate. apply andb_prop in H. destruct H as [H Ht].
    apply andb_prop in H. destruct H as [H He]. apply andb_prop in H. destruct H as [Hb Hc].
    apply wf_4; [now apply inr_iff|now apply inr_iff|now apply inr_iff|now apply inr_iff|
                 apply IHt; [cbn [length] in *; lia|exact Ht]]. }
  destruct (a =? 244) eqn:E8; [|discriminate].
  destruct t as [|b [|c [|e t4]]]; try discriminate. apply andb_prop in H. destruct H as [H Ht].
  apply andb_prop in H. destruct H as [H He]. apply andb_prop in H. destruct H as [Hb Hc].
  replace a with 244 by lia.
  apply wf_4_f4; [now apply inr_iff|now apply inr_iff|now apply inr_iff|
                  apply IHt; [cbn [length] in *; lia|exact Ht]].
Qed.

Lemma utf8_valid_complete l : wf_utf8 l -> utf8_valid l = true.
Proof.
  induction 1; cbn [utf8_valid]; unfold rng, cont, inr in *;
  repeat match goal with
         | |- context [if ?b then _ else _] =>
           let E := fresh "E" in destruct b eqn:E; try lia
         end; try reflexivity; try lia;
  rewrite ?IHwf_utf8; lia.
Qed.

Theorem utf8_valid_iff l : utf8_valid l = true <-> wf_utf8 l.
Proof. split; [apply utf8_valid_sound|apply utf8_valid_complete]. Qed.
