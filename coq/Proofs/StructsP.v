(* C02: every ParseAt implementation decodes exactly the frozen ABI layout. *)
Require Import V.Base.Prim V.Spec.Ints V.Ref.RefLayout V.Spec.AbiLayout V.Model.Structs V.Proofs.PrimFacts.
From Coq Require Import Lia ZifyBool ZifyN ZifyNat String.
Ltac Zify.zify_post_hook ::= Z.div_mod_to_equations.
Open Scope N_scope.

(* ---------- regular parsers: succeed exactly when n bytes are available ---------- *)
Definition regular {A} (n : N) (p : buf -> M A) : Prop :=
  forall d off, buf_ok d ->
    (off + n <= blen d -> exists a, p d off = (Ok a, off + n)) /\
    (blen d < off + n -> exists e o', p d off = (Err e, o') /\ off <= o').

Lemma regular_uint w le : regular (N.of_nat w) (fun d o => parse_uint w le o d).
Proof.
  intros d off Hd. split; intros H.
  - eexists. now apply parse_uint_ok.
  - do 2 eexists. split; [now apply parse_uint_short|lia].
Qed.
Lemma regular_int w le : regular (N.of_nat w) (fun d o => parse_int w le o d).
Proof.
  intros d off Hd. split; intros H.
  - eexists. now apply parse_int_ok.
  - do 2 eexists. split; [now apply parse_int_short|lia].
Qed.
Lemma regular_map {A B} n (m : buf -> M A) (g : A -> B) :
  regular n m -> regular n (fun d => bind (m d) (fun a => ret (g a))).
Proof.
  intros Hm d off Hd. destruct (Hm d off Hd) as [Hm1 Hm2]. split; intros H.
  - destruct (Hm1 H) as [a Ea]. exists (g a). unfold bind, ret. now rewrite Ea.
  - destruct (Hm2 H) as [e [o' [Ee Ho]]]. exists e, o'. unfold bind. now rewrite Ee.
Qed.
Lemma regular_bind {A B} n1 n2 (m : buf -> M A) (f : A -> buf -> M B) :
  regular n1 m -> (forall a, regular n2 (f a)) ->
  regular (n1 + n2) (fun d => bind (m d) (fun a => f a d)).
Proof.
  intros Hm Hf d off Hd. destruct (Hm d off Hd) as [Hm1 Hm2]. split; intros H.
  - destruct Hm1 as [a Ea]; [lia|]. destruct (Hf a d (off + n1) Hd) as [[b Eb] _]; [lia|].
    exists b. unfold bind. rewrite Ea, Eb. f_equal. lia.
  - unfold bind. destruct (N.le_gt_cases (off + n1) (blen d)) as [Hle|Hgt].
    + destruct Hm1 as [a Ea]; [lia|]. rewrite Ea.
      destruct (Hf a d (off + n1) Hd) as [_ [e [o' [Eb Ho]]]]; [lia|].
      exists e, o'. split; [exact Eb|lia].
    + destruct Hm2 as [e [o' [Ee Ho]]]; [lia|]. rewrite Ee. eauto.
Qed.
Lemma regular_eq {A} n n' (p : buf -> M A) : regular n p -> n = n' -> regular n' p.
Proof. intros H <-. exact H. Qed.

Ltac reg1 :=
  first
    [ apply (regular_uint 1) | apply (regular_uint 2) | apply (regular_uint 4) | apply (regular_uint 8)
    | apply (regular_int 4) | apply (regular_int 8) ].
Ltac reg :=
  first [ reg1
        | apply regular_map; reg1
        | eapply regular_bind; [reg1 | intros ?; reg] ].
Ltac regular_struct :=
  intros;
  match goal with |- regular _ (fun d => ?p ?s ?c d) => unfold p end;
  match goal with
  | c : class |- _ => destruct c
  | _ => idtac
  end;
  (eapply regular_eq; [unfold u8, u16, u32, u64, i32, i64; reg | reflexivity]).

Lemma regular_shdr s c : regular (shdr_size c) (fun d => parse_shdr s c d). Proof. regular_struct. Qed.
Lemma regular_phdr s c : regular (phdr_size c) (fun d => parse_phdr s c d). Proof. regular_struct. Qed.
Lemma regular_sym s c : regular (sym_size c) (fun d => parse_sym s c d). Proof. regular_struct. Qed.
Lemma regular_rel s c : regular (rel_size c) (fun d => parse_rel s c d). Proof. regular_struct. Qed.
Lemma regular_rela s c : regular (rela_size c) (fun d => parse_rela s c d). Proof. regular_struct. Qed.
Lemma regular_dyn s c : regular (dyn_size c) (fun d => parse_dyn s c d). Proof. regular_struct. Qed.
Lemma regular_chdr s c : regular (chdr_size c) (fun d => parse_chdr s c d). Proof. regular_struct. Qed.
Lemma regular_nhdr s c : regular (nhdr_size c) (fun d => parse_nhdr s c d). Proof. regular_struct. Qed.
Lemma regular_abitag s c : regular (abitag_size c) (fun d => parse_abitag s c d). Proof. regular_struct. Qed.
Lemma regular_sysvhdr s c : regular (sysvhdr_size c) (fun d => parse_sysvhdr s c d). Proof. regular_struct. Qed.
Lemma regular_gnuhdr s c : regular (gnuhdr_size c) (fun d => parse_gnuhdr s c d). Proof. regular_struct. Qed.
Lemma regular_u32 s c : regular (u32_size c) (fun d => parse_u32 s c d). Proof. regular_struct. Qed.
Lemma regular_u64 s c : regular (u64_size c) (fun d => parse_u64 s c d). Proof. regular_struct. Qed.
Lemma regular_versym s c : regular (versym_size c) (fun d => parse_versym s c d). Proof. regular_struct. Qed.
Lemma regular_verdaux s c : regular (verdaux_size c) (fun d => parse_verdaux s c d). Proof. regular_struct. Qed.
Lemma regular_vernaux s c : regular (vernaux_size c) (fun d => parse_vernaux s c d). Proof. regular_struct. Qed.

(* ---------- exact decoding: parser = ABI interpretation ---------- *)
Ltac step :=
  unfold bind at 1;
  lazymatch goal with
  | |- context [u8 ?s ?d ?o] => unfold u8 at 1; rewrite (parse_uint_ok 1 (is_little s) o d) by (try assumption; cbn; lia)
  | |- context [u16 ?s ?d ?o] => unfold u16 at 1; rewrite (parse_uint_ok 2 (is_little s) o d) by (try assumption; cbn; lia)
  | |- context [u32 ?s ?d ?o] => unfold u32 at 1; rewrite (parse_uint_ok 4 (is_little s) o d) by (try assumption; cbn; lia)
  | |- context [u64 ?s ?d ?o] => unfold u64 at 1; rewrite (parse_uint_ok 8 (is_little s) o d) by (try assumption; cbn; lia)
  | |- context [i32 ?s ?d ?o] => unfold i32 at 1; rewrite (parse_int_ok 4 (is_little s) o d) by (try assumption; cbn; lia)
  | |- context [i64 ?s ?d ?o] => unfold i64 at 1; rewrite (parse_int_ok 8 (is_little s) o d) by (try assumption; cbn; lia)
  end; cbn [N.of_nat Pos.of_succ_nat Pos.succ].
Ltac lookup :=
  match goal with
  | |- context [field_off ?L ?n 0] =>
    let r := eval vm_compute in (field_off L n 0) in change (field_off L n 0) with r
  end.
Ltac norm_off :=
  repeat rewrite <- N.add_assoc; cbn [N.add Pos.add Pos.succ Pos.add_carry fty_size].
Ltac finish spec :=
  unfold ret, spec, fval, fvalz, pick; repeat lookup; cbv beta iota;
  norm_off; rewrite ?N.add_0_r; reflexivity.

Lemma parse_shdr_ok s c d off : buf_ok d -> off + shdr_size c <= blen d ->
  parse_shdr s c d off = (Ok (shdr_spec s c d off), off + shdr_size c).
Proof.
  intros Hd Hb. destruct c; cbn [shdr_size] in *; unfold parse_shdr; do 10 step; finish shdr_spec.
Qed.
Lemma parse_phdr_ok s c d off : buf_ok d -> off + phdr_size c <= blen d ->
  parse_phdr s c d off = (Ok (phdr_spec s c d off), off + phdr_size c).
Proof.
  intros Hd Hb. destruct c; cbn [phdr_size] in *; unfold parse_phdr; do 8 step; finish phdr_spec.
Qed.
Lemma parse_sym_ok s c d off : buf_ok d -> off + sym_size c <= blen d ->
  parse_sym s c d off = (Ok (sym_spec s c d off), off + sym_size c).
Proof.
  intros Hd Hb. destruct c; cbn [sym_size] in *; unfold parse_sym; do 6 step; finish sym_spec.
Qed.

(* packed fields: the code's shifts and masks are the ABI macros' div/mod *)
Lemma shr_div i k : N.shiftr i k = i / 2 ^ k. Proof. apply N.shiftr_div_pow2. Qed.
Lemma land_mod i k : N.land i (N.ones k) = i mod 2 ^ k. Proof. apply N.land_ones. Qed.
Lemma shr8 i : N.shiftr i 8 = i / 256. Proof. now rewrite shr_div. Qed.
Lemma land255 i : N.land i 255 = i mod 256. Proof. change 255 with (N.ones 8). now rewrite land_mod. Qed.
Lemma shr32m i : i < 18446744073709551616 -> N.shiftr i 32 mod 4294967296 = i / 4294967296.
Proof. intros H. rewrite shr_div. change (2 ^ 32) with 4294967296. apply N.mod_small. lia. Qed.
Lemma land32m i : N.land i 4294967295 mod 4294967296 = i mod 4294967296.
Proof. change 4294967295 with (N.ones 32). rewrite land_mod. change (2 ^ 32) with 4294967296. lia. Qed.

Lemma uvalue_bound le bs : uvalue le bs < 256 ^ llen bs.
Proof.
  unfold uvalue, be_val. destruct le; [apply le_val_bound|].
  replace (llen bs) with (llen (rev bs)) by (unfold llen; now rewrite rev_length). apply le_val_bound.
Qed.
Lemma uvalue_bound8 le d o : uvalue le (bytes_at d o 8) < 18446744073709551616.
Proof.
  pose proof (uvalue_bound le (bytes_at d o 8)) as H. unfold llen in H. rewrite bytes_at_length in H.
  exact H.
Qed.

Lemma parse_rel_ok s c d off : buf_ok d -> off + rel_size c <= blen d ->
  parse_rel s c d off = (Ok (rel_spec s c d off), off + rel_size c).
Proof.
  intros Hd Hb. destruct c; cbn [rel_size] in *; unfold parse_rel; do 2 step.
  - rewrite shr8, land255. finish rel_spec.
  - rewrite shr32m by apply uvalue_bound8. rewrite land32m. finish rel_spec.
Qed.
Lemma parse_rela_ok s c d off : buf_ok d -> off + rela_size c <= blen d ->
  parse_rela s c d off = (Ok (rela_spec s c d off), off + rela_size c).
Proof.
  intros Hd Hb. destruct c; cbn [rela_size] in *; unfold parse_rela; do 3 step.
  - rewrite shr8, land255. finish rela_spec.
  - rewrite shr32m by apply uvalue_bound8. rewrite land32m. finish rela_spec.
Qed.
Lemma parse_dyn_ok s c d off : buf_ok d -> off + dyn_size c <= blen d ->
  parse_dyn s c d off = (Ok (dyn_spec s c d off), off + dyn_size c).
Proof.
  intros Hd Hb. destruct c; cbn [dyn_size] in *; unfold parse_dyn; do 2 step; finish dyn_spec.
Qed.
Lemma parse_chdr_ok s c d off : buf_ok d -> off + chdr_size c <= blen d ->
  parse_chdr s c d off = (Ok (chdr_spec s c d off), off + chdr_size c).
Proof.
  intros Hd Hb. destruct c; cbn [chdr_size] in *; unfold parse_chdr; [do 3 step|do 4 step]; finish chdr_spec.
Qed.
Lemma parse_nhdr32_ok s d off : buf_ok d -> off + 12 <= blen d ->
  parse_nhdr s ELF32 d off = (Ok (nhdr32_spec s d off), off + 12).
Proof. intros Hd Hb. unfold parse_nhdr; do 3 step; finish nhdr32_spec. Qed.
Lemma parse_abitag_ok s c d off : buf_ok d -> off + 16 <= blen d ->
  parse_abitag s c d off = (Ok (abitag_spec s d off), off + 16).
Proof. intros Hd Hb. unfold parse_abitag; do 4 step; finish abitag_spec. Qed.
Lemma parse_sysvhdr_ok s c d off : buf_ok d -> off + 8 <= blen d ->
  parse_sysvhdr s c d off = (Ok (sysvhdr_spec s d off), off + 8).
Proof. intros Hd Hb. unfold parse_sysvhdr; do 2 step; finish sysvhdr_spec. Qed.
Lemma parse_gnuhdr_ok s c d off : buf_ok d -> off + 16 <= blen d ->
  parse_gnuhdr s c d off = (Ok (gnuhdr_spec s d off), off + 16).
Proof. intros Hd Hb. unfold parse_gnuhdr; do 4 step; finish gnuhdr_spec. Qed.
Lemma parse_versym_ok s c d off : buf_ok d -> off + 2 <= blen d ->
  parse_versym s c d off = (Ok (versym_spec s d off), off + 2).
Proof.
  intros Hd Hb. unfold parse_versym, u16. rewrite parse_uint_ok by (try assumption; cbn; lia).
  unfold versym_spec, fval. repeat lookup. cbv beta iota. cbn [fty_size N.of_nat Pos.of_succ_nat Pos.succ].
  now rewrite N.add_0_r.
Qed.
Lemma parse_verdaux_ok s c d off : buf_ok d -> off + 8 <= blen d ->
  parse_verdaux s c d off = (Ok (verdaux_spec s d off), off + 8).
Proof. intros Hd Hb. unfold parse_verdaux; do 2 step; finish verdaux_spec. Qed.
Lemma parse_vernaux_ok s c d off : buf_ok d -> off + 16 <= blen d ->
  parse_vernaux s c d off = (Ok (vernaux_spec s d off), off + 16).
Proof. intros Hd Hb. unfold parse_vernaux; do 5 step; finish vernaux_spec. Qed.

(* Verdef / Verneed: the version guard *)
Lemma parse_verdef_ok s c d off : buf_ok d -> off + 20 <= blen d ->
  let v := fval Elf_Verdef (is_little s) d off "vd_version" in
  parse_verdef s c d off =
  if v =? 1 then (Ok (verdef_spec s d off), off + 20) else (Err (EUnsupportedVersion v 1), off + 2).
Proof.
  intros Hd Hb v. unfold parse_verdef. step.
  assert (Ev : v = uvalue (is_little s) (bytes_at d off 2)).
  { unfold v, fval. repeat lookup. cbv beta iota. cbn [fty_size]. now rewrite N.add_0_r. }
  rewrite <- Ev. destruct (v =? 1) eqn:E; cbn [negb].
  - do 6 step. finish verdef_spec.
  - reflexivity.
Qed.
Lemma parse_verneed_ok s c d off : buf_ok d -> off + 16 <= blen d ->
  let v := fval Elf_Verneed (is_little s) d off "vn_version" in
  parse_verneed s c d off =
  if v =? 1 then (Ok (verneed_spec s d off), off + 16) else (Err (EUnsupportedVersion v 1), off + 2).
Proof.
  intros Hd Hb v. unfold parse_verneed. step.
  assert (Ev : v = uvalue (is_little s) (bytes_at d off 2)).
  { unfold v, fval. repeat lookup. cbv beta iota. cbn [fty_size]. now rewrite N.add_0_r. }
  rewrite <- Ev. destruct (v =? 1) eqn:E; cbn [negb].
  - do 4 step. finish verneed_spec.
  - reflexivity.
Qed.

(* FileHeader::parse_tail on the tail buffer: the tail of header [h] starting at 16 *)
Lemma parse_tail_ok s c osabi abiver d off : buf_ok d -> off + tail_size c <= blen d -> 16 <= off ->
  parse_tail s c osabi abiver d off = (Ok (ehdr_spec s c osabi abiver d (off - 16)), off + tail_size c).
Proof.
  intros Hd Hb Ho. destruct c; cbn [tail_size] in *; unfold parse_tail; do 13 step;
  unfold ret, ehdr_spec, fval, pick; repeat lookup; cbv beta iota; norm_off;
  repeat match goal with |- context [off - 16 + ?k] => replace (off - 16 + k) with (off + (k - 16)) by lia end;
  cbn [N.sub Pos.sub Pos.sub_mask Pos.double_mask Pos.succ_double_mask Pos.double_pred_mask Pos.pred_double];
  rewrite ?N.add_0_r; reflexivity.
Qed.

(* ---------- round trip: reading a field of an ABI-encoded structure gives the value back ---------- *)
Lemma encode_length le w v : List.length (encode le w v) = w.
Proof. unfold encode, enc_be. destruct le; [|rewrite rev_length]; apply enc_le_length. Qed.
Lemma uvalue_encode le w v : v < 256 ^ N.of_nat w -> uvalue le (encode le w v) = v.
Proof.
  intros H. unfold uvalue, encode, enc_be, be_val. destruct le; [|rewrite rev_involutive]; now apply le_val_enc.
Qed.

Lemma fval_roundtrip l le d off name o w v :
  field_off l name 0 = Some (o, U w) -> v < 256 ^ N.of_nat w ->
  has_bytes d (off + o) (encode le w v) -> fval l le d off name = v.
Proof.
  intros Hf Hv Hb. unfold fval. rewrite Hf. cbn [fty_size].
  apply has_bytes_eq in Hb. rewrite encode_length in Hb. rewrite Hb. now apply uvalue_encode.
Qed.
Lemma fvalz_roundtrip l le d off name o w z :
  field_off l name 0 = Some (o, I w) -> (0 < w)%nat ->
  (- Z.pow 2 (8 * Z.of_nat w - 1) <= z < Z.pow 2 (8 * Z.of_nat w - 1))%Z ->
  has_bytes d (off + o) (encode_z le w z) -> fvalz l le d off name = z.
Proof.
  intros Hf Hw Hz Hb. unfold fvalz. rewrite Hf. cbn [fty_size].
  apply has_bytes_eq in Hb. unfold encode_z in Hb. rewrite encode_length in Hb. rewrite Hb.
  now apply svalue_encode_z.
Qed.

(* ---------- short input: never a value ---------- *)
Lemma regular_short {A} n (p : buf -> M A) d off :
  regular n p -> buf_ok d -> blen d < off + n -> exists e o', p d off = (Err e, o').
Proof. intros R Hd H. destruct (R d off Hd) as [_ H2]. destruct (H2 H) as [e [o' [E _]]]. eauto. Qed.

(* packed accessors *)
Lemma st_bind_div y : st_bind y = st_info y / 16. Proof. unfold st_bind. now rewrite shr_div. Qed.
Lemma st_symtype_mod y : st_symtype y = st_info y mod 16.
Proof. unfold st_symtype. change 15 with (N.ones 4). now rewrite land_mod. Qed.
Lemma st_vis_mod y : st_vis y = st_other y mod 4.
Proof. unfold st_vis. change 3 with (N.ones 2). now rewrite land_mod. Qed.
Lemma vx_index_mod v : vx_index v = v mod 32768.
Proof. unfold vx_index. change 32767 with (N.ones 15). now rewrite land_mod. Qed.
Lemma vx_hidden_bit v : v < 65536 -> vx_is_hidden v = (32768 <=? v).
Proof.
  intros H. unfold vx_is_hidden.
  assert (Hb : N.b2n (N.testbit v 15) = (v / 2 ^ 15) mod 2) by apply N.testbit_spec'.
  change (2 ^ 15) with 32768 in Hb.
  destruct (N.testbit v 15) eqn:T; cbn [N.b2n] in Hb.
  - assert (Hne : N.land v 32768 <> 0).
    { intros E. assert (Hf : N.testbit (N.land v 32768) 15 = false) by (rewrite E; apply N.bits_0).
      rewrite N.land_spec, T in Hf. change 32768 with (2 ^ 15) in Hf.
      rewrite N.pow2_bits_true in Hf. discriminate. }
    replace (N.land v 32768 =? 0) with false by lia. cbn [negb]. lia.
  - assert (He : N.land v 32768 = 0).
    { apply N.bits_inj. intros n. rewrite N.land_spec, N.bits_0. change 32768 with (2 ^ 15).
      rewrite N.pow2_bits_eqb. destruct (N.eqb_spec 15 n) as [<-|]; [now rewrite T|apply andb_false_r]. }
    rewrite He. cbn [negb N.eqb]. lia.
Qed.

(* ---------- no parser panics ---------- *)
Lemma regular_np {T} n (p : buf -> M T) d off : regular n p -> buf_ok d -> fst (p d off) <> Panic.
Proof.
  intros R Hd. destruct (R d off Hd) as [H1 H2]. destruct (N.le_gt_cases (off + n) (blen d)) as [H|H].
  - destruct (H1 H) as [a E]. rewrite E. discriminate.
  - destruct (H2 H) as [e [o' [E _]]]. rewrite E. discriminate.
Qed.
Lemma regular_tail s c osabi abiver : regular (tail_size c) (fun d => parse_tail s c osabi abiver d).
Proof. unfold parse_tail. destruct c; cbn [tail_size]; (eapply regular_eq; [unfold u16, u32, u64; reg|reflexivity]). Qed.
Lemma validate_np a b : validate_entsize a b <> Panic.
Proof. unfold validate_entsize. destruct (b =? a); discriminate. Qed.
Lemma ok_or_np {T} (o : option T) e : ok_or o e <> Panic.
Proof. destruct o; discriminate. Qed.
