(* C01: no entry point of the slice parser's model can reach a Panic branch (an unchecked
   arithmetic overflow, an out-of-bounds index, a division by zero, an unwrap of None), for any
   buffer that Rust can represent (buf_ok: length <= isize::MAX) and any caller-supplied index,
   offset, alignment or count. *)
Require Import V.Base.Prim V.Spec.Ints V.Model.Structs V.Model.Table V.Model.StrTab V.Model.Utf8 V.Model.File
        V.Model.Hash V.Model.Note V.Model.SymVer V.Model.ElfBytes
        V.Proofs.PrimFacts V.Proofs.StructsP V.Proofs.TableP V.Proofs.FileP V.Proofs.NoteP V.Proofs.ElfBytesP
        V.Proofs.SymVerP V.Proofs.SymVerQ V.Proofs.TermP.
From Coq Require Import Lia ZifyBool ZifyN ZifyNat.
Open Scope N_scope.

Lemma np_bind {A B} (r : res A) (k : A -> res B) :
  r <> Panic -> (forall a, r = Ok a -> k a <> Panic) -> rbind r k <> Panic.
Proof. intros H1 H2. destruct r; cbn [rbind]; [now apply H2|discriminate|congruence]. Qed.
Lemma get_bytes_np b s e : get_bytes b s e <> Panic.
Proof. unfold get_bytes. apply ok_or_np. Qed.
Lemma range_in_np f r : r <> Panic -> range_in f r <> Panic.
Proof.
  intros H. unfold range_in. apply np_bind; [exact H|]. intros [a b] _. apply np_bind; [apply get_bytes_np|discriminate].
Qed.
Lemma sh_range_np h : sh_range h <> Panic.
Proof. unfold sh_range, data_range. apply np_bind; [apply ok_or_np|discriminate]. Qed.
Lemma ph_range_np h : ph_range h <> Panic.
Proof. unfold ph_range, data_range. apply np_bind; [apply ok_or_np|discriminate]. Qed.

(* integers *)
Lemma parse_uint_np w le o d : fst (parse_uint w le o d) <> Panic.
Proof. unfold parse_uint. destruct (checked_add _ _); [|discriminate]. destruct (_ <=? _); discriminate. Qed.
Lemma parse_int_np w le o d : fst (parse_int w le o d) <> Panic.
Proof.
  unfold parse_int. pose proof (parse_uint_np w le o d) as H. destruct (parse_uint w le o d) as [[u| |] o']; cbn [fst] in *; [discriminate|discriminate|congruence].
Qed.

(* tables and strings *)
Lemma table_get_np' {T} (parse : buf -> M T) size d i :
  (forall off, fst (parse d off) <> Panic) -> table_get parse size d i <> Panic.
Proof.
  intros H. unfold table_get. destruct (blen d =? 0); [discriminate|]. destruct (checked_mul i size); [|discriminate].
  destruct (blen d <? n); [discriminate|apply H].
Qed.
Lemma get_raw_np d off : get_raw d off <> Panic.
Proof. unfold get_raw. destruct (blen d =? 0); [discriminate|]. destruct (blen d <? off); [discriminate|]. destruct (scan_nul _ _ _); discriminate. Qed.
Lemma strtab_get_np d off : strtab_get d off <> Panic.
Proof. unfold strtab_get. apply np_bind; [apply get_raw_np|]. intros r _. destruct (utf8_valid _); discriminate. Qed.

(* hash tables *)
Lemma sysv_new_np s c d : buf_ok d -> sysv_new s c d <> Panic.
Proof.
  intros Hd. unfold sysv_new. pose proof (regular_np _ _ d 0 (regular_sysvhdr s c) Hd) as NP.
  destruct (parse_sysvhdr s c d 0) as [[hdr| |] off]; cbn [fst] in NP; [|discriminate|congruence].
  repeat (apply np_bind; [first [apply ok_or_np|apply get_bytes_np]|intros ? _]). discriminate.
Qed.
Lemma gnu_new_np s c d : buf_ok d -> gnu_new s c d <> Panic.
Proof.
  intros Hd. unfold gnu_new. pose proof (regular_np _ _ d 0 (regular_gnuhdr s c) Hd) as NP.
  destruct (parse_gnuhdr s c d 0) as [[hdr| |] off]; cbn [fst] in NP; [|discriminate|congruence].
  repeat (apply np_bind; [first [apply ok_or_np|apply get_bytes_np]|intros ? _]). discriminate.
Qed.

Section Find.
  Variables (s : espec) (c : class) (symtab strtab : buf).
  Hypotheses (Hsym : buf_ok symtab).
  Lemma sym_get_np i : table_get (parse_sym s c) (sym_size c) symtab i <> Panic.
  Proof. apply table_get_np'. intros off. apply (regular_np _ _ symtab off (regular_sym s c) Hsym). Qed.
  Lemma u32_get_np t i : buf_ok t -> table_get (parse_u32 s c) 4 t i <> Panic.
  Proof. intros Ht. apply table_get_np'. intros off. apply (regular_np _ _ t off (regular_u32 s c) Ht). Qed.
  Lemma u64_get_np t i : buf_ok t -> table_get (parse_u64 s c) 8 t i <> Panic.
  Proof. intros Ht. apply table_get_np'. intros off. apply (regular_np _ _ t off (regular_u64 s c) Ht). Qed.

  Lemma sysv_walk_np chains name : buf_ok chains -> forall fuel index,
    sysv_walk s c chains symtab strtab name fuel index <> Panic.
  Proof.
    intros Hc. induction fuel as [|f IH]; intros index; cbn [sysv_walk]; [discriminate|].
    destruct (index =? 0); [discriminate|].
    apply np_bind; [apply sym_get_np|intros y _]. apply np_bind; [apply get_raw_np|intros r _].
    destruct (list_eqb _ _); [discriminate|]. apply np_bind; [apply u32_get_np; exact Hc|intros nxt _]. apply IH.
  Qed.
  (* the `%` by buckets.len() is never a division by zero: the emptiness guard precedes it *)
  Theorem sysv_find_in_np buckets chains name : buf_ok buckets -> buf_ok chains ->
    sysv_find_in s c buckets chains symtab strtab name <> Panic.
  Proof.
    intros Hb Hc. unfold sysv_find_in, table_is_empty.
    destruct (table_len 4 buckets =? 0) eqn:E; [discriminate|].
    apply np_bind; [apply u32_get_np; exact Hb|intros index _]. apply sysv_walk_np. exact Hc.
  Qed.

  Lemma gnu_walk_np hdr chains name : buf_ok chains -> forall fuel hash idx,
    gnu_walk s c hdr chains symtab strtab name fuel hash idx <> Panic.
  Proof.
    intros Hc. induction fuel as [|f IH]; intros hash idx; cbn [gnu_walk]; [discriminate|].
    apply np_bind; [apply u32_get_np; exact Hc|intros ch _].
    assert (Hk : (if negb (N.land ch 1 =? 0) then Ok None else gnu_walk s c hdr chains symtab strtab name f hash (idx + 1)) <> Panic).
    { destruct (negb _); [discriminate|apply IH]. }
    destruct (N.lor hash 1 =? N.lor ch 1); [|exact Hk].
    apply np_bind; [apply ok_or_np|intros si _]. apply np_bind; [apply sym_get_np|intros y _].
    apply np_bind; [apply get_raw_np|intros r _]. destruct (list_eqb _ _); [discriminate|exact Hk].
  Qed.
  (* nbloom == 0 and empty buckets are guarded; the shift is checked (checked_shr); chain_start -
     symoffset cannot underflow behind its guard *)
  Theorem gnu_find_in_np hdr bloom buckets chains name : buf_ok bloom -> buf_ok buckets -> buf_ok chains ->
    gnu_find_in s c hdr bloom buckets chains symtab strtab name <> Panic.
  Proof.
    intros Hbl Hb Hc. unfold gnu_find_in, table_is_empty.
    destruct (table_len 4 buckets =? 0) eqn:E; cbn [orb]; [discriminate|].
    destruct (gh_nbloom hdr =? 0); [discriminate|].
    apply np_bind; [destruct c; [apply u32_get_np|apply u64_get_np]; exact Hbl|intros filter _].
    destruct (N.land filter _ =? 0); [discriminate|].
    apply np_bind; [destruct (gh_nshift hdr <? 32); discriminate|intros h2 _].
    destruct (N.land filter _ =? 0); [discriminate|].
    apply np_bind; [apply u32_get_np; exact Hb|intros cs _].
    destruct (cs <? gh_symoffset hdr); [discriminate|]. apply gnu_walk_np. exact Hc.
  Qed.
End Find.

(* version records *)
Lemma verdef_next_np s c d st : buf_ok d -> verdef_next s c d st <> Panic.
Proof.
  intros Hd. unfold verdef_next.
  destruct (link_next_cases _ _ _ (link_ok_verdef s c) d Hd st) as [E|[x [Ep [Hc [Hb E]]]]]; rewrite E; cbn [rbind]; [discriminate|].
  pose proof (verdef_aux_bound s c d (vi_off st) x Hd Ep) as Ha.
  destruct (lk_ok _ _ _ (link_ok_verdef s c) d (vi_off st) x Hd Ep) as [Hin _].
  unfold add_or_panic. unfold buf_ok, ISIZE_MAX, USIZE_MAX, U32_MAX in *.
  replace (vi_off st + vd_aux x <=? 18446744073709551615) with true by lia. discriminate.
Qed.
Lemma verneed_next_np s c d st : buf_ok d -> verneed_next s c d st <> Panic.
Proof.
  intros Hd. unfold verneed_next.
  destruct (link_next_cases _ _ _ (link_ok_verneed s c) d Hd st) as [E|[x [Ep [Hc [Hb E]]]]]; rewrite E; cbn [rbind]; [discriminate|].
  pose proof (verneed_aux_bound s c d (vi_off st) x Hd Ep) as Ha.
  destruct (lk_ok _ _ _ (link_ok_verneed s c) d (vi_off st) x Hd Ep) as [Hin _].
  unfold add_or_panic. unfold buf_ok, ISIZE_MAX, USIZE_MAX, U32_MAX in *.
  replace (vi_off st + vn_aux x <=? 18446744073709551615) with true by lia. discriminate.
Qed.
Lemma search_np {I R} (next : viter -> res (option I * viter)) (body : I -> option (res (option R))) :
  (forall st, next st <> Panic) -> (forall x, body x <> Some Panic) ->
  forall fuel st, search next body fuel st <> Some Panic.
Proof.
  intros Hn Hb. induction fuel as [|f IH]; intros st; cbn [search]; [discriminate|].
  pose proof (Hn st) as N1. destruct (next st) as [[[x|] st']| |]; try discriminate; [|congruence].
  pose proof (Hb x) as B1. destruct (body x) as [[[r|]| |]|]; try discriminate; [apply IH|congruence].
Qed.
Lemma drain_np {I} (next : viter -> res (option I * viter)) : (forall st, next st <> Panic) ->
  forall fuel st, drain next fuel st <> Some Panic.
Proof.
  intros Hn. induction fuel as [|f IH]; intros st; cbn [drain]; [discriminate|].
  pose proof (Hn st) as N1. destruct (next st) as [[[x|] st']| |]; try discriminate; [|congruence].
  pose proof (IH st') as I1. destruct (drain next f st') as [[l| |]|]; try discriminate. congruence.
Qed.

Theorem get_requirement_np s c t i : buf_ok (svt_versym t) ->
  (forall st nd strs, svt_needs t = Some (st, nd, strs) -> buf_ok nd) ->
  get_requirement s c t i <> Some Panic.
Proof.
  intros Hv Hd. unfold get_requirement. destruct (svt_needs t) as [[[st0 nd] strs]|] eqn:E; [|discriminate].
  specialize (Hd _ _ _ eq_refl).
  pose proof (table_get_np' (parse_versym s c) 2 (svt_versym t) i
                (fun off => regular_np _ _ _ off (regular_versym s c) Hv)) as NP.
  destruct (table_get _ 2 (svt_versym t) i) as [ver| |]; [|discriminate|congruence].
  apply search_np; [intros st; apply verneed_next_np; exact Hd|].
  intros [vn aux]. apply search_np; [intros st; unfold vernaux_next; apply link_next_no_panic with (size := 16); [apply link_ok_vernaux|exact Hd]|].
  intros [vna o]. destruct (negb _); [discriminate|].
  intros [= H]. revert H. apply np_bind; [apply strtab_get_np|intros file _]. apply np_bind; [apply strtab_get_np|discriminate].
Qed.
Theorem get_definition_np s c t i : buf_ok (svt_versym t) ->
  (forall st dd strs, svt_defs t = Some (st, dd, strs) -> buf_ok dd) ->
  get_definition s c t i <> Some Panic.
Proof.
  intros Hv Hd. unfold get_definition. destruct (svt_defs t) as [[[st0 dd] strs]|] eqn:E; [|discriminate].
  specialize (Hd _ _ _ eq_refl).
  pose proof (table_get_np' (parse_versym s c) 2 (svt_versym t) i
                (fun off => regular_np _ _ _ off (regular_versym s c) Hv)) as NP.
  destruct (table_get _ 2 (svt_versym t) i) as [ver| |]; [|discriminate|congruence].
  apply search_np; [intros st; apply verdef_next_np; exact Hd|].
  intros [vd aux]. destruct (negb _); discriminate.
Qed.

(* ---------- opening a file and every accessor ---------- *)
Section File.
  Variable f : buf.
  Hypothesis Hf : buf_ok f.

  Lemma parse_shdr_np s c off : fst (parse_shdr s c f off) <> Panic.
  Proof. apply (regular_np _ _ f off (regular_shdr s c) Hf). Qed.
  Lemma find_shdrs_np eh : find_shdrs eh f <> Panic.
  Proof.
    unfold find_shdrs. destruct (e_shoff eh =? 0); [discriminate|].
    apply np_bind.
    - destruct (e_shnum eh =? 0); [|discriminate]. apply np_bind; [apply parse_shdr_np|discriminate].
    - intros shnum _. repeat (apply np_bind; [first [apply validate_np|apply ok_or_np|apply get_bytes_np]|intros ? _]). discriminate.
  Qed.
  Lemma find_phdrs_np eh : find_phdrs eh f <> Panic.
  Proof.
    unfold find_phdrs. destruct (e_phoff eh =? 0); [discriminate|].
    apply np_bind.
    - destruct (e_phnum eh =? PN_XNUM); [|discriminate]. apply np_bind; [apply parse_shdr_np|discriminate].
    - intros phnum _. repeat (apply np_bind; [first [apply validate_np|apply ok_or_np|apply get_bytes_np]|intros ? _]). discriminate.
  Qed.
  Theorem minimal_parse_np fam : minimal_parse fam f <> Panic.
  Proof.
    unfold minimal_parse. apply np_bind; [apply get_bytes_np|intros ib _].
    apply np_bind; [apply parse_ident_no_panic|intros [[[s c] osabi] abiver] _].
    unfold open_after_ident. apply np_bind; [apply get_bytes_np|intros tb Htb].
    assert (Hb : buf_ok tb).
    { unfold get_bytes in Htb. destruct (sub f 16 _) as [x|] eqn:E; cbn [ok_or] in Htb; [|discriminate].
      injection Htb as <-. apply sub_blen in E. unfold buf_ok, ISIZE_MAX in *. lia. }
    apply np_bind; [apply (regular_np _ _ tb 0 (regular_tail s c osabi abiver) Hb)|intros eh _].
    apply np_bind; [apply find_shdrs_np|intros sh _]. apply np_bind; [apply find_phdrs_np|discriminate].
  Qed.

  Variable eb : elfbytes.
  Lemma shdr_get_np r i : shdr_get f eb r i <> Panic.
  Proof. unfold shdr_get. apply table_get_np'. intros off. apply (regular_np _ _ _ off (regular_shdr _ _) (view_ok f r Hf)). Qed.
  Lemma phdr_get_np r i : phdr_get f eb r i <> Panic.
  Proof. unfold phdr_get. apply table_get_np'. intros off. apply (regular_np _ _ _ off (regular_phdr _ _) (view_ok f r Hf)). Qed.

  Theorem shdrs_with_strtab_np : shdrs_with_strtab f eb <> Panic.
  Proof.
    unfold shdrs_with_strtab. destruct (eb_shdrs eb) as [r|]; [|discriminate].
    destruct (e_shstrndx (eb_ehdr eb) =? 0); [discriminate|].
    apply np_bind.
    - destruct (e_shstrndx (eb_ehdr eb) =? SHN_XINDEX); [|discriminate]. apply np_bind; [apply shdr_get_np|discriminate].
    - intros ndx _. apply np_bind; [apply shdr_get_np|intros st _].
      apply np_bind; [apply range_in_np, sh_range_np|discriminate].
  Qed.
  Theorem shdr_by_name_np name : shdr_by_name f eb name <> Some Panic.
  Proof.
    unfold shdr_by_name. pose proof shdrs_with_strtab_np as NP.
    destruct (shdrs_with_strtab f eb) as [[tr sr]| |]; [|discriminate|exfalso; apply NP; reflexivity].
    destruct tr as [r|]; [|discriminate]. destruct sr as [sr|]; [|discriminate]. destruct (shdr_list f eb r); discriminate.
  Qed.
  Theorem section_data_np h : section_data f eb h <> Panic.
  Proof.
    unfold section_data. destruct (sh_type h =? SHT_NOBITS); [discriminate|].
    apply np_bind; [apply range_in_np, sh_range_np|intros [a b] _].
    destruct (N.land (sh_flags h) SHF_COMPRESSED =? 0); [discriminate|].
    assert (G : forall x : res chdr * N, fst x <> Panic ->
      match x with
      | (Err e, _) => Err e
      | (Panic, _) => Panic
      | (Ok ch, off) => if b - a <? off then Err (ESliceReadError off (sh_size h)) else Ok ((a + off, b), Some ch)
      end <> Panic).
    { intros [[ch| |] off] NP; cbn [fst] in NP; [destruct (b - a <? off); discriminate|discriminate|congruence]. }
    apply G. apply (regular_np _ _ (view f (a, b)) 0 (regular_chdr (e_spec (eb_ehdr eb)) (e_class (eb_ehdr eb))) (view_ok f (a, b) Hf)).
  Qed.
  Theorem section_data_typed_np ty h : section_data_typed f eb ty h <> Panic.
  Proof.
    unfold section_data_typed. destruct (negb _); [discriminate|]. apply np_bind; [apply section_data_np|intros [r ch] _; discriminate].
  Qed.
  Theorem section_data_as_notes_np h : section_data_as_notes f eb h <> Panic.
  Proof. unfold section_data_as_notes. apply np_bind; [apply section_data_typed_np|discriminate]. Qed.
  Theorem section_data_as_dynamic_np h : section_data_as_dynamic f eb h <> Panic.
  Proof.
    unfold section_data_as_dynamic. destruct (negb _); [discriminate|]. apply np_bind; [apply validate_np|intros _ _].
    apply np_bind; [apply section_data_np|intros [r ch] _; discriminate].
  Qed.
  Theorem segment_data_np h : segment_data f h <> Panic.
  Proof. unfold segment_data. apply range_in_np, ph_range_np. Qed.
  Theorem segment_data_as_notes_np h : segment_data_as_notes f h <> Panic.
  Proof. unfold segment_data_as_notes. destruct (negb _); [discriminate|]. apply np_bind; [apply segment_data_np|discriminate]. Qed.
  Theorem dynamic_np : dynamic f eb <> Some Panic.
  Proof.
    unfold dynamic. destruct (eb_shdrs eb) as [r|].
    - destruct (shdr_list f eb r) as [l|]; [|discriminate]. destruct (find_first _ l) as [h|]; [|discriminate].
      intros [= H]. revert H. apply np_bind; [apply section_data_as_dynamic_np|discriminate].
    - destruct (eb_phdrs eb) as [pr|]; [|discriminate]. destruct (phdr_list f eb pr) as [l|]; [|discriminate].
      destruct (find_first _ l) as [h|]; [|discriminate].
      intros [= H]. revert H. apply np_bind; [apply range_in_np, ph_range_np|discriminate].
  Qed.
  Lemma symtab_of_np h strh : symtab_of f eb h strh <> Panic.
  Proof.
    unfold symtab_of. apply np_bind; [apply validate_np|intros _ _].
    apply np_bind; [apply range_in_np, sh_range_np|intros sr _]. apply np_bind; [apply range_in_np, sh_range_np|discriminate].
  Qed.
  Theorem symbol_table_np ty : symbol_table_of_type f eb ty <> Some Panic.
  Proof.
    unfold symbol_table_of_type. destruct (eb_shdrs eb) as [r|]; [|discriminate].
    destruct (shdr_list f eb r) as [l|]; [|discriminate]. destruct (find_first _ l) as [h|]; [|discriminate].
    intros [= H]. revert H. apply np_bind; [apply shdr_get_np|intros strh _]. apply np_bind; [apply symtab_of_np|discriminate].
  Qed.
  Lemma common_scan_np r : forall l acc, common_scan f eb r l acc <> Panic.
  Proof.
    induction l as [|h t IH]; intros acc; cbn [common_scan]; [discriminate|].
    apply np_bind; [|intros acc' _; apply IH].
    destruct (sh_type h =? SHT_SYMTAB).
    { apply np_bind; [apply shdr_get_np|intros strh _]. apply np_bind; [apply symtab_of_np|discriminate]. }
    destruct (sh_type h =? SHT_DYNSYM).
    { apply np_bind; [apply shdr_get_np|intros strh _]. apply np_bind; [apply symtab_of_np|discriminate]. }
    destruct (sh_type h =? SHT_DYNAMIC).
    { apply np_bind; [apply section_data_as_dynamic_np|discriminate]. }
    destruct (sh_type h =? SHT_HASH).
    { apply np_bind; [apply range_in_np, sh_range_np|intros hr _]. apply np_bind; [apply sysv_new_np, view_ok, Hf|discriminate]. }
    destruct (sh_type h =? SHT_GNU_HASH).
    { apply np_bind; [apply range_in_np, sh_range_np|intros hr _]. apply np_bind; [apply gnu_new_np, view_ok, Hf|discriminate]. }
    discriminate.
  Qed.
  Theorem find_common_data_np : find_common_data f eb <> Some Panic.
  Proof.
    unfold find_common_data.
    assert (T : forall cm0 : common,
      match cm_dynamic cm0, eb_phdrs eb with
      | None, Some pr => match phdr_list f eb pr with
                         | None => None
                         | Some pl => match find_first (fun h => p_type h =? PT_DYNAMIC) pl with
                                      | Some h => Some (let? d := range_in f (ph_range h) in
                                          Ok {| cm_symtab := cm_symtab cm0; cm_dynsyms := cm_dynsyms cm0; cm_dynamic := Some d;
                                                cm_sysv := cm_sysv cm0; cm_gnu := cm_gnu cm0 |})
                                      | None => Some (Ok cm0) end end
      | _, _ => Some (Ok cm0) end <> Some Panic).
    { intros cm0. destruct (cm_dynamic cm0); [discriminate|]. destruct (eb_phdrs eb) as [pr|]; [|discriminate].
      destruct (phdr_list f eb pr) as [pl|]; [|discriminate]. destruct (find_first _ pl) as [h|]; [|discriminate].
      intros [= H]. revert H. apply np_bind; [apply range_in_np, ph_range_np|discriminate]. }
    destruct (eb_shdrs eb) as [r|].
    - destruct (shdr_list f eb r) as [l|]; [|discriminate]. pose proof (common_scan_np r l common_empty) as NP.
      destruct (common_scan f eb r l common_empty) as [cm0| |]; [apply T|discriminate|congruence].
    - apply T.
  Qed.
  Lemma linked_np r h : linked f eb r h <> Panic.
  Proof.
    unfold linked. apply np_bind; [apply range_in_np, sh_range_np|intros dr _]. apply np_bind; [apply shdr_get_np|intros strh _].
    apply np_bind; [apply range_in_np, sh_range_np|discriminate].
  Qed.
  Theorem symbol_version_table_np : symbol_version_table f eb <> Some Panic.
  Proof.
    unfold symbol_version_table. destruct (eb_shdrs eb) as [r|]; [|discriminate].
    destruct (shdr_list f eb r) as [l|]; [|discriminate].
    destruct (symver_scan l None None None) as [[[vsh|] nd] df]; [|discriminate].
    intros [= H]. revert H. apply np_bind; [apply validate_np|intros _ _].
    apply np_bind; [apply range_in_np, sh_range_np|intros vr _].
    apply np_bind; [destruct nd as [h|]; [apply np_bind; [apply linked_np|discriminate]|discriminate]|intros needs _].
    apply np_bind; [destruct df as [h|]; [apply np_bind; [apply linked_np|discriminate]|discriminate]|discriminate].
  Qed.
End File.
