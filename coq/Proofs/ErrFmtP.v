(* Display of ParseError: the rendered numbers read back to the payload (so a message identifies
   its payload), and which variants carry a source. *)
Require Import V.Base.Prim V.Model.ErrFmt.
From Coq Require Import String Ascii Lia ZifyBool ZifyN ZifyNat List.
Ltac Zify.zify_post_hook ::= Z.div_mod_to_equations.
Open Scope N_scope.

Lemma value_of_app base s1 : forall s2 a, value_of base (s1 ++ s2)%string a = value_of base s2 (value_of base s1 a).
Proof. induction s1 as [|c t IH]; intros s2 a; cbn [append value_of]; [reflexivity|apply IH]. Qed.

Lemma app_assoc_s (a b c : string) : ((a ++ b) ++ c = a ++ (b ++ c))%string.
Proof. induction a as [|x a IH]; cbn [append]; [reflexivity|now rewrite IH]. Qed.
Lemma length_app_s (a b : string) : String.length (a ++ b)%string = (String.length a + String.length b)%nat.
Proof. induction a as [|x a IH]; cbn [append String.length]; [reflexivity|now rewrite IH]. Qed.

Lemma digit_val_char d : d < 16 -> digit_val (digit_char d) = d /\ digit_val (digit_char_l d) = d.
Proof.
  intros H. assert (E : existsb (N.eqb d) [0;1;2;3;4;5;6;7;8;9;10;11;12;13;14;15] = true).
  { cbn [existsb]. lia. }
  apply existsb_exists in E. destruct E as [x [Hin Hx]]. apply N.eqb_eq in Hx. subst x.
  cbn [In] in Hin. repeat (destruct Hin as [<-|Hin]; [vm_compute; split; reflexivity|]). contradiction.
Qed.

(* digits prepends the digit string of n to acc; read back, it is n *)
Lemma digits_spec dc base : (forall d, d < 16 -> digit_val (dc d) = d) -> 2 <= base <= 16 ->
  forall (fuel : nat) n acc, n < base ^ N.of_nat fuel ->
  exists ds, digits dc base fuel n acc = (ds ++ acc)%string /\ forall a, value_of base ds a = a * base ^ N.of_nat (String.length ds) + n.
Proof.
  intros Hdc Hb. induction fuel as [|f IH]; intros n acc Hn.
  - exists EmptyString. cbn [digits append]. split; [reflexivity|]. intros a. cbn. cbn in Hn. lia.
  - cbn [digits]. destruct (N.eqb_spec (n / base) 0) as [E|E].
    + exists (String (dc (n mod base)) EmptyString). split; [reflexivity|]. intros a. cbn [value_of String.length].
      rewrite Hdc by lia. assert (n < base) by (apply N.div_small_iff in E; lia).
      rewrite N.mod_small by lia. change (N.of_nat 1) with 1. rewrite N.pow_1_r. reflexivity.
    + assert (Hq : n / base < base ^ N.of_nat f).
      { apply N.div_lt_upper_bound; [lia|]. rewrite Nnat.Nat2N.inj_succ, N.pow_succ_r' in Hn. exact Hn. }
      destruct (IH (n / base) (String (dc (n mod base)) acc) Hq) as [ds [Ed Hv]].
      exists (ds ++ String (dc (n mod base)) EmptyString)%string. split.
      * rewrite Ed. rewrite app_assoc_s. reflexivity.
      * intros a. rewrite value_of_app, Hv. cbn [value_of]. rewrite Hdc by lia.
        rewrite length_app_s. cbn [String.length]. rewrite Nnat.Nat2N.inj_add. change (N.of_nat 1) with 1.
        rewrite N.pow_add_r, N.pow_1_r. pose proof (N.div_mod n base ltac:(lia)). nia.
Qed.
Lemma dc_u d : d < 16 -> digit_val (digit_char d) = d.  Proof. intros H. apply digit_val_char, H. Qed.
Lemma dc_l d : d < 16 -> digit_val (digit_char_l d) = d.  Proof. intros H. apply digit_val_char, H. Qed.

Theorem dec_roundtrip n : n < 2 ^ 64 -> value_of 10 (dec n) 0 = n.
Proof.
  intros H. destruct (digits_spec digit_char 10 dc_u ltac:(lia) 20 n EmptyString) as [ds [E Hv]].
  { change (N.of_nat 20) with 20. assert (2 ^ 64 < 10 ^ 20) by (vm_compute; reflexivity). lia. }
  unfold dec. rewrite E. rewrite value_of_app. cbn [value_of]. rewrite Hv. lia.
Qed.
Theorem hex_roundtrip n : n < 2 ^ 64 -> value_of 16 (hexu n) 0 = n.
Proof.
  intros H. destruct (digits_spec digit_char 16 dc_u ltac:(lia) 16 n EmptyString) as [ds [E Hv]].
  { change (N.of_nat 16) with 16. assert (2 ^ 64 = 16 ^ 16) by (vm_compute; reflexivity). lia. }
  unfold hexu. rewrite E. rewrite value_of_app. cbn [value_of]. rewrite Hv. lia.
Qed.

Theorem hexl_roundtrip n : n < 2 ^ 64 -> value_of 16 (hexl n) 0 = n.
Proof.
  intros H. destruct (digits_spec digit_char_l 16 dc_l ltac:(lia) 16 n EmptyString) as [ds [E Hv]].
  { change (N.of_nat 16) with 16. assert (2 ^ 64 = 16 ^ 16) by (vm_compute; reflexivity). lia. }
  unfold hexl. rewrite E. rewrite value_of_app. cbn [value_of]. rewrite Hv. lia.
Qed.

(* every variant that does not wrap a standard-library error has a message of its own and no source *)
Theorem display_or_source e : (perr_display e = None <-> perr_has_source e = true).
Proof. destruct e; cbn; split; intros H; try discriminate; reflexivity. Qed.

Example display_examples :
  perr_display (EBadOffset 255) = Some "Bad offset: 0xFF"%string /\
  perr_display (EBadMagic 127 69 76 4) = Some "Invalid Magic Bytes: [7F, 45, 4C, 4]"%string /\
  perr_display (ESliceReadError 16 52) = Some "Could not read bytes in range [0x10, 0x34)"%string /\
  perr_display (EUnsupportedVersion 3 1) = Some "Unsupported ELF Version field found: 3 expected: 1"%string.
Proof. repeat split; vm_compute; reflexivity. Qed.
