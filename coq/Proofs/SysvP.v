(* C12: completeness of the SysV lookup on well-formed tables *)
Require Import V.Base.Prim V.Model.Structs V.Model.Table V.Model.StrTab V.Model.Hash V.Proofs.PrimFacts V.Proofs.HashP.
From Coq Require Import Lia ZifyBool ZifyN ZifyNat.
Open Scope N_scope.

(* ---------- C12 completeness on well-formed SysV tables ---------- *)
Require Import V.Spec.HashWf.
Section SysvComplete.
  Variables (s : espec) (c : class) (buckets chains symtab strtab : buf) (name : list N).
  Notation walk := (sysv_walk s c chains symtab strtab name).
  Notation sname := (sym_name s c symtab strtab).

  Lemma chain_path_fun idx p q : chain_path s c chains idx p -> chain_path s c chains idx q -> p = q.
  Proof.
    intros H. revert q. induction H as [|i nxt p Hi Hn Hp IH]; intros q Hq; inversion Hq; subst; try congruence.
    f_equal. apply IH. congruence.
  Qed.

  Lemma walk_path idx p : chain_path s c chains idx p ->
    Forall (fun i => exists nm, sname i = Some nm) p ->
    forall fuel, (length p <= fuel)%nat ->
    ((exists i, In i p /\ sname i = Some name) -> exists j y, walk fuel idx = Ok (Some (j, y))) /\
    ((forall i, In i p -> sname i <> Some name) -> walk fuel idx = Ok None).
  Proof.
    intros Hp. induction Hp as [|i nxt p Hi Hn Hp IH]; intros Hr fuel Hf.
    - split.
      + intros [i [Hin _]]. destruct Hin.
      + intros Hno. destruct fuel as [|f0]; reflexivity.
    - destruct fuel as [|f]; [cbn in Hf; lia|]. cbn [sysv_walk].
      replace (i =? 0) with false by lia.
      inversion Hr as [|? ? [nm Hnm] Hr']; subst.
      unfold sym_name in Hnm.
      destruct (table_get (parse_sym s c) (sym_size c) symtab i) as [y| |] eqn:Ey; try discriminate.
      destruct (get_raw strtab (st_name y)) as [r| |] eqn:Er; try discriminate.
      injection Hnm as Hnm. cbn [rbind]. rewrite Er. cbn [rbind].
      assert (Hsn : sname i = Some nm) by (unfold sym_name; now rewrite Ey, Er, Hnm).
      destruct (list_eqb (range_bytes strtab r) name) eqn:El.
      + split; [intros _; exists i, y; reflexivity|]. intros Hno. exfalso. apply (Hno i (or_introl eq_refl)).
        apply list_eqb_eq in El. congruence.
      + unfold word_at in Hn. destruct (table_get (parse_u32 s c) 4 chains i) as [nx| |]; try discriminate.
        injection Hn as ->. cbn [rbind].
        destruct (IH Hr' f ltac:(cbn in Hf; lia)) as [IHa IHb]. split.
        * intros [j [[<-|Hj] Hjn]].
          -- exfalso. assert (range_bytes strtab r = name) by congruence.
             apply list_eqb_eq in H. congruence.
          -- apply IHa. eauto.
        * intros Hno. apply IHb. intros j Hj. apply Hno. now right.
  Qed.

  Hypothesis Hwf : sysv_wf s c buckets chains symtab strtab.
  Notation find := (sysv_find_in s c buckets chains symtab strtab name).

  (* every hashed symbol is found by name *)
  Theorem sysv_complete_present :
    (exists i, 1 <= i < nchain chains /\ sname i = Some name) ->
    exists j y, find = Ok (Some (j, y)).
  Proof.
    intros [i [Hi Hn]]. destruct Hwf as [Hnb Hpaths Hmem].
    destruct (Hmem i name Hi Hn) as [idx [p [Hb [Hp Hin]]]].
    assert (Hlt : sysv_hash name mod nbucket buckets < nbucket buckets) by (apply N.mod_lt; lia).
    destruct (Hpaths _ Hlt) as [idx' [p' [Hb' [Hp' [Hlen Hr]]]]].
    assert (idx' = idx) by congruence. subst idx'.
    rewrite (chain_path_fun _ _ _ Hp' Hp) in *.
    unfold sysv_find_in. unfold nbucket in *. unfold table_is_empty.
    replace (table_len 4 buckets =? 0) with false by lia.
    unfold word_at in Hb. destruct (table_get (parse_u32 s c) 4 buckets _) as [ix| |]; try discriminate.
    injection Hb as ->. cbn [rbind].
    destruct (walk_path idx p Hp Hr (N.to_nat (table_len 4 chains)) Hlen) as [Ha _].
    apply Ha. eauto.
  Qed.

  (* every absent name gives None *)
  Theorem sysv_complete_absent :
    (forall i, 1 <= i < nchain chains -> sname i <> Some name) -> find = Ok None.
  Proof.
    intros Hno. destruct Hwf as [Hnb Hpaths Hmem].
    assert (Hlt : sysv_hash name mod nbucket buckets < nbucket buckets) by (apply N.mod_lt; lia).
    destruct (Hpaths _ Hlt) as [idx [p [Hb [Hp [Hlen Hr]]]]].
    unfold sysv_find_in. unfold nbucket in *. unfold table_is_empty.
    replace (table_len 4 buckets =? 0) with false by lia.
    unfold word_at in Hb. destruct (table_get (parse_u32 s c) 4 buckets _) as [ix| |]; try discriminate.
    injection Hb as ->. cbn [rbind].
    destruct (walk_path idx p Hp Hr (N.to_nat (table_len 4 chains)) Hlen) as [_ Hb].
    apply Hb. intros i Hin. apply Hno.
    (* members of a chain path are non-zero indexes with a readable chain word, hence < nchain *)
    clear - Hp Hin. induction Hp as [|j nxt q Hj Hn Hq IH]; [destruct Hin|].
    destruct Hin as [<-|Hin]; [|now apply IH].
    unfold word_at, table_get, checked_mul, nchain, table_len in *.
    destruct (blen chains =? 0) eqn:E0; [discriminate|].
    destruct (j * 4 <=? USIZE_MAX) eqn:E1; [|discriminate].
    destruct (blen chains <? j * 4) eqn:E2; [discriminate|].
    unfold parse_u32, u32, parse_uint, checked_add in Hn.
    destruct (j * 4 + N.of_nat 4 <=? USIZE_MAX); [|discriminate].
    destruct (j * 4 + N.of_nat 4 <=? blen chains) eqn:E3; [|discriminate]. lia.
  Qed.
End SysvComplete.
