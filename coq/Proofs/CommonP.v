(* C20: alternative access paths to the same data agree. *)
Require Import V.Base.Prim V.Model.Structs V.Model.Table V.Model.StrTab V.Model.Utf8 V.Model.File V.Model.Hash
        V.Model.Note V.Model.SymVer V.Model.ElfBytes V.Proofs.PrimFacts V.Proofs.HashP.
From Coq Require Import Lia ZifyBool ZifyN ZifyNat.
Open Scope N_scope.

(* the last / first section of a type, in table order *)
Fixpoint last_of (ty : N) (l : list shdr) : option shdr :=
  match l with
  | [] => None
  | h :: t => match last_of ty t with
              | Some x => Some x
              | None => if sh_type h =? ty then Some h else None
              end
  end.
Definition first_of (ty : N) (l : list shdr) : option shdr := find_first (fun h => sh_type h =? ty) l.
Fixpoint count_of (ty : N) (l : list shdr) : nat :=
  match l with [] => O | h :: t => ((if N.eqb (sh_type h) ty then 1 else 0) + count_of ty t)%nat end.

Lemma last_of_none_count ty l : last_of ty l = None -> count_of ty l = O.
Proof.
  induction l as [|h t IH]; cbn [last_of count_of]; [reflexivity|].
  destruct (last_of ty t); [discriminate|]. destruct (sh_type h =? ty); [discriminate|]. intros _. now rewrite IH.
Qed.
Lemma count_zero_first ty l : count_of ty l = O -> first_of ty l = None.
Proof.
  unfold first_of. induction l as [|h t IH]; cbn [find_first count_of]; [reflexivity|].
  destruct (sh_type h =? ty); [discriminate|]. exact IH.
Qed.
(* at most one section of the type: first = last *)
Lemma unique_first_last ty l : (count_of ty l <= 1)%nat -> first_of ty l = last_of ty l.
Proof.
  unfold first_of. induction l as [|h t IH]; cbn [find_first last_of count_of]; [reflexivity|].
  destruct (sh_type h =? ty) eqn:E.
  - intros H. assert (Hz : count_of ty t = O) by lia.
    destruct (last_of ty t) eqn:El; [|reflexivity].
    exfalso. clear IH H. revert s El. induction t as [|a t IHt]; cbn [last_of count_of] in *; [discriminate|].
    destruct (sh_type a =? ty); [discriminate|]. intros s. destruct (last_of ty t) eqn:E2.
    + intros _. eapply IHt; [exact Hz|reflexivity].
    + discriminate.
  - intros H. rewrite IH by lia. destruct (last_of ty t); reflexivity.
Qed.

Section Common.
  Variables (f : buf) (eb : elfbytes) (r : N * N).
  Let s := e_spec (eb_ehdr eb).
  Let c := e_class (eb_ehdr eb).

  (* what the one-pass scan leaves in each field: the entry for the LAST section of the kind *)
  Definition sym_entry (h : shdr) (v : option ((N * N) * (N * N))) : Prop :=
    exists strh p, shdr_get f eb r (sh_link h) = Ok strh /\ symtab_of f eb h strh = Ok p /\ v = Some p.
  Definition dyn_entry (h : shdr) (v : option (N * N)) : Prop :=
    exists d, section_data_as_dynamic f eb h = Ok d /\ v = Some d.
  Definition sysv_entry (h : shdr) (v : option ((N * N) * sysvtab)) : Prop :=
    exists hr t, range_in f (sh_range h) = Ok hr /\ sysv_new s c (view f hr) = Ok t /\ v = Some (hr, t).
  Definition gnu_entry (h : shdr) (v : option ((N * N) * gnutab)) : Prop :=
    exists hr t, range_in f (sh_range h) = Ok hr /\ gnu_new s c (view f hr) = Ok t /\ v = Some (hr, t).

  Definition field_spec {V} (ty : N) (l : list shdr) (entry : shdr -> option V -> Prop) (before after : option V) : Prop :=
    match last_of ty l with None => after = before | Some h => entry h after end.

  Lemma types_distinct : SHT_SYMTAB <> SHT_DYNSYM /\ SHT_SYMTAB <> SHT_DYNAMIC /\ SHT_SYMTAB <> SHT_HASH /\
    SHT_SYMTAB <> SHT_GNU_HASH /\ SHT_DYNSYM <> SHT_DYNAMIC /\ SHT_DYNSYM <> SHT_HASH /\ SHT_DYNSYM <> SHT_GNU_HASH /\
    SHT_DYNAMIC <> SHT_HASH /\ SHT_DYNAMIC <> SHT_GNU_HASH /\ SHT_HASH <> SHT_GNU_HASH.
  Proof. repeat split; discriminate. Qed.

  Lemma common_scan_spec : forall l acc cm, common_scan f eb r l acc = Ok cm ->
    field_spec SHT_SYMTAB l sym_entry (cm_symtab acc) (cm_symtab cm) /\
    field_spec SHT_DYNSYM l sym_entry (cm_dynsyms acc) (cm_dynsyms cm) /\
    field_spec SHT_DYNAMIC l dyn_entry (cm_dynamic acc) (cm_dynamic cm) /\
    field_spec SHT_HASH l sysv_entry (cm_sysv acc) (cm_sysv cm) /\
    field_spec SHT_GNU_HASH l gnu_entry (cm_gnu acc) (cm_gnu cm).
  Proof.
    induction l as [|h t IH]; intros acc cm H.
    - cbn [common_scan] in H. injection H as <-. unfold field_spec. cbn [last_of]. tauto.
    - cbn [common_scan] in H. fold s c in H.
      pose proof types_distinct as TD.
      destruct (sh_type h =? SHT_SYMTAB) eqn:E1.
      { destruct (shdr_get f eb r (sh_link h)) as [strh| |] eqn:Eg; cbn [rbind] in H; try discriminate.
        destruct (symtab_of f eb h strh) as [p| |] eqn:Ep; cbn [rbind] in H; try discriminate.
        destruct (IH _ _ H) as [A [B [C [D E]]]]. cbn [cm_symtab cm_dynsyms cm_dynamic cm_sysv cm_gnu] in *.
        unfold field_spec in *. cbn [last_of].
        replace (sh_type h =? SHT_DYNSYM) with false by lia. replace (sh_type h =? SHT_DYNAMIC) with false by lia.
        replace (sh_type h =? SHT_HASH) with false by lia. replace (sh_type h =? SHT_GNU_HASH) with false by lia.
        rewrite E1. repeat split.
        - destruct (last_of SHT_SYMTAB t); [exact A|]. exists strh, p. now rewrite A.
        - destruct (last_of SHT_DYNSYM t); assumption.
        - destruct (last_of SHT_DYNAMIC t); assumption.
        - destruct (last_of SHT_HASH t); assumption.
        - destruct (last_of SHT_GNU_HASH t); assumption. }
      destruct (sh_type h =? SHT_DYNSYM) eqn:E2.
      { destruct (shdr_get f eb r (sh_link h)) as [strh| |] eqn:Eg; cbn [rbind] in H; try discriminate.
        destruct (symtab_of f eb h strh) as [p| |] eqn:Ep; cbn [rbind] in H; try discriminate.
        destruct (IH _ _ H) as [A [B [C [D E]]]]. cbn [cm_symtab cm_dynsyms cm_dynamic cm_sysv cm_gnu] in *.
        unfold field_spec in *. cbn [last_of].
        replace (sh_type h =? SHT_DYNAMIC) with false by lia.
        replace (sh_type h =? SHT_HASH) with false by lia. replace (sh_type h =? SHT_GNU_HASH) with false by lia.
        rewrite E1, E2. repeat split.
        - destruct (last_of SHT_SYMTAB t); assumption.
        - destruct (last_of SHT_DYNSYM t); [exact B|]. exists strh, p. now rewrite B.
        - destruct (last_of SHT_DYNAMIC t); assumption.
        - destruct (last_of SHT_HASH t); assumption.
        - destruct (last_of SHT_GNU_HASH t); assumption. }
      destruct (sh_type h =? SHT_DYNAMIC) eqn:E3.
      { destruct (section_data_as_dynamic f eb h) as [d| |] eqn:Ed; cbn [rbind] in H; try discriminate.
        destruct (IH _ _ H) as [A [B [C [D E]]]]. cbn [cm_symtab cm_dynsyms cm_dynamic cm_sysv cm_gnu] in *.
        unfold field_spec in *. cbn [last_of].
        replace (sh_type h =? SHT_HASH) with false by lia. replace (sh_type h =? SHT_GNU_HASH) with false by lia.
        rewrite E1, E2, E3. repeat split.
        - destruct (last_of SHT_SYMTAB t); assumption.
        - destruct (last_of SHT_DYNSYM t); assumption.
        - destruct (last_of SHT_DYNAMIC t); [exact C|]. exists d. now rewrite C.
        - destruct (last_of SHT_HASH t); assumption.
        - destruct (last_of SHT_GNU_HASH t); assumption. }
      destruct (sh_type h =? SHT_HASH) eqn:E4.
      { destruct (range_in f (sh_range h)) as [hr| |] eqn:Er; cbn [rbind] in H; try discriminate.
        destruct (sysv_new s c (view f hr)) as [tb| |] eqn:Et; cbn [rbind] in H; try discriminate.
        destruct (IH _ _ H) as [A [B [C [D E]]]]. cbn [cm_symtab cm_dynsyms cm_dynamic cm_sysv cm_gnu] in *.
        unfold field_spec in *. cbn [last_of].
        replace (sh_type h =? SHT_GNU_HASH) with false by lia.
        rewrite E1, E2, E3, E4. repeat split.
        - destruct (last_of SHT_SYMTAB t); assumption.
        - destruct (last_of SHT_DYNSYM t); assumption.
        - destruct (last_of SHT_DYNAMIC t); assumption.
        - destruct (last_of SHT_HASH t); [exact D|]. exists hr, tb. now rewrite D.
        - destruct (last_of SHT_GNU_HASH t); assumption. }
      destruct (sh_type h =? SHT_GNU_HASH) eqn:E5.
      { destruct (range_in f (sh_range h)) as [hr| |] eqn:Er; cbn [rbind] in H; try discriminate.
        destruct (gnu_new s c (view f hr)) as [tb| |] eqn:Et; cbn [rbind] in H; try discriminate.
        destruct (IH _ _ H) as [A [B [C [D E]]]]. cbn [cm_symtab cm_dynsyms cm_dynamic cm_sysv cm_gnu] in *.
        unfold field_spec in *. cbn [last_of].
        rewrite E1, E2, E3, E4, E5. repeat split.
        - destruct (last_of SHT_SYMTAB t); assumption.
        - destruct (last_of SHT_DYNSYM t); assumption.
        - destruct (last_of SHT_DYNAMIC t); assumption.
        - destruct (last_of SHT_HASH t); assumption.
        - destruct (last_of SHT_GNU_HASH t); [exact E|]. exists hr, tb. now rewrite E. }
      cbn [rbind] in H. destruct (IH _ _ H) as [A [B [C [D E]]]].
      unfold field_spec in *. cbn [last_of]. rewrite E1, E2, E3, E4, E5.
      repeat split.
      + destruct (last_of SHT_SYMTAB t); assumption.
      + destruct (last_of SHT_DYNSYM t); assumption.
      + destruct (last_of SHT_DYNAMIC t); assumption.
      + destruct (last_of SHT_HASH t); assumption.
      + destruct (last_of SHT_GNU_HASH t); assumption.
  Qed.
End Common.

Lemma count_pos_last ty l : (0 < count_of ty l)%nat -> last_of ty l <> None.
Proof. intros H E. apply last_of_none_count in E. lia. Qed.

(* the result of find_common_data before the PT_DYNAMIC fallback: only cm_dynamic can change *)
Lemma fcd_shape f eb cm : find_common_data f eb = Some (Ok cm) ->
  match eb_shdrs eb with
  | None => cm_symtab cm = None /\ cm_dynsyms cm = None /\ cm_sysv cm = None /\ cm_gnu cm = None
  | Some r => exists l cm0, shdr_list f eb r = Some l /\ common_scan f eb r l common_empty = Ok cm0 /\
                cm_symtab cm = cm_symtab cm0 /\ cm_dynsyms cm = cm_dynsyms cm0 /\ cm_sysv cm = cm_sysv cm0 /\
                cm_gnu cm = cm_gnu cm0 /\
                (cm_dynamic cm0 <> None -> cm_dynamic cm = cm_dynamic cm0)
  end.
Proof.
  unfold find_common_data.
  assert (G : forall cm0, match (match cm_dynamic cm0, eb_phdrs eb with
                 | None, Some pr => match phdr_list f eb pr with
                                    | None => None
                                    | Some pl => match find_first (fun h => p_type h =? PT_DYNAMIC) pl with
                                                 | Some h => Some (let? d := range_in f (ph_range h) in
                                                     Ok {| cm_symtab := cm_symtab cm0; cm_dynsyms := cm_dynsyms cm0;
                                                           cm_dynamic := Some d; cm_sysv := cm_sysv cm0; cm_gnu := cm_gnu cm0 |})
                                                 | None => Some (Ok cm0) end end
                 | _, _ => Some (Ok cm0) end) with
           | Some (Ok cm) => cm_symtab cm = cm_symtab cm0 /\ cm_dynsyms cm = cm_dynsyms cm0 /\ cm_sysv cm = cm_sysv cm0 /\
                             cm_gnu cm = cm_gnu cm0 /\ (cm_dynamic cm0 <> None -> cm_dynamic cm = cm_dynamic cm0)
           | _ => True end).
  { intros cm0. destruct (cm_dynamic cm0) eqn:Ed.
    - tauto.
    - destruct (eb_phdrs eb) as [pr|]; [|rewrite Ed; tauto].
      destruct (phdr_list f eb pr) as [pl|]; [|exact I].
      destruct (find_first _ pl) as [h|]; [|rewrite Ed; tauto].
      destruct (range_in f (ph_range h)); cbn [rbind]; try exact I. cbn. tauto. }
  destruct (eb_shdrs eb) as [r|].
  - destruct (shdr_list f eb r) as [l|] eqn:El; [|discriminate].
    destruct (common_scan f eb r l common_empty) as [cm0| |] eqn:Ec; try discriminate.
    intros H. specialize (G cm0). rewrite H in G. exists l, cm0. tauto.
  - intros H. specialize (G common_empty). rewrite H in G. cbn in G. tauto.
Qed.

Theorem common_symtabs f eb cm r l : find_common_data f eb = Some (Ok cm) ->
  eb_shdrs eb = Some r -> shdr_list f eb r = Some l ->
  ((count_of SHT_SYMTAB l <= 1)%nat -> symbol_table f eb = Some (Ok (cm_symtab cm))) /\
  ((count_of SHT_DYNSYM l <= 1)%nat -> dynamic_symbol_table f eb = Some (Ok (cm_dynsyms cm))).
Proof.
  intros H Hr Hl. pose proof (fcd_shape f eb cm H) as S. rewrite Hr in S.
  destruct S as [l' [cm0 [El [Ec [A [B _]]]]]]. rewrite Hl in El. injection El as <-.
  destruct (common_scan_spec f eb r l common_empty cm0 Ec) as [FA [FB _]].
  unfold symbol_table, dynamic_symbol_table, symbol_table_of_type. rewrite Hr, Hl.
  split; intros Hu.
  - change (find_first (fun h => sh_type h =? SHT_SYMTAB) l) with (first_of SHT_SYMTAB l).
    rewrite (unique_first_last _ _ Hu). unfold field_spec in FA. rewrite A.
    destruct (last_of SHT_SYMTAB l) as [h|].
    + destruct FA as [strh [p [E1 [E2 E3]]]]. rewrite E1. cbn [rbind]. rewrite E2. cbn [rbind]. now rewrite E3.
    + rewrite FA. reflexivity.
  - change (find_first (fun h => sh_type h =? SHT_DYNSYM) l) with (first_of SHT_DYNSYM l).
    rewrite (unique_first_last _ _ Hu). unfold field_spec in FB. rewrite B.
    destruct (last_of SHT_DYNSYM l) as [h|].
    + destruct FB as [strh [p [E1 [E2 E3]]]]. rewrite E1. cbn [rbind]. rewrite E2. cbn [rbind]. now rewrite E3.
    + rewrite FB. reflexivity.
Qed.

Theorem common_dynamic f eb cm : find_common_data f eb = Some (Ok cm) ->
  match eb_shdrs eb with
  | Some r => forall l, shdr_list f eb r = Some l -> count_of SHT_DYNAMIC l = 1%nat ->
              dynamic f eb = Some (Ok (cm_dynamic cm))
  | None => dynamic f eb = Some (Ok (cm_dynamic cm))
  end.
Proof.
  intros H. destruct (eb_shdrs eb) as [r|] eqn:Hr.
  - intros l Hl Hu. pose proof (fcd_shape f eb cm H) as S. rewrite Hr in S.
    destruct S as [l' [cm0 [El [Ec [_ [_ [_ [_ D]]]]]]]]. rewrite Hl in El. injection El as <-.
    destruct (common_scan_spec f eb r l common_empty cm0 Ec) as [_ [_ [FC _]]].
    unfold dynamic. rewrite Hr, Hl.
    change (find_first (fun h => sh_type h =? SHT_DYNAMIC) l) with (first_of SHT_DYNAMIC l).
    rewrite (unique_first_last SHT_DYNAMIC l ltac:(lia)). unfold field_spec in FC.
    pose proof (count_pos_last SHT_DYNAMIC l ltac:(lia)) as Hne.
    destruct (last_of SHT_DYNAMIC l) as [h|]; [|congruence].
    destruct FC as [d [E1 E2]]. rewrite E1. cbn [rbind]. rewrite D by (rewrite E2; discriminate). now rewrite E2.
  - unfold find_common_data in H. unfold dynamic. rewrite Hr in *. cbn [common_empty cm_dynamic] in H.
    destruct (eb_phdrs eb) as [pr|]; [|injection H as <-; reflexivity].
    destruct (phdr_list f eb pr) as [pl|]; [|discriminate].
    destruct (find_first _ pl) as [h|]; [|injection H as <-; reflexivity].
    destruct (range_in f (ph_range h)) as [d| |]; cbn [rbind] in *; try discriminate.
    injection H as <-. reflexivity.
Qed.

(* the hash tables of the common data are `new` of the (last = only) hash section's data *)
Theorem common_hashes f eb cm r l : find_common_data f eb = Some (Ok cm) ->
  eb_shdrs eb = Some r -> shdr_list f eb r = Some l ->
  field_spec SHT_HASH l (sysv_entry f eb) None (cm_sysv cm) /\
  field_spec SHT_GNU_HASH l (gnu_entry f eb) None (cm_gnu cm).
Proof.
  intros H Hr Hl. pose proof (fcd_shape f eb cm H) as S. rewrite Hr in S.
  destruct S as [l' [cm0 [El [Ec [_ [_ [C [D _]]]]]]]]. rewrite Hl in El. injection El as <-.
  destruct (common_scan_spec f eb r l common_empty cm0 Ec) as [_ [_ [_ [FD FE]]]].
  rewrite C, D. split; assumption.
Qed.

(* ---------- lookup by name: the first section whose name string equals the query ---------- *)
Lemma find_first_spec {T} (p : T -> bool) l x : find_first p l = Some x ->
  exists pre post, l = pre ++ x :: post /\ p x = true /\ Forall (fun y => p y = false) pre.
Proof.
  induction l as [|a t IH]; cbn [find_first]; [discriminate|]. destruct (p a) eqn:E.
  - intros [= <-]. exists [], t. split; [reflexivity|]. split; [exact E|constructor].
  - intros H. destruct (IH H) as [pre [post [-> [Hx Hp]]]]. exists (a :: pre), post.
    split; [reflexivity|]. split; [exact Hx|]. constructor; assumption.
Qed.
Lemma find_first_none {T} (p : T -> bool) l : find_first p l = None -> Forall (fun y => p y = false) l.
Proof.
  induction l as [|a t IH]; cbn [find_first]; [constructor|]. destruct (p a) eqn:E; [discriminate|].
  intros H. constructor; [exact E|now apply IH].
Qed.

Definition name_is (st : buf) (name : list N) (h : shdr) : bool :=
  match strtab_get st (sh_name h) with Ok nr => list_eqb (range_bytes st nr) name | _ => false end.

Theorem by_name_spec f eb r sr l name : shdrs_with_strtab f eb = Ok (Some r, Some sr) ->
  shdr_list f eb r = Some l ->
  match shdr_by_name f eb name with
  | Some (Ok (Some h)) => exists pre post, l = pre ++ h :: post /\ name_is (view f sr) name h = true /\
                                           Forall (fun y => name_is (view f sr) name y = false) pre
  | Some (Ok None) => Forall (fun y => name_is (view f sr) name y = false) l
  | _ => False
  end.
Proof.
  intros Hs Hl. unfold shdr_by_name. rewrite Hs, Hl.
  change (fun h => match strtab_get (view f sr) (sh_name h) with
                   | Ok nr => list_eqb (range_bytes (view f sr) nr) name | _ => false end)
    with (name_is (view f sr) name).
  destruct (find_first (name_is (view f sr) name) l) as [h|] eqn:E.
  - now apply find_first_spec.
  - now apply find_first_none.
Qed.
(* name_is: the name string is valid UTF-8 and its bytes equal the query *)
Theorem name_is_spec st name h : name_is st name h = true <->
  exists nr, strtab_get st (sh_name h) = Ok nr /\ range_bytes st nr = name.
Proof.
  unfold name_is. destruct (strtab_get st (sh_name h)) as [nr| |].
  - rewrite list_eqb_eq. split; [intros H; exists nr; tauto|intros [n2 [[= <-] H]]; exact H].
  - split; [discriminate|intros [n2 [H _]]; discriminate].
  - split; [discriminate|intros [n2 [H _]]; discriminate].
Qed.
