(* C13 / C16 / C01 for gnu_symver.rs: the four linked-record iterators. *)
Require Import V.Base.Prim V.Spec.Ints V.Ref.RefLayout V.Spec.AbiLayout V.Model.Structs V.Model.Table
        V.Model.StrTab V.Model.SymVer V.Proofs.PrimFacts V.Proofs.StructsP.
From Coq Require Import Lia ZifyBool ZifyN ZifyNat String.
Ltac Zify.zify_post_hook ::= Z.div_mod_to_equations.
Open Scope N_scope.

(* what the iterators need from a record parser *)
Record link_ok {T} (parse : buf -> M T) (nxt : T -> N) (size : N) : Prop := {
  lk_size : 0 < size;
  lk_ok : forall d off x, buf_ok d -> fst (parse d off) = Ok x -> off + size <= blen d /\ nxt x <= U32_MAX;
  lk_nopanic : forall d off, buf_ok d -> fst (parse d off) <> Panic
}.

Lemma uvalue4_bound le d o : uvalue le (bytes_at d o 4) <= U32_MAX.
Proof.
  pose proof (uvalue_bound le (bytes_at d o 4)) as H. unfold llen in H. rewrite bytes_at_length in H.
  unfold U32_MAX. change (256 ^ N.of_nat 4) with 4294967296 in H. lia.
Qed.
Lemma fval4_bound l le d off name o : field_off l name 0 = Some (o, U 4) -> fval l le d off name <= U32_MAX.
Proof. intros H. unfold fval. rewrite H. apply uvalue4_bound. Qed.

Lemma link_ok_verdaux s c : link_ok (parse_verdaux s c) vda_next 8.
Proof.
  constructor; [reflexivity| |].
  - intros d off x Hd H. destruct (N.le_gt_cases (off + 8) (blen d)) as [Hle|Hgt].
    + rewrite (parse_verdaux_ok s c d off Hd Hle) in H. cbn [fst] in H. injection H as <-. split; [exact Hle|].
      unfold verdaux_spec; cbn [vda_next]. apply fval4_bound with (o := 4). vm_compute. reflexivity.
    + destruct (regular_verdaux s c d off Hd) as [_ Hs]. destruct (Hs Hgt) as [e [o' [E _]]].
      rewrite E in H. discriminate.
  - intros d off Hd Hp. destruct (N.le_gt_cases (off + 8) (blen d)) as [Hle|Hgt].
    + rewrite (parse_verdaux_ok s c d off Hd Hle) in Hp. discriminate.
    + destruct (regular_verdaux s c d off Hd) as [_ Hs]. destruct (Hs Hgt) as [e [o' [E _]]].
      rewrite E in Hp. discriminate.
Qed.
Lemma link_ok_vernaux s c : link_ok (parse_vernaux s c) vna_next 16.
Proof.
  constructor; [reflexivity| |].
  - intros d off x Hd H. destruct (N.le_gt_cases (off + 16) (blen d)) as [Hle|Hgt].
    + rewrite (parse_vernaux_ok s c d off Hd Hle) in H. cbn [fst] in H. injection H as <-. split; [exact Hle|].
      unfold vernaux_spec; cbn [vna_next]. apply fval4_bound with (o := 12). vm_compute. reflexivity.
    + destruct (regular_vernaux s c d off Hd) as [_ Hs]. destruct (Hs Hgt) as [e [o' [E _]]].
      rewrite E in H. discriminate.
  - intros d off Hd Hp. destruct (N.le_gt_cases (off + 16) (blen d)) as [Hle|Hgt].
    + rewrite (parse_vernaux_ok s c d off Hd Hle) in Hp. discriminate.
    + destruct (regular_vernaux s c d off Hd) as [_ Hs]. destruct (Hs Hgt) as [e [o' [E _]]].
      rewrite E in Hp. discriminate.
Qed.

(* Verdef / Verneed: not regular (version guard), but short input is still an error *)
Lemma parse_verdef_short s c d off : buf_ok d -> blen d < off + 20 ->
  exists e o, parse_verdef s c d off = (Err e, o).
Proof.
  intros Hd H. unfold parse_verdef, bind at 1.
  destruct (N.le_gt_cases (off + 2) (blen d)) as [Hle|Hgt].
  - unfold u16 at 1. rewrite parse_uint_ok by (try assumption; cbn; lia). cbn [N.of_nat Pos.of_succ_nat Pos.succ].
    destruct (negb (_ =? 1)); [unfold fail; eauto|].
    assert (R : regular 18 (fun d => f <- u16 s d;; n <- u16 s d;; k <- u16 s d;; h <- u32 s d;; a <- u32 s d;; x <- u32 s d;;
                 ret {| vd_flags := f; vd_ndx := n; vd_cnt := k; vd_hash := h; vd_aux := a; vd_next := x |})).
    { eapply regular_eq; [unfold u16, u32; reg|reflexivity]. }
    destruct (R d (off + 2) Hd) as [_ Hs]. destruct Hs as [e [o' [E _]]]; [lia|]. rewrite E. eauto.
  - unfold u16 at 1. rewrite parse_uint_short by (try assumption; cbn; lia). eauto.
Qed.
Lemma parse_verneed_short s c d off : buf_ok d -> blen d < off + 16 ->
  exists e o, parse_verneed s c d off = (Err e, o).
Proof.
  intros Hd H. unfold parse_verneed, bind at 1.
  destruct (N.le_gt_cases (off + 2) (blen d)) as [Hle|Hgt].
  - unfold u16 at 1. rewrite parse_uint_ok by (try assumption; cbn; lia). cbn [N.of_nat Pos.of_succ_nat Pos.succ].
    destruct (negb (_ =? 1)); [unfold fail; eauto|].
    assert (R : regular 14 (fun d => k <- u16 s d;; f <- u32 s d;; a <- u32 s d;; x <- u32 s d;;
                 ret {| vn_cnt := k; vn_file := f; vn_aux := a; vn_next := x |})).
    { eapply regular_eq; [unfold u16, u32; reg|reflexivity]. }
    destruct (R d (off + 2) Hd) as [_ Hs]. destruct Hs as [e [o' [E _]]]; [lia|]. rewrite E. eauto.
  - unfold u16 at 1. rewrite parse_uint_short by (try assumption; cbn; lia). eauto.
Qed.

Lemma link_ok_verdef s c : link_ok (parse_verdef s c) vd_next 20.
Proof.
  constructor; [reflexivity| |].
  - intros d off x Hd H. destruct (N.le_gt_cases (off + 20) (blen d)) as [Hle|Hgt].
    + rewrite (parse_verdef_ok s c d off Hd Hle) in H. cbv zeta in H.
      destruct (_ =? 1); cbn [fst] in H; [|discriminate]. injection H as <-. split; [exact Hle|].
      unfold verdef_spec; cbn [vd_next]. apply fval4_bound with (o := 16). vm_compute. reflexivity.
    + destruct (parse_verdef_short s c d off Hd Hgt) as [e [o E]]. rewrite E in H. discriminate.
  - intros d off Hd Hp. destruct (N.le_gt_cases (off + 20) (blen d)) as [Hle|Hgt].
    + rewrite (parse_verdef_ok s c d off Hd Hle) in Hp. cbv zeta in Hp. destruct (_ =? 1); discriminate.
    + destruct (parse_verdef_short s c d off Hd Hgt) as [e [o E]]. rewrite E in Hp. discriminate.
Qed.
Lemma link_ok_verneed s c : link_ok (parse_verneed s c) vn_next 16.
Proof.
  constructor; [reflexivity| |].
  - intros d off x Hd H. destruct (N.le_gt_cases (off + 16) (blen d)) as [Hle|Hgt].
    + rewrite (parse_verneed_ok s c d off Hd Hle) in H. cbv zeta in H.
      destruct (_ =? 1); cbn [fst] in H; [|discriminate]. injection H as <-. split; [exact Hle|].
      unfold verneed_spec; cbn [vn_next]. apply fval4_bound with (o := 12). vm_compute. reflexivity.
    + destruct (parse_verneed_short s c d off Hd Hgt) as [e [o E]]. rewrite E in H. discriminate.
  - intros d off Hd Hp. destruct (N.le_gt_cases (off + 16) (blen d)) as [Hle|Hgt].
    + rewrite (parse_verneed_ok s c d off Hd Hle) in Hp. cbv zeta in Hp. destruct (_ =? 1); discriminate.
    + destruct (parse_verneed_short s c d off Hd Hgt) as [e [o E]]. rewrite E in Hp. discriminate.
Qed.

(* ---------- one step ---------- *)
Section Link.
  Context {T : Type}.
  Variables (parse : buf -> M T) (nxt : T -> N) (size : N).
  Hypothesis L : link_ok parse nxt size.
  Variable d : buf.
  Hypothesis Hd : buf_ok d.
  Notation next := (link_next parse nxt d).

  (* termination measure: 0 once the count is exhausted, else the room left *)
  Definition lmeasure (st : viter) : nat :=
    if vi_count st =? 0 then O else N.to_nat (blen d + 1 - vi_off st).

  Lemma link_next_cases st :
    (next st = Ok (None, st)) \/
    (exists x, fst (parse d (vi_off st)) = Ok x /\ vi_count st <> 0 /\ blen d <> 0 /\
               next st = Ok (Some (x, vi_off st),
                             {| vi_count := if (0 <? vi_count st - 1) && (nxt x =? 0) then 0 else vi_count st - 1;
                                vi_off := vi_off st + nxt x |})).
  Proof.
    unfold link_next. destruct ((blen d =? 0) || (vi_count st =? 0)) eqn:E0; [now left|].
    destruct (fst (parse d (vi_off st))) as [x| |] eqn:Ep.
    - right. exists x. destruct (lk_ok _ _ _ L d (vi_off st) x Hd Ep) as [Hin Hn].
      unfold checked_add, buf_ok, ISIZE_MAX, USIZE_MAX, U32_MAX in *.
      pose proof (lk_size _ _ _ L).
      destruct (vi_off st + nxt x <=? 18446744073709551615) eqn:E1; [|lia].
      unfold sub_or_panic. replace (1 <=? vi_count st) with true by lia. cbn [rbind].
      repeat split; try lia.
    - now left.
    - exfalso. exact (lk_nopanic _ _ _ L d (vi_off st) Hd Ep).
  Qed.

  Lemma link_next_no_panic st : next st <> Panic.
  Proof. destruct (link_next_cases st) as [E|[x [_ [_ [_ E]]]]]; rewrite E; discriminate. Qed.

  Lemma link_next_decreases st x st' : next st = Ok (Some x, st') ->
    (lmeasure st' < lmeasure st)%nat /\ vi_count st' < vi_count st.
  Proof.
    intros H. destruct (link_next_cases st) as [E|[y [Ep [Hc [Hb E]]]]]; rewrite E in H; [discriminate|].
    injection H as _ <-. destruct (lk_ok _ _ _ L d (vi_off st) y Hd Ep) as [Hin Hn].
    pose proof (lk_size _ _ _ L). unfold lmeasure. cbn [vi_count vi_off].
    replace (vi_count st =? 0) with false by lia.
    destruct ((0 <? vi_count st - 1) && (nxt y =? 0)) eqn:E2.
    - change (0 =? 0) with true. cbv iota. lia.
    - destruct (vi_count st - 1 =? 0) eqn:E3; [lia|]. split; [|lia].
      assert (nxt y <> 0) by lia. lia.
  Qed.

  (* draining terminates for any fuel above the measure, never panics, never errs, and yields at
     most min(count, room) items *)
  Lemma drain_terminates : forall fuel st, (lmeasure st < fuel)%nat ->
    exists l, drain next fuel st = Some (Ok l) /\ llen l <= vi_count st /\ (List.length l <= lmeasure st)%nat.
  Proof.
    induction fuel as [|f IH]; intros st Hf; [lia|]. cbn [drain].
    destruct (link_next_cases st) as [E|[x [Ep [Hc [Hb E]]]]]; rewrite E.
    - exists []. repeat split; unfold llen; cbn; lia.
    - match goal with |- context [drain next f ?stx] => set (st' := stx) in * end.
      destruct (link_next_decreases st _ st' E) as [Hm Hcnt].
      destruct (IH st' ltac:(lia)) as [l [El [Hl1 Hl2]]]. rewrite El.
      exists ((x, vi_off st) :: l). split; [reflexivity|]. rewrite llen_cons. cbn [List.length]. lia.
  Qed.

  Lemma drain_fuel_free fuel fuel' st : (lmeasure st < fuel)%nat -> (lmeasure st < fuel')%nat ->
    drain next fuel st = drain next fuel' st.
  Proof.
    revert fuel' st. induction fuel as [|f IH]; intros fuel' st Hf Hf'; [lia|].
    destruct fuel' as [|f']; [lia|]. cbn [drain].
    destruct (link_next_cases st) as [E|[x [Ep [Hc [Hb E]]]]]; rewrite E; [reflexivity|].
    match goal with |- context [drain next f ?stx] => set (st' := stx) in * end.
    destruct (link_next_decreases st _ st' E) as [Hm _].
    rewrite (IH f' st') by lia. reflexivity.
  Qed.

  Lemma lmeasure_fuel st : (lmeasure st < link_fuel d)%nat.
  Proof. unfold lmeasure, link_fuel. destruct (vi_count st =? 0); lia. Qed.

  (* ---------- a well-formed chain is iterated exactly ---------- *)
  (* cnt records linked by their next offsets from off; every record but the last has next <> 0 *)
  Inductive link_chain : N -> nat -> list (T * N) -> Prop :=
  | lc_nil off : link_chain off O []
  | lc_cons off cnt x l : fst (parse d off) = Ok x -> (cnt <> O -> nxt x <> 0) ->
                          link_chain (off + nxt x) cnt l -> link_chain off (S cnt) ((x, off) :: l).

  Lemma drain_chain : forall cnt off l fuel, link_chain off cnt l -> (cnt < fuel)%nat ->
    drain next fuel {| vi_count := N.of_nat cnt; vi_off := off |} = Some (Ok l).
  Proof.
    induction cnt as [|cnt IH]; intros off l fuel H Hf.
    - inversion H; subst. destruct fuel as [|f]; [lia|]. cbn [drain]. unfold link_next. cbn [vi_count].
      replace ((blen d =? 0) || (N.of_nat 0 =? 0)) with true by (cbn; now rewrite orb_true_r). reflexivity.
    - inversion H as [|o0 c0 x l0 Hp Hnz Hrest]; subst.
      destruct fuel as [|f]; [lia|]. cbn [drain].
      destruct (link_next_cases {| vi_count := N.of_nat (S cnt); vi_off := off |}) as [E|[y [Ep [Hc [Hb E]]]]].
      + exfalso. unfold link_next in E. cbn [vi_count vi_off] in E.
        destruct (lk_ok _ _ _ L d off x Hd Hp) as [Hin _]. pose proof (lk_size _ _ _ L).
        replace ((blen d =? 0) || (N.of_nat (S cnt) =? 0)) with false in E by lia.
        rewrite Hp in E. destruct (checked_add off (nxt x)); cbn in E;
        destruct (sub_or_panic _ 1); cbn in E; discriminate.
      + cbn [vi_count vi_off] in *. rewrite E. assert (y = x) by congruence. subst y.
        replace (if (0 <? N.of_nat (S cnt) - 1) && (nxt x =? 0) then 0 else N.of_nat (S cnt) - 1) with (N.of_nat cnt).
        * rewrite (IH _ _ f Hrest) by lia. reflexivity.
        * destruct cnt as [|k]; [reflexivity|]. specialize (Hnz ltac:(discriminate)).
          replace (nxt x =? 0) with false by lia. rewrite andb_false_r. lia.
  Qed.
End Link.
