(* C10: ident decision table, byte-order gating, Any = fixed. *)
Require Import V.Base.Prim V.Model.Structs V.Model.File V.Model.ElfBytes V.Proofs.PrimFacts.
From Coq Require Import Lia ZifyBool ZifyN ZifyNat.
Open Scope N_scope.

Definition magic_ok (d : buf) : bool :=
  (bN d 0 =? 127) && (bN d 1 =? 69) && (bN d 2 =? 76) && (bN d 3 =? 70).
Definition accepts (fam : specfam) (b : N) : bool :=
  match fam with FLittle => b =? 1 | FBig => b =? 2 | FAny => (b =? 1) || (b =? 2) end.

(* the decision table of parse_ident on a 16-byte (or longer) buffer *)
Definition ident_spec (fam : specfam) (d : buf) : res (espec * class * N * N) :=
  if negb (magic_ok d) then Err (EBadMagic (bN d 0) (bN d 1) (bN d 2) (bN d 3))
  else if negb (bN d 6 =? 1) then Err (EUnsupportedVersion (bN d 6) 1)
  else if negb ((bN d 4 =? 1) || (bN d 4 =? 2)) then Err (EUnsupportedElfClass (bN d 4))
  else if negb (accepts fam (bN d 5)) then Err (EUnsupportedElfEndianness (bN d 5))
  else Ok (match fam with
           | FLittle => Little | FBig => Big
           | FAny => if bN d 5 =? 1 then AnyLittle else AnyBig end,
           if bN d 4 =? 1 then ELF32 else ELF64, bN d 7, bN d 8).

Lemma parse_ident_spec fam d : 16 <= blen d -> parse_ident fam d = ident_spec fam d.
Proof.
  intros H. unfold parse_ident, ident_spec, verify_ident, idx, magic_ok.
  replace (blen d <? 16) with false by lia. replace (blen d <? 4) with false by lia.
  destruct ((bN d 0 =? 127) && (bN d 1 =? 69) && (bN d 2 =? 76) && (bN d 3 =? 70)); cbn [negb rbind]; [|reflexivity].
  replace (6 <? blen d) with true by lia. cbn [rbind].
  destruct (bN d 6 =? 1); cbn [negb rbind]; [|reflexivity].
  replace (4 <? blen d) with true by lia. cbn [rbind].
  replace (5 <? blen d) with true by lia. replace (7 <? blen d) with true by lia.
  replace (8 <? blen d) with true by lia.
  destruct (bN d 4 =? 1) eqn:E1; cbn [orb negb rbind].
  - unfold from_ei_data, accepts. destruct fam; destruct (bN d 5 =? 1) eqn:E5; cbn [orb negb rbind]; try reflexivity;
      destruct (bN d 5 =? 2); reflexivity.
  - destruct (bN d 4 =? 2) eqn:E2; cbn [negb rbind]; [|reflexivity].
    unfold from_ei_data, accepts. destruct fam; destruct (bN d 5 =? 1) eqn:E5; cbn [orb negb rbind]; try reflexivity;
      destruct (bN d 5 =? 2); reflexivity.
Qed.

Lemma parse_ident_short fam d : blen d < 16 -> parse_ident fam d = Err (ESliceReadError 0 16).
Proof. intros H. unfold parse_ident. now replace (blen d <? 16) with true by lia. Qed.

Lemma parse_ident_no_panic fam d : parse_ident fam d <> Panic.
Proof.
  destruct (N.lt_ge_cases (blen d) 16).
  - rewrite parse_ident_short by assumption. discriminate.
  - rewrite parse_ident_spec by assumption. unfold ident_spec.
    repeat match goal with |- context [if ?b then _ else _] => destruct b end; discriminate.
Qed.

Lemma accepts_spec fam b :
  is_ok (from_ei_data fam b) = accepts fam b /\
  (accepts FLittle b = true <-> b = 1) /\ (accepts FBig b = true <-> b = 2) /\
  (accepts FAny b = true <-> b = 1 \/ b = 2).
Proof.
  split; [unfold from_ei_data, accepts; destruct fam; destruct (b =? 1); try reflexivity; destruct (b =? 2); reflexivity|].
  unfold accepts. repeat split; lia.
Qed.

(* the ident buffer of a file *)
Lemma sub_bN f s e b i : sub f s e = Some b -> i < e - s -> bN b i = bN f (s + i).
Proof.
  unfold sub. destruct ((s <=? e) && (e <=? blen f)); [|discriminate]. intros [= <-] Hi.
  unfold bN. cbn [bat]. now replace (i <? e - s) with true by lia.
Qed.
Lemma sub_blen f s e b : sub f s e = Some b -> blen b = e - s /\ s <= e <= blen f.
Proof.
  unfold sub. destruct ((s <=? e) && (e <=? blen f)) eqn:E; [|discriminate]. intros [= <-]. cbn [blen]. lia.
Qed.

Lemma minimal_parse_gate fam f eb : minimal_parse fam f = Ok eb -> accepts fam (bN f 5) = true.
Proof.
  unfold minimal_parse, get_bytes. destruct (sub f 0 16) as [ib|] eqn:Es; cbn [ok_or rbind]; [|discriminate].
  destruct (sub_blen _ _ _ _ Es) as [Hl _].
  rewrite parse_ident_spec by lia. unfold ident_spec.
  destruct (negb (magic_ok ib)); cbn [rbind]; [discriminate|].
  destruct (negb (bN ib 6 =? 1)); cbn [rbind]; [discriminate|].
  destruct (negb ((bN ib 4 =? 1) || (bN ib 4 =? 2))); cbn [rbind]; [discriminate|].
  destruct (accepts fam (bN ib 5)) eqn:Ea; cbn [negb rbind]; [|discriminate].
  intros _. rewrite (sub_bN f 0 16 ib 5 Es) in Ea by lia. exact Ea.
Qed.

(* an ident defect is reported as what it is *)
Lemma minimal_parse_ident_err fam f ib e :
  sub f 0 16 = Some ib -> parse_ident fam ib = Err e -> minimal_parse fam f = Err e.
Proof. intros Es Ee. unfold minimal_parse, get_bytes. rewrite Es. cbn [ok_or rbind]. now rewrite Ee. Qed.

(* ---------- Any = fixed ---------- *)
Definition respec (s : espec) (eb : elfbytes) : elfbytes :=
  let eh := eb_ehdr eb in
  {| eb_ehdr := {| e_class := e_class eh; e_spec := s; e_version := e_version eh; e_osabi := e_osabi eh;
                   e_abiversion := e_abiversion eh; e_type := e_type eh; e_machine := e_machine eh;
                   e_entry := e_entry eh; e_phoff := e_phoff eh; e_shoff := e_shoff eh; e_flags := e_flags eh;
                   e_ehsize := e_ehsize eh; e_phentsize := e_phentsize eh; e_phnum := e_phnum eh;
                   e_shentsize := e_shentsize eh; e_shnum := e_shnum eh; e_shstrndx := e_shstrndx eh |};
     eb_shdrs := eb_shdrs eb; eb_phdrs := eb_phdrs eb |}.
Definition any_of (s : espec) : espec := if is_little s then AnyLittle else AnyBig.

Lemma parse_tail_fields s c osabi abiver d o eh :
  fst (parse_tail s c osabi abiver d o) = Ok eh -> e_spec eh = s /\ e_class eh = c.
Proof.
  unfold parse_tail, bind, u16, u32, u64, ret; destruct c;
  repeat match goal with
         | |- context [parse_uint ?w ?le ?o ?d] =>
           let r := fresh "r" in let o' := fresh "o" in
           destruct (parse_uint w le o d) as [r o'] eqn:?; destruct r; cbn [fst]; try discriminate
         end; intros [= <-]; split; reflexivity.
Qed.

Lemma open_after_ident_any s c osabi abiver f :
  open_after_ident (any_of s) c osabi abiver f = rmap (respec (any_of s)) (open_after_ident s c osabi abiver f).
Proof.
  unfold open_after_ident. destruct (get_bytes f 16 (16 + tail_size c)) as [tb| |]; cbn [rbind rmap]; try reflexivity.
  assert (Ht : fst (parse_tail (any_of s) c osabi abiver tb 0)
               = rmap (fun eh => eb_ehdr (respec (any_of s) {| eb_ehdr := eh; eb_shdrs := None; eb_phdrs := None |}))
                      (fst (parse_tail s c osabi abiver tb 0))).
  { destruct s; cbn [any_of is_little]; unfold parse_tail, bind, u16, u32, u64, ret;
      destruct c; cbn [is_little];
      repeat match goal with
             | |- context [parse_uint ?w ?le ?o ?d] =>
               let r := fresh "r" in let o' := fresh "o" in
               destruct (parse_uint w le o d) as [r o'] eqn:?; destruct r; cbn [fst rmap]; try reflexivity
             end. }
  rewrite Ht. destruct (fst (parse_tail s c osabi abiver tb 0)) as [eh| |] eqn:Et; cbn [rbind rmap]; try reflexivity.
  apply parse_tail_fields in Et. destruct Et as [Es Ec].
  destruct eh as [ec es ev eo ea ety em een epo eso efl eeh epe epn ese esn esx].
  cbn [e_spec e_class] in Es, Ec. subst es ec.
  destruct s; cbn [any_of is_little respec eb_ehdr e_class e_spec e_version e_osabi e_abiversion e_type
    e_machine e_entry e_phoff e_shoff e_flags e_ehsize e_phentsize e_phnum e_shentsize e_shnum e_shstrndx];
  match goal with
  | |- rbind ?a _ = rmap _ (rbind ?b _) => change a with b; destruct b as [sh| |]; cbn [rbind rmap]; try reflexivity
  end;
  match goal with
  | |- rbind ?a _ = rmap _ (rbind ?b _) => change a with b; destruct b as [ph| |]; cbn [rbind rmap]; reflexivity
  end.
Qed.

(* opening with the any-endian spec = opening with the matching fixed spec, up to the spec tag *)
Lemma minimal_parse_any fam f eb : (fam = FLittle \/ fam = FBig) ->
  minimal_parse fam f = Ok eb ->
  minimal_parse FAny f = Ok (respec (any_of (e_spec (eb_ehdr eb))) eb).
Proof.
  intros Hf. unfold minimal_parse, get_bytes.
  destruct (sub f 0 16) as [ib|] eqn:Es; cbn [ok_or rbind]; [|discriminate].
  destruct (sub_blen _ _ _ _ Es) as [Hl _].
  rewrite !parse_ident_spec by lia. unfold ident_spec.
  destruct (negb (magic_ok ib)); cbn [rbind]; [discriminate|].
  destruct (negb (bN ib 6 =? 1)); cbn [rbind]; [discriminate|].
  destruct (negb ((bN ib 4 =? 1) || (bN ib 4 =? 2))); cbn [rbind]; [discriminate|].
  destruct Hf as [-> | ->]; cbn [accepts].
  - destruct (bN ib 5 =? 1) eqn:E5; cbn [negb orb rbind]; [|discriminate].
    intros H. change AnyLittle with (any_of Little). rewrite open_after_ident_any, H. cbn [rmap].
    assert (e_spec (eb_ehdr eb) = Little) as ->; [|reflexivity].
    unfold open_after_ident in H. destruct (get_bytes f 16 _); cbn [rbind] in H; try discriminate.
    destruct (fst (parse_tail Little _ _ _ _ 0)) as [eh| |] eqn:Et; cbn [rbind] in H; try discriminate.
    apply parse_tail_fields in Et. destruct (find_shdrs eh f); cbn [rbind] in H; try discriminate.
    destruct (find_phdrs eh f); cbn [rbind] in H; try discriminate. injection H as <-. tauto.
  - destruct (bN ib 5 =? 2) eqn:E5; cbn [negb orb rbind]; [|discriminate].
    replace (bN ib 5 =? 1) with false by lia. cbn [negb orb rbind].
    intros H. change AnyBig with (any_of Big). rewrite open_after_ident_any, H. cbn [rmap].
    assert (e_spec (eb_ehdr eb) = Big) as ->; [|reflexivity].
    unfold open_after_ident in H. destruct (get_bytes f 16 _); cbn [rbind] in H; try discriminate.
    destruct (fst (parse_tail Big _ _ _ _ 0)) as [eh| |] eqn:Et; cbn [rbind] in H; try discriminate.
    apply parse_tail_fields in Et. destruct (find_shdrs eh f); cbn [rbind] in H; try discriminate.
    destruct (find_phdrs eh f); cbn [rbind] in H; try discriminate. injection H as <-. tauto.
Qed.

