(* C10: queries on the any-spec handle = queries on the fixed-spec handle (by conversion; slow) *)
Require Import V.Base.Prim V.Model.Structs V.Model.File V.Model.ElfBytes V.Proofs.FileP.
Open Scope N_scope.

(* every query gives the same answer on the any-spec handle and on the fixed-spec handle *)
Ltac respec_tac :=
  intros f eb; destruct eb as [[ec es ev eo ea ety em een epo eso efl eeh epe epn ese esn esx] sh ph];
  destruct es; reflexivity.
Lemma respec_queries : forall f eb,
  let eb' := respec (any_of (e_spec (eb_ehdr eb))) eb in
  (forall r i, shdr_get f eb' r i = shdr_get f eb r i) /\
  (forall r i, phdr_get f eb' r i = phdr_get f eb r i) /\
  (forall r, shdr_list f eb' r = shdr_list f eb r) /\
  (forall r, phdr_list f eb' r = phdr_list f eb r) /\
  shdrs_with_strtab f eb' = shdrs_with_strtab f eb /\
  (forall n, shdr_by_name f eb' n = shdr_by_name f eb n) /\
  (forall h, section_data f eb' h = section_data f eb h) /\
  (forall h, section_data_as_strtab f eb' h = section_data_as_strtab f eb h) /\
  (forall h, section_data_as_rels f eb' h = section_data_as_rels f eb h) /\
  (forall h, section_data_as_relas f eb' h = section_data_as_relas f eb h) /\
  (forall h, section_data_as_notes f eb' h = section_data_as_notes f eb h) /\
  dynamic f eb' = dynamic f eb /\
  symbol_table f eb' = symbol_table f eb /\
  dynamic_symbol_table f eb' = dynamic_symbol_table f eb /\
  symbol_version_table f eb' = symbol_version_table f eb.
Proof.
  intros f eb. destruct eb as [[ec es ev eo ea ety em een epo eso efl eeh epe epn ese esn esx] sh ph].
  destruct es; cbv zeta; repeat split; intros; reflexivity.
Qed.
Lemma respec_common : forall f eb,
  find_common_data f (respec (any_of (e_spec (eb_ehdr eb))) eb) = find_common_data f eb.
Proof. respec_tac. Qed.
