(* C16: every loop of the model terminates within a bound given by the input size; the fuel of
   the total Gallina functions is never exhausted (fuel exhaustion = None), and more fuel changes
   nothing. *)
Require Import V.Base.Prim V.Spec.Ints V.Model.Structs V.Model.Table V.Model.StrTab V.Model.Utf8 V.Model.Note
        V.Model.Hash V.Model.SymVer V.Proofs.PrimFacts V.Proofs.StructsP V.Proofs.TableP V.Proofs.NoteP
        V.Proofs.SymVerP V.Proofs.SymVerQ V.Proofs.FileP.
From Coq Require Import Lia ZifyBool ZifyN ZifyNat.
Ltac Zify.zify_post_hook ::= Z.div_mod_to_equations.
Open Scope N_scope.

(* ---------- notes ---------- *)
(* a successfully parsed record begins with a 12-byte header inside the buffer and the cursor
   moves past it *)
Lemma note_parse_progress s c align d off n nx : buf_ok d ->
  note_parse s c align d off = (Ok n, nx) -> off + 12 <= blen d /\ off + 12 <= nx.
Proof.
  intros Hd H.
  destruct (N.le_gt_cases (off + 12) (blen d)) as [Hle|Hgt].
  2:{ destruct (note_parse_short s c align d off Hd Hgt) as [e [o E]]. rewrite E in H. discriminate. }
  split; [exact Hle|]. revert H. unfold note_parse. destruct (align =? 0); [discriminate|].
  rewrite (parse_nhdr32_ok s d off Hd Hle).
  destruct (checked_add (off + 12) _) as [ne|] eqn:E1; [|discriminate].
  assert (off + 12 <= ne) by (unfold checked_add in E1; destruct (_ <=? USIZE_MAX); [injection E1 as <-; lia|discriminate]).
  destruct (sub d (off + 12) ne); [|discriminate].
  destruct (pad_to ne align) as [ds| |] eqn:E3; try discriminate.
  assert (ne <= ds).
  { unfold pad_to in E3. destruct (0 <? ne mod align); [|injection E3 as <-; lia].
    unfold checked_add, ok_or in E3. destruct (_ <=? USIZE_MAX); [injection E3 as <-; lia|discriminate]. }
  destruct (checked_add ds _) as [de|] eqn:E4; [|discriminate].
  assert (ds <= de) by (unfold checked_add in E4; destruct (_ <=? USIZE_MAX); [injection E4 as <-; lia|discriminate]).
  destruct (sub d ds de); [|discriminate].
  destruct (pad_to de align) as [nx'| |] eqn:E5; try discriminate.
  assert (de <= nx').
  { unfold pad_to in E5. destruct (0 <? de mod align); [|injection E5 as <-; lia].
    unfold checked_add, ok_or in E5. destruct (_ <=? USIZE_MAX); [injection E5 as <-; lia|discriminate]. }
  destruct (is_gnu_name d (off + 12, ne)).
  - destruct (n_type _ =? 1).
    + destruct (fst (parse_abitag s c _ 0)); try discriminate. intros [= _ <-]. lia.
    + destruct (n_type _ =? 3); intros [= _ <-]; lia.
  - intros [= _ <-]. lia.
Qed.
Lemma note_parse_np s c align d off : buf_ok d -> fst (note_parse s c align d off) <> Panic.
Proof.
  intros Hd. unfold note_parse. destruct (align =? 0); [discriminate|].
  pose proof (regular_np _ _ d off (regular_nhdr s ELF32) Hd) as NP.
  destruct (parse_nhdr s ELF32 d off) as [[nh| |] o1]; cbn [fst] in *; [|discriminate|congruence].
  destruct (checked_add o1 _); [|discriminate]. destruct (sub d o1 n) as [nb|]; [|discriminate].
  assert (P : forall x, pad_to x align <> Panic).
  { intros x. unfold pad_to. destruct (0 <? x mod align); [apply ok_or_np|discriminate]. }
  pose proof (P n) as P1. destruct (pad_to n align) as [ds| |]; [|discriminate|congruence].
  destruct (checked_add ds _); [|discriminate]. destruct (sub d ds n0) as [db|] eqn:Es; [|discriminate].
  pose proof (P n0) as P2. destruct (pad_to n0 align) as [nx| |]; [|discriminate|congruence].
  assert (Hdb : buf_ok db) by (apply sub_blen in Es; unfold buf_ok, ISIZE_MAX in *; lia).
  pose proof (regular_np _ _ db 0 (regular_abitag s c) Hdb) as NA.
  destruct (is_gnu_name d (o1, n)); [|discriminate].
  destruct (n_type nh =? 1).
  - destruct (fst (parse_abitag s c db 0)); [discriminate|discriminate|congruence].
  - destruct (n_type nh =? 3); discriminate.
Qed.

Section Notes.
  Variables (s : espec) (c : class) (align : N) (d : buf).
  Hypothesis Hd : buf_ok d.
  (* room for further records: 0 once no header fits *)
  Definition nmeasure (off : N) : nat := if off + 12 <=? blen d then N.to_nat (blen d - off) else O.

  Lemma notes_collect_total : forall fuel off, (nmeasure off / 12 < fuel)%nat ->
    exists l, notes_collect fuel s c align d off = Some (Ok l) /\ (List.length l <= nmeasure off / 12)%nat.
  Proof.
    induction fuel as [|f IH]; intros off Hf; [lia|]. cbn [notes_collect]. unfold note_next.
    destruct (blen d =? 0) eqn:E0; [exists []; split; [reflexivity|cbn; lia]|].
    pose proof (note_parse_np s c align d off Hd) as NP.
    destruct (note_parse s c align d off) as [[n| |] nx] eqn:E; cbn [fst] in NP; [|exists []; split; [reflexivity|cbn; lia]|congruence].
    destruct (note_parse_progress s c align d off n nx Hd E) as [H1 H2].
    assert (Hm : (nmeasure nx / 12 < nmeasure off / 12)%nat).
    { unfold nmeasure. replace (off + 12 <=? blen d) with true by lia.
      destruct (nx + 12 <=? blen d) eqn:E2.
      - assert (N.to_nat (blen d - nx) + 12 <= N.to_nat (blen d - off))%nat by lia.
        apply Nat.div_lt_upper_bound; [lia|].
        pose proof (Nat.div_mod (N.to_nat (blen d - off)) 12 ltac:(lia)). pose proof (Nat.mod_upper_bound (N.to_nat (blen d - off)) 12 ltac:(lia)). lia.
      - assert (12 <= N.to_nat (blen d - off))%nat by lia.
        assert (1 <= N.to_nat (blen d - off) / 12)%nat by (apply Nat.div_le_lower_bound; lia). rewrite Nat.div_0_l by lia. lia. }
    destruct (IH nx ltac:(lia)) as [l [El Hl]]. rewrite El. exists (n :: l). split; [reflexivity|cbn [List.length]; lia].
  Qed.

  (* NoteIterator: terminates, never panics, yields at most blen/12 notes *)
  Theorem notes_all_total : exists l, notes_all s c align d = Some (Ok l) /\ llen l <= blen d / 12.
  Proof.
    unfold notes_all.
    assert (Hb : (nmeasure 0 / 12 <= N.to_nat (blen d / 12))%nat).
    { unfold nmeasure. destruct (0 + 12 <=? blen d); [|cbn; lia]. rewrite N.sub_0_r.
      change 12%nat with (N.to_nat 12). rewrite <- N2Nat.inj_div. lia. }
    destruct (notes_collect_total (S (N.to_nat (blen d))) 0) as [l [E H]].
    - assert (blen d / 12 <= blen d) by (apply N.div_le_upper_bound; lia). lia.
    - exists l. split; [exact E|]. unfold llen. lia.
  Qed.
  Theorem notes_fuel_free fuel : (N.to_nat (blen d / 12) < fuel)%nat ->
    notes_collect fuel s c align d 0 = notes_all s c align d.
  Proof.
    intros Hf.
    assert (G : forall f1 f2 off, (nmeasure off / 12 < f1)%nat -> (nmeasure off / 12 < f2)%nat ->
                notes_collect f1 s c align d off = notes_collect f2 s c align d off).
    { induction f1 as [|f1 IH]; intros f2 off H1 H2; [lia|]. destruct f2 as [|f2]; [lia|].
      cbn [notes_collect]. unfold note_next. destruct (blen d =? 0); [reflexivity|].
      destruct (note_parse s c align d off) as [[n| |] nx] eqn:E; try reflexivity.
      destruct (note_parse_progress s c align d off n nx Hd E) as [P1 P2].
      assert (Hm : (nmeasure nx / 12 < nmeasure off / 12)%nat).
      { unfold nmeasure. replace (off + 12 <=? blen d) with true by lia.
        destruct (nx + 12 <=? blen d) eqn:E2.
        - apply Nat.div_lt_upper_bound; [lia|].
          pose proof (Nat.div_mod (N.to_nat (blen d - off)) 12 ltac:(lia)). pose proof (Nat.mod_upper_bound (N.to_nat (blen d - off)) 12 ltac:(lia)). lia.
        - assert (1 <= N.to_nat (blen d - off) / 12)%nat by (apply Nat.div_le_lower_bound; lia). rewrite Nat.div_0_l by lia. lia. }
      rewrite (IH f2 nx) by lia. reflexivity. }
    unfold notes_all. apply G.
    - unfold nmeasure. destruct (0 + 12 <=? blen d); [|cbn; lia]. rewrite N.sub_0_r.
      change 12%nat with (N.to_nat 12). rewrite <- N2Nat.inj_div. lia.
    - unfold nmeasure. destruct (0 + 12 <=? blen d); [|cbn; lia]. rewrite N.sub_0_r.
      change 12%nat with (N.to_nat 12). rewrite <- N2Nat.inj_div.
      assert (blen d / 12 <= blen d) by (apply N.div_le_upper_bound; lia). lia.
  Qed.
End Notes.

(* ---------- the version-record searches ---------- *)
Section Search.
  Context {T : Type}.
  Variables (parse : buf -> M T) (nxt : T -> N) (size : N).
  Hypothesis L : link_ok parse nxt size.
  Variable d : buf.
  Hypothesis Hd : buf_ok d.
  Context {R : Type}.
  Variable body : (T * N) -> option (res (option R)).
  Hypothesis body_total : forall x, body x <> None.

  Lemma search_terminates : forall fuel st, (lmeasure d st < fuel)%nat ->
    search (link_next parse nxt d) body fuel st <> None.
  Proof.
    induction fuel as [|f IH]; intros st Hf; [lia|]. cbn [search].
    destruct (link_next_cases parse nxt size L d Hd st) as [E|[x [Ep [Hc [Hb E]]]]]; rewrite E; [discriminate|].
    match goal with |- context [search _ _ f ?stx] => set (st' := stx) in * end.
    destruct (link_next_decreases parse nxt size L d Hd st _ st' E) as [Hm _].
    pose proof (body_total (x, vi_off st)) as BT.
    destruct (body (x, vi_off st)) as [[[r|]| |]|]; try discriminate; [|congruence].
    apply IH. lia.
  Qed.
End Search.

(* get_requirement / get_definition / the names of a definition never run out of fuel: the loops
   they model terminate on every input (cyclic, self-referential, overlapping, absurd counts) *)
Theorem get_definition_total s c t i : (forall st dd strs, svt_defs t = Some (st, dd, strs) -> buf_ok dd) ->
  get_definition s c t i <> None.
Proof.
  intros Hd. unfold get_definition. destruct (svt_defs t) as [[[st0 dd] strs]|] eqn:E; [|discriminate].
  destruct (table_get _ 2 (svt_versym t) i); try discriminate.
  specialize (Hd _ _ _ eq_refl).
  assert (G : forall fuel st, (lmeasure dd st < fuel)%nat ->
    search (verdef_next s c dd) (fun '(vd, aux) =>
      if negb (vd_ndx vd =? vx_index a) then Some (Ok None)
      else Some (Ok (Some {| df_hash := vd_hash vd; df_flags := vd_flags vd; df_names := aux; df_hidden := vx_is_hidden a |})))
      fuel st <> None).
  { induction fuel as [|f IH]; intros st Hf; [lia|]. cbn [search]. unfold verdef_next at 1.
    destruct (link_next_cases _ _ _ (link_ok_verdef s c) dd Hd st) as [E1|[x [Ep [Hc [Hb E1]]]]]; rewrite E1; cbn [rbind]; [discriminate|].
    pose proof (verdef_aux_bound s c dd (vi_off st) x Hd Ep) as Ha.
    destruct (lk_ok _ _ _ (link_ok_verdef s c) dd (vi_off st) x Hd Ep) as [Hin _].
    unfold add_or_panic. unfold buf_ok, ISIZE_MAX, USIZE_MAX, U32_MAX in *.
    replace (vi_off st + vd_aux x <=? 18446744073709551615) with true by lia. cbn [rbind].
    match goal with |- context [search _ _ f ?stx] => set (st' := stx) in * end.
    destruct (link_next_decreases _ _ _ (link_ok_verdef s c) dd Hd st _ st' E1) as [Hm _].
    destruct (negb (vd_ndx x =? vx_index a)); [apply IH; lia|discriminate]. }
  apply G. apply lmeasure_fuel.
Qed.

Theorem get_requirement_total s c t i : (forall st nd strs, svt_needs t = Some (st, nd, strs) -> buf_ok nd) ->
  get_requirement s c t i <> None.
Proof.
  intros Hd. unfold get_requirement. destruct (svt_needs t) as [[[st0 nd] strs]|] eqn:E; [|discriminate].
  destruct (table_get _ 2 (svt_versym t) i) as [ver| |]; try discriminate.
  specialize (Hd _ _ _ eq_refl).
  (* the inner loop over one file's auxiliary records *)
  assert (Inner : forall vn aux, search (vernaux_next s c nd)
      (fun '(vna, _) => if negb (vna_other vna =? vx_index ver) then Some (Ok None)
                        else Some (let? file := strtab_get strs (vn_file vn) in
                                   let? name := strtab_get strs (vna_name vna) in
                                   Ok (Some {| rq_file := file; rq_name := name; rq_hash := vna_hash vna;
                                               rq_flags := vna_flags vna; rq_hidden := vx_is_hidden ver |})))
      (link_fuel nd) aux <> None).
  { intros vn aux. unfold vernaux_next. apply (search_terminates _ _ _ (link_ok_vernaux s c) nd Hd).
    - intros [vna o]. destruct (negb _); discriminate.
    - apply lmeasure_fuel. }
  assert (G : forall fuel st, (lmeasure nd st < fuel)%nat ->
    search (verneed_next s c nd) (fun '(vn, aux) =>
      search (vernaux_next s c nd)
        (fun '(vna, _) => if negb (vna_other vna =? vx_index ver) then Some (Ok None)
                          else Some (let? file := strtab_get strs (vn_file vn) in
                                     let? name := strtab_get strs (vna_name vna) in
                                     Ok (Some {| rq_file := file; rq_name := name; rq_hash := vna_hash vna;
                                                 rq_flags := vna_flags vna; rq_hidden := vx_is_hidden ver |})))
        (link_fuel nd) aux) fuel st <> None).
  { induction fuel as [|f IH]; intros st Hf; [lia|]. cbn [search]. unfold verneed_next at 1.
    destruct (link_next_cases _ _ _ (link_ok_verneed s c) nd Hd st) as [E1|[x [Ep [Hc [Hb E1]]]]]; rewrite E1; cbn [rbind]; [discriminate|].
    pose proof (verneed_aux_bound s c nd (vi_off st) x Hd Ep) as Ha.
    destruct (lk_ok _ _ _ (link_ok_verneed s c) nd (vi_off st) x Hd Ep) as [Hin _].
    unfold add_or_panic. unfold buf_ok, ISIZE_MAX, USIZE_MAX, U32_MAX in *.
    replace (vi_off st + vn_aux x <=? 18446744073709551615) with true by lia. cbn [rbind].
    match goal with |- context [search _ _ f ?stx] => set (st' := stx) in * end.
    destruct (link_next_decreases _ _ _ (link_ok_verneed s c) nd Hd st _ st' E1) as [Hm _].
    pose proof (Inner x {| vi_count := vn_cnt x; vi_off := vi_off st + vn_aux x |}) as I1.
    destruct (search (vernaux_next s c nd) _ (link_fuel nd) _) as [[[r|]| |]|]; try discriminate; [|congruence].
    apply IH. lia. }
  apply G. apply lmeasure_fuel.
Qed.

Theorem definition_names_total s c dd strs aux : buf_ok dd -> definition_names s c dd strs aux <> None.
Proof.
  intros Hd. unfold definition_names, verdaux_next.
  destruct (drain_terminates _ _ _ (link_ok_verdaux s c) dd Hd (link_fuel dd) aux (lmeasure_fuel dd aux)) as [l [E _]].
  rewrite E. discriminate.
Qed.

(* the four record iterators: for any count and starting offset, any fuel above the bound gives the
   same list; at most count items and at most one per byte of the section *)
Theorem link_iter_bounds {T} (parse : buf -> M T) (nxt : T -> N) size d st :
  link_ok parse nxt size -> buf_ok d ->
  exists l, drain (link_next parse nxt d) (link_fuel d) st = Some (Ok l) /\
            llen l <= vi_count st /\ llen l <= blen d + 1.
Proof.
  intros L Hd. destruct (drain_terminates parse nxt size L d Hd (link_fuel d) st (lmeasure_fuel d st)) as [l [E [H1 H2]]].
  exists l. split; [exact E|]. split; [exact H1|]. unfold lmeasure in H2. unfold llen.
  destruct (vi_count st =? 0); lia.
Qed.
