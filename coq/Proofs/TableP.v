(* C09 (and the ParsingIterator part of C16): coherence of ParsingTable / ParsingIterator,
   generic in a regular entry parser. *)
Require Import V.Base.Prim V.Model.Table V.Proofs.PrimFacts V.Proofs.StructsP.
From Coq Require Import Lia ZifyBool ZifyN ZifyNat.
Ltac Zify.zify_post_hook ::= Z.div_mod_to_equations.
Open Scope N_scope.

Section TableP.
  Context {T : Type}.
  Variable parse : buf -> M T.
  Variable size : N.
  Hypothesis size_pos : 0 < size.
  Hypothesis Hreg : regular size parse.

  Notation len := (table_len size).
  Notation get := (table_get parse size).
  Notation next := (iter_next parse).

  Lemma len_spec d : len d * size <= blen d < len d * size + size.
  Proof. unfold table_len. lia. Qed.

  Lemma lt_len_iff d i : i < len d <-> i * size + size <= blen d.
  Proof.
    pose proof (len_spec d) as [H1 H2]. split; intros H.
    - assert (i + 1 <= len d) by lia. nia.
    - destruct (N.lt_ge_cases i (len d)) as [|Hge]; [assumption|]. exfalso. nia.
  Qed.

  Lemma get_in d i : buf_ok d -> i < len d -> get d i = fst (parse d (i * size)).
  Proof.
    intros Hd Hi. apply lt_len_iff in Hi. unfold table_get, checked_mul, buf_ok, ISIZE_MAX, USIZE_MAX in *.
    destruct (blen d =? 0) eqn:E0; [lia|].
    destruct (i * size <=? 18446744073709551615) eqn:E1; [|lia].
    destruct (blen d <? i * size) eqn:E2; [lia|]. reflexivity.
  Qed.

  Lemma get_ok_iff d i : buf_ok d -> (is_ok (get d i) = true <-> i < len d).
  Proof.
    intros Hd. split.
    - intros H. apply lt_len_iff. unfold table_get, checked_mul in H.
      destruct (blen d =? 0) eqn:E0; [discriminate|].
      destruct (i * size <=? USIZE_MAX) eqn:E1; [|discriminate].
      destruct (blen d <? i * size) eqn:E2; [discriminate|].
      destruct (N.le_gt_cases (i * size + size) (blen d)) as [|Hgt]; [assumption|].
      destruct (Hreg d (i * size) Hd) as [_ Hs]. destruct (Hs Hgt) as [e [o' [E _]]].
      rewrite E in H. discriminate.
    - intros Hi. rewrite get_in by assumption. apply lt_len_iff in Hi.
      destruct (Hreg d (i * size) Hd) as [Ho _]. destruct (Ho Hi) as [a E]. now rewrite E.
  Qed.

  Lemma is_empty_iff d : table_is_empty size d = true <-> len d = 0.
  Proof. unfold table_is_empty. lia. Qed.

  (* one step of the iterator at an entry boundary *)
  Lemma next_in d k : buf_ok d -> k < len d ->
    exists a, next d (k * size) = (Some a, (k + 1) * size) /\ get d k = Ok a.
  Proof.
    intros Hd Hk. pose proof Hk as Hk'. apply lt_len_iff in Hk.
    destruct (Hreg d (k * size) Hd) as [Ho _]. destruct (Ho Hk) as [a E].
    exists a. split.
    - unfold iter_next. destruct (blen d =? 0) eqn:E0; [lia|]. rewrite E. cbn [res_ok]. f_equal. lia.
    - rewrite get_in by assumption. now rewrite E.
  Qed.
  Lemma next_end d o : buf_ok d -> blen d < o + size \/ blen d = 0 ->
    exists o', next d o = (None, o') /\ o <= o'.
  Proof.
    intros Hd H. unfold iter_next. destruct (blen d =? 0) eqn:E0.
    - exists o. split; [reflexivity|lia].
    - destruct H as [H|H]; [|lia]. destruct (Hreg d o Hd) as [_ Hs]. destruct (Hs H) as [e [o' [E Ho]]].
      rewrite E. exists o'. split; [reflexivity|exact Ho].
  Qed.

  (* the iteration from entry k yields exactly entries k .. len-1, for any sufficient fuel *)
  Lemma iter_from d : buf_ok d -> forall (m : nat) (k : N) (fuel : nat),
    len d = k + N.of_nat m -> (m < fuel)%nat ->
    exists l, iter_collect parse fuel d (k * size) = Some l /\ length l = m /\
              forall (j : nat) x, nth_error l j = Some x -> get d (k + N.of_nat j) = Ok x.
  Proof.
    intros Hd. induction m as [|m IH]; intros k fuel Hlen Hf.
    - destruct fuel as [|f]; [lia|]. cbn [iter_collect].
      destruct (next_end d (k * size) Hd) as [o' [E _]].
      { pose proof (len_spec d). left. replace k with (len d) by lia. lia. }
      rewrite E. exists []. repeat split. intros j x H. destruct j; discriminate.
    - destruct fuel as [|f]; [lia|]. cbn [iter_collect].
      destruct (next_in d k Hd) as [a [E G]]; [lia|]. rewrite E.
      destruct (IH (k + 1) f) as [l [El [Ll Hl]]]; [lia|lia|].
      rewrite El. cbn [option_map]. exists (a :: l). split; [reflexivity|]. split; [cbn; lia|].
      intros j x H. destruct j as [|j]; cbn [nth_error] in H.
      + injection H as <-. now rewrite N.add_0_r.
      + apply Hl in H. rewrite <- H. f_equal. lia.
  Qed.

  Theorem iter_all_spec d : buf_ok d ->
    exists l, iter_all parse d = Some l /\ llen l = len d /\
              (forall (j : nat) x, nth_error l j = Some x -> get d (N.of_nat j) = Ok x).
  Proof.
    intros Hd. unfold iter_all, iter_fuel.
    destruct (iter_from d Hd (N.to_nat (len d)) 0 (S (N.to_nat (blen d)))) as [l [E [L H]]].
    - lia.
    - pose proof (len_spec d). assert (len d <= blen d) by nia. lia.
    - exists l. replace (0 * size) with 0 in E by lia. split; [exact E|]. split; [unfold llen; lia|].
      intros j x Hj. specialize (H j x Hj). now rewrite N.add_0_l in H.
  Qed.

  (* more fuel changes nothing: the total function is the real loop, which terminates *)
  Theorem iter_fuel_free d fuel : buf_ok d -> (N.to_nat (len d) < fuel)%nat ->
    iter_collect parse fuel d 0 = iter_all parse d.
  Proof.
    intros Hd Hf.
    destruct (iter_from d Hd (N.to_nat (len d)) 0 fuel) as [l [E [L H]]]; [lia|lia|].
    destruct (iter_from d Hd (N.to_nat (len d)) 0 (iter_fuel d)) as [l' [E' [L' H']]]; [lia| |].
    { unfold iter_fuel. pose proof (len_spec d). assert (len d <= blen d) by nia. lia. }
    replace (0 * size) with 0 in * by lia. unfold iter_all. rewrite E, E'. f_equal.
    apply nth_error_ext. intros j.
    destruct (nth_error l j) eqn:A; destruct (nth_error l' j) eqn:B; try reflexivity.
    - apply H in A. apply H' in B. congruence.
    - apply nth_error_None in B. assert (nth_error l j <> None) by congruence.
      apply nth_error_Some in H0. lia.
    - apply nth_error_None in A. assert (nth_error l' j <> None) by congruence.
      apply nth_error_Some in H0. lia.
  Qed.

  (* after its first None a ParsingIterator yields None forever *)
  Lemma next_none_stays d o o' : buf_ok d -> next d o = (None, o') ->
    blen d = 0 \/ blen d < o' + size.
  Proof.
    intros Hd H. unfold iter_next in H. destruct (blen d =? 0) eqn:E0; [lia|]. right.
    destruct (parse d o) as [r o1] eqn:E. injection H as Hr <-.
    destruct (N.le_gt_cases (o + size) (blen d)) as [Hle|Hgt].
    - destruct (Hreg d o Hd) as [Ho _]. destruct (Ho Hle) as [a Ea]. rewrite Ea in E.
      injection E as <- <-. discriminate.
    - destruct (Hreg d o Hd) as [_ Hs]. destruct (Hs Hgt) as [e [o2 [Ee Ho]]]. rewrite Ee in E.
      injection E as _ <-. lia.
  Qed.
  Theorem fused d : buf_ok d -> forall k o o', next d o = (None, o') ->
    Forall (fun x => x = None) (fst (iter_nexts parse k d o')).
  Proof.
    intros Hd. induction k as [|k IH]; intros o o' H; cbn [iter_nexts]; [constructor|].
    pose proof (next_none_stays d o o' Hd H) as Hs.
    destruct (next_end d o' Hd) as [o2 [E _]]; [tauto|]. rewrite E.
    destruct (iter_nexts parse k d o2) as [l o3] eqn:El. cbn [fst]. constructor; [reflexivity|].
    specialize (IH o' o2 E). now rewrite El in IH.
  Qed.

  (* the whole next() sequence: the j-th call returns get(j) while j < len and None ever after
     (so re-polling an exhausted iterator, in any interleaving with other accesses, is None) *)
  Lemma get_none d i : buf_ok d -> len d <= i -> res_ok (get d i) = None.
  Proof.
    intros Hd Hi. pose proof (get_ok_iff d i Hd) as [H _].
    destruct (get d i) as [a| |]; cbn [res_ok]; try reflexivity.
    specialize (H eq_refl). lia.
  Qed.
  Lemma nexts_none d : buf_ok d -> forall m o, blen d = 0 \/ blen d < o + size ->
    fst (iter_nexts parse m d o) = repeat None m.
  Proof.
    intros Hd. induction m as [|m IH]; intros o Ho; cbn [iter_nexts repeat]; [reflexivity|].
    destruct (next_end d o Hd ltac:(tauto)) as [o' [E Hle]]. rewrite E.
    specialize (IH o'). destruct (iter_nexts parse m d o') as [l o2]. cbn [fst] in *.
    f_equal. apply IH. pose proof (next_none_stays d o o' Hd E). tauto.
  Qed.
  Lemma nexts_from d : buf_ok d -> forall (m : nat) k, k <= len d ->
    fst (iter_nexts parse m d (k * size)) = map (fun j => res_ok (get d (k + N.of_nat j))) (seq 0 m).
  Proof.
    intros Hd. induction m as [|m IH]; intros k Hk; cbn [iter_nexts seq map]; [reflexivity|].
    destruct (N.lt_ge_cases k (len d)) as [Hlt|Hge].
    - destruct (next_in d k Hd Hlt) as [a [E G]]. rewrite E.
      specialize (IH (k + 1) ltac:(lia)). destruct (iter_nexts parse m d ((k + 1) * size)) as [l o2]. cbn [fst] in *.
      rewrite N.add_0_r, G. cbn [res_ok]. f_equal. rewrite IH, <- seq_shift, map_map.
      apply map_ext. intros j. do 2 f_equal. lia.
    - assert (k = len d) as -> by lia.
      destruct (next_end d (len d * size) Hd) as [o' [E Hle]]. { pose proof (len_spec d). left. lia. }
      rewrite E. pose proof (nexts_none d Hd m o') as Hn.
      destruct (iter_nexts parse m d o') as [l o2]. cbn [fst] in *.
      rewrite get_none by (assumption || lia). f_equal.
      rewrite Hn by (pose proof (next_none_stays d _ _ Hd E); tauto).
      assert (G : forall l : list nat, repeat (@None T) (length l) = map (fun j => res_ok (get d (len d + N.of_nat j))) l).
      { induction l0 as [|j l0 IHl]; cbn [length repeat map]; [reflexivity|].
        rewrite get_none by (assumption || lia). now f_equal. }
      rewrite <- (seq_length m 1) at 1. apply G.
  Qed.
  Theorem nexts_spec d : buf_ok d -> forall m,
    fst (iter_nexts parse m d 0) = map (fun j => res_ok (get d (N.of_nat j))) (seq 0 m).
  Proof.
    intros Hd m. pose proof (nexts_from d Hd m 0 ltac:(lia)) as H.
    replace (0 * size) with 0 in H by lia. rewrite H. apply map_ext. intros j. now rewrite N.add_0_l.
  Qed.

  (* Iterator::nth after k calls of next(): the (k+n)-th entry, or None *)
  Theorem nth_spec d : buf_ok d -> forall (fuel : nat) n k, k <= len d -> (N.to_nat (len d - k) < fuel)%nat ->
    fst (it_nth parse fuel n d (k * size)) = res_ok (get d (k + n)).
  Proof.
    intros Hd. induction fuel as [|f IH]; intros n k Hk Hf; [lia|]. cbn [it_nth].
    destruct (N.lt_ge_cases k (len d)) as [Hlt|Hge].
    - destruct (next_in d k Hd Hlt) as [a [E G]]. rewrite E.
      destruct (N.eqb_spec n 0) as [->|Hn].
      + cbn [fst]. now rewrite N.add_0_r, G.
      + rewrite (IH (N.pred n) (k + 1)) by lia. do 2 f_equal. lia.
    - destruct (next_end d (k * size) Hd) as [o' [E Hle]]. { pose proof (len_spec d). left. nia. }
      rewrite E. cbn [fst]. symmetry. apply get_none; [assumption|lia].
  Qed.
End TableP.
