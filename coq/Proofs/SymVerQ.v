(* C13: on a well-formed version section the iterators yield exactly the linked records and the
   two queries return the reference answers. *)
Require Import V.Base.Prim V.Spec.Ints V.Ref.RefLayout V.Spec.AbiLayout V.Model.Structs V.Model.Table
        V.Model.StrTab V.Model.SymVer V.Spec.SymVerRef V.Proofs.PrimFacts V.Proofs.StructsP V.Proofs.SymVerP.
From Coq Require Import Lia ZifyBool ZifyN ZifyNat String.
Ltac Zify.zify_post_hook ::= Z.div_mod_to_equations.
Open Scope N_scope.

(* ---------- an iterator that yields exactly the list l, then None ---------- *)
Section Steps.
  Context {I : Type}.
  Variable next : viter -> res (option I * viter).
  Inductive steps : viter -> list I -> Prop :=
  | st_nil st st' : next st = Ok (None, st') -> steps st []
  | st_cons st x st' l : next st = Ok (Some x, st') -> steps st' l -> steps st (x :: l).

  Lemma drain_steps st l : steps st l -> forall fuel, (List.length l < fuel)%nat ->
    drain next fuel st = Some (Ok l).
  Proof.
    induction 1 as [st st' E|st x st' l E _ IH]; intros fuel Hf; (destruct fuel as [|f]; [cbn in Hf; lia|]);
      cbn [drain]; rewrite E; [reflexivity|].
    rewrite IH by (cbn in Hf; lia). reflexivity.
  Qed.

  Context {R : Type}.
  Variable body : I -> option (res (option R)).
  (* the for loop with early return, over a list *)
  Fixpoint search_list (l : list I) : option (res (option R)) :=
    match l with
    | [] => Some (Ok None)
    | x :: t => match body x with
                | None => None
                | Some (Ok None) => search_list t
                | Some r => Some r
                end
    end.
  Lemma search_steps st l : steps st l -> forall fuel, (List.length l < fuel)%nat ->
    search next body fuel st = search_list l.
  Proof.
    induction 1 as [st st' E|st x st' l E _ IH]; intros fuel Hf; (destruct fuel as [|f]; [cbn in Hf; lia|]);
      cbn [search search_list]; rewrite E; [reflexivity|].
    rewrite IH by (cbn in Hf; lia). reflexivity.
  Qed.
End Steps.

(* ---------- a chain is stepped through exactly ---------- *)
Section ChainSteps.
  Context {T : Type}.
  Variables (parse : buf -> M T) (nxt : T -> N) (size : N).
  Hypothesis L : link_ok parse nxt size.
  Variable d : buf.
  Hypothesis Hd : buf_ok d.

  Lemma chain_steps : forall cnt off l, chain d parse nxt off cnt l ->
    steps (link_next parse nxt d) {| vi_count := N.of_nat cnt; vi_off := off |} l.
  Proof.
    induction cnt as [|cnt IH]; intros off l H; inversion H as [|o0 c0 x l0 Hp Hnz Hrest]; subst.
    - eapply st_nil. unfold link_next. cbn [vi_count].
      replace ((blen d =? 0) || (N.of_nat 0 =? 0)) with true by (cbn; now rewrite orb_true_r). reflexivity.
    - destruct (link_next_cases parse nxt size L d Hd {| vi_count := N.of_nat (S cnt); vi_off := off |})
        as [E|[y [Ep [Hc [Hb E]]]]].
      + exfalso. unfold link_next in E. cbn [vi_count vi_off] in E.
        destruct (lk_ok _ _ _ L d off x Hd Hp) as [Hin _]. pose proof (lk_size _ _ _ L).
        replace ((blen d =? 0) || (N.of_nat (S cnt) =? 0)) with false in E by lia.
        rewrite Hp in E. destruct (checked_add off (nxt x)); cbn in E;
        destruct (sub_or_panic _ 1); cbn in E; discriminate.
      + cbn [vi_count vi_off] in *. assert (y = x) by congruence. subst y.
        eapply st_cons; [exact E|].
        replace (if (0 <? N.of_nat (S cnt) - 1) && (nxt x =? 0) then 0 else N.of_nat (S cnt) - 1) with (N.of_nat cnt).
        * apply IH. exact Hrest.
        * destruct cnt as [|k]; [reflexivity|]. specialize (Hnz ltac:(discriminate)).
          replace (nxt x =? 0) with false by lia. rewrite andb_false_r. lia.
  Qed.

  (* a chain of cnt records fits in the buffer: offsets strictly increase *)
  Lemma chain_room : forall cnt off l, chain d parse nxt off cnt l ->
    List.length l = cnt /\ (cnt = O \/ off + N.of_nat cnt <= blen d).
  Proof.
    induction cnt as [|cnt IH]; intros off l H; inversion H as [|o0 c0 x l0 Hp Hnz Hrest]; subst.
    - split; [reflexivity|now left].
    - destruct (IH _ _ Hrest) as [Hl Hr]. split; [cbn; now rewrite Hl|]. right.
      destruct (lk_ok _ _ _ L d off x Hd Hp) as [Hin _]. pose proof (lk_size _ _ _ L).
      destruct Hr as [->|Hr]; [lia|]. destruct cnt as [|k]; [lia|]. specialize (Hnz ltac:(discriminate)). lia.
  Qed.

  Lemma chain_fuel cnt off l : chain d parse nxt off cnt l -> (List.length l < link_fuel d)%nat.
  Proof. intros H. destruct (chain_room _ _ _ H) as [Hl Hr]. unfold link_fuel. lia. Qed.

  Theorem chain_drain cnt off l : chain d parse nxt off cnt l ->
    drain (link_next parse nxt d) (link_fuel d) {| vi_count := N.of_nat cnt; vi_off := off |} = Some (Ok l).
  Proof. intros H. apply drain_steps; [now apply chain_steps|now apply chain_fuel with (cnt := cnt) (off := off)]. Qed.
End ChainSteps.

(* vn_aux / vd_aux of a successfully parsed record fit in 32 bits *)
Lemma verneed_aux_bound s c d off x : buf_ok d -> fst (parse_verneed s c d off) = Ok x -> vn_aux x <= U32_MAX.
Proof.
  intros Hd H. destruct (N.le_gt_cases (off + 16) (blen d)) as [Hle|Hgt].
  - rewrite (parse_verneed_ok s c d off Hd Hle) in H. cbv zeta in H.
    destruct (_ =? 1); cbn [fst] in H; [|discriminate]. injection H as <-.
    unfold verneed_spec; cbn [vn_aux]. apply fval4_bound with (o := 8). vm_compute. reflexivity.
  - destruct (parse_verneed_short s c d off Hd Hgt) as [e [o E]]. rewrite E in H. discriminate.
Qed.
Lemma verdef_aux_bound s c d off x : buf_ok d -> fst (parse_verdef s c d off) = Ok x -> vd_aux x <= U32_MAX.
Proof.
  intros Hd H. destruct (N.le_gt_cases (off + 20) (blen d)) as [Hle|Hgt].
  - rewrite (parse_verdef_ok s c d off Hd Hle) in H. cbv zeta in H.
    destruct (_ =? 1); cbn [fst] in H; [|discriminate]. injection H as <-.
    unfold verdef_spec; cbn [vd_aux]. apply fval4_bound with (o := 12). vm_compute. reflexivity.
  - destruct (parse_verdef_short s c d off Hd Hgt) as [e [o E]]. rewrite E in H. discriminate.
Qed.

(* ---------- the two outer iterators over a laid-out section ---------- *)
Section Outer.
  Variables (s : espec) (c : class) (d : buf).
  Hypothesis Hd : buf_ok d.

  Definition need_item (e : need_entry) : verneed * viter :=
    let '(vn, off, _) := e in (vn, {| vi_count := vn_cnt vn; vi_off := off + vn_aux vn |}).
  Definition def_item (e : def_entry) : verdef * viter :=
    let '(vd, off, _) := e in (vd, {| vi_count := vd_cnt vd; vi_off := off + vd_aux vd |}).

  Lemma need_chain : forall cnt off l, need_layout s c d off cnt l ->
    chain d (parse_verneed s c) vn_next off cnt (map (fun e => (fst (fst e), snd (fst e))) l).
  Proof.
    induction cnt as [|cnt IH]; intros off l H; inversion H; subst; cbn [map fst snd]; constructor; auto.
  Qed.
  Lemma def_chain : forall cnt off l, def_layout s c d off cnt l ->
    chain d (parse_verdef s c) vd_next off cnt (map (fun e => (fst (fst e), snd (fst e))) l).
  Proof.
    induction cnt as [|cnt IH]; intros off l H; inversion H; subst; cbn [map fst snd]; constructor; auto.
  Qed.

  Lemma need_steps_aux : forall (l : list need_entry) st,
    steps (link_next (parse_verneed s c) vn_next d) st (map (fun e => (fst (fst e), snd (fst e))) l) ->
    Forall (fun e => fst (parse_verneed s c d (snd (fst e))) = Ok (fst (fst e))) l ->
    steps (verneed_next s c d) st (map need_item l).
  Proof.
    induction l as [|[[vn off] al] l IH]; intros st H HF; cbn [map] in *.
    - inversion H as [st0 st' E|]; subst. eapply st_nil. unfold verneed_next. rewrite E. reflexivity.
    - inversion H as [|st0 x st' l0 E Hrest]; subst. inversion HF as [|? ? Hp HF']; subst. cbn [fst snd] in *.
      eapply st_cons; [|apply IH; [exact Hrest|exact HF']].
      unfold verneed_next. rewrite E. cbn [rbind]. unfold need_item.
      pose proof (verneed_aux_bound s c d off vn Hd Hp) as Ha.
      destruct (lk_ok _ _ _ (link_ok_verneed s c) d off vn Hd Hp) as [Hin _].
      unfold add_or_panic, buf_ok, ISIZE_MAX, USIZE_MAX, U32_MAX in *.
      replace (off + vn_aux vn <=? 18446744073709551615) with true by lia. reflexivity.
  Qed.
  Lemma def_steps_aux : forall (l : list def_entry) st,
    steps (link_next (parse_verdef s c) vd_next d) st (map (fun e => (fst (fst e), snd (fst e))) l) ->
    Forall (fun e => fst (parse_verdef s c d (snd (fst e))) = Ok (fst (fst e))) l ->
    steps (verdef_next s c d) st (map def_item l).
  Proof.
    induction l as [|[[vd off] al] l IH]; intros st H HF; cbn [map] in *.
    - inversion H as [st0 st' E|]; subst. eapply st_nil. unfold verdef_next. rewrite E. reflexivity.
    - inversion H as [|st0 x st' l0 E Hrest]; subst. inversion HF as [|? ? Hp HF']; subst. cbn [fst snd] in *.
      eapply st_cons; [|apply IH; [exact Hrest|exact HF']].
      unfold verdef_next. rewrite E. cbn [rbind]. unfold def_item.
      pose proof (verdef_aux_bound s c d off vd Hd Hp) as Ha.
      destruct (lk_ok _ _ _ (link_ok_verdef s c) d off vd Hd Hp) as [Hin _].
      unfold add_or_panic, buf_ok, ISIZE_MAX, USIZE_MAX, U32_MAX in *.
      replace (off + vd_aux vd <=? 18446744073709551615) with true by lia. reflexivity.
  Qed.

  Lemma need_parsed : forall cnt off l, need_layout s c d off cnt l ->
    Forall (fun e => fst (parse_verneed s c d (snd (fst e))) = Ok (fst (fst e))) l.
  Proof. induction cnt; intros off l H; inversion H; subst; constructor; eauto. Qed.
  Lemma def_parsed : forall cnt off l, def_layout s c d off cnt l ->
    Forall (fun e => fst (parse_verdef s c d (snd (fst e))) = Ok (fst (fst e))) l.
  Proof. induction cnt; intros off l H; inversion H; subst; constructor; eauto. Qed.
  Lemma need_auxs : forall cnt off l, need_layout s c d off cnt l ->
    Forall (fun e => let '(vn, o, al) := e in
              chain d (parse_vernaux s c) vna_next (o + vn_aux vn) (N.to_nat (vn_cnt vn)) al) l.
  Proof. induction cnt; intros off l H; inversion H; subst; constructor; eauto. Qed.
  Lemma def_auxs : forall cnt off l, def_layout s c d off cnt l ->
    Forall (fun e => let '(vd, o, al) := e in
              chain d (parse_verdaux s c) vda_next (o + vd_aux vd) (N.to_nat (vd_cnt vd)) al) l.
  Proof. induction cnt; intros off l H; inversion H; subst; constructor; eauto. Qed.

  Theorem need_steps cnt off l : need_layout s c d off cnt l ->
    steps (verneed_next s c d) {| vi_count := N.of_nat cnt; vi_off := off |} (map need_item l).
  Proof.
    intros H. apply need_steps_aux; [|exact (need_parsed _ _ _ H)].
    apply (chain_steps _ _ _ (link_ok_verneed s c) d Hd). exact (need_chain _ _ _ H).
  Qed.
  Theorem def_steps cnt off l : def_layout s c d off cnt l ->
    steps (verdef_next s c d) {| vi_count := N.of_nat cnt; vi_off := off |} (map def_item l).
  Proof.
    intros H. apply def_steps_aux; [|exact (def_parsed _ _ _ H)].
    apply (chain_steps _ _ _ (link_ok_verdef s c) d Hd). exact (def_chain _ _ _ H).
  Qed.

  Lemma need_fuel cnt off l : need_layout s c d off cnt l -> (List.length (map need_item l) < link_fuel d)%nat.
  Proof.
    intros H. rewrite map_length.
    pose proof (chain_fuel _ _ _ (link_ok_verneed s c) d Hd _ _ _ (need_chain _ _ _ H)) as F.
    now rewrite map_length in F.
  Qed.
  Lemma def_fuel cnt off l : def_layout s c d off cnt l -> (List.length (map def_item l) < link_fuel d)%nat.
  Proof.
    intros H. rewrite map_length.
    pose proof (chain_fuel _ _ _ (link_ok_verdef s c) d Hd _ _ _ (def_chain _ _ _ H)) as F.
    now rewrite map_length in F.
  Qed.

  (* ---------- get_requirement ---------- *)
  Theorem get_requirement_ref versym strs defs cnt l i :
    need_layout s c d 0 cnt l ->
    get_requirement s c {| svt_versym := versym;
                           svt_needs := Some ({| vi_count := N.of_nat cnt; vi_off := 0 |}, d, strs);
                           svt_defs := defs |} i =
    Some (let? ver := table_get (parse_versym s c) 2 versym i in requirement_ref strs ver l).
  Proof.
    intros H. unfold get_requirement, vernaux_next. cbn [svt_needs svt_versym].
    destruct (table_get (parse_versym s c) 2 versym i) as [ver| |]; cbn [rbind]; try reflexivity.
    rewrite (search_steps _ _ _ _ (need_steps _ _ _ H) _ (need_fuel _ _ _ H)).
    f_equal. unfold requirement_ref.
    pose proof (need_auxs _ _ _ H) as HA. clear H.
    induction l as [|[[vn off] al] l IH]; cbn [map search_list first_aux]; [reflexivity|].
    inversion HA as [|? ? Hc HA']; subst. unfold need_item at 1.
    pose proof (chain_steps _ _ _ (link_ok_vernaux s c) d Hd _ _ _ Hc) as Hs. rewrite N2Nat.id in Hs.
    rewrite (search_steps _ _ _ _ Hs _ (chain_fuel _ _ _ (link_ok_vernaux s c) d Hd _ _ _ Hc)). clear Hs.
    clear Hc HA. induction al as [|[vna o] al IHa]; cbn [search_list find fst].
    - apply IH. exact HA'.
    - destruct (vna_other vna =? vx_index ver) eqn:E; cbn [negb fst].
      + destruct (strtab_get strs (vn_file vn)) as [file| |]; cbn [rbind fst]; try reflexivity.
        destruct (strtab_get strs (vna_name vna)) as [name| |]; cbn [rbind fst]; reflexivity.
      + exact IHa.
  Qed.

  (* ---------- get_definition ---------- *)
  Theorem get_definition_ref versym strs needs cnt l i :
    def_layout s c d 0 cnt l ->
    get_definition s c {| svt_versym := versym; svt_needs := needs;
                          svt_defs := Some ({| vi_count := N.of_nat cnt; vi_off := 0 |}, d, strs) |} i =
    Some (let? ver := table_get (parse_versym s c) 2 versym i in definition_ref ver l).
  Proof.
    intros H. unfold get_definition. cbn [svt_defs svt_versym].
    destruct (table_get (parse_versym s c) 2 versym i) as [ver| |]; cbn [rbind]; try reflexivity.
    rewrite (search_steps _ _ _ _ (def_steps _ _ _ H) _ (def_fuel _ _ _ H)).
    f_equal. unfold definition_ref. clear H.
    induction l as [|[[vd off] al] l IH]; cbn [map search_list find fst]; [reflexivity|].
    unfold def_item at 1. destruct (vd_ndx vd =? vx_index ver) eqn:E; cbn [negb]; [reflexivity|exact IH].
  Qed.

  (* the names of a definition: the strings of its auxiliary records, in chain order *)
  Theorem definition_names_ref strs cnt off al : chain d (parse_verdaux s c) vda_next off cnt al ->
    definition_names s c d strs {| vi_count := N.of_nat cnt; vi_off := off |} =
    Some (Ok (map (fun a => strtab_get strs (vda_name (fst a))) al)).
  Proof.
    intros H. unfold definition_names. unfold verdaux_next.
    rewrite (chain_drain _ _ _ (link_ok_verdaux s c) d Hd _ _ _ H).
    f_equal. f_equal. apply map_ext. intros [vda o]. reflexivity.
  Qed.
End Outer.
