(* C07 / C08, per-method part: the key-free reading [eval] of a program, the load-before-get
   discipline, and the equivalence of every ElfStream method with the slice parser. *)
Require Import V.Base.Prim V.Spec.Ints V.Spec.AbiLayout V.Model.Structs V.Model.Table V.Model.StrTab V.Model.Utf8
        V.Model.File V.Model.Hash V.Model.Note V.Model.SymVer V.Model.ElfBytes V.Model.Stream
        V.Proofs.PrimFacts V.Proofs.StructsP V.Proofs.TableP V.Proofs.FileP V.Proofs.ElfBytesP V.Proofs.CommonP
        V.Proofs.StreamP.
From Coq Require Import Lia ZifyBool ZifyN ZifyNat.
Open Scope N_scope.

(* ---------- eval: what a program computes from the stream content alone ---------- *)
Fixpoint eval {A} (f : buf) (p : prog A) : res A :=
  match p with
  | PRet a => Ok a
  | PFail e => Err e
  | PPanic => Panic
  | PLoad s e k => if blen f <? e then Err (EBadOffset e) else eval f k
  | PGet s e k => eval f (k (view f (s, s + (e - s))))
  | PVec _ k => eval f k
  end.
Lemma eval_bind {A B} f (m : prog A) (k : A -> prog B) :
  eval f (pbind m k) = rbind (eval f m) (fun a => eval f (k a)).
Proof.
  induction m as [a|e| |s e m IH|s e m IH|n m IH]; cbn [pbind eval rbind]; try reflexivity.
  - destruct (blen f <? e); [reflexivity|exact IH].
  - apply IH.
  - exact IH.
Qed.
Lemma eval_plift {A} f (r : res A) : eval f (plift r) = r.
Proof. destruct r; reflexivity. Qed.
(* read_bytes(s, e) with s <= e: the content range, or BadOffset when it ends past the stream *)
Lemma eval_pread f s e : s <= e ->
  eval f (pread s e) = if blen f <? e then Err (EBadOffset e) else Ok (view f (s, e)).
Proof. intros H. unfold pread. cbn [eval]. replace (s + (e - s)) with e by lia. reflexivity. Qed.

(* ---------- load before get: such a program never reaches the `expect` in get_bytes, and its
   result does not depend on what is already cached ---------- *)
Inductive safe {A} : list (N * N) -> prog A -> Prop :=
| sf_ret L a : safe L (PRet a)
| sf_fail L e : safe L (PFail e)
| sf_load L s e k : safe ((s, e) :: L) k -> safe L (PLoad s e k)
| sf_get L s e k : mem_key s e L = true -> (forall b, buf_ok b -> safe L (k b)) -> safe L (PGet s e k)
| sf_vec L n k : safe L k -> safe L (PVec n k).

Definition subkeys (L L' : list (N * N)) : Prop := forall s e, mem_key s e L = true -> mem_key s e L' = true.
Definition valid_keys (f : buf) (L : list (N * N)) : Prop := forall s e, mem_key s e L = true -> e <= blen f.

Lemma safe_weaken {A} (p : prog A) : forall L L', safe L p -> subkeys L L' -> safe L' p.
Proof.
  intros L L' H. revert L'. induction H as [L a|L e|L s e k H IH|L s e k Hm H IH|L n k H IH]; intros L' Hs.
  - constructor.
  - constructor.
  - constructor. apply IH. intros s1 e1. cbn [mem_key]. destruct ((s =? s1) && (e =? e1)); cbn [orb]; [reflexivity|apply Hs].
  - constructor; [apply Hs; exact Hm|]. intros b Hb. apply IH; assumption.
  - constructor. now apply IH.
Qed.

Theorem pure_eval {A} f (p : prog A) : buf_ok f -> forall L, safe L p -> forall L', subkeys L L' -> valid_keys f L' ->
  fst (run_pure f p L') = eval f p.
Proof.
  intros Hf L H. induction H as [L a|L e|L s e k H IH|L s e k Hm H IH|L n k H IH]; intros L' Hs Hv; cbn [run_pure eval fst].
  - reflexivity.
  - reflexivity.
  - destruct (mem_key s e L') eqn:M.
    + replace (blen f <? e) with false by (specialize (Hv _ _ M); lia).
      apply IH; [|exact Hv]. intros s1 e1. cbn [mem_key].
      destruct ((s =? s1) && (e =? e1)) eqn:K; cbn [orb]; [|apply Hs].
      intros _. assert (s1 = s) by lia. assert (e1 = e) by lia. now subst.
    + destruct (blen f <? e) eqn:B; [reflexivity|].
      specialize (IH ((s, e) :: L')).
      destruct (run_pure f k ((s, e) :: L')) as [x [t ks]]. cbn [fst] in *. apply IH.
      * intros s1 e1. cbn [mem_key]. destruct ((s =? s1) && (e =? e1)); cbn [orb]; [reflexivity|apply Hs].
      * intros s1 e1. cbn [mem_key]. destruct ((s =? s1) && (e =? e1)) eqn:K; cbn [orb]; [|apply Hv].
        intros _. lia.
  - rewrite (Hs _ _ Hm). apply IH; [apply view_ok; exact Hf|exact Hs|exact Hv].
  - specialize (IH L' Hs Hv). destruct (run_pure f k L') as [x [t ks]]. exact IH.
Qed.

(* a safe program never panics in the `expect` of get_bytes; panics can only come from PPanic
   nodes, of which a safe program has none *)
Lemma safe_bind {A B} (m : prog A) (k : A -> prog B) : forall L, safe L m ->
  (forall a L', subkeys L L' -> safe L' (k a)) -> safe L (pbind m k).
Proof.
  intros L H. induction H as [L a|L e|L s e m H IH|L s e m Hm H IH|L n m H IH]; intros Hk; cbn [pbind].
  - apply Hk. intros s e H; exact H.
  - constructor.
  - constructor. apply IH. intros a L' Hs. apply Hk. intros s1 e1 M. apply Hs. cbn [mem_key]. rewrite M. apply orb_true_r.
  - constructor; [exact Hm|]. intros b Hb. apply IH; assumption.
  - constructor. now apply IH.
Qed.
Lemma safe_plift {A} L (r : res A) : r <> Panic -> safe L (plift r).
Proof. destruct r; cbn [plift]; [constructor|constructor|congruence]. Qed.
Lemma safe_pread L s e : safe L (pread s e).
Proof.
  unfold pread. constructor. constructor; [cbn [mem_key]; now rewrite !N.eqb_refl|]. intros b _. constructor.
Qed.

(* ---------- histories: any sequence of calls on one stream ---------- *)
Section History.
  Variable w : world.
  Notation f := (content w).
  Context {A : Type}.
  Fixpoint run_hist (ps : list (prog A)) (r : rd) : list (res A) * rd :=
    match ps with
    | [] => ([], r)
    | p :: t => let (x, r1) := run_real w p r in let (xs, r2) := run_hist t r1 in (x :: xs, r2)
    end.

  Lemma inv_valid r : inv w r -> valid_keys f (keys_of r).
  Proof.
    intros [_ Hc] s e M. unfold keys_of in M. apply mem_key_lookup in M.
    destruct (cache_lookup s e (r_cache r)) as [b|] eqn:L; [|congruence]. destruct (Hc _ _ _ L) as [He _]. exact He.
  Qed.

  (* fault-free: whatever was asked before (any order, any repetition, ranges sharing a start or
     an end), the answer is the content-only reading of the call *)
  Theorem call_history_free (p : prog A) r : no_faults w -> buf_ok f -> inv w r -> safe [] p ->
    fst (run_real w p r) = eval f p /\ inv w (snd (run_real w p r)).
  Proof.
    intros NF Hf Hi Hs. pose proof (real_exact w NF A p r Hi) as E.
    destruct (run_real w p r) as [x r']. cbn [fst snd].
    pose proof (pure_eval f p Hf [] Hs (keys_of r) ltac:(intros s e M; discriminate) (inv_valid r Hi)) as P.
    destruct (run_pure f p (keys_of r)) as [y [t ks]]. cbn [fst] in P. destruct E as [-> [_ [_ Hi']]].
    split; [exact P|exact Hi'].
  Qed.
  Theorem history_free (ps : list (prog A)) : no_faults w -> buf_ok f -> Forall (safe []) ps ->
    forall r, inv w r -> fst (run_hist ps r) = map (eval f) ps /\ inv w (snd (run_hist ps r)).
  Proof.
    intros NF Hf HS. induction HS as [|p t Hp Ht IH]; intros r Hi; cbn [run_hist map].
    - split; [reflexivity|exact Hi].
    - destruct (call_history_free p r NF Hf Hi Hp) as [E1 Hi1].
      destruct (run_real w p r) as [x r1]. cbn [fst snd] in *.
      destruct (IH r1 Hi1) as [E2 Hi2]. destruct (run_hist t r1) as [xs r2]. cbn [fst snd] in *.
      split; [now rewrite E1, E2|exact Hi2].
  Qed.

  (* ANY fault schedule: each answer is an I/O error or exactly the fault-free answer; the cache
     invariant survives every failure, so later calls are unaffected *)
  Definition err_or (x y : res A) : Prop := x = y \/ x = Err EIOError.
  Theorem call_error_or_same (p : prog A) r : buf_ok f -> inv w r -> safe [] p ->
    err_or (fst (run_real w p r)) (eval f p) /\ inv w (snd (run_real w p r)).
  Proof.
    intros Hf Hi Hs. pose proof (real_sound w A p r Hi) as E.
    destruct (run_real w p r) as [x r']. cbn [fst snd].
    pose proof (pure_eval f p Hf [] Hs (keys_of r) ltac:(intros s e M; discriminate) (inv_valid r Hi)) as P.
    destruct E as [Hi' [E|[E _]]]; (split; [|exact Hi']); [left; now rewrite E, P|right; exact E].
  Qed.
  Theorem history_error_or_same (ps : list (prog A)) : buf_ok f -> Forall (safe []) ps ->
    forall r, inv w r -> Forall2 err_or (fst (run_hist ps r)) (map (eval f) ps) /\ inv w (snd (run_hist ps r)).
  Proof.
    intros Hf HS. induction HS as [|p t Hp Ht IH]; intros r Hi; cbn [run_hist map].
    - split; [constructor|exact Hi].
    - destruct (call_error_or_same p r Hf Hi Hp) as [E1 Hi1].
      destruct (run_real w p r) as [x r1]. cbn [fst snd] in *.
      destruct (IH r1 Hi1) as [E2 Hi2]. destruct (run_hist t r1) as [xs r2]. cbn [fst snd] in *.
      split; [constructor; assumption|exact Hi2].
  Qed.
End History.

(* the reader handed to the methods after open_stream satisfies the invariant *)
Lemma inv_new w : match new_reader w with (Ok _, r0) => inv w r0 | _ => True end.
Proof.
  unfold new_reader. destruct (faults w 0); [exact I|]. split; [reflexivity|]. intros s e b H. discriminate.
Qed.
Lemma inv_clear w r : inv w r -> inv w (clear_cache r).
Proof. intros [Hl _]. split; [exact Hl|]. intros s e b H. discriminate. Qed.
Theorem open_stream_inv fam w : inv w (snd (open_stream fam w)) \/ is_ok (fst (open_stream fam w)) = false.
Proof.
  unfold open_stream. pose proof (inv_new w) as H0. destruct (new_reader w) as [[[]|e|] r0]; [|now right|now right].
  pose proof (real_sound w _ (open_prog fam) r0 H0) as E.
  destruct (run_real w (open_prog fam) r0) as [x r1]. cbn [fst snd]. left. apply inv_clear. tauto.
Qed.

(* ---------- C08: every allocation and read is bounded by the stream, under any schedule ---------- *)
Definition ev_ok (f : buf) (ev : ioev) : Prop :=
  match ev with
  | EvAlloc n => n <= blen f
  | EvRead p n => p + n <= blen f
  | _ => True
  end.
Lemma load_log_ok w s e r : inv w r -> Forall (ev_ok (content w)) (r_log r) ->
  Forall (ev_ok (content w)) (r_log (snd (load_bytes w s e r))).
Proof.
  intros [Hl Hc] HF. unfold load_bytes. destruct (cache_lookup s e (r_cache r)); [exact HF|].
  destruct (r_slen r <? e) eqn:G; [exact HF|].
  unfold seek. destruct (faults w (r_step r)); [exact HF|].
  unfold read_exact, logev, set_pos, bump. cbn [r_pos r_step r_cache r_slen r_log snd].
  assert (H2 : Forall (ev_ok (content w)) ((r_log r ++ [EvSeek s]) ++ [EvAlloc (e - s)])).
  { apply Forall_app. split; [apply Forall_app; split; [exact HF|repeat constructor]|]. repeat constructor. cbn. lia. }
  destruct (e - s =? 0) eqn:Z; [exact H2|].
  destruct (faults w (r_step r + 1)); [exact H2|].
  destruct (s + (e - s) <=? blen (content w)) eqn:B; cbn [snd r_log]; [|exact H2].
  apply Forall_app. split; [exact H2|]. repeat constructor. cbn. lia.
Qed.
Theorem real_log_ok w : forall A (p : prog A) r, inv w r -> Forall (ev_ok (content w)) (r_log r) ->
  Forall (ev_ok (content w)) (r_log (snd (run_real w p r))).
Proof.
  intros A p. induction p as [a|e| |s e k IH|s e k IH|n k IH]; intros r Hi HF; cbn [run_real snd]; try exact HF.
  - pose proof (load_bytes_cases w s e r Hi) as L. pose proof (load_log_ok w s e r Hi HF) as HL.
    destruct (load_bytes w s e r) as [[[]|x|] r1]; cbn [snd] in *; [|exact HL|exact HL].
    apply IH; [tauto|exact HL].
  - unfold get_bytes_r. destruct (cache_lookup s e (r_cache r)); [apply IH; assumption|exact HF].
  - apply IH; [exact Hi|]. cbn [logev r_log]. apply Forall_app. split; [exact HF|repeat constructor].
Qed.

(* ---------- every ElfStream method loads before it gets (and has no reachable panic) ---------- *)
Lemma data_range_np a b : data_range a b <> Panic.
Proof. unfold data_range. destruct (checked_add a b); cbn; discriminate. Qed.
Lemma data_range_le a b x y : data_range a b = Ok (x, y) -> x <= y.
Proof.
  unfold data_range, checked_add. destruct (a + b <=? USIZE_MAX) eqn:E; cbn; [|discriminate]. intros [= <- <-]. lia.
Qed.

Ltac sf_step :=
  lazymatch goal with
  | |- safe _ (PRet _) => constructor
  | |- safe _ (PFail _) => constructor
  | |- safe _ (pread _ _) => apply safe_pread
  | |- safe _ (plift _) => apply safe_plift
  | |- safe _ (prange _) => apply safe_plift; apply data_range_np
  | |- safe _ (pbind _ _) => apply safe_bind; [|intros ? ? ?]
  | |- safe _ (if ?b then _ else _) => destruct b
  | |- safe _ (PVec _ _) => constructor
  end.
Ltac np_side :=
  first [apply validate_np | apply ok_or_np | apply data_range_np | apply parse_ident_no_panic
        | (apply regular_np with (n := shdr_size _); [apply regular_shdr|assumption])
        | (eapply regular_np; [apply regular_tail|assumption]) ].

Lemma safe_pread_bind {B} L s e (k : buf -> prog B) :
  (forall b L', buf_ok b -> subkeys L L' -> safe L' (k b)) -> safe L (pbind (pread s e) k).
Proof.
  intros H. unfold pread. cbn [pbind]. constructor. constructor; [cbn [mem_key]; now rewrite !N.eqb_refl|].
  intros b Hb. apply H; [exact Hb|]. intros s1 e1 M. cbn [mem_key]. rewrite M. apply orb_true_r.
Qed.

Lemma safe_section_headers eh L : safe L (parse_section_headers eh).
Proof.
  unfold parse_section_headers. destruct (e_shoff eh =? 0); [constructor|].
  apply safe_bind; [apply safe_plift, validate_np|intros entsize L1 _].
  apply safe_bind.
  - destruct (e_shnum eh =? 0); [|constructor].
    apply safe_bind; [apply safe_plift, ok_or_np|intros en L2 _].
    apply safe_pread_bind. intros b L3 Hb _.
    apply safe_bind; [apply safe_plift; apply regular_np with (n := shdr_size (e_class eh)); [apply regular_shdr|exact Hb]|].
    intros; constructor.
  - intros shnum L2 _. apply safe_bind; [apply safe_plift, ok_or_np|intros sz L3 _].
    apply safe_bind; [apply safe_plift, ok_or_np|intros en L4 _].
    apply safe_pread_bind. intros b L5 Hb _. constructor. constructor.
Qed.
Lemma safe_program_headers eh L : safe L (parse_program_headers eh).
Proof.
  unfold parse_program_headers. destruct (e_phoff eh =? 0); [constructor|].
  apply safe_bind.
  - destruct (e_phnum eh =? PN_XNUM); [|constructor].
    apply safe_bind; [apply safe_plift, ok_or_np|intros en L2 _].
    apply safe_pread_bind. intros b L3 Hb _.
    apply safe_bind; [apply safe_plift; apply regular_np with (n := shdr_size (e_class eh)); [apply regular_shdr|exact Hb]|].
    intros; constructor.
  - intros phnum L2 _. apply safe_bind; [apply safe_plift, validate_np|intros entsize L3 _].
    apply safe_bind; [apply safe_plift, ok_or_np|intros sz L4 _].
    apply safe_bind; [apply safe_plift, ok_or_np|intros en L5 _].
    apply safe_pread_bind. intros b L6 Hb _. constructor. constructor.
Qed.
Theorem safe_open fam : safe [] (open_prog fam).
Proof.
  unfold open_prog. apply safe_pread_bind. intros ib L1 Hib _.
  apply safe_bind; [apply safe_plift, parse_ident_no_panic|intros [[[s c] osabi] abiver] L2 _].
  apply safe_pread_bind. intros tb L3 Htb _.
  apply safe_bind; [apply safe_plift; apply (regular_np _ _ tb 0 (regular_tail s c osabi abiver) Htb)|intros eh L4 _].
  apply safe_bind; [apply safe_section_headers|intros sh L5 _].
  apply safe_bind; [apply safe_program_headers|intros ph L6 _]. constructor.
Qed.

Section SafeQueries.
  Variable es : estream.
  Lemma safe_prange_bind {B} L h (k : N * N -> prog B) :
    (forall r L', fst r <= snd r -> subkeys L L' -> safe L' (k r)) -> safe L (pbind (prange h) k).
  Proof.
    intros H. unfold prange, sh_range. destruct (data_range (sh_offset h) (sh_size h)) as [[x y]| |] eqn:E; cbn [plift pbind].
    - apply H; [cbn; eapply data_range_le; exact E|intros s e M; exact M].
    - constructor.
    - exfalso. exact (data_range_np _ _ E).
  Qed.
  Theorem safe_shstrtab L : safe L (q_shstrtab es).
  Proof.
    unfold q_shstrtab. destruct (is_nil (es_shdrs es)) eqn:En; [constructor|].
    destruct (e_shstrndx (es_ehdr es) =? 0); [constructor|].
    apply safe_bind.
    - destruct (e_shstrndx (es_ehdr es) =? SHN_XINDEX); [|constructor].
      destruct (es_shdrs es); [discriminate|constructor].
    - intros ndx L1 _. apply safe_bind; [apply safe_plift, ok_or_np|intros st L2 _].
      apply safe_prange_bind. intros r L3 _ _. apply safe_pread_bind. intros b L4 _ _. constructor.
  Qed.
  Theorem safe_by_name name L : safe L (q_by_name es name).
  Proof. unfold q_by_name. apply safe_bind; [apply safe_shstrtab|intros [t|] L1 _; constructor]. Qed.
  Theorem safe_section_data f0 h L : safe L (q_section_data es f0 h).
  Proof.
    unfold q_section_data. cbv zeta. destruct (sh_type h =? SHT_NOBITS); [constructor|].
    apply safe_prange_bind. intros r L1 _ _. apply safe_pread_bind. intros b L2 Hb _.
    destruct (N.land (sh_flags h) SHF_COMPRESSED =? 0); [constructor|].
    assert (G : forall x : res chdr * N, fst x <> Panic ->
      safe L2 (match x with
               | (Err e, _) => PFail e
               | (Panic, _) => PPanic
               | (Ok ch, off) => match sub b off (blen b) with
                                 | Some rest => PRet (rest, Some ch)
                                 | None => PFail (ESliceReadError off (sh_size h))
                                 end
               end)).
    { intros [[ch| |] off] NP; cbn [fst] in NP; [destruct (sub b off (blen b)); constructor|constructor|congruence]. }
    apply G. apply (regular_np _ _ b 0 (regular_chdr (e_spec (es_ehdr es)) (e_class (es_ehdr es))) Hb).
  Qed.
  Theorem safe_typed ty h L : safe L (q_typed ty h).
  Proof.
    unfold q_typed. destruct (negb (sh_type h =? ty)); [constructor|].
    apply safe_prange_bind. intros r L1 _ _. apply safe_pread.
  Qed.
  Theorem safe_notes h L : safe L (q_notes h).
  Proof. unfold q_notes. apply safe_bind; [apply safe_typed|intros; constructor]. Qed.
  Theorem safe_seg_notes h L : safe L (q_seg_notes h).
  Proof.
    unfold q_seg_notes. destruct (negb (p_type h =? PT_NOTE)); [constructor|].
    apply safe_bind; [apply safe_plift, data_range_np|intros r L1 _].
    apply safe_pread_bind. intros b L2 _ _. constructor.
  Qed.
  Theorem safe_dynamic L : safe L (q_dynamic es).
  Proof.
    unfold q_dynamic. destruct (negb (is_nil (es_shdrs es))).
    - destruct (find_first _ (es_shdrs es)); [|constructor].
      apply safe_prange_bind. intros r L1 _ _. apply safe_pread_bind. intros b L2 _ _. constructor.
    - destruct (negb (is_nil (es_phdrs es))); [|constructor].
      destruct (find_first _ (es_phdrs es)); [|constructor].
      apply safe_bind; [apply safe_plift, data_range_np|intros r L1 _].
      apply safe_pread_bind. intros b L2 _ _. constructor.
  Qed.
  Theorem safe_symtab ty L : safe L (q_symtab_of_type es ty).
  Proof.
    unfold q_symtab_of_type. destruct (is_nil (es_shdrs es)); [constructor|].
    destruct (find_first _ (es_shdrs es)) as [h|]; [|constructor].
    apply safe_prange_bind. intros r L1 _ _. constructor.
    apply safe_bind; [apply safe_plift, ok_or_np|intros strh L2 S2].
    apply safe_prange_bind. intros tr L3 _ S3. constructor.
    apply safe_bind; [apply safe_plift, validate_np|intros u L4 S4].
    constructor.
    - apply S4. cbn [mem_key]. rewrite (S3 (fst r) (snd r)); [apply orb_true_r|].
      apply S2. cbn [mem_key]. now rewrite !N.eqb_refl.
    - intros sb _. constructor; [|intros tb _; constructor].
      apply S4. cbn [mem_key]. now rewrite !N.eqb_refl.
  Qed.
End SafeQueries.

(* a program that loads before it gets has no reachable panic at all *)
Lemma safe_eval_np {A} f (p : prog A) L : buf_ok f -> safe L p -> eval f p <> Panic.
Proof.
  intros Hf H. induction H as [L a|L e|L s e k H IH|L s e k Hm H IH|L n k H IH]; cbn [eval]; try discriminate.
  - destruct (blen f <? e); [discriminate|exact IH].
  - apply IH. apply view_ok. exact Hf.
  - exact IH.
Qed.
Theorem call_no_panic w {A} (p : prog A) r : buf_ok (content w) -> inv w r -> safe [] p ->
  fst (run_real w p r) <> Panic.
Proof.
  intros Hf Hi Hs. destruct (call_error_or_same w p r Hf Hi Hs) as [[E|E] _]; rewrite E; [|discriminate].
  apply (safe_eval_np _ _ _ Hf Hs).
Qed.

(* open_stream: fault-free it computes the content-only reading; under any schedule that or an
   I/O error; in both cases the reader it leaves behind satisfies the invariant *)
Theorem open_stream_exact fam w : no_faults w -> buf_ok (content w) ->
  fst (open_stream fam w) = eval (content w) (open_prog fam) /\ inv w (snd (open_stream fam w)).
Proof.
  intros NF Hf. unfold open_stream. pose proof (inv_new w) as H0. unfold new_reader in *. rewrite NF in *.
  destruct (call_history_free w (open_prog fam) _ NF Hf H0 (safe_open fam)) as [E Hi].
  destruct (run_real w (open_prog fam) _) as [x r1]. cbn [fst snd] in *. split; [exact E|apply inv_clear; exact Hi].
Qed.
Theorem open_stream_sound fam w : buf_ok (content w) ->
  err_or (fst (open_stream fam w)) (eval (content w) (open_prog fam)) /\
  (is_ok (fst (open_stream fam w)) = true -> inv w (snd (open_stream fam w))).
Proof.
  intros Hf. unfold open_stream. pose proof (inv_new w) as H0. unfold new_reader in *.
  destruct (faults w 0); cbn [fst snd].
  - split; [right; reflexivity|discriminate].
  - destruct (call_error_or_same w (open_prog fam) _ Hf H0 (safe_open fam)) as [E Hi].
    destruct (run_real w (open_prog fam) _) as [x r1]. cbn [fst snd] in *. split; [exact E|intros _; apply inv_clear; exact Hi].
Qed.

(* symbol_version_table: five loads (versym, verneed + its strings, verdef + its strings), then gets *)
Ltac mk_key := cbn [mem_key]; rewrite ?N.eqb_refl; cbn [andb orb]; rewrite ?orb_true_r; reflexivity.
Theorem safe_symver es L : safe L (q_symver es).
Proof.
  unfold q_symver. destruct (is_nil (es_shdrs es)); [constructor|].
  destruct (symver_scan (es_shdrs es) None None None) as [[[vsh|] nd] df]; [|constructor].
  apply safe_bind; [apply safe_plift, validate_np|intros u L1 _].
  unfold prange, q_linked, prange.
  destruct (sh_range vsh) as [[va vb]| |] eqn:Ev; cbn [plift pbind]; [|constructor|exfalso; exact (data_range_np _ _ Ev)].
  constructor.
  (* needs *)
  destruct nd as [hn|].
  - destruct (sh_range hn) as [[na nb]| |] eqn:En; cbn [plift pbind]; [|constructor|exfalso; exact (data_range_np _ _ En)].
    constructor. destruct (nth_n (es_shdrs es) (sh_link hn)) as [sn|]; cbn [ok_or plift pbind]; [|constructor].
    destruct (sh_range sn) as [[nta ntb]| |] eqn:Ent; cbn [plift pbind]; [|constructor|exfalso; exact (data_range_np _ _ Ent)].
    constructor. cbn [pbind fst snd].
    destruct df as [hd|].
    + destruct (sh_range hd) as [[da db]| |] eqn:Ed; cbn [plift pbind]; [|constructor|exfalso; exact (data_range_np _ _ Ed)].
      constructor. destruct (nth_n (es_shdrs es) (sh_link hd)) as [sd|]; cbn [ok_or plift pbind]; [|constructor].
      destruct (sh_range sd) as [[dta dtb]| |] eqn:Edt; cbn [plift pbind]; [|constructor|exfalso; exact (data_range_np _ _ Edt)].
      constructor. cbn [pbind fst snd].
      constructor; [mk_key|intros tb _]. constructor; [mk_key|intros b _]. cbn [pbind].
      constructor; [mk_key|intros tb2 _]. constructor; [mk_key|intros b2 _]. cbn [pbind].
      constructor; [mk_key|intros vb0 _]. constructor.
    + cbn [pbind fst snd]. constructor; [mk_key|intros tb _]. constructor; [mk_key|intros b _]. cbn [pbind].
      constructor; [mk_key|intros vb0 _]. constructor.
  - cbn [pbind]. destruct df as [hd|].
    + destruct (sh_range hd) as [[da db]| |] eqn:Ed; cbn [plift pbind]; [|constructor|exfalso; exact (data_range_np _ _ Ed)].
      constructor. destruct (nth_n (es_shdrs es) (sh_link hd)) as [sd|]; cbn [ok_or plift pbind]; [|constructor].
      destruct (sh_range sd) as [[dta dtb]| |] eqn:Edt; cbn [plift pbind]; [|constructor|exfalso; exact (data_range_np _ _ Edt)].
      constructor. cbn [pbind fst snd].
      constructor; [mk_key|intros tb2 _]. constructor; [mk_key|intros b2 _]. cbn [pbind].
      constructor; [mk_key|intros vb0 _]. constructor.
    + cbn [pbind fst snd]. constructor; [mk_key|intros vb0 _]. constructor.
Qed.
