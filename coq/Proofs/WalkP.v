(* the correspondence driver's generic Iterator::nth / take (Extract/Dispatch.v, section Walk), run
   on a ParsingIterator, are the it_nth / it_take of Model/Table.v that C09_nth is about *)
Require Import V.Base.Prim V.Model.Table V.Extract.Out V.Extract.Dispatch.
Open Scope N_scope.

Lemma g_nth_table {T} (parse : buf -> M T) d : forall fuel n off,
  g_nth (iter_next parse d) fuel n off = it_nth parse fuel n d off.
Proof.
  induction fuel as [|f IH]; intros n off; cbn [g_nth it_nth]; [reflexivity|].
  destruct (iter_next parse d off) as [[a|] o']; [|reflexivity].
  destruct (n =? 0); [reflexivity|apply IH].
Qed.
Lemma g_take_table {T} (parse : buf -> M T) d : forall fuel a off,
  g_take (iter_next parse d) fuel a off = it_take parse fuel a d off.
Proof.
  induction fuel as [|f IH]; intros a off; cbn [g_take it_take]; [reflexivity|].
  destruct (a =? 0); [reflexivity|].
  destruct (iter_next parse d off) as [[x|] o']; [|reflexivity]. now rewrite IH.
Qed.
