(* C07: ElfStream's methods compute, from the stream content alone, what the slice parser
   computes from the same bytes. *)
Require Import V.Base.Prim V.Spec.Ints V.Ref.RefLayout V.Spec.AbiLayout V.Model.Structs V.Model.Table V.Model.StrTab V.Model.Utf8
        V.Model.File V.Model.Hash V.Model.Note V.Model.SymVer V.Model.ElfBytes V.Model.Stream
        V.Proofs.PrimFacts V.Proofs.StructsP V.Proofs.TableP V.Proofs.FileP V.Proofs.ElfBytesP V.Proofs.CommonP
        V.Proofs.StreamP V.Proofs.StreamQ.
From Coq Require Import Lia ZifyBool ZifyN ZifyNat String.
Ltac Zify.zify_post_hook ::= Z.div_mod_to_equations.
Open Scope N_scope.

(* a section header read through a view is the header at that file offset *)
Lemma shdr_spec_view s c f a b : a <= b -> b <= blen f -> shdr_size c <= b - a ->
  shdr_spec s c (view f (a, b)) 0 = shdr_spec s c f a.
Proof.
  intros H1 H2 H3. destruct c; cbn [shdr_size] in H3; unfold shdr_spec, fval, pick; repeat lookup; cbv beta iota;
  cbn [fty_size]; rewrite !(bytes_at_view f a b) by (cbn; lia); rewrite ?N.add_0_r, ?N.add_0_l; reflexivity.
Qed.
Lemma parse_shdr_view s c f a : buf_ok f -> a + shdr_size c <= blen f ->
  fst (parse_shdr s c (view f (a, a + shdr_size c)) 0) = Ok (shdr_spec s c f a).
Proof.
  intros Hf Hb. assert (Hs : 0 < shdr_size c) by (destruct c; reflexivity).
  rewrite (parse_shdr_ok s c _ 0 (view_ok f _ Hf)) by (rewrite view_blen by lia; lia).
  cbn [fst]. rewrite shdr_spec_view by lia. reflexivity.
Qed.

(* same success, error kind aside *)
Definition sim {A} (x y : res A) : Prop :=
  match x, y with
  | Ok a, Ok b => a = b
  | Err _, Err _ => True
  | Panic, Panic => True
  | _, _ => False
  end.

Section Open.
  Variables (f : buf).
  Hypothesis Hf : buf_ok f.

  Definition vec_of {T} (parse : buf -> M T) (r : option (N * N)) : list T :=
    match r with Some r => collect parse (view f r) | None => [] end.

  (* shdr[0] as the stream parser reads it *)
  Lemma eval_shdr0 eh {B} (k : shdr -> prog B) (en : N) :
    en = e_shoff eh + shdr_size (e_class eh) -> en <= USIZE_MAX ->
    eval f (data <~ pread (e_shoff eh) en ;;
            sh0 <~ plift (fst (parse_shdr (e_spec eh) (e_class eh) data 0)) ;; k sh0) =
    match shdr0_at eh f (e_shoff eh) with
    | Some h => eval f (k h)
    | None => Err (EBadOffset en)
    end.
  Proof.
    intros -> Hu. rewrite eval_bind, eval_pread by lia. unfold shdr0_at.
    destruct (e_shoff eh + shdr_size (e_class eh) <=? blen f) eqn:E.
    - replace (blen f <? e_shoff eh + shdr_size (e_class eh)) with false by lia. cbn [rbind].
      rewrite eval_bind, eval_plift, parse_shdr_view by (try assumption; lia). reflexivity.
    - replace (blen f <? e_shoff eh + shdr_size (e_class eh)) with true by lia. reflexivity.
  Qed.

  Lemma eval_section_headers eh :
    match table_spec f (e_shoff eh) (e_shentsize eh) (shdr_size (e_class eh)) (shnum_decl eh f) with
    | Some r => eval f (parse_section_headers eh) = Ok (vec_of (parse_shdr (e_spec eh) (e_class eh)) r)
    | None => is_ok (eval f (parse_section_headers eh)) = false
    end.
  Proof.
    unfold table_spec, parse_section_headers, shnum_decl. cbv zeta.
    destruct (e_shoff eh =? 0) eqn:E0; [reflexivity|].
    assert (Hs : 0 < shdr_size (e_class eh)) by (destruct (e_class eh); reflexivity).
    rewrite eval_bind, eval_plift. unfold validate_entsize.
    destruct (e_shentsize eh =? shdr_size (e_class eh)) eqn:Ee; cbn [rbind andb].
    2:{ destruct (if e_shnum eh =? 0 then _ else _); reflexivity. }
    assert (e_shentsize eh = shdr_size (e_class eh)) as -> by lia.
    rewrite eval_bind.
    assert (G : forall n,
      match (if e_shoff eh + shdr_size (e_class eh) * n <=? blen f
             then Some (Some (e_shoff eh, e_shoff eh + shdr_size (e_class eh) * n)) else None) with
      | Some r => eval f (size <~ plift (ok_or (checked_mul (shdr_size (e_class eh)) n) EIntegerOverflow) ;;
                          en <~ plift (ok_or (checked_add (e_shoff eh) size) EIntegerOverflow) ;;
                          b <~ pread (e_shoff eh) en ;;
                          PVec (table_len (shdr_size (e_class eh)) b) (PRet (collect (parse_shdr (e_spec eh) (e_class eh)) b)))
                  = Ok (vec_of (parse_shdr (e_spec eh) (e_class eh)) r)
      | None => is_ok (eval f (size <~ plift (ok_or (checked_mul (shdr_size (e_class eh)) n) EIntegerOverflow) ;;
                          en <~ plift (ok_or (checked_add (e_shoff eh) size) EIntegerOverflow) ;;
                          b <~ pread (e_shoff eh) en ;;
                          PVec (table_len (shdr_size (e_class eh)) b) (PRet (collect (parse_shdr (e_spec eh) (e_class eh)) b)))) = false
      end).
    { intros n. rewrite eval_bind, eval_plift. unfold checked_mul, checked_add, ok_or, buf_ok, ISIZE_MAX, USIZE_MAX in *.
      destruct (e_shoff eh + shdr_size (e_class eh) * n <=? blen f) eqn:Ef.
      - replace (shdr_size (e_class eh) * n <=? 18446744073709551615) with true by lia. cbn [rbind].
        rewrite eval_bind, eval_plift.
        replace (e_shoff eh + shdr_size (e_class eh) * n <=? 18446744073709551615) with true by lia. cbn [rbind].
        rewrite eval_bind, eval_pread by lia.
        replace (blen f <? e_shoff eh + shdr_size (e_class eh) * n) with false by lia. reflexivity.
      - destruct (shdr_size (e_class eh) * n <=? 18446744073709551615); cbn [rbind]; [|reflexivity].
        rewrite eval_bind, eval_plift.
        destruct (e_shoff eh + shdr_size (e_class eh) * n <=? 18446744073709551615); cbn [rbind]; [|reflexivity].
        rewrite eval_bind, eval_pread by lia.
        replace (blen f <? e_shoff eh + shdr_size (e_class eh) * n) with true by lia. reflexivity. }
    destruct (e_shnum eh =? 0).
    - rewrite eval_bind, eval_plift.
      destruct (checked_add (e_shoff eh) (shdr_size (e_class eh))) as [en0|] eqn:Eu; cbn [ok_or rbind].
      + unfold checked_add in Eu. destruct (e_shoff eh + shdr_size (e_class eh) <=? USIZE_MAX) eqn:Eu2; [|discriminate].
        injection Eu as <-.
        rewrite (eval_shdr0 eh (fun sh0 => PRet (sh_size sh0)) _ eq_refl) by lia.
        destruct (shdr0_at eh f (e_shoff eh)) as [h0|]; cbn [option_map eval rbind]; [apply G|reflexivity].
      + unfold checked_add in Eu. destruct (e_shoff eh + shdr_size (e_class eh) <=? USIZE_MAX) eqn:Eu2; [discriminate|].
        unfold shdr0_at. unfold buf_ok, ISIZE_MAX, USIZE_MAX in *.
        replace (e_shoff eh + shdr_size (e_class eh) <=? blen f) with false by lia. reflexivity.
    - cbn [eval rbind]. apply G.
  Qed.

  Lemma eval_program_headers eh :
    match table_spec f (e_phoff eh) (e_phentsize eh) (phdr_size (e_class eh)) (phnum_decl eh f) with
    | Some r => eval f (parse_program_headers eh) = Ok (vec_of (parse_phdr (e_spec eh) (e_class eh)) r)
    | None => is_ok (eval f (parse_program_headers eh)) = false
    end.
  Proof.
    unfold table_spec, parse_program_headers, phnum_decl. cbv zeta.
    destruct (e_phoff eh =? 0) eqn:E0; [reflexivity|].
    rewrite eval_bind.
    assert (G : forall n,
      match (if (e_phentsize eh =? phdr_size (e_class eh)) && (e_phoff eh + phdr_size (e_class eh) * n <=? blen f)
             then Some (Some (e_phoff eh, e_phoff eh + phdr_size (e_class eh) * n)) else None) with
      | Some r => eval f (entsize <~ plift (validate_entsize (phdr_size (e_class eh)) (e_phentsize eh)) ;;
                          size <~ plift (ok_or (checked_mul entsize n) EIntegerOverflow) ;;
                          en <~ plift (ok_or (checked_add (e_phoff eh) size) EIntegerOverflow) ;;
                          b <~ pread (e_phoff eh) en ;;
                          PVec (table_len (phdr_size (e_class eh)) b) (PRet (collect (parse_phdr (e_spec eh) (e_class eh)) b)))
                  = Ok (vec_of (parse_phdr (e_spec eh) (e_class eh)) r)
      | None => is_ok (eval f (entsize <~ plift (validate_entsize (phdr_size (e_class eh)) (e_phentsize eh)) ;;
                          size <~ plift (ok_or (checked_mul entsize n) EIntegerOverflow) ;;
                          en <~ plift (ok_or (checked_add (e_phoff eh) size) EIntegerOverflow) ;;
                          b <~ pread (e_phoff eh) en ;;
                          PVec (table_len (phdr_size (e_class eh)) b) (PRet (collect (parse_phdr (e_spec eh) (e_class eh)) b)))) = false
      end).
    { intros n. rewrite eval_bind, eval_plift. unfold validate_entsize.
      destruct (e_phentsize eh =? phdr_size (e_class eh)) eqn:Ee; cbn [rbind andb]; [|reflexivity].
      assert (e_phentsize eh = phdr_size (e_class eh)) as -> by lia.
      rewrite eval_bind, eval_plift. unfold checked_mul, checked_add, ok_or, buf_ok, ISIZE_MAX, USIZE_MAX in *.
      destruct (e_phoff eh + phdr_size (e_class eh) * n <=? blen f) eqn:Ef.
      - replace (phdr_size (e_class eh) * n <=? 18446744073709551615) with true by lia. cbn [rbind].
        rewrite eval_bind, eval_plift.
        replace (e_phoff eh + phdr_size (e_class eh) * n <=? 18446744073709551615) with true by lia. cbn [rbind].
        rewrite eval_bind, eval_pread by lia.
        replace (blen f <? e_phoff eh + phdr_size (e_class eh) * n) with false by lia. reflexivity.
      - destruct (phdr_size (e_class eh) * n <=? 18446744073709551615); cbn [rbind]; [|reflexivity].
        rewrite eval_bind, eval_plift.
        destruct (e_phoff eh + phdr_size (e_class eh) * n <=? 18446744073709551615); cbn [rbind]; [|reflexivity].
        rewrite eval_bind, eval_pread by lia.
        replace (blen f <? e_phoff eh + phdr_size (e_class eh) * n) with true by lia. reflexivity. }
    destruct (e_phnum eh =? PN_XNUM).
    - rewrite eval_bind, eval_plift.
      destruct (checked_add (e_shoff eh) (shdr_size (e_class eh))) as [en0|] eqn:Eu; cbn [ok_or rbind].
      + unfold checked_add in Eu. destruct (e_shoff eh + shdr_size (e_class eh) <=? USIZE_MAX) eqn:Eu2; [|discriminate].
        injection Eu as <-.
        rewrite (eval_shdr0 eh (fun sh0 => PRet (sh_info sh0)) _ eq_refl) by lia.
        destruct (shdr0_at eh f (e_shoff eh)) as [h0|]; cbn [option_map eval rbind]; [apply G|reflexivity].
      + unfold checked_add in Eu. destruct (e_shoff eh + shdr_size (e_class eh) <=? USIZE_MAX) eqn:Eu2; [discriminate|].
        unfold shdr0_at. unfold buf_ok, ISIZE_MAX, USIZE_MAX in *.
        replace (e_shoff eh + shdr_size (e_class eh) <=? blen f) with false by lia. reflexivity.
    - cbn [eval rbind]. apply G.
  Qed.

  (* what the slice parser's handle looks like as a stream handle: eager header vectors *)
  Definition es_of (eb : elfbytes) : estream :=
    let eh := eb_ehdr eb in
    {| es_ehdr := eh;
       es_shdrs := vec_of (parse_shdr (e_spec eh) (e_class eh)) (eb_shdrs eb);
       es_phdrs := vec_of (parse_phdr (e_spec eh) (e_class eh)) (eb_phdrs eb) |}.

  (* opening through a stream succeeds exactly when opening the same bytes as a slice succeeds,
     and then yields the identical header, section headers and program headers *)
  Theorem open_equiv fam :
    match minimal_parse fam f with
    | Ok eb => eval f (open_prog fam) = Ok (es_of eb)
    | _ => is_ok (eval f (open_prog fam)) = false
    end.
  Proof.
    unfold minimal_parse, open_prog, get_bytes.
    rewrite eval_bind, eval_pread by lia.
    destruct (N.le_gt_cases 16 (blen f)) as [H16|H16].
    2:{ unfold sub. replace ((0 <=? 16) && (16 <=? blen f)) with false by lia.
        replace (blen f <? 16) with true by lia. reflexivity. }
    rewrite (view_sub f 0 16) by lia. replace (blen f <? 16) with false by lia. cbn [ok_or rbind].
    rewrite eval_bind, eval_plift.
    destruct (parse_ident fam (view f (0, 16))) as [[[[s c] osabi] abiver]| |] eqn:Ei; cbn [rbind]; try reflexivity.
    unfold open_after_ident, get_bytes. rewrite eval_bind, eval_pread by lia.
    destruct (N.le_gt_cases (16 + tail_size c) (blen f)) as [Ht|Ht].
    2:{ unfold sub. replace ((16 <=? 16 + tail_size c) && (16 + tail_size c <=? blen f)) with false by lia.
        replace (blen f <? 16 + tail_size c) with true by lia. reflexivity. }
    rewrite (view_sub f 16 (16 + tail_size c)) by lia. replace (blen f <? 16 + tail_size c) with false by lia.
    cbn [ok_or rbind]. rewrite eval_bind, eval_plift.
    rewrite (parse_tail_view s c osabi abiver f Hf Ht). cbn [fst rbind].
    set (eh := ehdr_spec s c osabi abiver f 0).
    pose proof (find_shdrs_spec eh f Hf) as HS. pose proof (find_phdrs_spec eh f Hf) as HP.
    pose proof (eval_section_headers eh) as ES. pose proof (eval_program_headers eh) as EP.
    rewrite eval_bind.
    destruct (table_spec f (e_shoff eh) _ _ (shnum_decl eh f)) as [rs|].
    - rewrite HS, ES. cbn [rbind]. rewrite eval_bind.
      destruct (table_spec f (e_phoff eh) _ _ (phnum_decl eh f)) as [rp|].
      + rewrite HP, EP. cbn [rbind eval]. reflexivity.
      + destruct (find_phdrs eh f); [discriminate| |]; cbn [rbind];
        destruct (eval f (parse_program_headers eh)); try discriminate; reflexivity.
    - destruct (find_shdrs eh f); [discriminate| |]; cbn [rbind];
      destruct (eval f (parse_section_headers eh)); try discriminate; reflexivity.
  Qed.
  (* the stream parser locates the header tables by the same declarative rule (C05): opening succeeds
     exactly on an open_spec handle, and then holds its header and eager tables *)
  Corollary open_stream_spec fam es :
    eval f (open_prog fam) = Ok es <-> exists eb, open_spec fam f eb /\ es = es_of eb.
  Proof.
    pose proof (open_equiv fam) as H. split.
    - intros E. destruct (minimal_parse fam f) as [eb| |] eqn:Em.
      + exists eb. split; [apply minimal_parse_iff; assumption|]. rewrite H in E. injection E as <-. reflexivity.
      + rewrite E in H. discriminate.
      + rewrite E in H. discriminate.
    - intros [eb [Hs ->]]. apply minimal_parse_iff in Hs; [|assumption]. rewrite Hs in H. exact H.
  Qed.
End Open.

(* ---------- the eager header vector vs the lazy table ---------- *)
Section VecTable.
  Context {T : Type}.
  Variables (parse : buf -> M T) (size : N).
  Hypotheses (Hs : 0 < size) (Hr : regular size parse).
  Variable d : buf.
  Hypothesis Hd : buf_ok d.

  Lemma collect_iter : iter_all parse d = Some (collect parse d) /\ llen (collect parse d) = table_len size d.
  Proof.
    destruct (iter_all_spec parse size Hs Hr d Hd) as [l [E [L _]]]. unfold collect. rewrite E. tauto.
  Qed.
  (* vec.get(i) and table.get(i): same element, or both fail *)
  Lemma table_get_np i : table_get parse size d i <> Panic.
  Proof.
    unfold table_get. destruct (blen d =? 0); [discriminate|]. destruct (checked_mul i size); [|discriminate].
    destruct (blen d <? n); [discriminate|]. apply (regular_np size parse d n Hr Hd).
  Qed.
  Lemma vec_get i : match nth_n (collect parse d) i with
                    | Some x => table_get parse size d i = Ok x
                    | None => exists e, table_get parse size d i = Err e
                    end.
  Proof.
    destruct (iter_all_spec parse size Hs Hr d Hd) as [l [E [L H]]]. unfold collect. rewrite nth_n_eq, E.
    destruct (nth_error l (N.to_nat i)) as [x|] eqn:En.
    - specialize (H _ _ En). now rewrite N2Nat.id in H.
    - apply nth_error_None in En. pose proof (table_get_np i) as NP.
      destruct (table_get parse size d i) as [x|e|] eqn:Eg; [|eauto|congruence].
      exfalso. assert (Eo : is_ok (table_get parse size d i) = true) by now rewrite Eg.
      apply (get_ok_iff parse size Hs Hr d i Hd) in Eo. unfold llen in L. lia.
  Qed.
  Lemma vec_nil : is_nil (collect parse d) = table_is_empty size d.
  Proof.
    destruct collect_iter as [_ L]. unfold table_is_empty. destruct (collect parse d); cbn [is_nil] in *; unfold llen in L; cbn in L; lia.
  Qed.
End VecTable.

Section Queries.
  Variables (f : buf) (eb : elfbytes).
  Hypothesis Hf : buf_ok f.
  Let es := es_of f eb.
  Let s := e_spec (eb_ehdr eb).
  Let c := e_class (eb_ehdr eb).

  Lemma eval_prange {B} h (k : N * N -> prog B) :
    eval f (pbind (prange h) k) =
    if USIZE_MAX <? sh_offset h + sh_size h then Err EIntegerOverflow
    else eval f (k (sh_offset h, sh_offset h + sh_size h)).
  Proof.
    rewrite eval_bind. unfold prange, sh_range, data_range, checked_add, ok_or. rewrite eval_plift.
    destruct (sh_offset h + sh_size h <=? USIZE_MAX) eqn:E; cbn [rbind].
    - replace (USIZE_MAX <? sh_offset h + sh_size h) with false by lia. reflexivity.
    - replace (USIZE_MAX <? sh_offset h + sh_size h) with true by lia. reflexivity.
  Qed.
  Lemma eval_prange_read {B} h (k : buf -> prog B) :
    eval f (r <~ prange h ;; b <~ pread (fst r) (snd r) ;; k b) =
    if USIZE_MAX <? sh_offset h + sh_size h then Err EIntegerOverflow
    else if fits f (sh_offset h) (sh_size h) then eval f (k (view f (sh_offset h, sh_offset h + sh_size h)))
         else Err (EBadOffset (sh_offset h + sh_size h)).
  Proof.
    rewrite eval_bind. unfold prange, sh_range, data_range, checked_add, ok_or, fits. rewrite eval_plift.
    destruct (sh_offset h + sh_size h <=? USIZE_MAX) eqn:E; cbn [rbind fst snd].
    - replace (USIZE_MAX <? sh_offset h + sh_size h) with false by lia.
      rewrite eval_bind, eval_pread by lia.
      destruct (sh_offset h + sh_size h <=? blen f) eqn:E2.
      + replace (blen f <? sh_offset h + sh_size h) with false by lia. reflexivity.
      + replace (blen f <? sh_offset h + sh_size h) with true by lia. reflexivity.
    - replace (USIZE_MAX <? sh_offset h + sh_size h) with true by lia. reflexivity.
  Qed.

  (* section_data: identical content (sections not flagged SHF_COMPRESSED) *)
  Theorem section_data_equiv h : N.land (sh_flags h) SHF_COMPRESSED = 0 ->
    sim (eval f (q_section_data es f h))
        (rmap (fun p => (view f (fst p), snd p)) (section_data f eb h)).
  Proof.
    intros Hc. unfold q_section_data, section_data. cbv zeta.
    destruct (sh_type h =? SHT_NOBITS); [reflexivity|].
    unfold sh_range at 1. rewrite (range_in_spec f _ _ Hf).
    pose proof (eval_prange_read h (fun b => if N.land (sh_flags h) SHF_COMPRESSED =? 0 then PRet (b, @None chdr) else
      match parse_chdr (e_spec (es_ehdr es)) (e_class (es_ehdr es)) b 0 with
      | (Err e, _) => PFail e | (Panic, _) => PPanic
      | (Ok ch, off) => match sub b off (blen b) with Some rest => PRet (rest, Some ch)
                                                 | None => PFail (ESliceReadError off (sh_size h)) end end)) as E.
    cbv beta in E. rewrite E. clear E.
    destruct (USIZE_MAX <? sh_offset h + sh_size h); [cbn [rbind rmap]; exact Logic.I|].
    destruct (fits f (sh_offset h) (sh_size h)); cbn [rbind rmap]; [|cbn [rbind rmap]; exact Logic.I].
    rewrite Hc. reflexivity.
  Qed.

  (* typed views (string table, relocations, notes): identical content *)
  Theorem typed_equiv ty h : ty <> SHT_NOBITS -> N.land (sh_flags h) SHF_COMPRESSED = 0 ->
    sim (eval f (q_typed ty h)) (rmap (view f) (section_data_typed f eb ty h)).
  Proof.
    intros Hty Hc. unfold q_typed, section_data_typed, section_data.
    destruct (sh_type h =? ty) eqn:Et; cbn [negb]; [|cbn [rbind rmap]; exact Logic.I].
    replace (sh_type h =? SHT_NOBITS) with false by lia.
    unfold sh_range at 1. rewrite (range_in_spec f _ _ Hf).
    replace (r <~ prange h;; pread (fst r) (snd r)) with (r <~ prange h;; b <~ pread (fst r) (snd r) ;; PRet b).
    2:{ f_equal. }
    rewrite (eval_prange_read h (fun b => PRet b)).
    destruct (USIZE_MAX <? sh_offset h + sh_size h); [cbn [rbind rmap]; exact Logic.I|].
    destruct (fits f (sh_offset h) (sh_size h)); cbn [rbind rmap]; [|cbn [rbind rmap]; exact Logic.I].
    rewrite Hc. reflexivity.
  Qed.

  Theorem notes_equiv h : N.land (sh_flags h) SHF_COMPRESSED = 0 ->
    sim (eval f (q_notes h)) (rmap (fun p => (view f (fst p), snd p)) (section_data_as_notes f eb h)).
  Proof.
    intros Hc. unfold q_notes, section_data_as_notes. rewrite eval_bind.
    pose proof (typed_equiv SHT_NOTE h ltac:(discriminate) Hc) as T.
    destruct (eval f (q_typed SHT_NOTE h)) as [b| |], (section_data_typed f eb SHT_NOTE h) as [r| |];
      cbn [sim rmap rbind eval fst snd] in *; try contradiction; try exact Logic.I. now subst.
  Qed.

  Theorem seg_notes_equiv h :
    sim (eval f (q_seg_notes h)) (rmap (fun p => (view f (fst p), snd p)) (segment_data_as_notes f h)).
  Proof.
    unfold q_seg_notes, segment_data_as_notes, segment_data.
    destruct (negb (p_type h =? PT_NOTE)); [exact Logic.I|].
    unfold ph_range at 2. rewrite (range_in_spec f _ _ Hf).
    rewrite eval_bind. unfold ph_range, data_range, checked_add, ok_or, fits. rewrite eval_plift.
    destruct (p_offset h + p_filesz h <=? USIZE_MAX) eqn:E; cbn [rbind fst snd].
    - replace (USIZE_MAX <? p_offset h + p_filesz h) with false by lia.
      rewrite eval_bind, eval_pread by lia.
      destruct (p_offset h + p_filesz h <=? blen f) eqn:E2.
      + replace (blen f <? p_offset h + p_filesz h) with false by lia. reflexivity.
      + replace (blen f <? p_offset h + p_filesz h) with true by lia. exact Logic.I.
    - replace (USIZE_MAX <? p_offset h + p_filesz h) with true by lia. exact Logic.I.
  Qed.

  (* ---------- queries that go through the section header table ---------- *)
  Section WithTable.
    Variable r : N * N.
    Hypothesis Hr : eb_shdrs eb = Some r.
    Let d := view f r.
    Let l := collect (parse_shdr s c) d.
    Lemma es_shdrs_l : es_shdrs es = l.
    Proof. unfold es, es_of. cbn [es_shdrs]. rewrite Hr. reflexivity. Qed.
    Lemma shdr_list_l : shdr_list f eb r = Some l.
    Proof.
      unfold shdr_list. apply (collect_iter (parse_shdr s c) (shdr_size c)); [destruct c; reflexivity|apply regular_shdr|apply view_ok, Hf].
    Qed.
    Lemma shdr_vec_get i : match nth_n l i with
                           | Some x => shdr_get f eb r i = Ok x
                           | None => exists e, shdr_get f eb r i = Err e
                           end.
    Proof.
      unfold shdr_get. apply (vec_get (parse_shdr s c) (shdr_size c)); [destruct c; reflexivity|apply regular_shdr|apply view_ok, Hf].
    Qed.

    Lemma eval_load {B} a z (k : prog B) : a + z <= USIZE_MAX ->
      eval f (PLoad a (a + z) k) = if fits f a z then eval f k else Err (EBadOffset (a + z)).
    Proof.
      intros _. cbn [eval]. unfold fits. destruct (a + z <=? blen f) eqn:E.
      - replace (blen f <? a + z) with false by lia. reflexivity.
      - replace (blen f <? a + z) with true by lia. reflexivity.
    Qed.

    (* symbol tables: identical symbol bytes and string-table bytes, same success *)
    Theorem symtab_equiv ty x : symbol_table_of_type f eb ty = Some x ->
      sim (eval f (q_symtab_of_type es ty))
          (rmap (option_map (fun p => (view f (fst p), view f (snd p)))) x).
    Proof.
      unfold symbol_table_of_type, q_symtab_of_type. rewrite Hr, shdr_list_l, es_shdrs_l. cbv zeta.
      destruct (is_nil l) eqn:En.
      { destruct l; [|discriminate]. cbn [find_first]. intros [= <-]. reflexivity. }
      destruct (find_first (fun h => sh_type h =? ty) l) as [h|]; [|intros [= <-]; reflexivity].
      intros [= <-]. pose proof (shdr_vec_get (sh_link h)) as G.
      unfold symtab_of. rewrite eval_prange. cbn [fst snd].
      destruct (USIZE_MAX <? sh_offset h + sh_size h) eqn:E1.
      { (* the symbol table's range overflows: the slice parser fails too, possibly earlier *)
        destruct (nth_n l (sh_link h)); [rewrite G|destruct G as [e0 ->]]; cbn [rbind rmap]; try exact Logic.I.
        unfold validate_entsize. destruct (sh_entsize h =? sym_size (e_class (eb_ehdr eb))); cbn [rbind rmap]; try exact Logic.I.
        unfold sh_range at 1. rewrite (range_in_spec f (sh_offset h) (sh_size h) Hf), E1. cbn [rbind rmap]. exact Logic.I. }
      rewrite (eval_load (sh_offset h) (sh_size h)) by lia.
      destruct (fits f (sh_offset h) (sh_size h)) eqn:F1.
      2:{ destruct (nth_n l (sh_link h)); [rewrite G|destruct G as [e0 ->]]; cbn [rbind rmap]; try exact Logic.I.
          unfold validate_entsize. destruct (sh_entsize h =? _); cbn [rbind rmap]; try exact Logic.I.
          unfold sh_range at 1. rewrite (range_in_spec f (sh_offset h) (sh_size h) Hf), E1, F1. cbn [rbind rmap]. exact Logic.I. }
      rewrite eval_bind, eval_plift. fold l.
      destruct (nth_n l (sh_link h)) as [strh|] eqn:En2; cbn [ok_or rbind].
      2:{ destruct G as [e0 ->]. cbn [rbind rmap]. exact Logic.I. }
      rewrite G. cbn [rbind]. rewrite eval_prange. cbn [fst snd].
      unfold sh_range. rewrite (range_in_spec f (sh_offset h) (sh_size h) Hf), E1, F1.
      rewrite (range_in_spec f (sh_offset strh) (sh_size strh) Hf).
      destruct (USIZE_MAX <? sh_offset strh + sh_size strh) eqn:E2.
      { unfold validate_entsize. destruct (sh_entsize h =? _); cbn [rbind rmap]; exact Logic.I. }
      rewrite (eval_load (sh_offset strh) (sh_size strh)) by lia.
      destruct (fits f (sh_offset strh) (sh_size strh)) eqn:F2.
      2:{ unfold validate_entsize. destruct (sh_entsize h =? _); cbn [rbind rmap]; exact Logic.I. }
      rewrite eval_bind, eval_plift. unfold es, es_of. cbn [es_ehdr].
      unfold validate_entsize. destruct (sh_entsize h =? sym_size (e_class (eb_ehdr eb))); cbn [rbind rmap]; [|exact Logic.I].
      cbn [eval option_map fst snd sim].
      replace (sh_offset h + (sh_offset h + sh_size h - sh_offset h)) with (sh_offset h + sh_size h) by lia.
      replace (sh_offset strh + (sh_offset strh + sh_size strh - sh_offset strh)) with (sh_offset strh + sh_size strh) by lia.
      reflexivity.
    Qed.

    (* the section-name string table, and lookup by name *)
    Hypothesis Hne : table_is_empty (shdr_size c) d = false.
    Lemma l_not_nil : is_nil l = false.
    Proof.
      unfold l. rewrite (vec_nil (parse_shdr s c) (shdr_size c)); [exact Hne|destruct c; reflexivity|apply regular_shdr|apply view_ok, Hf].
    Qed.
    Theorem shstrtab_equiv :
      sim (eval f (q_shstrtab es)) (rmap (fun p => option_map (view f) (snd p)) (shdrs_with_strtab f eb)).
    Proof.
      unfold q_shstrtab, shdrs_with_strtab. rewrite Hr, es_shdrs_l, l_not_nil. unfold es, es_of. cbn [es_ehdr]. cbv zeta.
      destruct (e_shstrndx (eb_ehdr eb) =? 0); [reflexivity|].
      rewrite eval_bind.
      assert (G : forall ndx,
        sim (eval f (st <~ plift (ok_or (nth_n l ndx) (EBadOffset ndx)) ;; r0 <~ prange st ;;
                     b <~ pread (fst r0) (snd r0) ;; PRet (Some b)))
            (rmap (fun p : option (N * N) * option (N * N) => option_map (view f) (snd p))
                  (let? st := shdr_get f eb r ndx in let? sr := range_in f (sh_range st) in Ok (Some r, Some sr)))).
      { intros ndx. pose proof (shdr_vec_get ndx) as V. rewrite eval_bind, eval_plift.
        destruct (nth_n l ndx) as [st|]; cbn [ok_or rbind].
        - rewrite V. cbn [rbind]. rewrite (eval_prange_read st (fun b => PRet (Some b))).
          unfold sh_range. rewrite (range_in_spec f _ _ Hf).
          destruct (USIZE_MAX <? sh_offset st + sh_size st); [exact Logic.I|].
          destruct (fits f (sh_offset st) (sh_size st)); cbn [rbind rmap]; [reflexivity|exact Logic.I].
        - destruct V as [e0 ->]. cbn [rbind rmap]. exact Logic.I. }
      destruct (e_shstrndx (eb_ehdr eb) =? SHN_XINDEX).
      - pose proof (shdr_vec_get 0) as V0. pose proof l_not_nil as Hn. rewrite nth_n_eq in V0. cbn [N.to_nat nth_error] in V0.
        destruct l as [|h0 t] eqn:El; [discriminate|]. rewrite V0. cbn [eval rbind]. apply G.
      - cbn [eval rbind]. apply G.
    Qed.

    Theorem by_name_equiv name x : shdr_by_name f eb name = Some x ->
      sim (eval f (q_by_name es name)) x.
    Proof.
      unfold q_by_name, shdr_by_name. rewrite eval_bind. pose proof shstrtab_equiv as S.
      assert (T : forall tr sr, shdrs_with_strtab f eb = Ok (tr, sr) -> tr = Some r).
      { intros tr sr. unfold shdrs_with_strtab. rewrite Hr. destruct (e_shstrndx (eb_ehdr eb) =? 0); [now intros [= <- _]|].
        destruct (if e_shstrndx (eb_ehdr eb) =? SHN_XINDEX then _ else _); cbn [rbind]; try discriminate.
        destruct (shdr_get f eb r a); cbn [rbind]; try discriminate.
        destruct (range_in f (sh_range a0)); cbn [rbind]; try discriminate. now intros [= <- _]. }
      destruct (shdrs_with_strtab f eb) as [[tr sr]| |] eqn:E; cbn [rmap snd] in S.
      - destruct (eval f (q_shstrtab es)) as [st| |]; cbn [sim] in S; try contradiction. subst st.
        cbn [rbind]. rewrite (T _ _ eq_refl). destruct sr as [sr|]; cbn [option_map].
        + rewrite shdr_list_l, es_shdrs_l. intros [= <-]. reflexivity.
        + intros [= <-]. reflexivity.
      - destruct (eval f (q_shstrtab es)); cbn [sim] in S; try contradiction. intros [= <-]. exact Logic.I.
      - destruct (eval f (q_shstrtab es)); cbn [sim] in S; try contradiction. intros [= <-]. exact Logic.I.
    Qed.
  End WithTable.

  (* symbol_version_table: identical version-index bytes, record bytes, string-table bytes and counts *)
  Definition conv3 (x : N * (N * N) * (N * N)) : N * buf * buf :=
    let '(cnt, dr, tr) := x in (cnt, view f dr, view f tr).
  Definition conv_symver (sr : symver_ranges) : buf * option (N * buf * buf) * option (N * buf * buf) :=
    (view f (sr_versym sr), option_map conv3 (sr_needs sr), option_map conv3 (sr_defs sr)).

  Lemma linked_eval r h {B} (k : (N * N) * (N * N) -> prog B) : eb_shdrs eb = Some r ->
    match linked f eb r h with
    | Ok (i, dr, tr) => eval f (x <~ q_linked es h ;; k x) = eval f (k (dr, tr)) /\ i = sh_info h /\
                        fst dr <= snd dr /\ fst tr <= snd tr
    | Err _ => exists e, eval f (x <~ q_linked es h ;; k x) = Err e
    | Panic => False
    end.
  Proof.
    intros Hr. unfold linked, q_linked. pose proof (shdr_vec_get r (sh_link h)) as G.
    rewrite eval_bind, eval_prange. cbn [fst snd]. unfold sh_range at 1. rewrite (range_in_spec f _ _ Hf).
    destruct (USIZE_MAX <? sh_offset h + sh_size h) eqn:E1; cbn [rbind]; [eauto|].
    rewrite (eval_load (sh_offset h) (sh_size h)) by lia.
    destruct (fits f (sh_offset h) (sh_size h)) eqn:F1; cbn [rbind]; [|eauto].
    rewrite eval_bind, eval_plift. rewrite (es_shdrs_l r Hr).
    destruct (nth_n (collect (parse_shdr s c) (view f r)) (sh_link h)) as [strh|]; cbn [ok_or rbind].
    2:{ destruct G as [e0 ->]. cbn [rbind]. eauto. }
    rewrite G. cbn [rbind]. rewrite eval_prange. cbn [fst snd]. unfold sh_range. rewrite (range_in_spec f _ _ Hf).
    destruct (USIZE_MAX <? sh_offset strh + sh_size strh) eqn:E2; cbn [rbind]; [eauto|].
    rewrite (eval_load (sh_offset strh) (sh_size strh)) by lia.
    destruct (fits f (sh_offset strh) (sh_size strh)) eqn:F2; cbn [rbind]; [|eauto].
    cbn [eval rbind fst snd]. repeat split; lia.
  Qed.

  Theorem symver_equiv r x : eb_shdrs eb = Some r -> symbol_version_table f eb = Some x ->
    sim (eval f (q_symver es)) (rmap (option_map conv_symver) x).
  Proof.
    intros Hr. unfold symbol_version_table, q_symver. rewrite Hr, (shdr_list_l r), (es_shdrs_l r Hr). cbv zeta.
    set (l := collect (parse_shdr s c) (view f r)).
    destruct (is_nil l) eqn:En.
    { destruct l; [|discriminate]. cbn [symver_scan]. intros [= <-]. reflexivity. }
    destruct (symver_scan l None None None) as [[[vsh|] nd] df]; [|intros [= <-]; reflexivity].
    intros [= <-]. rewrite eval_bind, eval_plift. unfold validate_entsize.
    destruct (sh_entsize vsh =? 2); cbn [rbind rmap]; [|exact Logic.I].
    rewrite eval_prange. cbn [fst snd]. unfold sh_range at 1. rewrite (range_in_spec f _ _ Hf).
    destruct (USIZE_MAX <? sh_offset vsh + sh_size vsh) eqn:E1; cbn [rbind rmap]; [exact Logic.I|].
    rewrite (eval_load (sh_offset vsh) (sh_size vsh)) by lia.
    destruct (fits f (sh_offset vsh) (sh_size vsh)) eqn:F1; cbn [rbind rmap]; [|exact Logic.I].
    rewrite eval_bind.
    (* the needs *)
    assert (GN : forall (o : option shdr),
      match (match o with Some h => let? y := linked f eb r h in Ok (Some y) | None => Ok None end) with
      | Ok y => eval f (match o with Some h => y0 <~ q_linked es h ;; PRet (Some (h, y0)) | None => PRet None end)
                = Ok (match o, y with Some h, Some (_, dr, tr) => Some (h, (dr, tr)) | _, _ => None end) /\
                match o, y with
                | Some h, Some (i, dr, tr) => i = sh_info h /\ fst dr <= snd dr /\ fst tr <= snd tr
                | None, None => True
                | _, _ => False
                end
      | Err _ => exists e, eval f (match o with Some h => y0 <~ q_linked es h ;; PRet (Some (h, y0)) | None => PRet None end) = Err e
      | Panic => False
      end).
    { intros [h|]; [|split; [reflexivity|exact Logic.I]].
      pose proof (linked_eval r h (fun y0 => PRet (Some (h, y0))) Hr) as LE.
      destruct (linked f eb r h) as [[[i dr] tr]| |]; cbn [rbind]; [|exact LE|exact LE].
      destruct LE as [E [Hi [H1 H2]]]. rewrite E. cbn [eval]. repeat split; assumption. }
    pose proof (GN nd) as G1.
    destruct (match nd with Some h => let? y := linked f eb r h in Ok (Some y) | None => Ok None end) as [needs| |]; cbn [rbind rmap].
    2:{ destruct G1 as [e1 ->]. cbn [rbind]. exact Logic.I. }
    2:{ destruct G1. }
    destruct G1 as [-> W1]. cbn [rbind]. rewrite eval_bind.
    pose proof (GN df) as G2.
    destruct (match df with Some h => let? y := linked f eb r h in Ok (Some y) | None => Ok None end) as [defs| |]; cbn [rbind rmap].
    2:{ destruct G2 as [e2 ->]. cbn [rbind]. exact Logic.I. }
    2:{ destruct G2. }
    destruct G2 as [-> W2]. cbn [rbind].
    (* the gets: every range was loaded; start + (end - start) = end *)
    rewrite eval_bind.
    assert (V : forall a b, a <= b -> view f (a, a + (b - a)) = view f (a, b)) by (intros a b Hab; replace (a + (b - a)) with b by lia; reflexivity).
    assert (GG : forall (o : option shdr) (y : option (N * (N * N) * (N * N))),
      match o, y with
      | Some h, Some (i, dr, tr) => i = sh_info h /\ fst dr <= snd dr /\ fst tr <= snd tr
      | None, None => True
      | _, _ => False
      end ->
      eval f (match (match o, y with Some h, Some (_, dr, tr) => Some (h, (dr, tr)) | _, _ => None end) with
              | Some (h, (r0, tr)) => PGet (fst tr) (snd tr) (fun tb => PGet (fst r0) (snd r0) (fun b => PRet (Some (sh_info h, b, tb))))
              | None => PRet None
              end) = Ok (option_map conv3 y)).
    { intros [h|] [[[i [da db]] [ta tb]]|] W; try contradiction; [|reflexivity].
      destruct W as [-> [H1 H2]]. cbn [fst snd] in *. cbn [eval option_map conv3 fst snd]. rewrite !V by assumption. reflexivity. }
    rewrite (GG nd needs W1). cbn [rbind]. rewrite eval_bind, (GG df defs W2). cbn [rbind eval].
    cbn [option_map conv_symver sr_versym sr_needs sr_defs sim].
    replace (sh_offset vsh + (sh_offset vsh + sh_size vsh - sh_offset vsh)) with (sh_offset vsh + sh_size vsh) by lia.
    reflexivity.
  Qed.

  (* the dynamic table: whenever the slice parser finds it, the stream parser returns the same bytes
     (the slice parser additionally validates sh_entsize; compressed .dynamic sections and empty
     section header tables are outside the property's scope) *)
  Theorem dynamic_equiv v : dynamic f eb = Some (Ok v) ->
    (forall r, eb_shdrs eb = Some r -> table_is_empty (shdr_size c) (view f r) = false) ->
    (forall r l h, eb_shdrs eb = Some r -> shdr_list f eb r = Some l ->
                   find_first (fun h => sh_type h =? SHT_DYNAMIC) l = Some h ->
                   N.land (sh_flags h) SHF_COMPRESSED = 0) ->
    eval f (q_dynamic es) = Ok (option_map (view f) v).
  Proof.
    intros H Hne Hnc. unfold dynamic in H. unfold q_dynamic.
    destruct (eb_shdrs eb) as [r|] eqn:Hr.
    - rewrite (es_shdrs_l r Hr), (l_not_nil r (Hne r eq_refl)). cbn [negb].
      rewrite (shdr_list_l r) in H.
      destruct (find_first (fun h => sh_type h =? SHT_DYNAMIC) (collect (parse_shdr s c) (view f r))) as [h|] eqn:Ef.
      2:{ injection H as <-. reflexivity. }
      specialize (Hnc r _ h eq_refl (shdr_list_l r) Ef).
      destruct (find_first_spec _ _ _ Ef) as [pre [post [_ [Ht _]]]].
      injection H as H. unfold section_data_as_dynamic, section_data in H. rewrite Ht in H. cbn [negb] in H.
      destruct (validate_entsize _ _); cbn [rbind] in H; try discriminate.
      replace (sh_type h =? SHT_NOBITS) with false in H by (unfold SHT_DYNAMIC, SHT_NOBITS in *; lia).
      unfold sh_range in H. rewrite (range_in_spec f _ _ Hf) in H.
      rewrite (eval_prange_read h (fun b => PRet (Some b))).
      destruct (USIZE_MAX <? sh_offset h + sh_size h); [discriminate|].
      destruct (fits f (sh_offset h) (sh_size h)); cbn [rbind] in H; [|discriminate].
      rewrite Hnc in H. cbn in H. injection H as <-. reflexivity.
    - unfold es, es_of. cbn [es_shdrs es_phdrs]. rewrite Hr. cbn [vec_of is_nil negb].
      destruct (eb_phdrs eb) as [pr|] eqn:Hp; [|injection H as <-; reflexivity].
      assert (PL : phdr_list f eb pr = Some (collect (parse_phdr s c) (view f pr))).
      { unfold phdr_list. apply (collect_iter (parse_phdr s c) (phdr_size c)); [destruct c; reflexivity|apply regular_phdr|apply view_ok, Hf]. }
      rewrite PL in H. cbn [vec_of]. fold s c.
      destruct (is_nil (collect (parse_phdr s c) (view f pr))) eqn:En; cbn [negb].
      { destruct (collect (parse_phdr s c) (view f pr)); [|discriminate]. cbn [find_first] in H. injection H as <-. reflexivity. }
      destruct (find_first (fun h => p_type h =? PT_DYNAMIC) (collect (parse_phdr s c) (view f pr))) as [h|]; [|injection H as <-; reflexivity].
      injection H as H. unfold ph_range in H. rewrite (range_in_spec f _ _ Hf) in H.
      rewrite eval_bind. unfold ph_range, data_range, checked_add, ok_or. rewrite eval_plift.
      destruct (p_offset h + p_filesz h <=? USIZE_MAX) eqn:E; cbn [rbind fst snd].
      + replace (USIZE_MAX <? p_offset h + p_filesz h) with false in H by lia.
        rewrite eval_bind, eval_pread by lia. unfold fits in H.
        destruct (p_offset h + p_filesz h <=? blen f) eqn:E2; cbn [rbind] in H; [|discriminate].
        replace (blen f <? p_offset h + p_filesz h) with false by lia. injection H as <-. reflexivity.
      + replace (USIZE_MAX <? p_offset h + p_filesz h) with true in H by lia. discriminate.
  Qed.
End Queries.

(* ---------- C08: what open_stream reads ---------- *)
(* the ranges a program asks the reader to load, in order (a rejected oversized request is listed
   too: it performs no I/O) *)
Fixpoint loads {A} (f : buf) (p : prog A) : list (N * N) :=
  match p with
  | PLoad s e k => if blen f <? e then [(s, e)] else (s, e) :: loads f k
  | PGet s e k => loads f (k (view f (s, s + (e - s))))
  | PVec _ k => loads f k
  | _ => []
  end.
Lemma loads_bind {A B} f (m : prog A) (k : A -> prog B) :
  loads f (pbind m k) = (loads f m ++ match eval f m with Ok a => loads f (k a) | _ => [] end)%list.
Proof.
  induction m as [a|e| |s e m IH|s e m IH|n m IH]; cbn [pbind loads eval app]; try reflexivity.
  - destruct (blen f <? e); [reflexivity|]. cbn [app]. now rewrite IH.
  - apply IH.
  - exact IH.
Qed.
(* every I/O event of a fault-free run belongs to one of those loads *)
Definition ev_from (ld : list (N * N)) (ev : ioev) : Prop :=
  match ev with
  | EvRead a n => In (a, a + n) ld \/ exists e, In (a, e) ld /\ n = e - a
  | EvSeek a => exists e, In (a, e) ld
  | EvAlloc n => exists a e, In (a, e) ld /\ n = e - a
  | EvVec _ => True
  end.
Lemma ev_from_mono ld ld' ev : (forall x, In x ld -> In x ld') -> ev_from ld ev -> ev_from ld' ev.
Proof.
  intros H. destruct ev; cbn [ev_from]; try tauto.
  - intros [e He]. eauto.
  - intros [H1|[e [H1 H2]]]; [left; auto|right; eauto].
  - intros [a [e [H1 H2]]]. eauto.
Qed.
Lemma trace_in_loads {A} f (p : prog A) : forall L, valid_keys f L ->
  Forall (ev_from (loads f p)) (fst (snd (run_pure f p L))).
Proof.
  induction p as [a|e| |s e k IH|s e k IH|n k IH]; intros L Hv; cbn [run_pure loads fst snd]; try constructor.
  - destruct (mem_key s e L) eqn:M.
    + replace (blen f <? e) with false by (specialize (Hv _ _ M); lia).
      eapply Forall_impl; [|apply IH; exact Hv]. intros ev. apply ev_from_mono. intros x Hx. now right.
    + destruct (blen f <? e) eqn:E; [constructor|].
      assert (Hv' : valid_keys f ((s, e) :: L)).
      { intros s1 e1. cbn [mem_key]. destruct ((s =? s1) && (e =? e1)) eqn:K; cbn [orb]; [intros _; lia|apply Hv]. }
      specialize (IH ((s, e) :: L) Hv'). destruct (run_pure f k ((s, e) :: L)) as [x [t ks]]. cbn [fst snd] in *.
      apply Forall_app. split.
      * unfold io_of_load. repeat constructor; cbn [ev_from].
        -- exists e. now left.
        -- exists s, e. split; [now left|reflexivity].
        -- destruct (e - s =? 0); constructor; [|constructor]. cbn [ev_from]. right. exists e. split; [now left|reflexivity].
      * eapply Forall_impl; [|exact IH]. intros ev. apply ev_from_mono. intros y Hy. now right.
  - destruct (mem_key s e L); [apply IH; exact Hv|constructor].
  - specialize (IH L Hv). destruct (run_pure f k L) as [x [t ks]]. cbn [fst snd] in *. constructor; [exact Logic.I|exact IH].
Qed.

Section OpenLoads.
  Variable f : buf.
  Lemma loads_pread s e : loads f (pread s e) = [(s, e)].
  Proof. unfold pread. cbn [loads]. destruct (blen f <? e); reflexivity. Qed.
  Lemma loads_plift {A} (r : res A) : loads f (plift r) = [].
  Proof. destruct r; reflexivity. Qed.

  Definition sh_designated (eh : ehdr) (r : N * N) : Prop :=
    r = (e_shoff eh, e_shoff eh + shdr_size (e_class eh)) \/
    exists n, r = (e_shoff eh, e_shoff eh + shdr_size (e_class eh) * n).
  Definition ph_designated (eh : ehdr) (r : N * N) : Prop :=
    r = (e_shoff eh, e_shoff eh + shdr_size (e_class eh)) \/
    exists n, r = (e_phoff eh, e_phoff eh + phdr_size (e_class eh) * n).

  Lemma checked_add_some a b x : checked_add a b = Some x -> x = a + b.
  Proof. unfold checked_add. destruct (a + b <=? USIZE_MAX); [now intros [= <-]|discriminate]. Qed.
  Lemma checked_mul_some a b x : checked_mul a b = Some x -> x = a * b.
  Proof. unfold checked_mul. destruct (a * b <=? USIZE_MAX); [now intros [= <-]|discriminate]. Qed.

  Lemma loads_section_headers eh : Forall (sh_designated eh) (loads f (parse_section_headers eh)).
  Proof.
    unfold parse_section_headers. cbv zeta. destruct (e_shoff eh =? 0); [constructor|].
    rewrite loads_bind, loads_plift, eval_plift. cbn [app]. unfold validate_entsize.
    destruct (e_shentsize eh =? shdr_size (e_class eh)) eqn:Ee; [|constructor].
    assert (e_shentsize eh = shdr_size (e_class eh)) as -> by lia.
    rewrite loads_bind. apply Forall_app. split.
    - destruct (e_shnum eh =? 0); [|constructor].
      rewrite loads_bind, loads_plift, eval_plift. cbn [app].
      destruct (checked_add (e_shoff eh) (shdr_size (e_class eh))) as [en|] eqn:E1; cbn [ok_or]; [|constructor].
      apply checked_add_some in E1. subst en. rewrite loads_bind, loads_pread. apply Forall_app. split.
      + constructor; [now left|constructor].
      + destruct (eval f (pread _ _)); [|constructor|constructor].
        rewrite loads_bind, loads_plift. cbn [app]. destruct (eval f (plift _)); constructor.
    - destruct (eval f _) as [shnum| |]; [|constructor|constructor].
      rewrite loads_bind, loads_plift, eval_plift. cbn [app].
      destruct (checked_mul (shdr_size (e_class eh)) shnum) as [sz|] eqn:E2; cbn [ok_or]; [|constructor].
      apply checked_mul_some in E2. subst sz. rewrite loads_bind, loads_plift, eval_plift. cbn [app].
      destruct (checked_add (e_shoff eh) _) as [en|] eqn:E3; cbn [ok_or]; [|constructor].
      apply checked_add_some in E3. subst en. rewrite loads_bind, loads_pread. apply Forall_app. split.
      + constructor; [right; eauto|constructor].
      + destruct (eval f (pread _ _)); constructor.
  Qed.
  Lemma loads_program_headers eh : Forall (ph_designated eh) (loads f (parse_program_headers eh)).
  Proof.
    unfold parse_program_headers. cbv zeta. destruct (e_phoff eh =? 0); [constructor|].
    rewrite loads_bind. apply Forall_app. split.
    - destruct (e_phnum eh =? PN_XNUM); [|constructor].
      rewrite loads_bind, loads_plift, eval_plift. cbn [app].
      destruct (checked_add (e_shoff eh) (shdr_size (e_class eh))) as [en|] eqn:E1; cbn [ok_or]; [|constructor].
      apply checked_add_some in E1. subst en. rewrite loads_bind, loads_pread. apply Forall_app. split.
      + constructor; [now left|constructor].
      + destruct (eval f (pread _ _)); [|constructor|constructor].
        rewrite loads_bind, loads_plift. cbn [app]. destruct (eval f (plift _)); constructor.
    - destruct (eval f _) as [phnum| |]; [|constructor|constructor].
      rewrite loads_bind, loads_plift, eval_plift. cbn [app]. unfold validate_entsize.
      destruct (e_phentsize eh =? phdr_size (e_class eh)) eqn:Ee; [|constructor].
      assert (e_phentsize eh = phdr_size (e_class eh)) as -> by lia.
      rewrite loads_bind, loads_plift, eval_plift. cbn [app].
      destruct (checked_mul (phdr_size (e_class eh)) phnum) as [sz|] eqn:E2; cbn [ok_or]; [|constructor].
      apply checked_mul_some in E2. subst sz. rewrite loads_bind, loads_plift, eval_plift. cbn [app].
      destruct (checked_add (e_phoff eh) _) as [en|] eqn:E3; cbn [ok_or]; [|constructor].
      apply checked_add_some in E3. subst en. rewrite loads_bind, loads_pread. apply Forall_app. split.
      + constructor; [right; eauto|constructor].
      + destruct (eval f (pread _ _)); constructor.
  Qed.

  (* open_stream asks for: the 16 ident bytes, the header tail of the ident's class, shdr[0] (only
     under extended numbering) and the two header tables -- nothing else *)
  Definition open_designated (fam : specfam) (r : N * N) : Prop :=
    r = (0, 16) \/
    match parse_ident fam (view f (0, 16)) with
    | Ok (s, c, osabi, abiver) =>
      r = (16, 16 + tail_size c) \/
      exists eh, fst (parse_tail s c osabi abiver (view f (16, 16 + tail_size c)) 0) = Ok eh /\
                 (sh_designated eh r \/ ph_designated eh r)
    | _ => False
    end.
  Theorem open_loads fam : Forall (open_designated fam) (loads f (open_prog fam)).
  Proof.
    unfold open_prog. rewrite loads_bind, loads_pread. cbn [app]. constructor; [now left|].
    rewrite eval_pread by lia. destruct (blen f <? 16); [constructor|].
    rewrite loads_bind, loads_plift, eval_plift. cbn [app].
    destruct (parse_ident fam (view f (0, 16))) as [[[[s c] osabi] abiver]| |] eqn:Ei; [|constructor|constructor].
    rewrite loads_bind, loads_pread. cbn [app].
    constructor; [right; unfold open_designated; rewrite Ei; now left|].
    rewrite eval_pread by lia. destruct (blen f <? 16 + tail_size c); [constructor|].
    rewrite loads_bind, loads_plift, eval_plift. cbn [app].
    destruct (fst (parse_tail s c osabi abiver (view f (16, 16 + tail_size c)) 0)) as [eh| |] eqn:Et; [|constructor|constructor].
    rewrite loads_bind. apply Forall_app. split.
    - eapply Forall_impl; [|apply loads_section_headers]. intros r H. right. unfold open_designated. rewrite Ei. right. exists eh. tauto.
    - destruct (eval f (parse_section_headers eh)); [|constructor|constructor].
      rewrite loads_bind. apply Forall_app. split.
      + eapply Forall_impl; [|apply loads_program_headers]. intros r H. right. unfold open_designated. rewrite Ei. right. exists eh. tauto.
      + destruct (eval f (parse_program_headers eh)); constructor.
  Qed.
End OpenLoads.
