(* C18: a truncated file yields errors or unchanged answers.
   trunc n f is the file cut after n bytes (bytes beyond are gone).  Every byte range the parsers
   hand out or look into is validated in full against the buffer first, so a view taken from the
   truncated file is the same view of the whole file.  With the normalising [sub] the two views
   are pointwise-equal functions; functional extensionality (a standard-library axiom, named in the
   trusted base of C18) makes them equal terms, and everything computed from views is then
   literally the same computation. *)
Require Import V.Base.Prim V.Spec.Ints V.Ref.RefLayout V.Spec.AbiLayout V.Model.Structs V.Model.Table V.Model.StrTab V.Model.Utf8
        V.Model.File V.Model.Hash V.Model.Note V.Model.SymVer V.Model.ElfBytes V.Model.Stream
        V.Proofs.PrimFacts V.Proofs.StructsP V.Proofs.TableP V.Proofs.FileP V.Proofs.ElfBytesP V.Proofs.StreamP V.Proofs.StreamQ.
From Coq Require Import Lia ZifyBool ZifyN ZifyNat FunctionalExtensionality String.
Open Scope N_scope.

Definition trunc (n : N) (f : buf) : buf :=
  {| blen := N.min n (blen f); bat := fun i => if i <? N.min n (blen f) then bat f i else x00 |}.

Lemma trunc_blen n f : blen (trunc n f) <= blen f.
Proof. cbn. lia. Qed.
Lemma trunc_ok n f : buf_ok f -> buf_ok (trunc n f).
Proof. unfold buf_ok. cbn. lia. Qed.

(* THE lemma: a range that exists in the truncated file is the same range of the whole file *)
Lemma sub_trunc n f s e x : sub (trunc n f) s e = Some x -> sub f s e = Some x.
Proof.
  unfold sub, trunc. cbn [blen bat].
  destruct ((s <=? e) && (e <=? N.min n (blen f))) eqn:E1; [|discriminate].
  intros [= <-]. replace ((s <=? e) && (e <=? blen f)) with true by lia.
  f_equal. f_equal. apply functional_extensionality. intros i.
  destruct (i <? e - s) eqn:E2; [|reflexivity].
  replace (s + i <? N.min n (blen f)) with true by lia. reflexivity.
Qed.
Lemma view_trunc n f a b : a <= b -> b <= blen (trunc n f) -> view (trunc n f) (a, b) = view f (a, b).
Proof.
  intros H1 H2. pose proof (view_sub (trunc n f) a b H1 H2) as E. apply sub_trunc in E.
  unfold view at 2. cbn [fst snd]. now rewrite E.
Qed.
Lemma get_bytes_trunc n f a b x : get_bytes (trunc n f) a b = Ok x -> get_bytes f a b = Ok x.
Proof.
  unfold get_bytes. destruct (sub (trunc n f) a b) as [y|] eqn:E; cbn [ok_or]; [|discriminate].
  intros [= <-]. now rewrite (sub_trunc _ _ _ _ _ E).
Qed.
Lemma range_in_ok g rr a b : range_in g rr = Ok (a, b) -> rr = Ok (a, b) /\ a <= b /\ b <= blen g.
Proof.
  unfold range_in. destruct rr as [[a0 b0]| |]; cbn [rbind]; try discriminate.
  unfold get_bytes. destruct (sub g a0 b0) as [y|] eqn:E; cbn [ok_or rbind]; [|discriminate].
  intros [= <- <-]. apply sub_blen in E. split; [reflexivity|lia].
Qed.
Lemma range_in_trunc n f rr p : range_in (trunc n f) rr = Ok p -> range_in f rr = Ok p.
Proof.
  destruct p as [a b]. intros H. destruct (range_in_ok _ _ _ _ H) as [-> [H1 H2]].
  unfold range_in. cbn [rbind]. unfold get_bytes, sub. pose proof (trunc_blen n f).
  replace ((a <=? b) && (b <=? blen f)) with true by lia. reflexivity.
Qed.

(* direct reads of the whole-file buffer (shdr[0] under extended numbering) *)
Lemma bytes_at_trunc n f o k : o + N.of_nat k <= blen (trunc n f) -> bytes_at (trunc n f) o k = bytes_at f o k.
Proof.
  revert o; induction k as [|k IH]; intros o H; cbn [bytes_at]; [reflexivity|].
  f_equal; [|apply IH; lia]. cbn [trunc bat blen] in *. replace (o <? N.min n (blen f)) with true by lia. reflexivity.
Qed.
Lemma shdr_spec_trunc s c n f o : o + shdr_size c <= blen (trunc n f) -> shdr_spec s c (trunc n f) o = shdr_spec s c f o.
Proof.
  intros H. destruct c; cbn [shdr_size] in H; unfold shdr_spec, fval, pick; repeat lookup; cbv beta iota;
  cbn [fty_size]; rewrite !bytes_at_trunc by (cbn [N.of_nat Pos.of_succ_nat Pos.succ]; lia); reflexivity.
Qed.
Lemma parse_shdr_trunc s c n f o h : buf_ok f -> fst (parse_shdr s c (trunc n f) o) = Ok h ->
  fst (parse_shdr s c f o) = Ok h.
Proof.
  intros Hf H. pose proof (trunc_ok n f Hf) as Ht. pose proof (trunc_blen n f) as Hl.
  destruct (N.le_gt_cases (o + shdr_size c) (blen (trunc n f))) as [Hle|Hgt].
  - rewrite (parse_shdr_ok s c _ o Ht Hle) in H. rewrite (parse_shdr_ok s c f o Hf) by lia.
    cbn [fst] in *. rewrite shdr_spec_trunc in H by exact Hle. exact H.
  - destruct (regular_short _ _ (trunc n f) o (regular_shdr s c) Ht Hgt) as [e [o' E]]. rewrite E in H. discriminate.
Qed.

Section Prefix.
  Variables (n : N) (f : buf).
  Hypothesis Hf : buf_ok f.
  Notation g := (trunc n f).

  (* ---------- opening ---------- *)
  Lemma find_shdrs_prefix eh sh : find_shdrs eh g = Ok sh -> find_shdrs eh f = Ok sh.
  Proof.
    unfold find_shdrs. destruct (e_shoff eh =? 0); [exact (fun H => H)|].
    assert (G : forall k : N -> res (option (N * N)),
      (let? shnum := (if e_shnum eh =? 0 then let? sh0 := fst (parse_shdr (hspec eh) (hclass eh) g (e_shoff eh)) in Ok (sh_size sh0)
                      else Ok (e_shnum eh)) in k shnum) = Ok sh ->
      exists shnum, (if e_shnum eh =? 0 then let? sh0 := fst (parse_shdr (hspec eh) (hclass eh) f (e_shoff eh)) in Ok (sh_size sh0)
                     else Ok (e_shnum eh)) = Ok shnum /\ k shnum = Ok sh).
    { intros k. destruct (e_shnum eh =? 0).
      - destruct (fst (parse_shdr (hspec eh) (hclass eh) g (e_shoff eh))) as [h0| |] eqn:E; cbn [rbind]; try discriminate.
        rewrite (parse_shdr_trunc _ _ _ _ _ _ Hf E). cbn [rbind]. eauto.
      - cbn [rbind]. eauto. }
    intros H. apply G in H. destruct H as [shnum [-> H]]. cbn [rbind].
    destruct (validate_entsize _ _) as [es| |]; cbn [rbind] in *; try discriminate.
    destruct (ok_or (checked_mul es shnum) _) as [sz| |]; cbn [rbind] in *; try discriminate.
    destruct (ok_or (checked_add (e_shoff eh) sz) _) as [en| |]; cbn [rbind] in *; try discriminate.
    destruct (get_bytes g (e_shoff eh) en) as [x| |] eqn:E; cbn [rbind] in *; try discriminate.
    rewrite (get_bytes_trunc _ _ _ _ _ E). exact H.
  Qed.
  Lemma find_phdrs_prefix eh ph : find_phdrs eh g = Ok ph -> find_phdrs eh f = Ok ph.
  Proof.
    unfold find_phdrs. destruct (e_phoff eh =? 0); [exact (fun H => H)|].
    assert (G : forall k : N -> res (option (N * N)),
      (let? phnum := (if e_phnum eh =? PN_XNUM then let? sh0 := fst (parse_shdr (hspec eh) (hclass eh) g (e_shoff eh)) in Ok (sh_info sh0)
                      else Ok (e_phnum eh)) in k phnum) = Ok ph ->
      exists phnum, (if e_phnum eh =? PN_XNUM then let? sh0 := fst (parse_shdr (hspec eh) (hclass eh) f (e_shoff eh)) in Ok (sh_info sh0)
                     else Ok (e_phnum eh)) = Ok phnum /\ k phnum = Ok ph).
    { intros k. destruct (e_phnum eh =? PN_XNUM).
      - destruct (fst (parse_shdr (hspec eh) (hclass eh) g (e_shoff eh))) as [h0| |] eqn:E; cbn [rbind]; try discriminate.
        rewrite (parse_shdr_trunc _ _ _ _ _ _ Hf E). cbn [rbind]. eauto.
      - cbn [rbind]. eauto. }
    intros H. apply G in H. destruct H as [phnum [-> H]]. cbn [rbind].
    destruct (validate_entsize _ _) as [es| |]; cbn [rbind] in *; try discriminate.
    destruct (ok_or (checked_mul es phnum) _) as [sz| |]; cbn [rbind] in *; try discriminate.
    destruct (ok_or (checked_add (e_phoff eh) sz) _) as [en| |]; cbn [rbind] in *; try discriminate.
    destruct (get_bytes g (e_phoff eh) en) as [x| |] eqn:E; cbn [rbind] in *; try discriminate.
    rewrite (get_bytes_trunc _ _ _ _ _ E). exact H.
  Qed.

  Theorem open_prefix fam eb : minimal_parse fam g = Ok eb -> minimal_parse fam f = Ok eb.
  Proof.
    unfold minimal_parse.
    destruct (get_bytes g 0 16) as [ib| |] eqn:E1; cbn [rbind]; try discriminate.
    rewrite (get_bytes_trunc _ _ _ _ _ E1). cbn [rbind].
    destruct (parse_ident fam ib) as [[[[s c] osabi] abiver]| |]; cbn [rbind]; try discriminate.
    unfold open_after_ident.
    destruct (get_bytes g 16 (16 + tail_size c)) as [tb| |] eqn:E2; cbn [rbind]; try discriminate.
    rewrite (get_bytes_trunc _ _ _ _ _ E2). cbn [rbind].
    destruct (fst (parse_tail s c osabi abiver tb 0)) as [eh| |]; cbn [rbind]; try discriminate.
    destruct (find_shdrs eh g) as [sh| |] eqn:E3; cbn [rbind]; try discriminate.
    rewrite (find_shdrs_prefix _ _ E3). cbn [rbind].
    destruct (find_phdrs eh g) as [ph| |] eqn:E4; cbn [rbind]; try discriminate.
    rewrite (find_phdrs_prefix _ _ E4). exact (fun H => H).
  Qed.

  (* the tables of a handle opened on the truncated file lie inside it *)
  Definition handle_in (b : buf) (eb : elfbytes) : Prop :=
    (forall r, eb_shdrs eb = Some r -> fst r <= snd r /\ snd r <= blen b) /\
    (forall r, eb_phdrs eb = Some r -> fst r <= snd r /\ snd r <= blen b).
  Lemma find_tables_in b eh :
    (forall r, find_shdrs eh b = Ok (Some r) -> fst r <= snd r /\ snd r <= blen b) /\
    (forall r, find_phdrs eh b = Ok (Some r) -> fst r <= snd r /\ snd r <= blen b).
  Proof.
    split; intros r.
    - unfold find_shdrs. destruct (e_shoff eh =? 0); [discriminate|].
      destruct (if e_shnum eh =? 0 then _ else _); cbn [rbind]; try discriminate.
      destruct (validate_entsize _ _); cbn [rbind]; try discriminate.
      destruct (ok_or (checked_mul _ _) _); cbn [rbind]; try discriminate.
      destruct (ok_or (checked_add _ _) _); cbn [rbind]; try discriminate.
      unfold get_bytes. destruct (sub b (e_shoff eh) a2) as [x|] eqn:E; cbn [ok_or rbind]; [|discriminate].
      intros [= <-]. apply sub_blen in E. cbn [fst snd]. lia.
    - unfold find_phdrs. destruct (e_phoff eh =? 0); [discriminate|].
      destruct (if e_phnum eh =? PN_XNUM then _ else _); cbn [rbind]; try discriminate.
      destruct (validate_entsize _ _); cbn [rbind]; try discriminate.
      destruct (ok_or (checked_mul _ _) _); cbn [rbind]; try discriminate.
      destruct (ok_or (checked_add _ _) _); cbn [rbind]; try discriminate.
      unfold get_bytes. destruct (sub b (e_phoff eh) a2) as [x|] eqn:E; cbn [ok_or rbind]; [|discriminate].
      intros [= <-]. apply sub_blen in E. cbn [fst snd]. lia.
  Qed.
  Lemma open_handle_in fam b eb : minimal_parse fam b = Ok eb -> handle_in b eb.
  Proof.
    unfold minimal_parse. destruct (get_bytes b 0 16); cbn [rbind]; try discriminate.
    destruct (parse_ident fam a) as [[[[s c] osabi] abiver]| |]; cbn [rbind]; try discriminate.
    unfold open_after_ident. destruct (get_bytes b 16 _); cbn [rbind]; try discriminate.
    destruct (fst (parse_tail s c osabi abiver a0 0)) as [eh| |]; cbn [rbind]; try discriminate.
    destruct (find_shdrs eh b) as [sh| |] eqn:E3; cbn [rbind]; try discriminate.
    destruct (find_phdrs eh b) as [ph| |] eqn:E4; cbn [rbind]; try discriminate.
    intros [= <-]. unfold handle_in. cbn [eb_shdrs eb_phdrs]. destruct (find_tables_in b eh) as [A B].
    split; intros r ->; [apply A|apply B]; assumption.
  Qed.

  (* ---------- queries on a handle whose tables lie inside the truncated file ---------- *)
  Variable eb : elfbytes.
  Hypothesis Hin : handle_in g eb.

  Lemma shdr_view r : eb_shdrs eb = Some r -> view g r = view f r.
  Proof. intros H. destruct Hin as [A _]. destruct (A r H). destruct r. now apply view_trunc. Qed.
  Lemma phdr_view r : eb_phdrs eb = Some r -> view g r = view f r.
  Proof. intros H. destruct Hin as [_ B]. destruct (B r H). destruct r. now apply view_trunc. Qed.

  Lemma shdr_get_prefix r i : eb_shdrs eb = Some r -> shdr_get g eb r i = shdr_get f eb r i.
  Proof. intros H. unfold shdr_get. now rewrite (shdr_view r H). Qed.
  Lemma phdr_get_prefix r i : eb_phdrs eb = Some r -> phdr_get g eb r i = phdr_get f eb r i.
  Proof. intros H. unfold phdr_get. now rewrite (phdr_view r H). Qed.
  Lemma shdr_list_prefix r : eb_shdrs eb = Some r -> shdr_list g eb r = shdr_list f eb r.
  Proof. intros H. unfold shdr_list. now rewrite (shdr_view r H). Qed.
  Lemma phdr_list_prefix r : eb_phdrs eb = Some r -> phdr_list g eb r = phdr_list f eb r.
  Proof. intros H. unfold phdr_list. now rewrite (phdr_view r H). Qed.

  Theorem strtab_prefix v : shdrs_with_strtab g eb = Ok v -> shdrs_with_strtab f eb = Ok v.
  Proof.
    unfold shdrs_with_strtab. destruct (eb_shdrs eb) as [r|] eqn:Hr; [|exact (fun H => H)].
    destruct (e_shstrndx (eb_ehdr eb) =? 0); [exact (fun H => H)|].
    rewrite !(shdr_get_prefix r _ Hr).
    destruct (if e_shstrndx (eb_ehdr eb) =? SHN_XINDEX then _ else _) as [ndx| |]; cbn [rbind]; try discriminate.
    rewrite (shdr_get_prefix r _ Hr).
    destruct (shdr_get f eb r ndx) as [st| |]; cbn [rbind]; try discriminate.
    destruct (range_in g (sh_range st)) as [sr| |] eqn:E; cbn [rbind]; try discriminate.
    rewrite (range_in_trunc _ _ _ _ E). exact (fun H => H).
  Qed.

  Theorem section_data_prefix h v : section_data g eb h = Ok v -> section_data f eb h = Ok v.
  Proof.
    unfold section_data. destruct (sh_type h =? SHT_NOBITS); [exact (fun H => H)|].
    destruct (range_in g (sh_range h)) as [[a b]| |] eqn:E; cbn [rbind]; try discriminate.
    rewrite (range_in_trunc _ _ _ _ E). cbn [rbind]. destruct (range_in_ok _ _ _ _ E) as [_ [H1 H2]].
    rewrite (view_trunc n f a b H1 H2). exact (fun H => H).
  Qed.
  Theorem typed_prefix ty h v : section_data_typed g eb ty h = Ok v -> section_data_typed f eb ty h = Ok v.
  Proof.
    unfold section_data_typed. destruct (negb (sh_type h =? ty)); [exact (fun H => H)|].
    destruct (section_data g eb h) as [p| |] eqn:E; cbn [rbind]; try discriminate.
    rewrite (section_data_prefix _ _ E). exact (fun H => H).
  Qed.
  Theorem notes_prefix h v : section_data_as_notes g eb h = Ok v -> section_data_as_notes f eb h = Ok v.
  Proof.
    unfold section_data_as_notes. destruct (section_data_typed g eb SHT_NOTE h) as [p| |] eqn:E; cbn [rbind]; try discriminate.
    rewrite (typed_prefix _ _ _ E). exact (fun H => H).
  Qed.
  Theorem dyn_section_prefix h v : section_data_as_dynamic g eb h = Ok v -> section_data_as_dynamic f eb h = Ok v.
  Proof.
    unfold section_data_as_dynamic. destruct (negb _); [exact (fun H => H)|].
    destruct (validate_entsize _ _); cbn [rbind]; try discriminate.
    destruct (section_data g eb h) as [p| |] eqn:E; cbn [rbind]; try discriminate.
    rewrite (section_data_prefix _ _ E). exact (fun H => H).
  Qed.
  Theorem segment_data_prefix h v : segment_data g h = Ok v -> segment_data f h = Ok v.
  Proof. unfold segment_data. apply range_in_trunc. Qed.
  Theorem seg_notes_prefix h v : segment_data_as_notes g h = Ok v -> segment_data_as_notes f h = Ok v.
  Proof.
    unfold segment_data_as_notes. destruct (negb _); [exact (fun H => H)|].
    destruct (segment_data g h) as [p| |] eqn:E; cbn [rbind]; try discriminate.
    rewrite (segment_data_prefix _ _ E). exact (fun H => H).
  Qed.

  Theorem by_name_prefix name v : shdr_by_name g eb name = Some (Ok v) -> shdr_by_name f eb name = Some (Ok v).
  Proof.
    unfold shdr_by_name. destruct (shdrs_with_strtab g eb) as [[tr sr]| |] eqn:E; try discriminate.
    rewrite (strtab_prefix _ E).
    destruct tr as [r|]; [|exact (fun H => H)]. destruct sr as [sr|]; [|exact (fun H => H)].
    assert (Hr : eb_shdrs eb = Some r).
    { revert E. unfold shdrs_with_strtab. destruct (eb_shdrs eb) as [r0|]; [|discriminate].
      destruct (e_shstrndx (eb_ehdr eb) =? 0); [discriminate|].
      destruct (if e_shstrndx (eb_ehdr eb) =? SHN_XINDEX then _ else _); cbn [rbind]; try discriminate.
      destruct (shdr_get g eb r0 a); cbn [rbind]; try discriminate.
      destruct (range_in g (sh_range a0)); cbn [rbind]; try discriminate. now intros [= <- _]. }
    assert (Hsr : view g sr = view f sr).
    { revert E. unfold shdrs_with_strtab. rewrite Hr. destruct (e_shstrndx (eb_ehdr eb) =? 0); [discriminate|].
      destruct (if e_shstrndx (eb_ehdr eb) =? SHN_XINDEX then _ else _); cbn [rbind]; try discriminate.
      destruct (shdr_get g eb r a); cbn [rbind]; try discriminate.
      destruct (range_in g (sh_range a0)) as [[x y]| |] eqn:E2; cbn [rbind]; try discriminate. intros [= <-].
      destruct (range_in_ok _ _ _ _ E2) as [_ [H1 H2]]. now apply view_trunc. }
    rewrite (shdr_list_prefix r Hr), Hsr. exact (fun H => H).
  Qed.

  Theorem dynamic_prefix v : dynamic g eb = Some (Ok v) -> dynamic f eb = Some (Ok v).
  Proof.
    unfold dynamic. destruct (eb_shdrs eb) as [r|] eqn:Hr.
    - rewrite (shdr_list_prefix r Hr). destruct (shdr_list f eb r) as [l|]; [|discriminate].
      destruct (find_first _ l) as [h|]; [|exact (fun H => H)].
      destruct (section_data_as_dynamic g eb h) as [d| |] eqn:E; cbn [rbind]; try discriminate.
      rewrite (dyn_section_prefix _ _ E). exact (fun H => H).
    - destruct (eb_phdrs eb) as [pr|] eqn:Hp; [|exact (fun H => H)].
      rewrite (phdr_list_prefix pr Hp). destruct (phdr_list f eb pr) as [l|]; [|discriminate].
      destruct (find_first _ l) as [h|]; [|exact (fun H => H)].
      destruct (range_in g (ph_range h)) as [d| |] eqn:E; cbn [rbind]; try discriminate.
      rewrite (range_in_trunc _ _ _ _ E). exact (fun H => H).
  Qed.

  Lemma symtab_of_prefix h strh v : symtab_of g eb h strh = Ok v -> symtab_of f eb h strh = Ok v.
  Proof.
    unfold symtab_of. destruct (validate_entsize _ _); cbn [rbind]; try discriminate.
    destruct (range_in g (sh_range h)) as [sr| |] eqn:E1; cbn [rbind]; try discriminate.
    rewrite (range_in_trunc _ _ _ _ E1). cbn [rbind].
    destruct (range_in g (sh_range strh)) as [tr| |] eqn:E2; cbn [rbind]; try discriminate.
    rewrite (range_in_trunc _ _ _ _ E2). exact (fun H => H).
  Qed.
  Theorem symtab_prefix ty v : symbol_table_of_type g eb ty = Some (Ok v) -> symbol_table_of_type f eb ty = Some (Ok v).
  Proof.
    unfold symbol_table_of_type. destruct (eb_shdrs eb) as [r|] eqn:Hr; [|exact (fun H => H)].
    rewrite (shdr_list_prefix r Hr). destruct (shdr_list f eb r) as [l|]; [|discriminate].
    destruct (find_first _ l) as [h|]; [|exact (fun H => H)].
    rewrite (shdr_get_prefix r _ Hr). destruct (shdr_get f eb r (sh_link h)) as [strh| |]; cbn [rbind]; try discriminate.
    destruct (symtab_of g eb h strh) as [p| |] eqn:E; cbn [rbind]; try discriminate.
    rewrite (symtab_of_prefix _ _ _ E). exact (fun H => H).
  Qed.

  Lemma linked_prefix r h v : eb_shdrs eb = Some r -> linked g eb r h = Ok v -> linked f eb r h = Ok v.
  Proof.
    intros Hr. unfold linked. destruct (range_in g (sh_range h)) as [dr| |] eqn:E1; cbn [rbind]; try discriminate.
    rewrite (range_in_trunc _ _ _ _ E1). cbn [rbind]. rewrite (shdr_get_prefix r _ Hr).
    destruct (shdr_get f eb r (sh_link h)) as [strh| |]; cbn [rbind]; try discriminate.
    destruct (range_in g (sh_range strh)) as [tr| |] eqn:E2; cbn [rbind]; try discriminate.
    rewrite (range_in_trunc _ _ _ _ E2). exact (fun H => H).
  Qed.
  Theorem symver_prefix v : symbol_version_table g eb = Some (Ok v) -> symbol_version_table f eb = Some (Ok v).
  Proof.
    unfold symbol_version_table. destruct (eb_shdrs eb) as [r|] eqn:Hr; [|exact (fun H => H)].
    rewrite (shdr_list_prefix r Hr). destruct (shdr_list f eb r) as [l|]; [|discriminate].
    destruct (symver_scan l None None None) as [[[vsh|] nd] df]; [|exact (fun H => H)].
    destruct (validate_entsize 2 (sh_entsize vsh)); cbn [rbind]; try discriminate.
    destruct (range_in g (sh_range vsh)) as [vr| |] eqn:E1; cbn [rbind]; try discriminate.
    rewrite (range_in_trunc _ _ _ _ E1). cbn [rbind].
    assert (G : forall (o : option shdr) x,
      match o with Some h => let? y := linked g eb r h in Ok (Some y) | None => Ok None end = Ok x ->
      match o with Some h => let? y := linked f eb r h in Ok (Some y) | None => Ok None end = Ok x).
    { intros [h|] x; [|exact (fun H => H)]. destruct (linked g eb r h) as [y| |] eqn:E; cbn [rbind]; try discriminate.
      rewrite (linked_prefix r h y Hr E). exact (fun H => H). }
    destruct (match nd with Some h => _ | None => _ end) as [needs| |] eqn:E2; cbn [rbind]; try discriminate.
    rewrite (G nd needs E2). cbn [rbind].
    destruct (match df with Some h => _ | None => _ end) as [defs| |] eqn:E3; cbn [rbind]; try discriminate.
    rewrite (G df defs E3). exact (fun H => H).
  Qed.

  Lemma common_scan_prefix r : eb_shdrs eb = Some r -> forall l acc cm,
    common_scan g eb r l acc = Ok cm -> common_scan f eb r l acc = Ok cm.
  Proof.
    intros Hr. induction l as [|h t IH]; intros acc cm; cbn [common_scan]; [exact (fun H => H)|].
    assert (HV : forall hr, range_in g (sh_range h) = Ok hr -> view g hr = view f hr).
    { intros [x y] E. destruct (range_in_ok _ _ _ _ E) as [_ [H1 H2]]. now apply view_trunc. }
    destruct (sh_type h =? SHT_SYMTAB).
    { rewrite (shdr_get_prefix r _ Hr). destruct (shdr_get f eb r (sh_link h)) as [strh| |]; cbn [rbind]; try discriminate.
      destruct (symtab_of g eb h strh) as [p| |] eqn:E; cbn [rbind]; try discriminate.
      rewrite (symtab_of_prefix _ _ _ E). cbn [rbind]. apply IH. }
    destruct (sh_type h =? SHT_DYNSYM).
    { rewrite (shdr_get_prefix r _ Hr). destruct (shdr_get f eb r (sh_link h)) as [strh| |]; cbn [rbind]; try discriminate.
      destruct (symtab_of g eb h strh) as [p| |] eqn:E; cbn [rbind]; try discriminate.
      rewrite (symtab_of_prefix _ _ _ E). cbn [rbind]. apply IH. }
    destruct (sh_type h =? SHT_DYNAMIC).
    { destruct (section_data_as_dynamic g eb h) as [d| |] eqn:E; cbn [rbind]; try discriminate.
      rewrite (dyn_section_prefix _ _ E). cbn [rbind]. apply IH. }
    destruct (sh_type h =? SHT_HASH).
    { destruct (range_in g (sh_range h)) as [hr| |] eqn:E; cbn [rbind]; try discriminate.
      rewrite (range_in_trunc _ _ _ _ E), (HV hr eq_refl). cbn [rbind].
      destruct (sysv_new _ _ (view f hr)); cbn [rbind]; try discriminate. apply IH. }
    destruct (sh_type h =? SHT_GNU_HASH).
    { destruct (range_in g (sh_range h)) as [hr| |] eqn:E; cbn [rbind]; try discriminate.
      rewrite (range_in_trunc _ _ _ _ E), (HV hr eq_refl). cbn [rbind].
      destruct (gnu_new _ _ (view f hr)); cbn [rbind]; try discriminate. apply IH. }
    cbn [rbind]. apply IH.
  Qed.
  Theorem common_prefix cm : find_common_data g eb = Some (Ok cm) -> find_common_data f eb = Some (Ok cm).
  Proof.
    unfold find_common_data.
    assert (T : forall cm0 : common,
      match cm_dynamic cm0, eb_phdrs eb with
      | None, Some pr => match phdr_list g eb pr with
                         | None => None
                         | Some pl => match find_first (fun h => p_type h =? PT_DYNAMIC) pl with
                                      | Some h => Some (let? d := range_in g (ph_range h) in
                                          Ok {| cm_symtab := cm_symtab cm0; cm_dynsyms := cm_dynsyms cm0; cm_dynamic := Some d;
                                                cm_sysv := cm_sysv cm0; cm_gnu := cm_gnu cm0 |})
                                      | None => Some (Ok cm0) end end
      | _, _ => Some (Ok cm0) end = Some (Ok cm) ->
      match cm_dynamic cm0, eb_phdrs eb with
      | None, Some pr => match phdr_list f eb pr with
                         | None => None
                         | Some pl => match find_first (fun h => p_type h =? PT_DYNAMIC) pl with
                                      | Some h => Some (let? d := range_in f (ph_range h) in
                                          Ok {| cm_symtab := cm_symtab cm0; cm_dynsyms := cm_dynsyms cm0; cm_dynamic := Some d;
                                                cm_sysv := cm_sysv cm0; cm_gnu := cm_gnu cm0 |})
                                      | None => Some (Ok cm0) end end
      | _, _ => Some (Ok cm0) end = Some (Ok cm)).
    { intros cm0. destruct (cm_dynamic cm0); [exact (fun H => H)|].
      destruct (eb_phdrs eb) as [pr|] eqn:Hp; [|exact (fun H => H)].
      rewrite (phdr_list_prefix pr Hp). destruct (phdr_list f eb pr) as [pl|]; [|discriminate].
      destruct (find_first _ pl) as [h|]; [|exact (fun H => H)].
      destruct (range_in g (ph_range h)) as [d| |] eqn:E; cbn [rbind]; try discriminate.
      rewrite (range_in_trunc _ _ _ _ E). exact (fun H => H). }
    destruct (eb_shdrs eb) as [r|] eqn:Hr.
    - rewrite (shdr_list_prefix r Hr). destruct (shdr_list f eb r) as [l|]; [|discriminate].
      destruct (common_scan g eb r l common_empty) as [cm0| |] eqn:E; try discriminate.
      rewrite (common_scan_prefix r Hr _ _ _ E). apply T.
    - apply T.
  Qed.
End Prefix.

(* ---------- the stream parser: every method at once ---------- *)
Lemma view_nil b s : view b (s, s) = empty_buf.
Proof.
  unfold view, sub. cbn [fst snd]. destruct ((s <=? s) && (s <=? blen b)); [|reflexivity].
  unfold empty_buf. rewrite N.sub_diag. f_equal. apply functional_extensionality. intros i.
  destruct (i <? 0) eqn:E; [lia|reflexivity].
Qed.
Theorem eval_prefix {A} n f (p : prog A) : buf_ok f -> forall L, safe L p -> valid_keys (trunc n f) L ->
  forall v, eval (trunc n f) p = Ok v -> eval f p = Ok v.
Proof.
  intros Hf L H. induction H as [L a|L e|L s e k H IH|L s e k Hm H IH|L m k H IH]; intros Hv v; cbn [eval].
  - exact (fun H => H).
  - exact (fun H => H).
  - pose proof (trunc_blen n f) as Hl. destruct (blen (trunc n f) <? e) eqn:E; [discriminate|].
    replace (blen f <? e) with false by lia. apply IH.
    intros s1 e1. cbn [mem_key]. destruct ((s =? s1) && (e =? e1)) eqn:K; cbn [orb]; [intros _; lia|apply Hv].
  - pose proof (Hv _ _ Hm) as He.
    destruct (N.le_gt_cases s e) as [Hse|Hse].
    + rewrite (view_trunc n f s (s + (e - s))) by lia. apply IH; [apply view_ok; exact Hf|exact Hv].
    + replace (s + (e - s)) with s by lia. rewrite !view_nil. apply IH; [unfold buf_ok, ISIZE_MAX; cbn; lia|exact Hv].
  - exact (IH Hv v).
Qed.
