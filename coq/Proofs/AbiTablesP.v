(* C19: lemmas lifting the boolean table checks (decided by vm_compute over the generated,
   finite tables) to the quantified statements. *)
From Coq Require Import List String ZArith NArith Bool Lia.
Require Import V.Ref.RefLayout V.Spec.AbiTables V.Model.ErrFmt V.Proofs.ErrFmtP.
Import ListNotations.
Open Scope string_scope.

Lemma lookup_in {A} n (l : list (string * A)) v : lookup n l = Some v -> In (n, v) l.
Proof.
  induction l as [|[k x] t IH]; cbn [lookup]; [discriminate|].
  destruct (String.eqb k n) eqn:E.
  - intros [= <-]. apply String.eqb_eq in E. subst. now left.
  - intros H. right. now apply IH.
Qed.

(* constants *)
Lemma consts_ok_spec tab ref : forallb (const_ok tab) ref = true ->
  forall n v, In (n, v) ref -> forall v', const_val tab n = Some v' -> v' = v.
Proof.
  intros H n v Hin v' Hv. rewrite forallb_forall in H. specialize (H _ Hin).
  unfold const_ok in H. cbn [fst snd] in H. rewrite Hv in H. now apply Z.eqb_eq in H.
Qed.

(* to_str: the first matching arm decides, and a right arm returns a right name *)
Lemma to_str_sem_arm tab arms v s : to_str_sem tab arms v = Some s ->
  exists c, In (c, s) arms /\ const_val tab c = Some v.
Proof.
  induction arms as [|[c0 s0] t IH]; cbn [to_str_sem]; [discriminate|].
  destruct (const_val tab c0) as [cv|] eqn:Ec.
  - destruct (Z.eqb cv v) eqn:E.
    + intros [= <-]. apply Z.eqb_eq in E. subst. exists c0. split; [now left|exact Ec].
    + intros H. destruct (IH H) as [c [Hin Hc]]. exists c. split; [now right|exact Hc].
  - intros H. destruct (IH H) as [c [Hin Hc]]. exists c. split; [now right|exact Hc].
Qed.
Lemma sem_r_resolve tab arms v : sem_r (resolve tab arms) v = to_str_sem tab arms v.
Proof.
  induction arms as [|[c s] t IH]; cbn [resolve map sem_r to_str_sem fst snd]; [reflexivity|].
  fold (resolve tab t). destruct (const_val tab c) as [cv|]; [destruct (Z.eqb cv v)|]; auto.
Qed.
Lemma to_str_ok_spec tab fns : forallb (fn_ok tab fns) symbolic_fns = true ->
  forall f, In f symbolic_fns -> exists ty arms, lookup f fns = Some (ty, arms) /\
  forall v s, to_str_sem tab arms v = Some s -> const_val tab s = Some v.
Proof.
  intros H f Hf. rewrite forallb_forall in H. specialize (H _ Hf). unfold fn_ok in H.
  destruct (lookup f fns) as [[ty arms]|]; [|discriminate]. exists ty, arms. split; [reflexivity|].
  intros v s Hs. destruct (to_str_sem_arm _ _ _ _ Hs) as [c [Hin Hc]].
  rewrite forallb_forall in H. specialize (H _ Hin). unfold arm_ok in H. cbn [fst snd] in H.
  rewrite Hc in H. destruct (const_val tab s) as [sv|]; [|discriminate]. apply Z.eqb_eq in H. now subst.
Qed.

(* *_to_string: the identifier of an exported constant with the argument's value, or the
   prefix followed by a hexadecimal rendering that reads back to the argument *)
Lemma to_string_ok_spec tab fns sfns :
  forallb (fn_ok tab fns) symbolic_fns = true -> forallb (wrapper_ok fns) sfns = true ->
  forall name ty inner prefix, In (name, (ty, (inner, prefix))) sfns ->
  forall v, (0 <= v < 2 ^ 64)%Z ->
  exists text, to_string_sem tab fns (ty, (inner, prefix)) v = Some text /\
    (const_val tab text = Some v \/
     (text = prefix ++ "(" ++ hex0xl (Z.to_N v) ++ ")" /\ value_of 16 (hexl (Z.to_N v)) 0 = Z.to_N v))%string.
Proof.
  intros Hf Hw name ty inner prefix Hin v Hv.
  rewrite forallb_forall in Hw. specialize (Hw _ Hin). unfold wrapper_ok in Hw.
  apply andb_prop in Hw. destruct Hw as [Hsym _].
  apply existsb_exists in Hsym. destruct Hsym as [f [Hfin Heq]]. apply String.eqb_eq in Heq. subst f.
  destruct (to_str_ok_spec tab fns Hf inner Hfin) as [ty' [arms [El Hs]]].
  unfold to_string_sem. rewrite El.
  destruct (to_str_sem tab arms v) as [s|] eqn:Es.
  - exists s. split; [reflexivity|]. left. apply Hs, Es.
  - eexists. split; [reflexivity|]. right. split; [reflexivity|].
    apply hexl_roundtrip. change (2 ^ 64)%N with (Z.to_N (2 ^ 64)). apply Z2N.inj_lt; lia.
Qed.

(* p_flags_to_string: below 8 the gABI letters (finite sweep over the eight values, lifted), from 8
   on the prefix and a hexadecimal rendering that reads back *)
Lemma p_flags_ok_spec tab :
  forallb (fun v => String.eqb (p_flags_string tab v) (p_flags_ref v)) [0; 1; 2; 3; 4; 5; 6; 7]%Z = true ->
  forall v, (0 <= v < 2 ^ 32)%Z ->
    ((v < 8)%Z -> p_flags_string tab v = p_flags_ref v) /\
    ((8 <= v)%Z -> p_flags_string tab v = ("p_flags(" ++ hex0xl (Z.to_N v) ++ ")")%string /\
                   value_of 16 (hexl (Z.to_N v)) 0 = Z.to_N v).
Proof.
  intros H v Hv. rewrite forallb_forall in H. split.
  - intros Hlt. apply String.eqb_eq. apply H.
    assert (E : (v = 0 \/ v = 1 \/ v = 2 \/ v = 3 \/ v = 4 \/ v = 5 \/ v = 6 \/ v = 7)%Z) by lia.
    cbn [In]. intuition.
  - intros Hge. unfold p_flags_string. destruct (Z.ltb_spec v 8) as [Hc|Hc]; [lia|]. split; [reflexivity|].
    apply hexl_roundtrip. change (2 ^ 64)%N with (Z.to_N (2 ^ 64)). apply Z2N.inj_lt; lia.
Qed.

(* layouts *)
Lemma fty_eqb_eq a b : fty_eqb a b = true -> a = b.
Proof. destruct a, b; cbn; try discriminate; intros H; apply Nat.eqb_eq in H; now subst. Qed.
Lemma offs_eqb_eq a b : offs_eqb a b = true -> a = b.
Proof.
  revert b; induction a as [|[n [o t]] a IH]; intros [|[n' [o' t']] b]; cbn [offs_eqb]; try discriminate; [reflexivity|].
  intros H. repeat (apply andb_prop in H; destruct H as [H ?]).
  apply String.eqb_eq in H. apply Nat.eqb_eq in H2. apply fty_eqb_eq in H1. subst. f_equal. now apply IH.
Qed.
Lemma structs_ok_spec gen : forallb (struct_ok gen) ref_structs = true ->
  forall name r, In (name, r) ref_structs -> exists l, lookup name gen = Some l /\
    fst (c_offsets l 0) = abi_offsets r 0 /\ c_size l = layout_size r.
Proof.
  intros H name r Hin. rewrite forallb_forall in H. specialize (H _ Hin). unfold struct_ok in H. cbn [fst snd] in H.
  destruct (lookup name gen) as [l|]; [|discriminate]. exists l. split; [reflexivity|].
  apply andb_prop in H. destruct H as [H1 H2]. split; [now apply offs_eqb_eq|now apply Nat.eqb_eq].
Qed.
