(* FROZEN REFERENCE (not derived from /repo): the on-disk layouts of the ELF structures as
   the System V gABI, the GNU symbol-versioning document and <elf.h> define them.
   Each entry: field name, type.  U w / I w: unsigned / signed integer of w bytes;
   Arr n: n raw bytes (e_ident).  Fields appear in ABI order; every gABI structure is
   naturally aligned without padding, so a field's offset is the sum of the widths before it. *)
From Coq Require Import List String NArith.
Import ListNotations.
Open Scope string_scope.

Inductive fty := U (w : nat) | I (w : nat) | Arr (n : nat).
Definition layout := list (string * fty).

Definition Elf32_Ehdr : layout :=
  [("e_ident", Arr 16); ("e_type", U 2); ("e_machine", U 2); ("e_version", U 4); ("e_entry", U 4);
   ("e_phoff", U 4); ("e_shoff", U 4); ("e_flags", U 4); ("e_ehsize", U 2); ("e_phentsize", U 2);
   ("e_phnum", U 2); ("e_shentsize", U 2); ("e_shnum", U 2); ("e_shstrndx", U 2)].
Definition Elf64_Ehdr : layout :=
  [("e_ident", Arr 16); ("e_type", U 2); ("e_machine", U 2); ("e_version", U 4); ("e_entry", U 8);
   ("e_phoff", U 8); ("e_shoff", U 8); ("e_flags", U 4); ("e_ehsize", U 2); ("e_phentsize", U 2);
   ("e_phnum", U 2); ("e_shentsize", U 2); ("e_shnum", U 2); ("e_shstrndx", U 2)].
Definition Elf32_Shdr : layout :=
  [("sh_name", U 4); ("sh_type", U 4); ("sh_flags", U 4); ("sh_addr", U 4); ("sh_offset", U 4);
   ("sh_size", U 4); ("sh_link", U 4); ("sh_info", U 4); ("sh_addralign", U 4); ("sh_entsize", U 4)].
Definition Elf64_Shdr : layout :=
  [("sh_name", U 4); ("sh_type", U 4); ("sh_flags", U 8); ("sh_addr", U 8); ("sh_offset", U 8);
   ("sh_size", U 8); ("sh_link", U 4); ("sh_info", U 4); ("sh_addralign", U 8); ("sh_entsize", U 8)].
Definition Elf32_Phdr : layout :=
  [("p_type", U 4); ("p_offset", U 4); ("p_vaddr", U 4); ("p_paddr", U 4); ("p_filesz", U 4);
   ("p_memsz", U 4); ("p_flags", U 4); ("p_align", U 4)].
Definition Elf64_Phdr : layout :=
  [("p_type", U 4); ("p_flags", U 4); ("p_offset", U 8); ("p_vaddr", U 8); ("p_paddr", U 8);
   ("p_filesz", U 8); ("p_memsz", U 8); ("p_align", U 8)].
Definition Elf32_Sym : layout :=
  [("st_name", U 4); ("st_value", U 4); ("st_size", U 4); ("st_info", U 1); ("st_other", U 1);
   ("st_shndx", U 2)].
Definition Elf64_Sym : layout :=
  [("st_name", U 4); ("st_info", U 1); ("st_other", U 1); ("st_shndx", U 2); ("st_value", U 8);
   ("st_size", U 8)].
Definition Elf32_Rel : layout := [("r_offset", U 4); ("r_info", U 4)].
Definition Elf64_Rel : layout := [("r_offset", U 8); ("r_info", U 8)].
Definition Elf32_Rela : layout := [("r_offset", U 4); ("r_info", U 4); ("r_addend", I 4)].
Definition Elf64_Rela : layout := [("r_offset", U 8); ("r_info", U 8); ("r_addend", I 8)].
Definition Elf32_Dyn : layout := [("d_tag", I 4); ("d_un", U 4)].
Definition Elf64_Dyn : layout := [("d_tag", I 8); ("d_un", U 8)].
Definition Elf32_Chdr : layout := [("ch_type", U 4); ("ch_size", U 4); ("ch_addralign", U 4)].
Definition Elf64_Chdr : layout :=
  [("ch_type", U 4); ("ch_reserved", U 4); ("ch_size", U 8); ("ch_addralign", U 8)].
(* identical for both classes *)
Definition Elf_Nhdr : layout := [("n_namesz", U 4); ("n_descsz", U 4); ("n_type", U 4)].
Definition Elf_HashHdr : layout := [("nbucket", U 4); ("nchain", U 4)].
Definition Elf_GnuHashHdr : layout :=
  [("nbuckets", U 4); ("symoffset", U 4); ("bloom_size", U 4); ("bloom_shift", U 4)].
Definition Elf_Versym : layout := [("vs", U 2)].
Definition Elf_Verdef : layout :=
  [("vd_version", U 2); ("vd_flags", U 2); ("vd_ndx", U 2); ("vd_cnt", U 2); ("vd_hash", U 4);
   ("vd_aux", U 4); ("vd_next", U 4)].
Definition Elf_Verdaux : layout := [("vda_name", U 4); ("vda_next", U 4)].
Definition Elf_Verneed : layout :=
  [("vn_version", U 2); ("vn_cnt", U 2); ("vn_file", U 4); ("vn_aux", U 4); ("vn_next", U 4)].
Definition Elf_Vernaux : layout :=
  [("vna_hash", U 4); ("vna_flags", U 2); ("vna_other", U 2); ("vna_name", U 4); ("vna_next", U 4)].
(* NT_GNU_ABI_TAG descriptor: four words *)
Definition Elf_AbiTag : layout := [("os", U 4); ("major", U 4); ("minor", U 4); ("subminor", U 4)].

Definition fty_size (t : fty) : nat := match t with U w | I w | Arr w => w end.
Fixpoint layout_size (l : layout) : nat :=
  match l with [] => O | (_, t) :: r => (fty_size t + layout_size r)%nat end.
(* offset and type of a named field *)
Fixpoint field_off (l : layout) (name : string) (acc : N) : option (N * fty) :=
  match l with
  | [] => None
  | (n, t) :: r => if String.eqb n name then Some (acc, t)
                   else field_off r name (acc + N.of_nat (fty_size t))%N
  end.
