(* Extraction of the executable model.  ExtrOcamlBasic only: N, Z, positive, nat, byte,
   ascii and string stay the extracted inductive types. *)
Require Import V.Extract.Out V.Extract.Dispatch V.Extract.DispatchS.
From Coq Require Import Extraction ExtrOcamlBasic.
Extraction Language OCaml.
Extraction "model.ml" DispatchS.drv_main Out.drv_byte_to_N Out.drv_byte_of_N Out.drv_n_add Out.drv_n_mul.
