(* Generic case arguments and result trees shared by every dispatch function.
   The OCaml driver parses a case line into [list (list arg)] (groups separated by '|')
   and prints an [out] canonically; the Rust harness prints the same grammar. *)
Require Import V.Base.Prim.
From Coq Require Export String.
Open Scope string_scope.
Open Scope N_scope.

Inductive arg := AN (n : N) | AB (b : buf) | AW (w : string).
Inductive out :=
| ON (n : N)                       (* decimal *)
| OZ (z : Z)                       (* signed decimal *)
| OH (l : list byte)               (* hex bytes: x.. *)
| OR (s e : N)                     (* borrowed range of the input: @s:e, @- when empty *)
| OL (l : list out)                (* [a b c] *)
| OT (tag : string) (l : list out) (* tag(a b c) *)
| OE (e : perr)                    (* E:Kind(payload) *)
| OPanic                           (* PANIC *)
| OBad.                            (* malformed case *)

(* stable names for the OCaml driver *)
Definition drv_byte_to_N := Byte.to_N.
Definition drv_byte_of_N := Byte.of_N.
Definition drv_n_add := N.add.
Definition drv_n_mul := N.mul.

Definition ob (b : bool) : out := ON (if b then 1 else 0).
Definition ores {A} (f : A -> out) (r : res A) : out :=
  match r with Ok a => f a | Err e => OE e | Panic => OPanic end.
Definition oopt {A} (f : A -> out) (o : option A) : out :=
  match o with Some a => f a | None => OT "none" [] end.
Definition orange (r : N * N) : out := OR (fst r) (snd r).

Definition spec_of (w : string) : option espec :=
  if String.eqb w "le" then Some Little else if String.eqb w "be" then Some Big
  else if String.eqb w "anyle" then Some AnyLittle else if String.eqb w "anybe" then Some AnyBig
  else if String.eqb w "native" then Some Little else None.
Definition class_of (n : N) : option class :=
  if n =? 32 then Some ELF32 else if n =? 64 then Some ELF64 else None.
