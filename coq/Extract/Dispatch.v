(* One entry point for the correspondence check: run a parsed case on the model. *)
Require Import V.Base.Prim V.Model.Structs V.Model.Utf8 V.Model.Table V.Model.StrTab.
Require Import V.Extract.Out.

(* ---------- integers (C04) ---------- *)
Definition run_int (s : espec) (kind : string) (off : N) (d : buf) : out :=
  let le := is_little s in
  let u w := let (r, o) := parse_uint w le off d in OL [ores ON r; ON o] in
  let i w := let (r, o) := parse_int w le off d in OL [ores OZ r; ON o] in
  if String.eqb kind "u8" then u 1%nat else if String.eqb kind "u16" then u 2%nat
  else if String.eqb kind "u32" then u 4%nat else if String.eqb kind "u64" then u 8%nat
  else if String.eqb kind "i32" then i 4%nat else if String.eqb kind "i64" then i 8%nat
  else OBad.

(* ---------- structures (C02) ---------- *)
Definition ok (l : list out) : out := OT "ok" l.
Definition o_shdr (h : shdr) := ok [ON (sh_name h); ON (sh_type h); ON (sh_flags h); ON (sh_addr h);
  ON (sh_offset h); ON (sh_size h); ON (sh_link h); ON (sh_info h); ON (sh_addralign h); ON (sh_entsize h)].
Definition o_phdr (h : phdr) := ok [ON (p_type h); ON (p_offset h); ON (p_vaddr h); ON (p_paddr h);
  ON (p_filesz h); ON (p_memsz h); ON (p_flags h); ON (p_align h)].
Definition o_sym (y : sym) := ok [ON (st_name y); ON (st_shndx y); ON (st_info y); ON (st_other y);
  ON (st_value y); ON (st_size y); ob (st_is_undefined y); ON (st_symtype y); ON (st_bind y); ON (st_vis y)].
Definition o_rel (r : rel) := ok [ON (r_offset r); ON (r_sym r); ON (r_type r)].
Definition o_rela (r : rela) := ok [ON (ra_offset r); ON (ra_sym r); ON (ra_type r); OZ (ra_addend r)].
Definition o_dyn (x : dyn) := ok [OZ (d_tag x); ON (d_val x); ON (d_ptr x)].
Definition o_chdr (h : chdr) := ok [ON (ch_type h); ON (ch_size h); ON (ch_addralign h)].
Definition o_abitag (a : abitag) := ok [ON (at_os a); ON (at_major a); ON (at_minor a); ON (at_subminor a)].
Definition o_sysvhdr (h : sysvhdr) := ok [ON (sv_nbucket h); ON (sv_nchain h)].
Definition o_gnuhdr (h : gnuhdr) := ok [ON (gh_nbucket h); ON (gh_symoffset h); ON (gh_nbloom h); ON (gh_nshift h)].
Definition o_num (n : N) := ok [ON n].
Definition o_versym (v : N) := ok [ON v; ON (vx_index v); ob (vx_is_hidden v); ob (vx_is_local v); ob (vx_is_global v)].
Definition o_verdef (v : verdef) := ok [ON (vd_flags v); ON (vd_ndx v); ON (vd_cnt v); ON (vd_hash v); ON (vd_aux v); ON (vd_next v)].
Definition o_verdaux (v : verdaux) := ok [ON (vda_name v); ON (vda_next v)].
Definition o_verneed (v : verneed) := ok [ON (vn_cnt v); ON (vn_file v); ON (vn_aux v); ON (vn_next v)].
Definition o_vernaux (v : vernaux) := ok [ON (vna_hash v); ON (vna_flags v); ON (vna_other v); ON (vna_name v); ON (vna_next v)].
Definition o_ehdr (h : ehdr) := ok [ON (match e_class h with ELF32 => 32 | ELF64 => 64 end);
  ob (is_little (e_spec h)); ON (e_version h); ON (e_osabi h); ON (e_abiversion h); ON (e_type h);
  ON (e_machine h); ON (e_entry h); ON (e_phoff h); ON (e_shoff h); ON (e_flags h); ON (e_ehsize h);
  ON (e_phentsize h); ON (e_phnum h); ON (e_shentsize h); ON (e_shnum h); ON (e_shstrndx h)].

(* a parser packaged with its printer and size: the generic table operations work on it *)
Record ptype := { pt_T : Type; pt_parse : espec -> class -> buf -> M pt_T;
                  pt_size : class -> N; pt_out : pt_T -> out }.
Definition mk {T} p s o : ptype := {| pt_T := T; pt_parse := p; pt_size := s; pt_out := o |}.
Definition ptype_of (w : string) : option ptype :=
  if String.eqb w "shdr" then Some (mk parse_shdr shdr_size o_shdr)
  else if String.eqb w "phdr" then Some (mk parse_phdr phdr_size o_phdr)
  else if String.eqb w "sym" then Some (mk parse_sym sym_size o_sym)
  else if String.eqb w "rel" then Some (mk parse_rel rel_size o_rel)
  else if String.eqb w "rela" then Some (mk parse_rela rela_size o_rela)
  else if String.eqb w "dyn" then Some (mk parse_dyn dyn_size o_dyn)
  else if String.eqb w "chdr" then Some (mk parse_chdr chdr_size o_chdr)
  else if String.eqb w "abitag" then Some (mk parse_abitag abitag_size o_abitag)
  else if String.eqb w "sysvhdr" then Some (mk parse_sysvhdr sysvhdr_size o_sysvhdr)
  else if String.eqb w "gnuhdr" then Some (mk parse_gnuhdr gnuhdr_size o_gnuhdr)
  else if String.eqb w "u32" then Some (mk parse_u32 u32_size o_num)
  else if String.eqb w "u64" then Some (mk parse_u64 u64_size o_num)
  else if String.eqb w "versym" then Some (mk parse_versym versym_size o_versym)
  else if String.eqb w "verdef" then Some (mk parse_verdef verdef_size o_verdef)
  else if String.eqb w "verdaux" then Some (mk parse_verdaux verdaux_size o_verdaux)
  else if String.eqb w "verneed" then Some (mk parse_verneed verneed_size o_verneed)
  else if String.eqb w "vernaux" then Some (mk parse_vernaux vernaux_size o_vernaux)
  else None.

Definition run_parse (p : ptype) (s : espec) (c : class) (off : N) (d : buf) : out :=
  let (r, o) := pt_parse p s c d off in OL [ores (pt_out p) r; ON o; ON (pt_size p c)].

(* ---------- tables and iterators (C09) ---------- *)
Definition run_table_q (p : ptype) (s : espec) (c : class) (d : buf) (q : list arg) : out :=
  let parse := pt_parse p s c in
  let size := pt_size p c in
  match q with
  | [AW w] =>
    if String.eqb w "len" then ON (table_len size d)
    else if String.eqb w "empty" then ob (table_is_empty size d)
    else if String.eqb w "iter" then
      match iter_all parse d with Some l => OL (map (pt_out p) l) | None => OT "fuel" [] end
    else OBad
  | [AW w; AN i] =>
    if String.eqb w "get" then ores (pt_out p) (table_get parse size d i)
    else if String.eqb w "nexts" then
      OL (map (oopt (pt_out p)) (fst (iter_nexts parse (N.to_nat i) d 0)))
    else OBad
  | _ => OBad
  end.

(* ---------- string tables (C15) ---------- *)
Definition run_strtab_q (d : buf) (q : list arg) : out :=
  match q with
  | [AW w; AN off] =>
    if String.eqb w "raw" then ores orange (get_raw d off)
    else if String.eqb w "get" then ores orange (strtab_get d off)
    else OBad
  | _ => OBad
  end.

Definition run (c : list (list arg)) : out :=
  match c with
  | [AW op; AW sp; AW kind; AN off; AB d] :: nil =>
    if String.eqb op "int" then
      match spec_of sp with Some s => run_int s kind off d | None => OBad end
    else OBad
  | [AW op; AW ty; AW sp; AN cl; AN off; AB d] :: nil =>
    if String.eqb op "parse" then
      match ptype_of ty, spec_of sp, class_of cl with
      | Some p, Some s, Some c => run_parse p s c off d
      | _, _, _ => OBad
      end
    else OBad
  | [AW op; AW sp; AN cl; AN osabi; AN abiver; AB d] :: nil =>
    if String.eqb op "tail" then
      match spec_of sp, class_of cl with
      | Some s, Some c => ores o_ehdr (fst (parse_tail s c osabi abiver d 0))
      | _, _ => OBad
      end
    else OBad
  | [AW op; AW ty; AW sp; AN cl; AB d] :: qs =>
    if String.eqb op "table" then
      match ptype_of ty, spec_of sp, class_of cl with
      | Some p, Some s, Some c => OL (map (run_table_q p s c d) qs)
      | _, _, _ => OBad
      end
    else OBad
  | [AW op; AB d] :: qs =>
    if String.eqb op "strtab" then OL (map (run_strtab_q d) qs)
    else if String.eqb op "utf8" then ob (utf8_valid (map Byte.to_N (to_list d)))
    else OBad
  | _ => OBad
  end.

Definition drv_run := run.
