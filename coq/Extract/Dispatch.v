(* One entry point for the correspondence check: run a parsed case on the model. *)
Require Import V.Base.Prim V.Model.Structs V.Model.Utf8 V.Model.Table V.Model.StrTab.
Require Import V.Model.File V.Model.Hash V.Model.Note V.Model.SymVer V.Model.ElfBytes V.Model.ErrFmt.
Require Import V.Extract.Out.

(* ---------- integers (C04) ---------- *)
Definition run_int (s : espec) (kind : string) (off : N) (d : buf) : out :=
  let le := is_little s in
  let u w := let (r, o) := parse_uint w le off d in OL [ores ON r; ON o] in
  let i w := let (r, o) := parse_int w le off d in OL [ores OZ r; ON o] in
  if String.eqb kind "u8" then u 1%nat else if String.eqb kind "u16" then u 2%nat
  else if String.eqb kind "u32" then u 4%nat else if String.eqb kind "u64" then u 8%nat
  else if String.eqb kind "i32" then i 4%nat else if String.eqb kind "i64" then i 8%nat
  else OBad.

(* ---------- structures (C02) ---------- *)
Definition ok (l : list out) : out := OT "ok" l.
Definition o_shdr (h : shdr) := ok [ON (sh_name h); ON (sh_type h); ON (sh_flags h); ON (sh_addr h);
  ON (sh_offset h); ON (sh_size h); ON (sh_link h); ON (sh_info h); ON (sh_addralign h); ON (sh_entsize h)].
Definition o_phdr (h : phdr) := ok [ON (p_type h); ON (p_offset h); ON (p_vaddr h); ON (p_paddr h);
  ON (p_filesz h); ON (p_memsz h); ON (p_flags h); ON (p_align h)].
Definition o_sym (y : sym) := ok [ON (st_name y); ON (st_shndx y); ON (st_info y); ON (st_other y);
  ON (st_value y); ON (st_size y); ob (st_is_undefined y); ON (st_symtype y); ON (st_bind y); ON (st_vis y)].
Definition o_rel (r : rel) := ok [ON (r_offset r); ON (r_sym r); ON (r_type r)].
Definition o_rela (r : rela) := ok [ON (ra_offset r); ON (ra_sym r); ON (ra_type r); OZ (ra_addend r)].
Definition o_dyn (x : dyn) := ok [OZ (d_tag x); ON (d_val x); ON (d_ptr x)].
Definition o_chdr (h : chdr) := ok [ON (ch_type h); ON (ch_size h); ON (ch_addralign h)].
Definition o_abitag (a : abitag) := ok [ON (at_os a); ON (at_major a); ON (at_minor a); ON (at_subminor a)].
Definition o_sysvhdr (h : sysvhdr) := ok [ON (sv_nbucket h); ON (sv_nchain h)].
Definition o_gnuhdr (h : gnuhdr) := ok [ON (gh_nbucket h); ON (gh_symoffset h); ON (gh_nbloom h); ON (gh_nshift h)].
Definition o_num (n : N) := ok [ON n].
Definition o_versym (v : N) := ok [ON v; ON (vx_index v); ob (vx_is_hidden v); ob (vx_is_local v); ob (vx_is_global v)].
Definition o_verdef (v : verdef) := ok [ON (vd_flags v); ON (vd_ndx v); ON (vd_cnt v); ON (vd_hash v); ON (vd_aux v); ON (vd_next v)].
Definition o_verdaux (v : verdaux) := ok [ON (vda_name v); ON (vda_next v)].
Definition o_verneed (v : verneed) := ok [ON (vn_cnt v); ON (vn_file v); ON (vn_aux v); ON (vn_next v)].
Definition o_vernaux (v : vernaux) := ok [ON (vna_hash v); ON (vna_flags v); ON (vna_other v); ON (vna_name v); ON (vna_next v)].
Definition o_ehdr (h : ehdr) := ok [ON (match e_class h with ELF32 => 32 | ELF64 => 64 end);
  ob (is_little (e_spec h)); ON (e_version h); ON (e_osabi h); ON (e_abiversion h); ON (e_type h);
  ON (e_machine h); ON (e_entry h); ON (e_phoff h); ON (e_shoff h); ON (e_flags h); ON (e_ehsize h);
  ON (e_phentsize h); ON (e_phnum h); ON (e_shentsize h); ON (e_shnum h); ON (e_shstrndx h)].

(* a parser packaged with its printer and size: the generic table operations work on it *)
Record ptype := { pt_T : Type; pt_parse : espec -> class -> buf -> M pt_T;
                  pt_size : class -> N; pt_out : pt_T -> out }.
Definition mk {T} p s o : ptype := {| pt_T := T; pt_parse := p; pt_size := s; pt_out := o |}.
Definition ptype_of (w : string) : option ptype :=
  if String.eqb w "shdr" then Some (mk parse_shdr shdr_size o_shdr)
  else if String.eqb w "phdr" then Some (mk parse_phdr phdr_size o_phdr)
  else if String.eqb w "sym" then Some (mk parse_sym sym_size o_sym)
  else if String.eqb w "rel" then Some (mk parse_rel rel_size o_rel)
  else if String.eqb w "rela" then Some (mk parse_rela rela_size o_rela)
  else if String.eqb w "dyn" then Some (mk parse_dyn dyn_size o_dyn)
  else if String.eqb w "chdr" then Some (mk parse_chdr chdr_size o_chdr)
  else if String.eqb w "abitag" then Some (mk parse_abitag abitag_size o_abitag)
  else if String.eqb w "sysvhdr" then Some (mk parse_sysvhdr sysvhdr_size o_sysvhdr)
  else if String.eqb w "gnuhdr" then Some (mk parse_gnuhdr gnuhdr_size o_gnuhdr)
  else if String.eqb w "u32" then Some (mk parse_u32 u32_size o_num)
  else if String.eqb w "u64" then Some (mk parse_u64 u64_size o_num)
  else if String.eqb w "versym" then Some (mk parse_versym versym_size o_versym)
  else if String.eqb w "verdef" then Some (mk parse_verdef verdef_size o_verdef)
  else if String.eqb w "verdaux" then Some (mk parse_verdaux verdaux_size o_verdaux)
  else if String.eqb w "verneed" then Some (mk parse_verneed verneed_size o_verneed)
  else if String.eqb w "vernaux" then Some (mk parse_vernaux vernaux_size o_vernaux)
  else None.

Definition run_parse (p : ptype) (s : espec) (c : class) (off : N) (d : buf) : out :=
  let (r, o) := pt_parse p s c d off in OL [ores (pt_out p) r; ON o; ON (pt_size p c)].

(* ---------- tables and iterators (C09) ---------- *)
(* "walk c1 a1 c2 a2 ...": a script of Iterator calls on one ParsingIterator, with the standard
   library's provided methods spelled out over next():
   0 next | 1 nth(a) | 2 by_ref().take(a) | 3 count() | 4 last() | 5 step_by(a).take(64) | 6 skip(a) drained | 7 fold *)
Fixpoint nums_of (l : list arg) : list N :=
  match l with AN n :: t => n :: nums_of t | _ => [] end.
(* generic in the iterator: nx is next() on the cursor *)
Section Walk.
  Context {T St : Type}.         (* St: the iterator's state (a cursor, or count + offset) *)
  Variable nx : St -> option T * St.
  Variable po : T -> out.
  Fixpoint g_nth (fuel : nat) (n : N) (off : St) : option T * St :=
    match fuel with
    | O => (None, off)
    | S f => match nx off with
             | (None, o') => (None, o')
             | (Some a, o') => if n =? 0 then (Some a, o') else g_nth f (N.pred n) o'
             end
    end.
  Fixpoint g_take (fuel : nat) (a : N) (off : St) : list T * St :=
    match fuel with
    | O => ([], off)
    | S f => if a =? 0 then ([], off) else
             match nx off with
             | (None, o') => ([], o')
             | (Some x, o') => let (l, o2) := g_take f (N.pred a) o' in (x :: l, o2)
             end
    end.
  Fixpoint g_drain (fuel : nat) (off : St) : list T :=
    match fuel with
    | O => []
    | S f => match nx off with (Some x, o') => x :: g_drain f o' | (None, _) => [] end
    end.
  Fixpoint step_items (fuel cap : nat) (a : N) (off : St) : list T :=
    match cap with
    | O => []
    | S c => match g_nth fuel a off with
             | (Some x, o') => x :: step_items fuel c a o'
             | (None, _) => []
             end
    end.
  Fixpoint walk (fuel : nat) (acts : list N) (off : St) : list out :=
    match acts with
    | c :: a :: rest =>
      if c =? 0 then let (x, o') := nx off in oopt po x :: walk fuel rest o'
      else if c =? 1 then let (x, o') := g_nth fuel a off in oopt po x :: walk fuel rest o'
      else if c =? 2 then let (l, o') := g_take fuel a off in OL (map po l) :: walk fuel rest o'
      else if c =? 3 then [ON (llen (g_drain fuel off))]
      else if c =? 4 then [oopt po (last (map Some (g_drain fuel off)) None)]
      else if c =? 5 then
        match nx off with
        | (Some x, o') => [OL (map po (x :: step_items fuel 63 (N.pred a) o'))]
        | (None, _) => [OL []]
        end
      else if c =? 6 then
        match g_nth fuel a off with
        | (Some x, o') => [OL (map po (x :: g_drain fuel o'))]
        | (None, _) => [OL []]
        end
      else if c =? 7 then [OL (map po (g_drain fuel off))]
      else [OBad]
    | _ => []
    end.
End Walk.

(* ---------- tables ---------- *)
Definition run_table_q (p : ptype) (s : espec) (c : class) (d : buf) (q : list arg) : out :=
  let parse := pt_parse p s c in
  let size := pt_size p c in
  match q with
  | [AW w] =>
    if String.eqb w "len" then ON (table_len size d)
    else if String.eqb w "empty" then ob (table_is_empty size d)
    else if String.eqb w "iter" || String.eqb w "intoiter" then    (* iter() / IntoIterator::into_iter() *)
      match iter_all parse d with Some l => OL (map (pt_out p) l) | None => OT "fuel" [] end
    else OBad
  | AW "walk" :: acts => OL (walk (iter_next parse d) (pt_out p) (iter_fuel d) (nums_of acts) 0)
  | [AW w; AN i] =>
    if String.eqb w "get" then ores (pt_out p) (table_get parse size d i)
    else if String.eqb w "nexts" then
      OL (map (oopt (pt_out p)) (fst (iter_nexts parse (N.to_nat i) d 0)))
    else OBad
  | _ => OBad
  end.

(* ---------- string tables (C15) ---------- *)
Definition run_strtab_q (d : buf) (q : list arg) : out :=
  match q with
  | [AW w; AN off] =>
    if String.eqb w "raw" then ores orange (get_raw d off)
    else if String.eqb w "get" then ores orange (strtab_get d off)
    else OBad
  | _ => OBad
  end.


(* ---------- helpers ---------- *)
Definition fam_of (w : string) : option specfam :=
  if String.eqb w "le" then Some FLittle else if String.eqb w "be" then Some FBig
  else if String.eqb w "any" then Some FAny else if String.eqb w "native" then Some FLittle else None.
Definition ofuel {A} (f : A -> out) (o : option A) : out :=
  match o with Some a => f a | None => OT "FUEL" [] end.
Definition orange_at (base : N) (r : N * N) : out := OR (base + fst r) (base + snd r).
Definition bytes_of (d : buf) : list N := map Byte.to_N (to_list d).
Definition ohex (d : buf) : out := OH (to_list d).
Definition onone : out := OT "none" [].
Definition args_nums (l : list arg) : list N :=
  flat_map (fun a => match a with AN n => [n] | _ => [] end) l.
Definition args_bufs (l : list arg) : list buf :=
  flat_map (fun a => match a with AB b => [b] | _ => [] end) l.

(* ---------- notes (C14) ---------- *)
Definition o_note (d : buf) (base : N) (n : note) : out :=
  match n with
  | NAbiTag a => OT "abitag" [ON (at_os a); ON (at_major a); ON (at_minor a); ON (at_subminor a)]
  | NBuildId r => OT "buildid" [orange_at base r]
  | NAny ty nm ds => OT "note" [ON ty; orange_at base nm; orange_at base ds;
                                ores (orange_at base) (name_str d nm)]
  end.
Definition o_notes_all (s : espec) (c : class) (align : N) (d : buf) (base : N) : out :=
  ofuel (ores (fun l => OL (map (o_note d base) l))) (notes_all s c align d).
Definition run_notes_q (s : espec) (c : class) (align : N) (d : buf) (q : list arg) : out :=
  match q with
  | [AW w] => if String.eqb w "all" then o_notes_all s c align d 0 else OBad
  | AW "walk" :: acts =>
    OL (walk (fun off => match note_next s c align d off with (Ok x, o) => (x, o) | (_, o) => (None, o) end)
             (o_note d 0) (S (S (N.to_nat (blen d)))) (nums_of acts) 0)
  | [AW w; AN k] =>
    if String.eqb w "nexts" then
      OL (map (ores (oopt (o_note d 0))) (notes_nexts (N.to_nat k) s c align d 0))
    else OBad
  | _ => OBad
  end.

(* ---------- hash tables (C11, C12) ---------- *)
Definition o_found (r : res (option (N * sym))) : out :=
  ores (oopt (fun p => OL [ON (fst p); o_sym (snd p)])) r.
Definition run_sysv (s : espec) (c : class) (tab symtab strtab : buf) (qs : list (list arg)) : out :=
  ores (fun t => OL (map (fun q => match q with
                                   | [AB nm] => o_found (sysv_find s c tab t (bytes_of nm) symtab strtab)
                                   | _ => OBad end) qs)) (sysv_new s c tab).
Definition run_gnu (s : espec) (c : class) (tab symtab strtab : buf) (qs : list (list arg)) : out :=
  ores (fun t => OL (map (fun q => match q with
                                   | [AB nm] => o_found (gnu_find s tab t (bytes_of nm) symtab strtab)
                                   | _ => OBad end) qs)) (gnu_new s c tab).

(* ---------- symbol versions (C13) ---------- *)
Definition o_viter_aux {T} (nx : viter -> res (option (T * N) * viter)) (po : T -> out) (d : buf) (st : viter) : out :=
  ofuel (ores (fun l => OL (map (fun p => po (fst p)) l))) (drain nx (link_fuel d) st).
Definition o_verdefs (s : espec) (c : class) (d : buf) (st : viter) : out :=
  ofuel (ores (fun l => OL (map (fun p => OL [o_verdef (fst p);
                                              o_viter_aux (verdaux_next s c d) o_verdaux d (snd p)]) l)))
        (drain (verdef_next s c d) (link_fuel d) st).
Definition o_verneeds (s : espec) (c : class) (d : buf) (st : viter) : out :=
  ofuel (ores (fun l => OL (map (fun p => OL [o_verneed (fst p);
                                              o_viter_aux (vernaux_next s c d) o_vernaux d (snd p)]) l)))
        (drain (verneed_next s c d) (link_fuel d) st).
Fixpoint nexts_gen {I} (nx : viter -> res (option I * viter)) (po : I -> out) (k : nat) (st : viter) : list out :=
  match k with
  | O => []
  | S k' => match nx st with
            | Ok (x, st') => oopt po x :: nexts_gen nx po k' st'
            | Err e => [OE e]
            | Panic => [OPanic]
            end
  end.
Definition run_viter_q (kind : string) (s : espec) (c : class) (d : buf) (st : viter) (q : list arg) : out :=
  match q with
  | [AW w] =>
    if negb (String.eqb w "all") then OBad else
    if String.eqb kind "verdef" then o_verdefs s c d st
    else if String.eqb kind "verneed" then o_verneeds s c d st
    else if String.eqb kind "verdaux" then o_viter_aux (verdaux_next s c d) o_verdaux d st
    else if String.eqb kind "vernaux" then o_viter_aux (vernaux_next s c d) o_vernaux d st
    else OBad
  | AW "walk" :: acts =>
    let lift {I} (nx : viter -> res (option I * viter)) (st : viter) : option I * viter :=
      match nx st with Ok (x, st') => (x, st') | _ => (None, st) end in
    if String.eqb kind "verdef" then OL (walk (lift (verdef_next s c d)) (fun p => o_verdef (fst p)) (link_fuel d) (nums_of acts) st)
    else if String.eqb kind "verneed" then OL (walk (lift (verneed_next s c d)) (fun p => o_verneed (fst p)) (link_fuel d) (nums_of acts) st)
    else if String.eqb kind "verdaux" then OL (walk (lift (verdaux_next s c d)) (fun p => o_verdaux (fst p)) (link_fuel d) (nums_of acts) st)
    else if String.eqb kind "vernaux" then OL (walk (lift (vernaux_next s c d)) (fun p => o_vernaux (fst p)) (link_fuel d) (nums_of acts) st)
    else OBad
  | [AW w; AB strs] =>
    if String.eqb w "names" && String.eqb kind "verdaux" then
      ofuel (ores (fun l => OL (map (ores (orange_at 0)) l))) (definition_names s c d strs st)
    else OBad
  | [AW w; AN k] =>
    if negb (String.eqb w "nexts") then OBad else
    if String.eqb kind "verdef" then OL (nexts_gen (verdef_next s c d) (fun p => o_verdef (fst p)) (N.to_nat k) st)
    else if String.eqb kind "verneed" then OL (nexts_gen (verneed_next s c d) (fun p => o_verneed (fst p)) (N.to_nat k) st)
    else if String.eqb kind "verdaux" then OL (nexts_gen (verdaux_next s c d) (fun p => o_verdaux (fst p)) (N.to_nat k) st)
    else if String.eqb kind "vernaux" then OL (nexts_gen (vernaux_next s c d) (fun p => o_vernaux (fst p)) (N.to_nat k) st)
    else OBad
  | _ => OBad
  end.

(* requirement / definition of symbol i; string ranges are shifted by the base of their table *)
Definition o_requirement (nbase : N) (r : requirement) : out :=
  OT "req" [orange_at nbase (rq_file r); orange_at nbase (rq_name r); ON (rq_hash r); ON (rq_flags r);
            ob (rq_hidden r)].
Definition o_definition (s : espec) (c : class) (dd strs : buf) (dbase : N) (df : definition) : out :=
  OT "def" [ON (df_hash df); ON (df_flags df); ob (df_hidden df);
            ofuel (ores (fun l => OL (map (ores (orange_at dbase)) l)))
                  (definition_names s c dd strs (df_names df))].
Definition o_symver_q (s : espec) (c : class) (t : symvertab) (nbase dbase : N) (i : N) : out :=
  OL [ofuel (ores (oopt (o_requirement nbase))) (get_requirement s c t i);
      ofuel (ores (oopt (fun df => match svt_defs t with
                                   | Some (_, dd, strs) => o_definition s c dd strs dbase df
                                   | None => OBad end))) (get_definition s c t i)].

(* ---------- slice file (C03 C05 C10 C18 C20) ---------- *)
Section Bytes.
  Variables (f : buf) (eb : elfbytes).
  Let s := e_spec (eb_ehdr eb).
  Let c := e_class (eb_ehdr eb).
  Definition hdr_of_idx (i : N) : option shdr :=
    match eb_shdrs eb with Some r => res_ok (shdr_get f eb r i) | None => None end.
  Definition phdr_of_idx (i : N) : option phdr :=
    match eb_phdrs eb with Some r => res_ok (phdr_get f eb r i) | None => None end.
  Definition shdr_of_nums (l : list N) : option shdr :=
    match l with
    | [a; b; c0; d0; e; g; h; i; j; k] =>
      Some {| sh_name := a; sh_type := b; sh_flags := c0; sh_addr := d0; sh_offset := e; sh_size := g;
              sh_link := h; sh_info := i; sh_addralign := j; sh_entsize := k |}
    | _ => None
    end.
  Definition phdr_of_nums (l : list N) : option phdr :=
    match l with
    | [a; b; c0; d0; e; g; h; i] =>
      Some {| p_type := a; p_offset := b; p_vaddr := c0; p_paddr := d0; p_filesz := e; p_memsz := g;
              p_flags := h; p_align := i |}
    | _ => None
    end.
  Definition with_shdr (l : list arg) (k : shdr -> out) : out :=
    match args_nums l with
    | [i] => match hdr_of_idx i with Some h => k h | None => OT "nohdr" [] end
    | nums => match shdr_of_nums nums with Some h => k h | None => OBad end
    end.
  Definition with_phdr (l : list arg) (k : phdr -> out) : out :=
    match args_nums l with
    | [i] => match phdr_of_idx i with Some h => k h | None => OT "nohdr" [] end
    | nums => match phdr_of_nums nums with Some h => k h | None => OBad end
    end.
  Definition o_table {T} (parse : espec -> class -> buf -> M T) (po : T -> out) (r : N * N) : out :=
    ofuel (fun l => OL (map po l)) (iter_all (parse s c) (view f r)).
  Definition o_symtab (p : (N * N) * (N * N)) : out :=
    OL [o_table parse_sym o_sym (fst p); ohex (view f (snd p))].
  Definition o_notes (p : (N * N) * N) : out :=
    o_notes_all s c (snd p) (view f (fst p)) (fst (fst p)).
  Definition symvertab_of (sr : symver_ranges) : symvertab :=
    {| svt_versym := view f (sr_versym sr);
       svt_needs := match sr_needs sr with
                    | Some (cnt, dr, tr) => Some ({| vi_count := cnt; vi_off := 0 |}, view f dr, view f tr) | None => None end;
       svt_defs := match sr_defs sr with
                   | Some (cnt, dr, tr) => Some ({| vi_count := cnt; vi_off := 0 |}, view f dr, view f tr) | None => None end |}.

  Definition run_bytes_q (q : list arg) : out :=
    match q with
    | AW w :: rest =>
      if String.eqb w "ehdr" then o_ehdr (eb_ehdr eb)
      else if String.eqb w "shnum" then
        oopt (fun r => ON (table_len (shdr_size c) (view f r))) (eb_shdrs eb)
      else if String.eqb w "phnum" then
        oopt (fun r => ON (table_len (phdr_size c) (view f r))) (eb_phdrs eb)
      else if String.eqb w "shdrs" then oopt (o_table parse_shdr o_shdr) (eb_shdrs eb)
      else if String.eqb w "phdrs" then oopt (o_table parse_phdr o_phdr) (eb_phdrs eb)
      else if String.eqb w "shdr" then
        match eb_shdrs eb, args_nums rest with
        | Some r, [i] => ores o_shdr (shdr_get f eb r i) | None, _ => onone | _, _ => OBad end
      else if String.eqb w "phdr" then
        match eb_phdrs eb, args_nums rest with
        | Some r, [i] => ores o_phdr (phdr_get f eb r i) | None, _ => onone | _, _ => OBad end
      else if String.eqb w "shstr" then
        ores (fun p => OL [oopt (fun r => ON (table_len (shdr_size c) (view f r))) (fst p);
                           oopt (fun r => ohex (view f r)) (snd p)]) (shdrs_with_strtab f eb)
      else if String.eqb w "byname" then
        match args_bufs rest with
        | [nm] => ofuel (ores (oopt o_shdr)) (shdr_by_name f eb (bytes_of nm))
        | _ => OBad end
      else if String.eqb w "secdata" then
        with_shdr rest (fun h => ores (fun p => OL [orange (fst p); oopt o_chdr (snd p)]) (section_data f eb h))
      else if String.eqb w "strtab" then
        match args_nums rest with
        | i :: offs =>
          with_shdr [AN i] (fun h =>
            ores (fun r => OL (map (fun off => ores (orange_at (fst r)) (get_raw (view f r) off)) offs))
                 (section_data_as_strtab f eb h))
        | _ => OBad end
      else if String.eqb w "rels" then
        with_shdr rest (fun h => ores (o_table parse_rel o_rel) (section_data_as_rels f eb h))
      else if String.eqb w "relas" then
        with_shdr rest (fun h => ores (o_table parse_rela o_rela) (section_data_as_relas f eb h))
      else if String.eqb w "notes" then
        with_shdr rest (fun h => ores o_notes (section_data_as_notes f eb h))
      else if String.eqb w "segdata" then
        with_phdr rest (fun h => ores orange (segment_data f h))
      else if String.eqb w "segnotes" then
        with_phdr rest (fun h => ores o_notes (segment_data_as_notes f h))
      else if String.eqb w "dynamic" then
        ofuel (ores (oopt (o_table parse_dyn o_dyn))) (dynamic f eb)
      else if String.eqb w "symtab" then ofuel (ores (oopt o_symtab)) (symbol_table f eb)
      else if String.eqb w "dynsym" then ofuel (ores (oopt o_symtab)) (dynamic_symbol_table f eb)
      else if String.eqb w "common" then
        ofuel (ores (fun cm =>
          let names := map bytes_of (args_bufs rest) in
          let finds {T} (find : T -> list N -> buf -> buf -> res (option (N * sym))) (t : T) :=
            match cm_dynsyms cm with
            | Some (sr, tr) => OL (map (fun nm => o_found (find t nm (view f sr) (view f tr))) names)
            | None => OL []
            end in
          OL [oopt o_symtab (cm_symtab cm); oopt o_symtab (cm_dynsyms cm);
              oopt (o_table parse_dyn o_dyn) (cm_dynamic cm);
              oopt (fun p => finds (fun t => sysv_find s c (view f (fst p)) t) (snd p)) (cm_sysv cm);
              oopt (fun p => finds (fun t => gnu_find s (view f (fst p)) t) (snd p)) (cm_gnu cm)]))
          (find_common_data f eb)
      else if String.eqb w "symver" then
        ofuel (ores (oopt (fun sr =>
          let t := symvertab_of sr in
          let nbase := match sr_needs sr with Some (_, _, tr) => fst tr | None => 0 end in
          let dbase := match sr_defs sr with Some (_, _, tr) => fst tr | None => 0 end in
          OL (map (o_symver_q s c t nbase dbase) (args_nums rest)))))
          (symbol_version_table f eb)
      else OBad
    | _ => OBad
    end.
End Bytes.

Definition run_bytes (fam : specfam) (f : buf) (qs : list (list arg)) : out :=
  ores (fun eb => OL (map (run_bytes_q f eb) qs)) (minimal_parse fam f).

Definition perr_of_kind (k a b c d : N) : option perr :=
  nth_error [EBadMagic a b c d; EUnsupportedElfClass a; EUnsupportedElfEndianness a; EUnsupportedVersion a b;
             EBadOffset a; EStringTableMissingNul a; EBadEntsize a b; EUnexpectedSectionType a b;
             EUnexpectedSegmentType a b; EUnexpectedAlignment a; ESliceReadError a b; EIntegerOverflow;
             EUtf8Error; ETryFromSliceError; ETryFromIntError; EIOError] (N.to_nat k).

Definition run (c : list (list arg)) : out :=
  match c with
  | [AW op; AN k; AN a; AN b; AN c; AN d] :: nil =>
    if String.eqb op "errfmt" then
      match perr_of_kind k a b c d with
      | Some e => OL [oopt (fun m => OH (list_byte_of_string m)) (perr_display e); ob (perr_has_source e)]
      | None => OBad
      end
    else OBad
  | [AW op; AW sp] :: nil =>
    if String.eqb op "endian" then       (* EndianParse::is_little / is_big of a spec value *)
      match spec_of sp with Some s => OL [ob (is_little s); ob (negb (is_little s))] | None => OBad end
    else OBad
  | [AW op; AW sp; AW kind; AN off; AB d] :: nil =>
    if String.eqb op "int" then
      match spec_of sp with Some s => run_int s kind off d | None => OBad end
    else OBad
  | [AW op; AW ty; AW sp; AN cl; AN off; AB d] :: nil =>
    if String.eqb op "parse" then
      match ptype_of ty, spec_of sp, class_of cl with
      | Some p, Some s, Some c => run_parse p s c off d
      | _, _, _ => OBad
      end
    else OBad
  | [AW op; AW sp; AN cl; AN osabi; AN abiver; AB d] :: nil =>
    if String.eqb op "tail" then
      match spec_of sp, class_of cl with
      | Some s, Some c => ores o_ehdr (fst (parse_tail s c osabi abiver d 0))
      | _, _ => OBad
      end
    else OBad
  | [AW op; AW ty; AW sp; AN cl; AB d] :: qs =>
    if String.eqb op "table" then
      match ptype_of ty, spec_of sp, class_of cl with
      | Some p, Some s, Some c => OL (map (run_table_q p s c d) qs)
      | _, _, _ => OBad
      end
    else OBad
  | [AW op; AB d] :: qs =>
    if String.eqb op "strtab" then OL (map (run_strtab_q d) qs)
    else if String.eqb op "utf8" then ob (utf8_valid (bytes_of d))
    else if String.eqb op "sysvhash" then ON (sysv_hash (bytes_of d))
    else if String.eqb op "gnuhash" then ON (gnu_hash (bytes_of d))
    else OBad
  | [AW op; AW fm; AB d] :: qs =>
    match fam_of fm with
    | None => OBad
    | Some fam =>
      if String.eqb op "ident" then
        ores (fun p => match p with
                       | (s, c, osabi, abiver) =>
                         ok [ob (is_little s); ON (match c with ELF32 => 32 | ELF64 => 64 end);
                             ON osabi; ON abiver] end) (parse_ident fam d)
      else if String.eqb op "bytes" then run_bytes fam d qs
      else OBad
    end
  | [AW op; AW sp; AN cl; AN align; AB d] :: qs =>
    if String.eqb op "notes" then
      match spec_of sp, class_of cl with
      | Some s, Some c => OL (map (run_notes_q s c align d) qs)
      | _, _ => OBad
      end
    else OBad
  | [AW op; AW sp; AN cl; AB tab; AB symtab; AB strtab] :: qs =>
    match spec_of sp, class_of cl with
    | Some s, Some c =>
      if String.eqb op "sysv" then run_sysv s c tab symtab strtab qs
      else if String.eqb op "gnu" then run_gnu s c tab symtab strtab qs
      else OBad
    | _, _ => OBad
    end
  | [AW op; AW kind; AW sp; AN cl; AN cnt; AN off; AB d] :: qs =>
    if String.eqb op "viter" then
      match spec_of sp, class_of cl with
      | Some s, Some c => OL (map (run_viter_q kind s c d {| vi_count := cnt; vi_off := off |}) qs)
      | _, _ => OBad
      end
    else OBad
  | [AW op; AW sp; AN cl; AB versym; AN hasn; AN ncnt; AN noff; AB nd; AB nstrs;
     AN hasd; AN dcnt; AN doff; AB dd; AB dstrs] :: qs =>
    if String.eqb op "symvert" then
      match spec_of sp, class_of cl with
      | Some s, Some c =>
        let t := {| svt_versym := versym;
                    svt_needs := if hasn =? 0 then None else Some ({| vi_count := ncnt; vi_off := noff |}, nd, nstrs);
                    svt_defs := if hasd =? 0 then None else Some ({| vi_count := dcnt; vi_off := doff |}, dd, dstrs) |} in
        OL (map (fun q => match q with [AN i] => o_symver_q s c t 0 0 i | _ => OBad end) qs)
      | _, _ => OBad
      end
    else OBad
  | _ => OBad
  end.

Definition drv_run := run.
