(* Stream parser (and the slice parser in the same content form) for the correspondence check. *)
Require Import V.Base.Prim V.Model.Structs V.Model.Utf8 V.Model.Table V.Model.StrTab.
Require Import V.Model.File V.Model.Hash V.Model.Note V.Model.SymVer V.Model.ElfBytes V.Model.Stream.
Require Import V.Extract.Out V.Extract.Dispatch.

(* ---------- content form: bytes instead of ranges ---------- *)
Definition hex_range (d : buf) (r : N * N) : out := ohex (view d r).
Definition o_note_c (d : buf) (n : note) : out :=
  match n with
  | NAbiTag a => OT "abitag" [ON (at_os a); ON (at_major a); ON (at_minor a); ON (at_subminor a)]
  | NBuildId r => OT "buildid" [hex_range d r]
  | NAny ty nm ds => OT "note" [ON ty; hex_range d nm; hex_range d ds; ores (hex_range d) (name_str d nm)]
  end.
Definition o_notes_c (s : espec) (c : class) (p : buf * N) : out :=
  ofuel (ores (fun l => OL (map (o_note_c (fst p)) l))) (notes_all s c (snd p) (fst p)).
Definition o_tab_c {T} (parse : buf -> M T) (po : T -> out) (b : buf) : out :=
  ofuel (fun l => OL (map po l)) (iter_all parse b).
Definition o_symtab_c (s : espec) (c : class) (p : buf * buf) : out :=
  OL [o_tab_c (parse_sym s c) o_sym (fst p); ohex (snd p)].
Definition o_strtab_c (t : buf) (offs : list N) : out :=
  OL (map (fun off => ores (hex_range t) (get_raw t off)) offs).
Definition o_req_c (strs : buf) (r : requirement) : out :=
  OT "req" [hex_range strs (rq_file r); hex_range strs (rq_name r); ON (rq_hash r); ON (rq_flags r); ob (rq_hidden r)].
Definition o_def_c (s : espec) (c : class) (dd strs : buf) (df : definition) : out :=
  OT "def" [ON (df_hash df); ON (df_flags df); ob (df_hidden df);
            ofuel (ores (fun l => OL (map (ores (hex_range strs)) l))) (definition_names s c dd strs (df_names df))].
Definition o_symver_c (s : espec) (c : class) (t : symvertab) (idx : list N) : out :=
  OL (map (fun i =>
    OL [ofuel (ores (oopt (fun r => match svt_needs t with
                                    | Some (_, _, strs) => o_req_c strs r | None => OBad end))) (get_requirement s c t i);
        ofuel (ores (oopt (fun df => match svt_defs t with
                                     | Some (_, dd, strs) => o_def_c s c dd strs df | None => OBad end))) (get_definition s c t i)]) idx).
Definition svt_of (p : buf * option (N * buf * buf) * option (N * buf * buf)) : symvertab :=
  let '(vb, nd, df) := p in
  {| svt_versym := vb;
     svt_needs := match nd with Some (cnt, b, tb) => Some ({| vi_count := cnt; vi_off := 0 |}, b, tb) | None => None end;
     svt_defs := match df with Some (cnt, b, tb) => Some ({| vi_count := cnt; vi_off := 0 |}, b, tb) | None => None end |}.

(* ---------- stream ---------- *)
Fixpoint fault_of (l : list N) (k : N) : option fault :=
  match l with
  | i :: kind :: t => if i =? k then Some (if kind =? 0 then FErr else FEof) else fault_of t k
  | _ => None
  end.
Definition o_trace (r : rd) : out :=
  OL (flat_map (fun ev => match ev with
                          | EvSeek p => [OT "S" [ON p]]
                          | EvRead p n => [OT "R" [ON p; ON n]]
                          | _ => [] end) (r_log r)).

Section StreamRun.
  Variables (w : world) (es : estream).
  Let s := e_spec (es_ehdr es).
  Let c := e_class (es_ehdr es).
  Definition run1 {A} (p : prog A) (po : A -> out) (r : rd) : out * rd :=
    let (x, r') := run_real w p r in (ores po x, r').
  Definition s_shdr_arg (l : list arg) : option shdr :=
    match args_nums l with
    | [i] => nth_n (es_shdrs es) i
    | nums => shdr_of_nums nums
    end.
  Definition s_phdr_arg (l : list arg) : option phdr :=
    match args_nums l with
    | [i] => nth_n (es_phdrs es) i
    | nums => phdr_of_nums nums
    end.
  Definition nohdr (r : rd) : out * rd := (OT "nohdr" [], r).
  Definition run_stream_q (q : list arg) (r : rd) : out * rd :=
    match q with
    | AW wd :: rest =>
      if String.eqb wd "ehdr" then (o_ehdr (es_ehdr es), r)
      else if String.eqb wd "shdrs" then (OL (map o_shdr (es_shdrs es)), r)
      else if String.eqb wd "phdrs" then (OL (map o_phdr (es_phdrs es)), r)
      else if String.eqb wd "shstr" then
        run1 (q_shstrtab es) (fun st => OL [ON (llen (es_shdrs es)); oopt ohex st]) r
      else if String.eqb wd "byname" then
        match args_bufs rest with
        | [nm] => run1 (q_by_name es (bytes_of nm)) (oopt o_shdr) r
        | _ => (OBad, r) end
      else if String.eqb wd "secdata" then
        match s_shdr_arg rest with
        | Some h => run1 (q_section_data es (content w) h) (fun p => OL [ohex (fst p); oopt o_chdr (snd p)]) r
        | None => nohdr r end
      else if String.eqb wd "strtab" then
        match args_nums rest with
        | i :: offs =>
          match s_shdr_arg [AN i] with
          | Some h => run1 (q_typed SHT_STRTAB h) (fun t => o_strtab_c t offs) r
          | None => nohdr r end
        | _ => (OBad, r) end
      else if String.eqb wd "rels" then
        match s_shdr_arg rest with
        | Some h => run1 (q_typed SHT_REL h) (o_tab_c (parse_rel s c) o_rel) r | None => nohdr r end
      else if String.eqb wd "relas" then
        match s_shdr_arg rest with
        | Some h => run1 (q_typed SHT_RELA h) (o_tab_c (parse_rela s c) o_rela) r | None => nohdr r end
      else if String.eqb wd "notes" then
        match s_shdr_arg rest with
        | Some h => run1 (q_notes h) (o_notes_c s c) r | None => nohdr r end
      else if String.eqb wd "segnotes" then
        match s_phdr_arg rest with
        | Some h => run1 (q_seg_notes h) (o_notes_c s c) r | None => nohdr r end
      else if String.eqb wd "dynamic" then run1 (q_dynamic es) (oopt (o_tab_c (parse_dyn s c) o_dyn)) r
      else if String.eqb wd "symtab" then run1 (q_symtab_of_type es SHT_SYMTAB) (oopt (o_symtab_c s c)) r
      else if String.eqb wd "dynsym" then run1 (q_symtab_of_type es SHT_DYNSYM) (oopt (o_symtab_c s c)) r
      else if String.eqb wd "symver" then
        run1 (q_symver es) (oopt (fun p => o_symver_c s c (svt_of p) (args_nums rest))) r
      else (OBad, r)
    | _ => (OBad, r)
    end.
  Fixpoint run_stream_qs (qs : list (list arg)) (r : rd) : list out * rd :=
    match qs with
    | [] => ([], r)
    | q :: t => let (o, r1) := run_stream_q q r in let (os, r2) := run_stream_qs t r1 in (o :: os, r2)
    end.
End StreamRun.

Definition run_stream (fam : specfam) (f : buf) (fl : list N) (qs : list (list arg)) : out :=
  let w := {| content := f; faults := fault_of fl |} in
  match open_stream fam w with
  | (Ok es, r) => let (os, r') := run_stream_qs w es qs r in OT "stream" [OL os; o_trace r']
  | (Err e, r) => OT "stream" [OE e; o_trace r]
  | (Panic, r) => OT "stream" [OPanic; o_trace r]
  end.

(* ---------- the slice parser in content form ---------- *)
Section BytesC.
  Variables (f : buf) (eb : elfbytes).
  Let s := e_spec (eb_ehdr eb).
  Let c := e_class (eb_ehdr eb).
  Definition vw (r : N * N) : buf := view f r.
  Definition run_bytesc_q (q : list arg) : out :=
    match q with
    | AW wd :: rest =>
      if String.eqb wd "ehdr" then o_ehdr (eb_ehdr eb)
      else if String.eqb wd "shdrs" then
        match eb_shdrs eb with Some r => o_tab_c (parse_shdr s c) o_shdr (vw r) | None => OL [] end
      else if String.eqb wd "phdrs" then
        match eb_phdrs eb with Some r => o_tab_c (parse_phdr s c) o_phdr (vw r) | None => OL [] end
      else if String.eqb wd "shstr" then
        ores (fun p => OL [match fst p with Some r => ON (table_len (shdr_size c) (vw r)) | None => ON 0 end;
                           oopt (fun r => ohex (vw r)) (snd p)]) (shdrs_with_strtab f eb)
      else if String.eqb wd "byname" then
        match args_bufs rest with
        | [nm] => ofuel (ores (oopt o_shdr)) (shdr_by_name f eb (bytes_of nm))
        | _ => OBad end
      else if String.eqb wd "secdata" then
        with_shdr f eb rest (fun h => ores (fun p => OL [ohex (vw (fst p)); oopt o_chdr (snd p)]) (section_data f eb h))
      else if String.eqb wd "strtab" then
        match args_nums rest with
        | i :: offs => with_shdr f eb [AN i] (fun h => ores (fun r => o_strtab_c (vw r) offs) (section_data_as_strtab f eb h))
        | _ => OBad end
      else if String.eqb wd "rels" then
        with_shdr f eb rest (fun h => ores (fun r => o_tab_c (parse_rel s c) o_rel (vw r)) (section_data_as_rels f eb h))
      else if String.eqb wd "relas" then
        with_shdr f eb rest (fun h => ores (fun r => o_tab_c (parse_rela s c) o_rela (vw r)) (section_data_as_relas f eb h))
      else if String.eqb wd "notes" then
        with_shdr f eb rest (fun h => ores (fun p => o_notes_c s c (vw (fst p), snd p)) (section_data_as_notes f eb h))
      else if String.eqb wd "segnotes" then
        with_phdr f eb rest (fun h => ores (fun p => o_notes_c s c (vw (fst p), snd p)) (segment_data_as_notes f h))
      else if String.eqb wd "dynamic" then
        ofuel (ores (oopt (fun r => o_tab_c (parse_dyn s c) o_dyn (vw r)))) (dynamic f eb)
      else if String.eqb wd "symtab" then
        ofuel (ores (oopt (fun p => o_symtab_c s c (vw (fst p), vw (snd p))))) (symbol_table f eb)
      else if String.eqb wd "dynsym" then
        ofuel (ores (oopt (fun p => o_symtab_c s c (vw (fst p), vw (snd p))))) (dynamic_symbol_table f eb)
      else if String.eqb wd "symver" then
        ofuel (ores (oopt (fun sr => o_symver_c s c (symvertab_of f sr) (args_nums rest)))) (symbol_version_table f eb)
      else OBad
    | _ => OBad
    end.
End BytesC.
Definition run_bytesc (fam : specfam) (f : buf) (qs : list (list arg)) : out :=
  ores (fun eb => OL (map (run_bytesc_q f eb) qs)) (minimal_parse fam f).

Definition drv_main (c : list (list arg)) : out :=
  match c with
  | [AW op; AW fm; AB d; AW script] :: (AW fw :: fl) :: qs =>
    if String.eqb op "stream" && String.eqb fw "faults" then
      match fam_of fm with Some fam => run_stream fam d (args_nums fl) qs | None => OBad end
    else Dispatch.run c
  | [AW op; AW fm; AB d] :: qs =>
    if String.eqb op "bytesc" then
      match fam_of fm with Some fam => run_bytesc fam d qs | None => OBad end
    else Dispatch.run c
  | _ => Dispatch.run c
  end.
