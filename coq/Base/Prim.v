(* Base definitions of the rust-elf model: outcomes, usize arithmetic, byte buffers,
   endian-aware integer reads (src/endian.rs), the cursor monad.  No proofs here. *)
From Coq Require Export List NArith ZArith Bool.
From Coq.Strings Require Export Byte.
Export ListNotations.
Open Scope N_scope.

(* ---------- outcomes: mirrors parse::ParseError constructor by constructor ---------- *)
Inductive perr :=
| EBadMagic (m0 m1 m2 m3 : N)
| EUnsupportedElfClass (c : N)
| EUnsupportedElfEndianness (c : N)
| EUnsupportedVersion (found expected : N)
| EBadOffset (o : N)
| EStringTableMissingNul (o : N)
| EBadEntsize (found expected : N)
| EUnexpectedSectionType (found expected : N)
| EUnexpectedSegmentType (found expected : N)
| EUnexpectedAlignment (a : N)
| ESliceReadError (s e : N)
| EIntegerOverflow
| EUtf8Error
| ETryFromSliceError
| ETryFromIntError
| EIOError.

(* Panic: the Rust code would panic here (overflow check, index out of bounds, unwrap). *)
Inductive res (A : Type) := Ok (a : A) | Err (e : perr) | Panic.
Arguments Ok {A}. Arguments Err {A}. Arguments Panic {A}.

Definition is_ok {A} (r : res A) : bool := match r with Ok _ => true | _ => false end.
Definition is_panic {A} (r : res A) : bool := match r with Panic => true | _ => false end.

Definition rbind {A B} (r : res A) (f : A -> res B) : res B :=
  match r with Ok a => f a | Err e => Err e | Panic => Panic end.
Definition rmap {A B} (f : A -> B) (r : res A) : res B :=
  match r with Ok a => Ok (f a) | Err e => Err e | Panic => Panic end.
Notation "'let?' x ':=' m 'in' f" := (rbind m (fun x => f))
  (at level 200, x pattern, m at level 100, f at level 200, right associativity).

(* Result::ok() *)
Definition res_ok {A} (r : res A) : option A := match r with Ok a => Some a | _ => None end.
(* Option::ok_or(e) *)
Definition ok_or {A} (o : option A) (e : perr) : res A :=
  match o with Some a => Ok a | None => Err e end.

(* ---------- usize / u64 arithmetic on a 64-bit target ---------- *)
Definition USIZE_MAX : N := 18446744073709551615.
Definition ISIZE_MAX : N := 9223372036854775807.
Definition U32_MAX : N := 4294967295.
Definition checked_add (a b : N) : option N := if a + b <=? USIZE_MAX then Some (a + b) else None.
Definition checked_mul (a b : N) : option N := if a * b <=? USIZE_MAX then Some (a * b) else None.
(* unchecked `a + b` compiled with overflow checks *)
Definition add_or_panic (a b : N) : res N := if a + b <=? USIZE_MAX then Ok (a + b) else Panic.
(* unchecked `a - b` *)
Definition sub_or_panic (a b : N) : res N := if b <=? a then Ok (a - b) else Panic.

(* ---------- byte buffers ---------- *)
Record buf := { blen : N; bat : N -> byte }.
(* Rust guarantees that a slice is at most isize::MAX bytes long *)
Definition buf_ok (d : buf) : Prop := blen d <= ISIZE_MAX.

(* slice.get(s..e): defined iff s <= e <= len.  The accessor is normalised outside the
   range so that two views of the same bytes are pointwise equal functions. *)
Definition sub (b : buf) (s e : N) : option buf :=
  if (s <=? e) && (e <=? blen b)
  then Some {| blen := e - s; bat := fun i => if i <? e - s then bat b (s + i) else x00 |}
  else None.
Definition empty_buf : buf := {| blen := 0; bat := fun _ => x00 |}.
(* ReadBytesExt::get_bytes *)
Definition get_bytes (b : buf) (s e : N) : res buf := ok_or (sub b s e) (ESliceReadError s e).

Definition bN (d : buf) (i : N) : N := Byte.to_N (bat d i).

(* the first n bytes (n as nat: used for small windows and for specifications) *)
Fixpoint bytes_at (d : buf) (off : N) (n : nat) : list byte :=
  match n with O => [] | S n' => bat d off :: bytes_at d (off + 1) n' end.
Definition to_list (d : buf) : list byte := bytes_at d 0 (N.to_nat (blen d)).
Definition llen {A} (l : list A) : N := N.of_nat (length l).
Definition of_list (l : list byte) : buf :=
  {| blen := llen l; bat := fun i => nth (N.to_nat i) l x00 |}.

(* ---------- endian.rs ---------- *)
(* value of the w bytes at o: little endian / big endian *)
Fixpoint le_at (b : buf) (o : N) (w : nat) : N :=
  match w with O => 0 | S w' => Byte.to_N (bat b o) + 256 * le_at b (o + 1) w' end.
Fixpoint be_at (b : buf) (o : N) (w : nat) (acc : N) : N :=
  match w with O => acc | S w' => be_at b (o + 1) w' (acc * 256 + Byte.to_N (bat b o)) end.

(* safe_from!: checked end, slice.get(off..end), cursor moved only on success *)
Definition parse_uint (w : nat) (little : bool) (off : N) (d : buf) : res N * N :=
  match checked_add off (N.of_nat w) with
  | None => (Err EIntegerOverflow, off)
  | Some e =>
    if e <=? blen d
    then (Ok (if little then le_at d off w else be_at d off w 0), e)
    else (Err (ESliceReadError off e), off)
  end.

(* iN::from_xx_bytes: two's complement reading of the same bytes *)
Definition to_signed (w : nat) (u : N) : Z :=
  let m := Z.pow 2 (8 * Z.of_nat w) in
  if Z.ltb (Z.of_N u) (m / 2) then Z.of_N u else (Z.of_N u - m)%Z.
Definition parse_int (w : nat) (little : bool) (off : N) (d : buf) : res Z * N :=
  match parse_uint w little off d with
  | (Ok u, o) => (Ok (to_signed w u), o)
  | (Err e, o) => (Err e, o)
  | (Panic, o) => (Panic, o)
  end.

(* the four EndianParse implementations; NativeEndian is a type alias of LittleEndian on
   the (little-endian) build target *)
Inductive espec := Little | Big | AnyLittle | AnyBig.
Definition is_little (s : espec) : bool :=
  match s with Little | AnyLittle => true | Big | AnyBig => false end.
Inductive specfam := FLittle | FBig | FAny.
Definition from_ei_data (f : specfam) (b : N) : res espec :=
  match f with
  | FLittle => if b =? 1 then Ok Little else Err (EUnsupportedElfEndianness b)
  | FBig => if b =? 2 then Ok Big else Err (EUnsupportedElfEndianness b)
  | FAny => if b =? 1 then Ok AnyLittle else if b =? 2 then Ok AnyBig
            else Err (EUnsupportedElfEndianness b)
  end.

Inductive class := ELF32 | ELF64.

(* ---------- cursor monad: `offset: &mut usize` threaded through `?` ---------- *)
Definition M (A : Type) := N -> res A * N.
Definition ret {A} (a : A) : M A := fun o => (Ok a, o).
Definition fail {A} (e : perr) : M A := fun o => (Err e, o).
Definition bind {A B} (m : M A) (f : A -> M B) : M B :=
  fun o => match m o with
           | (Ok a, o') => f a o'
           | (Err e, o') => (Err e, o')
           | (Panic, o') => (Panic, o')
           end.
Notation "x <- m ;; f" := (bind m (fun x => f))
  (at level 61, m at next level, right associativity).

Definition u8 (s : espec) (d : buf) : M N := fun o => parse_uint 1 (is_little s) o d.
Definition u16 (s : espec) (d : buf) : M N := fun o => parse_uint 2 (is_little s) o d.
Definition u32 (s : espec) (d : buf) : M N := fun o => parse_uint 4 (is_little s) o d.
Definition u64 (s : espec) (d : buf) : M N := fun o => parse_uint 8 (is_little s) o d.
Definition i32 (s : espec) (d : buf) : M Z := fun o => parse_int 4 (is_little s) o d.
Definition i64 (s : espec) (d : buf) : M Z := fun o => parse_int 8 (is_little s) o d.
