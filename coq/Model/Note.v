(* note.rs: Note::parse_at, NoteIterator, NoteAny::name_str.  Ranges are relative to the
   note section/segment buffer [d]. *)
Require Import V.Base.Prim V.Model.Structs V.Model.Utf8 V.Model.StrTab.

Inductive note :=
| NAbiTag (a : abitag)
| NBuildId (desc : N * N)
| NAny (ty : N) (name : N * N) (desc : N * N).

(* if *offset % align > 0 { *offset = offset.checked_add(align - *offset % align)? } *)
Definition pad_to (off align : N) : res N :=
  if 0 <? off mod align then ok_or (checked_add off (align - off mod align)) EIntegerOverflow
  else Ok off.

Definition is_gnu_name (d : buf) (r : N * N) : bool :=
  (snd r - fst r =? 4) && (bN d (fst r) =? 71) && (bN d (fst r + 1) =? 78)
  && (bN d (fst r + 2) =? 85) && (bN d (fst r + 3) =? 0).

Definition note_parse (s : espec) (c : class) (align : N) (d : buf) : M note := fun off =>
  if align =? 0 then (Err (EUnexpectedAlignment align), off) else
  match parse_nhdr s ELF32 d off with
  | (Err e, o) => (Err e, o)
  | (Panic, o) => (Panic, o)
  | (Ok nh, o1) =>
    match checked_add o1 (n_namesz nh) with
    | None => (Err EIntegerOverflow, o1)
    | Some ne =>
      match sub d o1 ne with
      | None => (Err (ESliceReadError o1 ne), o1)
      | Some _ =>
        match pad_to ne align with
        | Err e => (Err e, ne) | Panic => (Panic, ne)
        | Ok ds =>
          match checked_add ds (n_descsz nh) with
          | None => (Err EIntegerOverflow, ds)
          | Some de =>
            match sub d ds de with
            | None => (Err (ESliceReadError ds de), ds)
            | Some desc =>
              match pad_to de align with
              | Err e => (Err e, de) | Panic => (Panic, de)
              | Ok nx =>
                if is_gnu_name d (o1, ne) then
                  if n_type nh =? 1 then
                    match fst (parse_abitag s c desc 0) with
                    | Ok a => (Ok (NAbiTag a), nx)
                    | Err e => (Err e, nx)
                    | Panic => (Panic, nx)
                    end
                  else if n_type nh =? 3 then (Ok (NBuildId (ds, de)), nx)
                  else (Ok (NAny (n_type nh) (o1, ne) (ds, de)), nx)
                else (Ok (NAny (n_type nh) (o1, ne) (ds, de)), nx)
              end
            end
          end
        end
      end
    end
  end.

(* NoteIterator::next: state = cursor; a failed record leaves the cursor where the failing
   step left it (the iterator is not fused) *)
Definition note_next (s : espec) (c : class) (align : N) (d : buf) (off : N) : res (option note) * N :=
  if blen d =? 0 then (Ok None, off) else
  match note_parse s c align d off with
  | (Ok n, o) => (Ok (Some n), o)
  | (Err _, o) => (Ok None, o)
  | (Panic, o) => (Panic, o)
  end.

(* for-loop semantics: items until the first None; None = out of fuel *)
Fixpoint notes_collect (fuel : nat) (s : espec) (c : class) (align : N) (d : buf) (off : N)
  : option (res (list note)) :=
  match fuel with
  | O => None
  | S f =>
    match note_next s c align d off with
    | (Ok (Some n), o) =>
      match notes_collect f s c align d o with
      | Some (Ok l) => Some (Ok (n :: l))
      | r => r
      end
    | (Ok None, _) => Some (Ok [])
    | (Err e, _) => Some (Err e)
    | (Panic, _) => Some Panic
    end
  end.
Definition notes_all (s : espec) (c : class) (align : N) (d : buf) : option (res (list note)) :=
  notes_collect (S (N.to_nat (blen d))) s c align d 0.

Fixpoint notes_nexts (k : nat) (s : espec) (c : class) (align : N) (d : buf) (off : N)
  : list (res (option note)) :=
  match k with
  | O => []
  | S k' => let (r, o) := note_next s c align d off in r :: notes_nexts k' s c align d o
  end.

(* NoteAny::name_str: from_utf8(name)?.trim_end_matches('\0') as a sub-range of the name *)
Fixpoint count_trailing_nul (l : list N) : N :=
  match l with
  | [] => 0
  | a :: t => let k := count_trailing_nul t in
              if (k =? llen t) && (a =? 0) then k + 1 else k
  end.
Definition name_str (d : buf) (r : N * N) : res (N * N) :=
  let bs := range_bytes d r in
  if utf8_valid bs then Ok (fst r, snd r - count_trailing_nul bs) else Err EUtf8Error.
