(* The ParseAt implementations of rust-elf, transcribed field read by field read:
   section.rs segment.rs symbol.rs relocation.rs dynamic.rs compression.rs note.rs hash.rs
   gnu_symver.rs file.rs (parse_tail).  No proofs here. *)
Require Import V.Base.Prim.

Record shdr := { sh_name : N; sh_type : N; sh_flags : N; sh_addr : N; sh_offset : N;
                 sh_size : N; sh_link : N; sh_info : N; sh_addralign : N; sh_entsize : N }.
Definition parse_shdr (s : espec) (c : class) (d : buf) : M shdr :=
  match c with
  | ELF32 =>
    a <- u32 s d ;; b <- u32 s d ;; c0 <- u32 s d ;; d0 <- u32 s d ;; e <- u32 s d ;;
    f <- u32 s d ;; g <- u32 s d ;; h <- u32 s d ;; i <- u32 s d ;; j <- u32 s d ;;
    ret {| sh_name := a; sh_type := b; sh_flags := c0; sh_addr := d0; sh_offset := e;
           sh_size := f; sh_link := g; sh_info := h; sh_addralign := i; sh_entsize := j |}
  | ELF64 =>
    a <- u32 s d ;; b <- u32 s d ;; c0 <- u64 s d ;; d0 <- u64 s d ;; e <- u64 s d ;;
    f <- u64 s d ;; g <- u32 s d ;; h <- u32 s d ;; i <- u64 s d ;; j <- u64 s d ;;
    ret {| sh_name := a; sh_type := b; sh_flags := c0; sh_addr := d0; sh_offset := e;
           sh_size := f; sh_link := g; sh_info := h; sh_addralign := i; sh_entsize := j |}
  end.
Definition shdr_size (c : class) : N := match c with ELF32 => 40 | ELF64 => 64 end.

Record phdr := { p_type : N; p_offset : N; p_vaddr : N; p_paddr : N; p_filesz : N;
                 p_memsz : N; p_flags : N; p_align : N }.
Definition parse_phdr (s : espec) (c : class) (d : buf) : M phdr :=
  match c with
  | ELF32 =>
    t <- u32 s d ;; o <- u32 s d ;; va <- u32 s d ;; pa <- u32 s d ;; fs <- u32 s d ;;
    ms <- u32 s d ;; fl <- u32 s d ;; al <- u32 s d ;;
    ret {| p_type := t; p_offset := o; p_vaddr := va; p_paddr := pa; p_filesz := fs;
           p_memsz := ms; p_flags := fl; p_align := al |}
  | ELF64 =>
    t <- u32 s d ;; fl <- u32 s d ;; o <- u64 s d ;; va <- u64 s d ;; pa <- u64 s d ;;
    fs <- u64 s d ;; ms <- u64 s d ;; al <- u64 s d ;;
    ret {| p_type := t; p_offset := o; p_vaddr := va; p_paddr := pa; p_filesz := fs;
           p_memsz := ms; p_flags := fl; p_align := al |}
  end.
Definition phdr_size (c : class) : N := match c with ELF32 => 32 | ELF64 => 56 end.

Record sym := { st_name : N; st_shndx : N; st_info : N; st_other : N; st_value : N; st_size : N }.
Definition parse_sym (s : espec) (c : class) (d : buf) : M sym :=
  match c with
  | ELF32 =>
    n <- u32 s d ;; v <- u32 s d ;; sz <- u32 s d ;; i <- u8 s d ;; o <- u8 s d ;; x <- u16 s d ;;
    ret {| st_name := n; st_shndx := x; st_info := i; st_other := o; st_value := v; st_size := sz |}
  | ELF64 =>
    n <- u32 s d ;; i <- u8 s d ;; o <- u8 s d ;; x <- u16 s d ;; v <- u64 s d ;; sz <- u64 s d ;;
    ret {| st_name := n; st_shndx := x; st_info := i; st_other := o; st_value := v; st_size := sz |}
  end.
Definition sym_size (c : class) : N := match c with ELF32 => 16 | ELF64 => 24 end.
(* Symbol accessors, with the code's shifts and masks *)
Definition st_is_undefined (y : sym) : bool := st_shndx y =? 0.
Definition st_symtype (y : sym) : N := N.land (st_info y) 15.
Definition st_bind (y : sym) : N := N.shiftr (st_info y) 4.
Definition st_vis (y : sym) : N := N.land (st_other y) 3.

Record rel := { r_offset : N; r_sym : N; r_type : N }.
Definition parse_rel (s : espec) (c : class) (d : buf) : M rel :=
  match c with
  | ELF32 =>
    o <- u32 s d ;; i <- u32 s d ;;
    ret {| r_offset := o; r_sym := N.shiftr i 8; r_type := N.land i 255 |}
  | ELF64 =>
    o <- u64 s d ;; i <- u64 s d ;;
    ret {| r_offset := o; r_sym := N.shiftr i 32 mod 4294967296;
           r_type := N.land i 4294967295 mod 4294967296 |}
  end.
Definition rel_size (c : class) : N := match c with ELF32 => 8 | ELF64 => 16 end.

Record rela := { ra_offset : N; ra_sym : N; ra_type : N; ra_addend : Z }.
Definition parse_rela (s : espec) (c : class) (d : buf) : M rela :=
  match c with
  | ELF32 =>
    o <- u32 s d ;; i <- u32 s d ;; a <- i32 s d ;;
    ret {| ra_offset := o; ra_sym := N.shiftr i 8; ra_type := N.land i 255; ra_addend := a |}
  | ELF64 =>
    o <- u64 s d ;; i <- u64 s d ;; a <- i64 s d ;;
    ret {| ra_offset := o; ra_sym := N.shiftr i 32 mod 4294967296;
           ra_type := N.land i 4294967295 mod 4294967296; ra_addend := a |}
  end.
Definition rela_size (c : class) : N := match c with ELF32 => 12 | ELF64 => 24 end.

Record dyn := { d_tag : Z; d_un : N }.
Definition parse_dyn (s : espec) (c : class) (d : buf) : M dyn :=
  match c with
  | ELF32 => t <- i32 s d ;; u <- u32 s d ;; ret {| d_tag := t; d_un := u |}
  | ELF64 => t <- i64 s d ;; u <- u64 s d ;; ret {| d_tag := t; d_un := u |}
  end.
Definition dyn_size (c : class) : N := match c with ELF32 => 8 | ELF64 => 16 end.
Definition d_val (x : dyn) : N := d_un x.
Definition d_ptr (x : dyn) : N := d_un x.

Record chdr := { ch_type : N; ch_size : N; ch_addralign : N }.
Definition parse_chdr (s : espec) (c : class) (d : buf) : M chdr :=
  match c with
  | ELF32 => t <- u32 s d ;; z <- u32 s d ;; a <- u32 s d ;;
             ret {| ch_type := t; ch_size := z; ch_addralign := a |}
  | ELF64 => t <- u32 s d ;; _ <- u32 s d ;; z <- u64 s d ;; a <- u64 s d ;;
             ret {| ch_type := t; ch_size := z; ch_addralign := a |}
  end.
Definition chdr_size (c : class) : N := match c with ELF32 => 12 | ELF64 => 24 end.

Record nhdr := { n_namesz : N; n_descsz : N; n_type : N }.
Definition parse_nhdr (s : espec) (c : class) (d : buf) : M nhdr :=
  match c with
  | ELF32 => a <- u32 s d ;; b <- u32 s d ;; t <- u32 s d ;;
             ret {| n_namesz := a; n_descsz := b; n_type := t |}
  | ELF64 => a <- u64 s d ;; b <- u64 s d ;; t <- u64 s d ;;
             ret {| n_namesz := a; n_descsz := b; n_type := t |}
  end.
Definition nhdr_size (c : class) : N := match c with ELF32 => 12 | ELF64 => 24 end.

Record abitag := { at_os : N; at_major : N; at_minor : N; at_subminor : N }.
Definition parse_abitag (s : espec) (c : class) (d : buf) : M abitag :=
  a <- u32 s d ;; b <- u32 s d ;; c0 <- u32 s d ;; e <- u32 s d ;;
  ret {| at_os := a; at_major := b; at_minor := c0; at_subminor := e |}.
Definition abitag_size (c : class) : N := 16.

Record sysvhdr := { sv_nbucket : N; sv_nchain : N }.
Definition parse_sysvhdr (s : espec) (c : class) (d : buf) : M sysvhdr :=
  a <- u32 s d ;; b <- u32 s d ;; ret {| sv_nbucket := a; sv_nchain := b |}.
Definition sysvhdr_size (c : class) : N := 8.

Record gnuhdr := { gh_nbucket : N; gh_symoffset : N; gh_nbloom : N; gh_nshift : N }.
Definition parse_gnuhdr (s : espec) (c : class) (d : buf) : M gnuhdr :=
  a <- u32 s d ;; b <- u32 s d ;; c0 <- u32 s d ;; e <- u32 s d ;;
  ret {| gh_nbucket := a; gh_symoffset := b; gh_nbloom := c0; gh_nshift := e |}.
Definition gnuhdr_size (c : class) : N := 16.

Definition parse_u32 (s : espec) (c : class) (d : buf) : M N := u32 s d.
Definition parse_u64 (s : espec) (c : class) (d : buf) : M N := u64 s d.
Definition u32_size (c : class) : N := 4.
Definition u64_size (c : class) : N := 8.

(* gnu_symver.rs *)
Definition parse_versym (s : espec) (c : class) (d : buf) : M N := u16 s d.
Definition versym_size (c : class) : N := 2.
Definition vx_index (v : N) : N := N.land v 32767.
Definition vx_is_hidden (v : N) : bool := negb (N.land v 32768 =? 0).
Definition vx_is_local (v : N) : bool := vx_index v =? 0.
Definition vx_is_global (v : N) : bool := vx_index v =? 1.

Record verdef := { vd_flags : N; vd_ndx : N; vd_cnt : N; vd_hash : N; vd_aux : N; vd_next : N }.
Definition parse_verdef (s : espec) (c : class) (d : buf) : M verdef :=
  v <- u16 s d ;;
  if negb (v =? 1) then fail (EUnsupportedVersion v 1) else
  f <- u16 s d ;; n <- u16 s d ;; k <- u16 s d ;; h <- u32 s d ;; a <- u32 s d ;; x <- u32 s d ;;
  ret {| vd_flags := f; vd_ndx := n; vd_cnt := k; vd_hash := h; vd_aux := a; vd_next := x |}.
Definition verdef_size (c : class) : N := 20.

Record verdaux := { vda_name : N; vda_next : N }.
Definition parse_verdaux (s : espec) (c : class) (d : buf) : M verdaux :=
  n <- u32 s d ;; x <- u32 s d ;; ret {| vda_name := n; vda_next := x |}.
Definition verdaux_size (c : class) : N := 8.

Record verneed := { vn_cnt : N; vn_file : N; vn_aux : N; vn_next : N }.
Definition parse_verneed (s : espec) (c : class) (d : buf) : M verneed :=
  v <- u16 s d ;;
  if negb (v =? 1) then fail (EUnsupportedVersion v 1) else
  k <- u16 s d ;; f <- u32 s d ;; a <- u32 s d ;; x <- u32 s d ;;
  ret {| vn_cnt := k; vn_file := f; vn_aux := a; vn_next := x |}.
Definition verneed_size (c : class) : N := 16.

Record vernaux := { vna_hash : N; vna_flags : N; vna_other : N; vna_name : N; vna_next : N }.
Definition parse_vernaux (s : espec) (c : class) (d : buf) : M vernaux :=
  h <- u32 s d ;; f <- u16 s d ;; o <- u16 s d ;; n <- u32 s d ;; x <- u32 s d ;;
  ret {| vna_hash := h; vna_flags := f; vna_other := o; vna_name := n; vna_next := x |}.
Definition vernaux_size (c : class) : N := 16.

(* file.rs: FileHeader::parse_tail (the ident part is in Model/File.v) *)
Record ehdr := { e_class : class; e_spec : espec; e_version : N; e_osabi : N; e_abiversion : N;
                 e_type : N; e_machine : N; e_entry : N; e_phoff : N; e_shoff : N; e_flags : N;
                 e_ehsize : N; e_phentsize : N; e_phnum : N; e_shentsize : N; e_shnum : N;
                 e_shstrndx : N }.
Definition parse_tail (s : espec) (c : class) (osabi abiver : N) (d : buf) : M ehdr :=
  ty <- u16 s d ;; ma <- u16 s d ;; ve <- u32 s d ;;
  match c with
  | ELF32 =>
    en <- u32 s d ;; po <- u32 s d ;; so <- u32 s d ;;
    fl <- u32 s d ;; eh <- u16 s d ;; pe <- u16 s d ;; pn <- u16 s d ;; se <- u16 s d ;;
    sn <- u16 s d ;; sx <- u16 s d ;;
    ret {| e_class := c; e_spec := s; e_version := ve; e_osabi := osabi; e_abiversion := abiver;
           e_type := ty; e_machine := ma; e_entry := en; e_phoff := po; e_shoff := so;
           e_flags := fl; e_ehsize := eh; e_phentsize := pe; e_phnum := pn; e_shentsize := se;
           e_shnum := sn; e_shstrndx := sx |}
  | ELF64 =>
    en <- u64 s d ;; po <- u64 s d ;; so <- u64 s d ;;
    fl <- u32 s d ;; eh <- u16 s d ;; pe <- u16 s d ;; pn <- u16 s d ;; se <- u16 s d ;;
    sn <- u16 s d ;; sx <- u16 s d ;;
    ret {| e_class := c; e_spec := s; e_version := ve; e_osabi := osabi; e_abiversion := abiver;
           e_type := ty; e_machine := ma; e_entry := en; e_phoff := po; e_shoff := so;
           e_flags := fl; e_ehsize := eh; e_phentsize := pe; e_phnum := pn; e_shentsize := se;
           e_shnum := sn; e_shstrndx := sx |}
  end.
Definition tail_size (c : class) : N := match c with ELF32 => 36 | ELF64 => 48 end.

(* ParseAt::validate_entsize *)
Definition validate_entsize (expected entsize : N) : res N :=
  if entsize =? expected then Ok entsize else Err (EBadEntsize entsize expected).
