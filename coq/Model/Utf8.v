(* Environment model of core::str::from_utf8: the well-formed byte sequences of the
   Unicode standard, Table 3-7.  Bytes are numbers < 256. *)
Require Import V.Base.Prim.

Definition inr (lo hi x : N) : bool := (lo <=? x) && (x <=? hi).
Definition cont (x : N) : bool := inr 128 191 x.

Fixpoint utf8_valid (l : list N) : bool :=
  match l with
  | [] => true
  | a :: t =>
    if a <=? 127 then utf8_valid t
    else if inr 194 223 a then
      match t with b :: t2 => cont b && utf8_valid t2 | _ => false end
    else if a =? 224 then
      match t with b :: c :: t3 => inr 160 191 b && cont c && utf8_valid t3 | _ => false end
    else if inr 225 236 a || inr 238 239 a then
      match t with b :: c :: t3 => cont b && cont c && utf8_valid t3 | _ => false end
    else if a =? 237 then
      match t with b :: c :: t3 => inr 128 159 b && cont c && utf8_valid t3 | _ => false end
    else if a =? 240 then
      match t with b :: c :: e :: t4 => inr 144 191 b && cont c && cont e && utf8_valid t4
                 | _ => false end
    else if inr 241 243 a then
      match t with b :: c :: e :: t4 => cont b && cont c && cont e && utf8_valid t4
                 | _ => false end
    else if a =? 244 then
      match t with b :: c :: e :: t4 => inr 128 143 b && cont c && cont e && utf8_valid t4
                 | _ => false end
    else false
  end.

(* str::trim_end_matches('\0') on valid UTF-8: drop trailing NUL bytes *)
Fixpoint trim_end_nul (l : list N) : list N :=
  match l with
  | [] => []
  | a :: t => match trim_end_nul t with
              | [] => if a =? 0 then [] else [a]
              | t' => a :: t'
              end
  end.
