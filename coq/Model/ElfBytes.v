(* elf_bytes.rs: ElfBytes::minimal_parse and every accessor.  Every byte slice handed out is
   represented by its absolute range (start, end) in the file buffer [f]. *)
Require Import V.Base.Prim V.Model.Structs V.Model.Table V.Model.StrTab V.Model.Utf8.
Require Import V.Model.File V.Model.Hash V.Model.Note V.Model.SymVer.

Definition SHT_SYMTAB := 2. Definition SHT_STRTAB := 3. Definition SHT_RELA := 4.
Definition SHT_HASH := 5. Definition SHT_DYNAMIC := 6. Definition SHT_NOTE := 7.
Definition SHT_NOBITS := 8. Definition SHT_REL := 9. Definition SHT_DYNSYM := 11.
Definition SHT_GNU_HASH := 1879048182. Definition SHT_GNU_VERDEF := 1879048189.
Definition SHT_GNU_VERNEED := 1879048190. Definition SHT_GNU_VERSYM := 1879048191.
Definition SHF_COMPRESSED := 2048.
Definition PT_DYNAMIC := 2. Definition PT_NOTE := 4.
Definition PN_XNUM := 65535. Definition SHN_XINDEX := 65535.

Record elfbytes := { eb_ehdr : ehdr; eb_shdrs : option (N * N); eb_phdrs : option (N * N) }.

Definition hspec (eh : ehdr) := e_spec eh.
Definition hclass (eh : ehdr) := e_class eh.

(* SectionHeader::get_data_range / ProgramHeader::get_file_data_range *)
Definition data_range (start size : N) : res (N * N) :=
  let? en := ok_or (checked_add start size) EIntegerOverflow in Ok (start, en).
Definition sh_range (h : shdr) := data_range (sh_offset h) (sh_size h).
Definition ph_range (h : phdr) := data_range (p_offset h) (p_filesz h).
(* get_data_range followed by data.get_bytes(start..end) *)
Definition range_in (f : buf) (r : res (N * N)) : res (N * N) :=
  let? (a, b) := r in let? _ := get_bytes f a b in Ok (a, b).

Definition find_shdrs (eh : ehdr) (f : buf) : res (option (N * N)) :=
  if e_shoff eh =? 0 then Ok None else
  let shoff := e_shoff eh in
  let? shnum := if e_shnum eh =? 0
                then (let? sh0 := fst (parse_shdr (hspec eh) (hclass eh) f shoff) in Ok (sh_size sh0))
                else Ok (e_shnum eh) in
  let? entsize := validate_entsize (shdr_size (hclass eh)) (e_shentsize eh) in
  let? size := ok_or (checked_mul entsize shnum) EIntegerOverflow in
  let? en := ok_or (checked_add shoff size) EIntegerOverflow in
  let? _ := get_bytes f shoff en in
  Ok (Some (shoff, en)).

Definition find_phdrs (eh : ehdr) (f : buf) : res (option (N * N)) :=
  if e_phoff eh =? 0 then Ok None else
  let? phnum := if e_phnum eh =? PN_XNUM
                then (let? sh0 := fst (parse_shdr (hspec eh) (hclass eh) f (e_shoff eh)) in
                      Ok (sh_info sh0))
                else Ok (e_phnum eh) in
  let? entsize := validate_entsize (phdr_size (hclass eh)) (e_phentsize eh) in
  let phoff := e_phoff eh in
  let? size := ok_or (checked_mul entsize phnum) EIntegerOverflow in
  let? en := ok_or (checked_add phoff size) EIntegerOverflow in
  let? _ := get_bytes f phoff en in
  Ok (Some (phoff, en)).

(* everything after the ident has been accepted *)
Definition open_after_ident (s : espec) (c : class) (osabi abiver : N) (f : buf) : res elfbytes :=
  let tail_end := 16 + tail_size c in
  let? tail_buf := get_bytes f 16 tail_end in
  let? eh := fst (parse_tail s c osabi abiver tail_buf 0) in
  let? sh := find_shdrs eh f in
  let? ph := find_phdrs eh f in
  Ok {| eb_ehdr := eh; eb_shdrs := sh; eb_phdrs := ph |}.

Definition minimal_parse (fam : specfam) (f : buf) : res elfbytes :=
  let? ident_buf := get_bytes f 0 16 in
  let? id := parse_ident fam ident_buf in
  match id with (s, c, osabi, abiver) => open_after_ident s c osabi abiver f end.

Section Queries.
  Variables (f : buf) (eb : elfbytes).
  Let eh := eb_ehdr eb.
  Let s := e_spec eh.
  Let c := e_class eh.
  Definition shdr_get (r : N * N) (i : N) : res shdr := table_get (parse_shdr s c) (shdr_size c) (view f r) i.
  Definition phdr_get (r : N * N) (i : N) : res phdr := table_get (parse_phdr s c) (phdr_size c) (view f r) i.
  Definition shdr_list (r : N * N) : option (list shdr) := iter_all (parse_shdr s c) (view f r).
  Definition phdr_list (r : N * N) : option (list phdr) := iter_all (parse_phdr s c) (view f r).

  (* section_headers_with_strtab: (table, string table range) *)
  Definition shdrs_with_strtab : res (option (N * N) * option (N * N)) :=
    match eb_shdrs eb with
    | None => Ok (None, None)
    | Some r =>
      if e_shstrndx eh =? 0 then Ok (Some r, None) else
      let? ndx := if e_shstrndx eh =? SHN_XINDEX
                  then (let? sh0 := shdr_get r 0 in Ok (sh_link sh0)) else Ok (e_shstrndx eh) in
      let? st := shdr_get r ndx in
      let? sr := range_in f (sh_range st) in
      Ok (Some r, Some sr)
    end.

  (* shdrs.iter().find(|shdr| strtab.get(sh_name) == Ok(name)) *)
  Definition shdr_by_name (name : list N) : option (res (option shdr)) :=
    match shdrs_with_strtab with
    | Err e => Some (Err e) | Panic => Some Panic
    | Ok (Some r, Some sr) =>
      match shdr_list r with
      | None => None
      | Some l =>
        let st := view f sr in
        Some (Ok (find_first (fun h => match strtab_get st (sh_name h) with
                                       | Ok nr => list_eqb (range_bytes st nr) name
                                       | _ => false end) l))
      end
    | Ok _ => Some (Ok None)
    end.

  (* section_data: range of the (possibly compressed) payload and the compression header *)
  Definition section_data (h : shdr) : res ((N * N) * option chdr) :=
    if sh_type h =? SHT_NOBITS then Ok ((0, 0), None) else
    let? (a, b) := range_in f (sh_range h) in
    if N.land (sh_flags h) SHF_COMPRESSED =? 0 then Ok ((a, b), None) else
    match parse_chdr s c (view f (a, b)) 0 with
    | (Err e, _) => Err e
    | (Panic, _) => Panic
    | (Ok ch, off) =>
      (* buf.get(offset..) *)
      if b - a <? off then Err (ESliceReadError off (sh_size h)) else Ok ((a + off, b), Some ch)
    end.

  Definition section_data_typed (ty : N) (h : shdr) : res (N * N) :=
    if negb (sh_type h =? ty) then Err (EUnexpectedSectionType (sh_type h) ty) else
    let? (r, _) := section_data h in Ok r.
  Definition section_data_as_strtab := section_data_typed SHT_STRTAB.
  Definition section_data_as_rels := section_data_typed SHT_REL.
  Definition section_data_as_relas := section_data_typed SHT_RELA.
  (* (range, alignment) *)
  Definition section_data_as_notes (h : shdr) : res ((N * N) * N) :=
    let? r := section_data_typed SHT_NOTE h in Ok (r, sh_addralign h).
  Definition section_data_as_dynamic (h : shdr) : res (N * N) :=
    if negb (sh_type h =? SHT_DYNAMIC) then Err (EUnexpectedSectionType (sh_type h) SHT_DYNAMIC) else
    let? _ := validate_entsize (dyn_size c) (sh_entsize h) in
    let? (r, _) := section_data h in Ok r.

  Definition segment_data (h : phdr) : res (N * N) := range_in f (ph_range h).
  Definition segment_data_as_notes (h : phdr) : res ((N * N) * N) :=
    if negb (p_type h =? PT_NOTE) then Err (EUnexpectedSegmentType (p_type h) PT_NOTE) else
    let? r := segment_data h in Ok (r, p_align h).

  Definition dynamic : option (res (option (N * N))) :=
    match eb_shdrs eb with
    | Some r =>
      match shdr_list r with
      | None => None
      | Some l =>
        match find_first (fun h => sh_type h =? SHT_DYNAMIC) l with
        | Some h => Some (let? d := section_data_as_dynamic h in Ok (Some d))
        | None => Some (Ok None)
        end
      end
    | None =>
      match eb_phdrs eb with
      | Some r =>
        match phdr_list r with
        | None => None
        | Some l =>
          match find_first (fun h => p_type h =? PT_DYNAMIC) l with
          | Some h => Some (let? d := range_in f (ph_range h) in Ok (Some d))
          | None => Some (Ok None)
          end
        end
      | None => Some (Ok None)
      end
    end.

  (* section_data_as_symbol_table: (symtab range, strtab range) *)
  Definition symtab_of (h strh : shdr) : res ((N * N) * (N * N)) :=
    let? _ := validate_entsize (sym_size c) (sh_entsize h) in
    let? sr := range_in f (sh_range h) in
    let? tr := range_in f (sh_range strh) in
    Ok (sr, tr).
  Definition symbol_table_of_type (ty : N) : option (res (option ((N * N) * (N * N)))) :=
    match eb_shdrs eb with
    | None => Some (Ok None)
    | Some r =>
      match shdr_list r with
      | None => None
      | Some l =>
        match find_first (fun h => sh_type h =? ty) l with
        | None => Some (Ok None)
        | Some h => Some (let? strh := shdr_get r (sh_link h) in
                          let? p := symtab_of h strh in Ok (Some p))
        end
      end
    end.
  Definition symbol_table := symbol_table_of_type SHT_SYMTAB.
  Definition dynamic_symbol_table := symbol_table_of_type SHT_DYNSYM.

  (* find_common_data *)
  Record common := { cm_symtab : option ((N * N) * (N * N)); cm_dynsyms : option ((N * N) * (N * N));
                     cm_dynamic : option (N * N); cm_sysv : option ((N * N) * sysvtab);
                     cm_gnu : option ((N * N) * gnutab) }.
  Definition common_empty : common :=
    {| cm_symtab := None; cm_dynsyms := None; cm_dynamic := None; cm_sysv := None; cm_gnu := None |}.
  Fixpoint common_scan (r : N * N) (l : list shdr) (acc : common) : res common :=
    match l with
    | [] => Ok acc
    | h :: t =>
      let ty := sh_type h in
      let? acc' :=
        if ty =? SHT_SYMTAB then
          let? strh := shdr_get r (sh_link h) in let? p := symtab_of h strh in
          Ok {| cm_symtab := Some p; cm_dynsyms := cm_dynsyms acc; cm_dynamic := cm_dynamic acc;
                cm_sysv := cm_sysv acc; cm_gnu := cm_gnu acc |}
        else if ty =? SHT_DYNSYM then
          let? strh := shdr_get r (sh_link h) in let? p := symtab_of h strh in
          Ok {| cm_symtab := cm_symtab acc; cm_dynsyms := Some p; cm_dynamic := cm_dynamic acc;
                cm_sysv := cm_sysv acc; cm_gnu := cm_gnu acc |}
        else if ty =? SHT_DYNAMIC then
          let? d := section_data_as_dynamic h in
          Ok {| cm_symtab := cm_symtab acc; cm_dynsyms := cm_dynsyms acc; cm_dynamic := Some d;
                cm_sysv := cm_sysv acc; cm_gnu := cm_gnu acc |}
        else if ty =? SHT_HASH then
          let? hr := range_in f (sh_range h) in
          let? t := sysv_new s c (view f hr) in
          Ok {| cm_symtab := cm_symtab acc; cm_dynsyms := cm_dynsyms acc; cm_dynamic := cm_dynamic acc;
                cm_sysv := Some (hr, t); cm_gnu := cm_gnu acc |}
        else if ty =? SHT_GNU_HASH then
          let? hr := range_in f (sh_range h) in
          let? t := gnu_new s c (view f hr) in
          Ok {| cm_symtab := cm_symtab acc; cm_dynsyms := cm_dynsyms acc; cm_dynamic := cm_dynamic acc;
                cm_sysv := cm_sysv acc; cm_gnu := Some (hr, t) |}
        else Ok acc in
      common_scan r t acc'
    end.
  Definition find_common_data : option (res common) :=
    let scanned :=
      match eb_shdrs eb with
      | Some r => match shdr_list r with
                  | None => None
                  | Some l => Some (common_scan r l common_empty)
                  end
      | None => Some (Ok common_empty)
      end in
    match scanned with
    | None => None
    | Some (Err e) => Some (Err e)
    | Some Panic => Some Panic
    | Some (Ok cm) =>
      match cm_dynamic cm, eb_phdrs eb with
      | None, Some pr =>
        match phdr_list pr with
        | None => None
        | Some pl =>
          match find_first (fun h => p_type h =? PT_DYNAMIC) pl with
          | Some h => Some (let? d := range_in f (ph_range h) in
                            Ok {| cm_symtab := cm_symtab cm; cm_dynsyms := cm_dynsyms cm;
                                  cm_dynamic := Some d; cm_sysv := cm_sysv cm; cm_gnu := cm_gnu cm |})
          | None => Some (Ok cm)
          end
        end
      | _, _ => Some (Ok cm)
      end
    end.

  (* symbol_version_table: the loop keeps the LAST section of each kind unless all three have
     been seen, in which case it stops *)
  Fixpoint symver_scan (l : list shdr) (vs nd df : option shdr) : option shdr * option shdr * option shdr :=
    match l with
    | [] => (vs, nd, df)
    | h :: t =>
      let '(vs', nd', df') :=
        if sh_type h =? SHT_GNU_VERSYM then (Some h, nd, df)
        else if sh_type h =? SHT_GNU_VERNEED then (vs, Some h, df)
        else if sh_type h =? SHT_GNU_VERDEF then (vs, nd, Some h)
        else (vs, nd, df) in
      match vs', nd', df' with
      | Some _, Some _, Some _ => (vs', nd', df')
      | _, _, _ => symver_scan t vs' nd' df'
      end
    end.
  (* ranges: versym, (count, data, strings) for needs and defs *)
  Record symver_ranges := { sr_versym : N * N; sr_needs : option (N * (N * N) * (N * N));
                            sr_defs : option (N * (N * N) * (N * N)) }.
  Definition linked (r : N * N) (h : shdr) : res (N * (N * N) * (N * N)) :=
    let? dr := range_in f (sh_range h) in
    let? strh := shdr_get r (sh_link h) in
    let? tr := range_in f (sh_range strh) in
    Ok (sh_info h, dr, tr).
  Definition symbol_version_table : option (res (option symver_ranges)) :=
    match eb_shdrs eb with
    | None => Some (Ok None)
    | Some r =>
      match shdr_list r with
      | None => None
      | Some l =>
        match symver_scan l None None None with
        | (None, _, _) => Some (Ok None)
        | (Some vsh, nd, df) =>
          Some (let? _ := validate_entsize 2 (sh_entsize vsh) in
                let? vr := range_in f (sh_range vsh) in
                let? needs := match nd with Some h => let? x := linked r h in Ok (Some x) | None => Ok None end in
                let? defs := match df with Some h => let? x := linked r h in Ok (Some x) | None => Ok None end in
                Ok (Some {| sr_versym := vr; sr_needs := needs; sr_defs := defs |}))
        end
      end
    end.
End Queries.
