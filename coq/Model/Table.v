(* parse.rs: ParsingTable and ParsingIterator, generic in the entry parser. *)
Require Import V.Base.Prim.

Section Table.
  Context {T : Type}.
  Variable parse : buf -> M T.   (* P::parse_at(endian, class, _, data) *)
  Variable size : N.             (* P::size_for(class) *)

  Definition table_len (d : buf) : N := blen d / size.
  Definition table_is_empty (d : buf) : bool := table_len d =? 0.
  Definition table_get (d : buf) (i : N) : res T :=
    if blen d =? 0 then Err (EBadOffset i) else
    match checked_mul i size with
    | None => Err EIntegerOverflow
    | Some start => if blen d <? start then Err (EBadOffset i) else fst (parse d start)
    end.

  (* ParsingIterator::next; the state is the cursor, which a failed parse leaves where
     the failing field read left it *)
  Definition iter_next (d : buf) (off : N) : option T * N :=
    if blen d =? 0 then (None, off) else
    let (r, o') := parse d off in (res_ok r, o').

  (* for-loop semantics: items until the first None.  None = out of fuel. *)
  Fixpoint iter_collect (fuel : nat) (d : buf) (off : N) : option (list T) :=
    match fuel with
    | O => None
    | S f =>
      match iter_next d off with
      | (Some x, o') => option_map (cons x) (iter_collect f d o')
      | (None, _) => Some []
      end
    end.
  Definition iter_fuel (d : buf) : nat := S (N.to_nat (blen d)).
  Definition iter_all (d : buf) : option (list T) := iter_collect (iter_fuel d) d 0.

  (* k calls of next() from a given state: results and final cursor *)
  Fixpoint iter_nexts (k : nat) (d : buf) (off : N) : list (option T) * N :=
    match k with
    | O => ([], off)
    | S k' => let (x, o') := iter_next d off in
              let (l, o'') := iter_nexts k' d o' in (x :: l, o'')
    end.

  (* core::iter::Iterator::nth as the standard library provides it (the crate overrides none of the
     provided methods): discard n items, stopping at the first None, then next().  fuel: one unit
     per next(); exhausted only if fuel <= number of remaining items (excluded by nth_spec). *)
  Fixpoint it_nth (fuel : nat) (n : N) (d : buf) (off : N) : option T * N :=
    match fuel with
    | O => (None, off)
    | S f => match iter_next d off with
             | (None, o') => (None, o')
             | (Some a, o') => if n =? 0 then (Some a, o') else it_nth f (N.pred n) d o'
             end
    end.
  (* by_ref().take(a): up to a items, stopping at the first None *)
  Fixpoint it_take (fuel : nat) (a : N) (d : buf) (off : N) : list T * N :=
    match fuel with
    | O => ([], off)
    | S f => if a =? 0 then ([], off) else
             match iter_next d off with
             | (None, o') => ([], o')
             | (Some x, o') => let (l, o2) := it_take f (N.pred a) d o' in (x :: l, o2)
             end
    end.

  (* Iterator::find *)
  Fixpoint find_first (p : T -> bool) (l : list T) : option T :=
    match l with [] => None | x :: t => if p x then Some x else find_first p t end.
End Table.
