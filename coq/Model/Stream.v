(* elf_stream.rs: CachingReader and ElfStream.

   Every ElfStream method is written ONCE as a program over the reader's three operations
   (load_bytes, get_bytes, collecting a header vector); programs are data (a free monad), so the
   theorems about caching, faults, I/O traces and equivalence with the slice parser are proved
   once, by induction over programs, and then hold for every method.

   Two interpreters:
     run_real  the CachingReader over a stream [content] with an arbitrary fault schedule,
               recording every seek / read / allocation;
     run_pure  the reader-free reading: load s e succeeds iff e <= stream length, get returns
               content[s, e) (or panics if the range was not loaded).  *)
Require Import V.Base.Prim V.Model.Structs V.Model.Table V.Model.StrTab V.Model.Utf8 V.Model.File
        V.Model.Hash V.Model.Note V.Model.SymVer V.Model.ElfBytes.

(* ---------- programs ---------- *)
Inductive prog (A : Type) : Type :=
| PRet (a : A)
| PFail (e : perr)
| PPanic
| PLoad (s e : N) (k : prog A)              (* reader.load_bytes(s..e)? *)
| PGet (s e : N) (k : buf -> prog A)        (* reader.get_bytes(s..e) *)
| PVec (n : N) (k : prog A).                (* a Vec of n parsed headers is collected *)
Arguments PRet {A}. Arguments PFail {A}. Arguments PPanic {A}. Arguments PLoad {A}.
Arguments PGet {A}. Arguments PVec {A}.

Fixpoint pbind {A B} (m : prog A) (f : A -> prog B) : prog B :=
  match m with
  | PRet a => f a
  | PFail e => PFail e
  | PPanic => PPanic
  | PLoad s e k => PLoad s e (pbind k f)
  | PGet s e k => PGet s e (fun b => pbind (k b) f)
  | PVec n k => PVec n (pbind k f)
  end.
Notation "x <~ m ;; f" := (pbind m (fun x => f)) (at level 61, m at next level, right associativity).
Definition plift {A} (r : res A) : prog A :=
  match r with Ok a => PRet a | Err e => PFail e | Panic => PPanic end.
(* reader.read_bytes(s, e): load then get *)
Definition pread (s e : N) : prog buf := PLoad s e (PGet s e (fun b => PRet b)).

(* ---------- the real reader ---------- *)
Inductive fault := FErr | FEof.
Record world := { content : buf; faults : N -> option fault }.
Inductive ioev := EvSeek (p : N) | EvRead (p n : N) | EvAlloc (n : N) | EvVec (n : N).
Record rd := { r_pos : N; r_step : N; r_cache : list ((N * N) * buf); r_slen : N; r_log : list ioev }.

Fixpoint cache_lookup (s e : N) (c : list ((N * N) * buf)) : option buf :=
  match c with
  | [] => None
  | ((s', e'), b) :: t => if (s' =? s) && (e' =? e) then Some b else cache_lookup s e t
  end.

Section Real.
  Variable w : world.
  Definition bump (r : rd) : rd :=
    {| r_pos := r_pos r; r_step := r_step r + 1; r_cache := r_cache r; r_slen := r_slen r; r_log := r_log r |}.
  Definition logev (ev : ioev) (r : rd) : rd :=
    {| r_pos := r_pos r; r_step := r_step r; r_cache := r_cache r; r_slen := r_slen r; r_log := r_log r ++ [ev] |}.
  Definition set_pos (p : N) (r : rd) : rd :=
    {| r_pos := p; r_step := r_step r; r_cache := r_cache r; r_slen := r_slen r; r_log := r_log r |}.

  (* reader.seek(SeekFrom::Start(p)): one I/O call, may fail *)
  Definition seek (p : N) (r : rd) : res unit * rd :=
    match faults w (r_step r) with
    | Some _ => (Err EIOError, bump r)
    | None => (Ok tt, logev (EvSeek p) (set_pos p (bump r)))
    end.
  (* reader.read_exact(buf) with buf.len() = n: no I/O call at all for n = 0; otherwise it
     delivers exactly content[pos, pos+n) or fails (I/O error, or EOF before n bytes) *)
  Definition read_exact (n : N) (r : rd) : res buf * rd :=
    if n =? 0 then (Ok (view (content w) (r_pos r, r_pos r + n)), r) else
    match faults w (r_step r) with
    | Some _ => (Err EIOError, bump r)
    | None =>
      if r_pos r + n <=? blen (content w)
      then (Ok (view (content w) (r_pos r, r_pos r + n)),
            logev (EvRead (r_pos r) n) (set_pos (r_pos r + n) (bump r)))
      else (Err EIOError, bump r)
    end.

  Definition load_bytes (s e : N) (r : rd) : res unit * rd :=
    match cache_lookup s e (r_cache r) with
    | Some _ => (Ok tt, r)
    | None =>
      if r_slen r <? e then (Err (EBadOffset e), r) else
      match seek s r with
      | (Ok _, r1) =>
        (* vec![0; range.len()]: Range::len saturates at 0 *)
        let r2 := logev (EvAlloc (e - s)) r1 in
        match read_exact (e - s) r2 with
        | (Ok b, r3) => (Ok tt, {| r_pos := r_pos r3; r_step := r_step r3; r_cache := ((s, e), b) :: r_cache r3;
                                   r_slen := r_slen r3; r_log := r_log r3 |})
        | (Err x, r3) => (Err x, r3)
        | (Panic, r3) => (Panic, r3)
        end
      | (Err x, r1) => (Err x, r1)
      | (Panic, r1) => (Panic, r1)
      end
    end.
  (* .expect("load_bytes must be called before get_bytes for every range") *)
  Definition get_bytes_r (s e : N) (r : rd) : res buf :=
    match cache_lookup s e (r_cache r) with Some b => Ok b | None => Panic end.

  Fixpoint run_real {A} (p : prog A) (r : rd) : res A * rd :=
    match p with
    | PRet a => (Ok a, r)
    | PFail e => (Err e, r)
    | PPanic => (Panic, r)
    | PLoad s e k =>
      match load_bytes s e r with
      | (Ok _, r1) => run_real k r1
      | (Err x, r1) => (Err x, r1)
      | (Panic, r1) => (Panic, r1)
      end
    | PGet s e k =>
      match get_bytes_r s e r with
      | Ok b => run_real (k b) r
      | Err x => (Err x, r)
      | Panic => (Panic, r)
      end
    | PVec n k => run_real k (logev (EvVec n) r)
    end.

  (* CachingReader::new: stream_len = reader.seek(SeekFrom::End(0))? *)
  Definition rd0 : rd := {| r_pos := 0; r_step := 0; r_cache := []; r_slen := 0; r_log := [] |}.
  Definition new_reader : res unit * rd :=
    match faults w 0 with
    | Some _ => (Err EIOError, bump rd0)
    | None => (Ok tt, {| r_pos := blen (content w); r_step := 1; r_cache := []; r_slen := blen (content w);
                         r_log := [] |})
    end.
  Definition clear_cache (r : rd) : rd :=
    {| r_pos := r_pos r; r_step := r_step r; r_cache := []; r_slen := r_slen r; r_log := r_log r |}.
End Real.

(* ---------- the pure reading ----------
   [keys]: the ranges in the cache.  Result, the I/O events a fault-free reader performs, and the
   ranges in the cache afterwards. *)
Fixpoint mem_key (s e : N) (l : list (N * N)) : bool :=
  match l with [] => false | (s', e') :: t => ((s' =? s) && (e' =? e)) || mem_key s e t end.
(* the I/O of one uncached load: seek, allocate, read_exact (no read call for an empty range) *)
Definition io_of_load (s e : N) : list ioev :=
  [EvSeek s; EvAlloc (e - s)] ++ (if e - s =? 0 then [] else [EvRead s (e - s)]).
Fixpoint run_pure {A} (f : buf) (p : prog A) (keys : list (N * N)) : res A * (list ioev * list (N * N)) :=
  match p with
  | PRet a => (Ok a, ([], keys))
  | PFail e => (Err e, ([], keys))
  | PPanic => (Panic, ([], keys))
  | PLoad s e k =>
    if mem_key s e keys then run_pure f k keys
    else if blen f <? e then (Err (EBadOffset e), ([], keys))
    else let '(x, (t, ks)) := run_pure f k ((s, e) :: keys) in (x, (io_of_load s e ++ t, ks))
  | PGet s e k => if mem_key s e keys then run_pure f (k (view f (s, s + (e - s)))) keys
                  else (Panic, ([], keys))
  | PVec n k => let '(x, (t, ks)) := run_pure f k keys in (x, (EvVec n :: t, ks))
  end.
Definition pure_result {A} (f : buf) (p : prog A) : res A := fst (run_pure f p []).

(* ---------- ElfStream ---------- *)
Record estream := { es_ehdr : ehdr; es_shdrs : list shdr; es_phdrs : list phdr }.

(* SectionHeaderTable::new(..).iter().collect() *)
Definition collect {T} (parse : buf -> M T) (d : buf) : list T :=
  match iter_all parse d with Some l => l | None => [] end.

Definition parse_section_headers (eh : ehdr) : prog (list shdr) :=
  let s := e_spec eh in let c := e_class eh in
  if e_shoff eh =? 0 then PRet [] else
  entsize <~ plift (validate_entsize (shdr_size c) (e_shentsize eh)) ;;
  let shoff := e_shoff eh in
  shnum <~ (if e_shnum eh =? 0 then
              en <~ plift (ok_or (checked_add shoff entsize) EIntegerOverflow) ;;
              data <~ pread shoff en ;;
              sh0 <~ plift (fst (parse_shdr s c data 0)) ;;
              PRet (sh_size sh0)
            else PRet (e_shnum eh)) ;;
  size <~ plift (ok_or (checked_mul entsize shnum) EIntegerOverflow) ;;
  en <~ plift (ok_or (checked_add shoff size) EIntegerOverflow) ;;
  b <~ pread shoff en ;;
  PVec (table_len (shdr_size c) b) (PRet (collect (parse_shdr s c) b)).

Definition parse_program_headers (eh : ehdr) : prog (list phdr) :=
  let s := e_spec eh in let c := e_class eh in
  if e_phoff eh =? 0 then PRet [] else
  phnum <~ (if e_phnum eh =? PN_XNUM then
              let shoff := e_shoff eh in
              en <~ plift (ok_or (checked_add shoff (shdr_size c)) EIntegerOverflow) ;;
              data <~ pread shoff en ;;
              sh0 <~ plift (fst (parse_shdr s c data 0)) ;;
              PRet (sh_info sh0)
            else PRet (e_phnum eh)) ;;
  entsize <~ plift (validate_entsize (phdr_size c) (e_phentsize eh)) ;;
  let phoff := e_phoff eh in
  size <~ plift (ok_or (checked_mul entsize phnum) EIntegerOverflow) ;;
  en <~ plift (ok_or (checked_add phoff size) EIntegerOverflow) ;;
  b <~ pread phoff en ;;
  PVec (table_len (phdr_size c) b) (PRet (collect (parse_phdr s c) b)).

Definition open_prog (fam : specfam) : prog estream :=
  ident_buf <~ pread 0 16 ;;
  id <~ plift (parse_ident fam ident_buf) ;;
  match id with
  | (s, c, osabi, abiver) =>
    tail_buf <~ pread 16 (16 + tail_size c) ;;
    eh <~ plift (fst (parse_tail s c osabi abiver tail_buf 0)) ;;
    sh <~ parse_section_headers eh ;;
    ph <~ parse_program_headers eh ;;
    PRet {| es_ehdr := eh; es_shdrs := sh; es_phdrs := ph |}
  end.

(* open_stream: new reader, the program above, then the cache is cleared *)
Definition open_stream (fam : specfam) (w : world) : res estream * rd :=
  match new_reader w with
  | (Ok _, r0) => let (x, r1) := run_real w (open_prog fam) r0 in (x, clear_cache r1)
  | (Err e, r0) => (Err e, r0)
  | (Panic, r0) => (Panic, r0)
  end.

Section StreamQueries.
  Variable es : estream.
  Let eh := es_ehdr es.
  Let s := e_spec eh.
  Let c := e_class eh.
  Let shdrs := es_shdrs es.
  Let phdrs := es_phdrs es.
  Definition is_nil {T} (l : list T) : bool := match l with [] => true | _ => false end.
  (* Vec indexing by a file-supplied index: walks the list, never builds a unary number of the
     index's size (nth_n_eq in Proofs/StreamP.v: it is nth_error at N.to_nat i) *)
  Fixpoint nth_n {T} (l : list T) (i : N) : option T :=
    match l with [] => None | x :: t => if i =? 0 then Some x else nth_n t (N.pred i) end.
  Definition prange (h : shdr) : prog (N * N) := plift (sh_range h).

  Definition q_shstrtab : prog (option buf) :=
    if is_nil shdrs then PRet None else
    if e_shstrndx eh =? 0 then PRet None else
    ndx <~ (if e_shstrndx eh =? SHN_XINDEX
            then match shdrs with h0 :: _ => PRet (sh_link h0) | [] => PPanic end
            else PRet (e_shstrndx eh)) ;;
    st <~ plift (ok_or (nth_n shdrs ndx) (EBadOffset ndx)) ;;
    r <~ prange st ;;
    b <~ pread (fst r) (snd r) ;;
    PRet (Some b).

  Definition q_by_name (name : list N) : prog (option shdr) :=
    st <~ q_shstrtab ;;
    match st with
    | None => PRet None
    | Some t => PRet (find_first (fun h => match strtab_get t (sh_name h) with
                                           | Ok nr => list_eqb (range_bytes t nr) name
                                           | _ => false end) shdrs)
    end.

  (* (data, compression header); `&[]` for NOBITS is the empty view *)
  Definition q_section_data (f0 : buf) (h : shdr) : prog (buf * option chdr) :=
    if sh_type h =? SHT_NOBITS then PRet (view f0 (0, 0), None) else
    r <~ prange h ;;
    b <~ pread (fst r) (snd r) ;;
    if N.land (sh_flags h) SHF_COMPRESSED =? 0 then PRet (b, None) else
    match parse_chdr s c b 0 with
    | (Err e, _) => PFail e
    | (Panic, _) => PPanic
    | (Ok ch, off) =>
      match sub b off (blen b) with
      | Some rest => PRet (rest, Some ch)
      | None => PFail (ESliceReadError off (sh_size h))
      end
    end.

  Definition q_typed (ty : N) (h : shdr) : prog buf :=
    if negb (sh_type h =? ty) then PFail (EUnexpectedSectionType (sh_type h) ty) else
    r <~ prange h ;; pread (fst r) (snd r).
  Definition q_notes (h : shdr) : prog (buf * N) := b <~ q_typed SHT_NOTE h ;; PRet (b, sh_addralign h).
  Definition q_seg_notes (h : phdr) : prog (buf * N) :=
    if negb (p_type h =? PT_NOTE) then PFail (EUnexpectedSegmentType (p_type h) PT_NOTE) else
    r <~ plift (ph_range h) ;; b <~ pread (fst r) (snd r) ;; PRet (b, p_align h).

  Definition q_symtab_of_type (ty : N) : prog (option (buf * buf)) :=
    if is_nil shdrs then PRet None else
    match find_first (fun h => sh_type h =? ty) shdrs with
    | None => PRet None
    | Some h =>
      r <~ prange h ;;
      PLoad (fst r) (snd r)
        (strh <~ plift (ok_or (nth_n shdrs (sh_link h)) (EBadOffset (sh_link h))) ;;
         tr <~ prange strh ;;
         PLoad (fst tr) (snd tr)
           (_ <~ plift (validate_entsize (sym_size c) (sh_entsize h)) ;;
            PGet (fst r) (snd r) (fun sb => PGet (fst tr) (snd tr) (fun tb => PRet (Some (sb, tb))))))
    end.

  Definition q_dynamic : prog (option buf) :=
    if negb (is_nil shdrs) then
      match find_first (fun h => sh_type h =? SHT_DYNAMIC) shdrs with
      | Some h => r <~ prange h ;; b <~ pread (fst r) (snd r) ;; PRet (Some b)
      | None => PRet None
      end
    else if negb (is_nil phdrs) then
      match find_first (fun h => p_type h =? PT_DYNAMIC) phdrs with
      | Some h => r <~ plift (ph_range h) ;; b <~ pread (fst r) (snd r) ;; PRet (Some b)
      | None => PRet None
      end
    else PRet None.

  (* symbol_version_table: (versym bytes, needs (count, data, strings), defs (count, data, strings)) *)
  Definition q_linked (h : shdr) : prog ((N * N) * (N * N)) :=
    r <~ prange h ;;
    PLoad (fst r) (snd r)
      (strh <~ plift (ok_or (nth_n shdrs (sh_link h)) (EBadOffset (sh_link h))) ;;
       tr <~ prange strh ;;
       PLoad (fst tr) (snd tr) (PRet (r, tr))).
  Definition q_symver : prog (option (buf * option (N * buf * buf) * option (N * buf * buf))) :=
    if is_nil shdrs then PRet None else
    match symver_scan shdrs None None None with
    | (None, _, _) => PRet None
    | (Some vsh, nd, df) =>
      _ <~ plift (validate_entsize 2 (sh_entsize vsh)) ;;
      vr <~ prange vsh ;;
      PLoad (fst vr) (snd vr)
        (nr <~ match nd with Some h => x <~ q_linked h ;; PRet (Some (h, x)) | None => PRet None end ;;
         dr <~ match df with Some h => x <~ q_linked h ;; PRet (Some (h, x)) | None => PRet None end ;;
         needs <~ match nr with
                  | Some (h, (r, tr)) => PGet (fst tr) (snd tr) (fun tb => PGet (fst r) (snd r) (fun b =>
                                           PRet (Some (sh_info h, b, tb))))
                  | None => PRet None end ;;
         defs <~ match dr with
                 | Some (h, (r, tr)) => PGet (fst tr) (snd tr) (fun tb => PGet (fst r) (snd r) (fun b =>
                                          PRet (Some (sh_info h, b, tb))))
                 | None => PRet None end ;;
         PGet (fst vr) (snd vr) (fun vb => PRet (Some (vb, needs, defs))))
    end.
End StreamQueries.
