(* string_table.rs.  Results are ranges (start, end) inside the table's buffer. *)
Require Import V.Base.Prim V.Model.Utf8.

(* start.iter().position(|b| b == 0): scan n bytes from p, absolute position of first NUL *)
Fixpoint scan_nul (n : nat) (d : buf) (p : N) : option N :=
  match n with
  | O => None
  | S n' => if bN d p =? 0 then Some p else scan_nul n' d (p + 1)
  end.

Definition get_raw (d : buf) (off : N) : res (N * N) :=
  if blen d =? 0 then Err (EBadOffset off) else
  if blen d <? off then Err (EBadOffset off) else
  match scan_nul (N.to_nat (blen d - off)) d off with
  | None => Err (EStringTableMissingNul off)
  | Some p => Ok (off, p)
  end.

Definition range_bytes (d : buf) (r : N * N) : list N :=
  map Byte.to_N (bytes_at d (fst r) (N.to_nat (snd r - fst r))).

Definition strtab_get (d : buf) (off : N) : res (N * N) :=
  let? r := get_raw d off in
  if utf8_valid (range_bytes d r) then Ok r else Err EUtf8Error.
