(* gnu_symver.rs: the four linked-record iterators, SymbolVersionTable. *)
Require Import V.Base.Prim V.Model.Structs V.Model.Table V.Model.StrTab.

Record viter := { vi_count : N; vi_off : N }.

(* common shape of the four next() functions: yields the record and the offset it was read at *)
Definition link_next {T} (parse : buf -> M T) (nxt : T -> N) (d : buf) (st : viter)
  : res (option (T * N) * viter) :=
  if (blen d =? 0) || (vi_count st =? 0) then Ok (None, st) else
  match fst (parse d (vi_off st)) with
  | Err _ => Ok (None, st)
  | Panic => Panic
  | Ok x =>
    (* match self.offset.checked_add(next) { Some(o) => self.offset = o, None => self.count = 0 } *)
    let '(cnt1, off1) := match checked_add (vi_off st) (nxt x) with
                         | Some n => (vi_count st, n)
                         | None => (0, vi_off st)
                         end in
    (* self.count -= 1 *)
    let? cnt2 := sub_or_panic cnt1 1 in
    let cnt3 := if (0 <? cnt2) && (nxt x =? 0) then 0 else cnt2 in
    Ok (Some (x, vi_off st), {| vi_count := cnt3; vi_off := off1 |})
  end.

Definition verdaux_next s c := link_next (parse_verdaux s c) vda_next.
Definition vernaux_next s c := link_next (parse_vernaux s c) vna_next.
(* the outer iterators also build the aux iterator: self.offset + vd_aux (unchecked add) *)
Definition verdef_next (s : espec) (c : class) (d : buf) (st : viter)
  : res (option (verdef * viter) * viter) :=
  let? r := link_next (parse_verdef s c) vd_next d st in
  match r with
  | (None, st') => Ok (None, st')
  | (Some (vd, off), st') =>
    let? aoff := add_or_panic off (vd_aux vd) in
    Ok (Some (vd, {| vi_count := vd_cnt vd; vi_off := aoff |}), st')
  end.
Definition verneed_next (s : espec) (c : class) (d : buf) (st : viter)
  : res (option (verneed * viter) * viter) :=
  let? r := link_next (parse_verneed s c) vn_next d st in
  match r with
  | (None, st') => Ok (None, st')
  | (Some (vn, off), st') =>
    let? aoff := add_or_panic off (vn_aux vn) in
    Ok (Some (vn, {| vi_count := vn_cnt vn; vi_off := aoff |}), st')
  end.

(* generic draining loop: items until the first None.  None = out of fuel. *)
Section Drain.
  Context {I : Type}.
  Variable next : viter -> res (option I * viter).
  Fixpoint drain (fuel : nat) (st : viter) : option (res (list I)) :=
    match fuel with
    | O => None
    | S f =>
      match next st with
      | Ok (Some x, st') =>
        match drain f st' with Some (Ok l) => Some (Ok (x :: l)) | r => r end
      | Ok (None, _) => Some (Ok [])
      | Err e => Some (Err e)
      | Panic => Some Panic
      end
    end.
  (* for x in iter { if let Some(r) = body(x)? { return Ok(Some(r)) } }; Ok(None) *)
  Context {R : Type}.
  Variable body : I -> option (res (option R)).
  Fixpoint search (fuel : nat) (st : viter) : option (res (option R)) :=
    match fuel with
    | O => None
    | S f =>
      match next st with
      | Ok (Some x, st') =>
        match body x with
        | None => None
        | Some (Ok None) => search f st'
        | Some r => Some r
        end
      | Ok (None, _) => Some (Ok None)
      | Err e => Some (Err e)
      | Panic => Some Panic
      end
    end.
End Drain.
Definition link_fuel (d : buf) : nat := S (S (N.to_nat (blen d))).

Record requirement := { rq_file : N * N; rq_name : N * N; rq_hash : N; rq_flags : N; rq_hidden : bool }.
Record definition := { df_hash : N; df_flags : N; df_names : viter; df_hidden : bool }.

(* SymbolVersionTable: version_ids table bytes, (iterator start state, verneed bytes, strings),
   (iterator start state, verdef bytes, strings) *)
Record symvertab := { svt_versym : buf; svt_needs : option (viter * buf * buf);
                      svt_defs : option (viter * buf * buf) }.

Definition get_requirement (s : espec) (c : class) (t : symvertab) (sym_idx : N)
  : option (res (option requirement)) :=
  match svt_needs t with
  | None => Some (Ok None)
  | Some (st0, nd, strs) =>
    match table_get (parse_versym s c) 2 (svt_versym t) sym_idx with
    | Err e => Some (Err e)
    | Panic => Some Panic
    | Ok ver =>
      search (verneed_next s c nd)
        (fun '(vn, aux) =>
           search (vernaux_next s c nd)
             (fun '(vna, _) =>
                if negb (vna_other vna =? vx_index ver) then Some (Ok None) else
                Some (let? file := strtab_get strs (vn_file vn) in
                      let? name := strtab_get strs (vna_name vna) in
                      Ok (Some {| rq_file := file; rq_name := name; rq_hash := vna_hash vna;
                                  rq_flags := vna_flags vna; rq_hidden := vx_is_hidden ver |})))
             (link_fuel nd) aux)
        (link_fuel nd) st0
    end
  end.

Definition get_definition (s : espec) (c : class) (t : symvertab) (sym_idx : N)
  : option (res (option definition)) :=
  match svt_defs t with
  | None => Some (Ok None)
  | Some (st0, dd, strs) =>
    match table_get (parse_versym s c) 2 (svt_versym t) sym_idx with
    | Err e => Some (Err e)
    | Panic => Some Panic
    | Ok ver =>
      search (verdef_next s c dd)
        (fun '(vd, aux) =>
           if negb (vd_ndx vd =? vx_index ver) then Some (Ok None) else
           Some (Ok (Some {| df_hash := vd_hash vd; df_flags := vd_flags vd; df_names := aux;
                             df_hidden := vx_is_hidden ver |})))
        (link_fuel dd) st0
    end
  end.

(* SymbolNamesIterator drained: strtab.get(vda_name) for every aux record *)
Definition definition_names (s : espec) (c : class) (dd strs : buf) (aux : viter)
  : option (res (list (res (N * N)))) :=
  match drain (verdaux_next s c dd) (link_fuel dd) aux with
  | Some (Ok l) => Some (Ok (map (fun '(vda, _) => strtab_get strs (vda_name vda)) l))
  | Some (Err e) => Some (Err e)
  | Some Panic => Some Panic
  | None => None
  end.
