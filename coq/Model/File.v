(* file.rs: verify_ident / parse_ident (with the length check of the fix for finding F1). *)
Require Import V.Base.Prim V.Model.Structs.

(* buf[i]: panics when out of bounds *)
Definition idx (d : buf) (i : N) : res N := if i <? blen d then Ok (bN d i) else Panic.

Definition verify_ident (d : buf) : res unit :=
  (* buf.split_at(EI_CLASS) *)
  if blen d <? 4 then Panic else
  if negb ((bN d 0 =? 127) && (bN d 1 =? 69) && (bN d 2 =? 76) && (bN d 3 =? 70))
  then Err (EBadMagic (bN d 0) (bN d 1) (bN d 2) (bN d 3)) else
  let? v := idx d 6 in
  if negb (v =? 1) then Err (EUnsupportedVersion v 1) else Ok tt.

Definition parse_ident (fam : specfam) (d : buf) : res (espec * class * N * N) :=
  if blen d <? 16 then Err (ESliceReadError 0 16) else
  let? _ := verify_ident d in
  let? ec := idx d 4 in
  let? c := if ec =? 1 then Ok ELF32 else if ec =? 2 then Ok ELF64
            else Err (EUnsupportedElfClass ec) in
  let? ed := idx d 5 in
  let? s := from_ei_data fam ed in
  let? osabi := idx d 7 in
  let? abiver := idx d 8 in
  Ok (s, c, osabi, abiver).
