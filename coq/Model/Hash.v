(* hash.rs: SysV and GNU hash functions, tables and lookups. *)
Require Import V.Base.Prim V.Model.Structs V.Model.Table V.Model.StrTab.

Definition M32 : N := 4294967296.
Definition view (d : buf) (r : N * N) : buf :=
  match sub d (fst r) (snd r) with Some b => b | None => empty_buf end.

(* sysv_hash: u32 wrapping_mul / wrapping_add, fold of the high nibble, final mask *)
Definition sysv_step (h b : N) : N :=
  let h1 := (((h * 16) mod M32) + b) mod M32 in
  N.lxor h1 (N.land (N.shiftr h1 24) 240).
Definition sysv_hash (name : list N) : N := N.land (fold_left sysv_step name 0) 268435455.

Definition gnu_step (h b : N) : N := (((h * 33) mod M32) + b) mod M32.
Definition gnu_hash (name : list N) : N := fold_left gnu_step name 5381.

Fixpoint list_eqb (a b : list N) : bool :=
  match a, b with
  | [], [] => true
  | x :: a', y :: b' => (x =? y) && list_eqb a' b'
  | _, _ => false
  end.

Record sysvtab := { sv_buckets : N * N; sv_chains : N * N }.
Definition sysv_new (s : espec) (c : class) (d : buf) : res sysvtab :=
  match parse_sysvhdr s c d 0 with
  | (Err e, _) => Err e
  | (Panic, _) => Panic
  | (Ok hdr, off) =>
    let? bsz := ok_or (checked_mul 4 (sv_nbucket hdr)) EIntegerOverflow in
    let? bend := ok_or (checked_add off bsz) EIntegerOverflow in
    let? _ := get_bytes d off bend in
    let? csz := ok_or (checked_mul 4 (sv_nchain hdr)) EIntegerOverflow in
    let? cend := ok_or (checked_add bend csz) EIntegerOverflow in
    let? _ := get_bytes d bend cend in
    Ok {| sv_buckets := (off, bend); sv_chains := (bend, cend) |}
  end.

Section SysvFind.
  Variables (s : espec) (c : class) (buckets chains symtab strtab : buf) (name : list N).
  (* while index != 0 && i < chains.len(): at most chains.len() iterations *)
  Fixpoint sysv_walk (fuel : nat) (index : N) : res (option (N * sym)) :=
    match fuel with
    | O => Ok None
    | S f =>
      if index =? 0 then Ok None else
      let? symbol := table_get (parse_sym s c) (sym_size c) symtab index in
      let? r := get_raw strtab (st_name symbol) in
      if list_eqb (range_bytes strtab r) name then Ok (Some (index, symbol)) else
      let? nxt := table_get (parse_u32 s c) 4 chains index in
      sysv_walk f nxt
    end.
  Definition sysv_find_in : res (option (N * sym)) :=
    if table_is_empty 4 buckets then Ok None else
    let hash := sysv_hash name in
    (* `%` by buckets.len(): non-zero here; a zero divisor would panic *)
    if table_len 4 buckets =? 0 then Panic else
    let start := hash mod table_len 4 buckets in
    let? index := table_get (parse_u32 s c) 4 buckets start in
    sysv_walk (N.to_nat (table_len 4 chains)) index.
End SysvFind.
Definition sysv_find (s : espec) (c : class) (d : buf) (t : sysvtab) (name : list N)
           (symtab strtab : buf) : res (option (N * sym)) :=
  sysv_find_in s c (view d (sv_buckets t)) (view d (sv_chains t)) symtab strtab name.

Record gnutab := { g_hdr : gnuhdr; g_class : class; g_bloom : N * N; g_buckets : N * N;
                   g_chains : N * N }.
Definition gnu_new (s : espec) (c : class) (d : buf) : res gnutab :=
  match parse_gnuhdr s c d 0 with
  | (Err e, _) => Err e
  | (Panic, _) => Panic
  | (Ok hdr, off) =>
    let? bloom_size := ok_or (checked_mul (gh_nbloom hdr) (match c with ELF32 => 4 | ELF64 => 8 end))
                             EIntegerOverflow in
    let? bloom_end := ok_or (checked_add off bloom_size) EIntegerOverflow in
    let? _ := get_bytes d off bloom_end in
    let? bsz := ok_or (checked_mul 4 (gh_nbucket hdr)) EIntegerOverflow in
    let? bend := ok_or (checked_add bloom_end bsz) EIntegerOverflow in
    let? _ := get_bytes d bloom_end bend in
    (* data.get(offset..) *)
    let? _ := ok_or (sub d bend (blen d)) (ESliceReadError bend (blen d)) in
    Ok {| g_hdr := hdr; g_class := c; g_bloom := (off, bloom_end); g_buckets := (bloom_end, bend);
          g_chains := (bend, blen d) |}
  end.

Section GnuFind.
  Variables (s : espec) (c : class) (hdr : gnuhdr) (bloom buckets chains symtab strtab : buf)
            (name : list N).
  (* for chain_idx in start..chain_len *)
  Fixpoint gnu_walk (fuel : nat) (hash chain_idx : N) : res (option (N * sym)) :=
    match fuel with
    | O => Ok None
    | S f =>
      let? chain_hash := table_get (parse_u32 s c) 4 chains chain_idx in
      let continue (_ : unit) :=
        if negb (N.land chain_hash 1 =? 0) then Ok None else gnu_walk f hash (chain_idx + 1) in
      if N.lor hash 1 =? N.lor chain_hash 1 then
        let? sym_idx := ok_or (checked_add chain_idx (gh_symoffset hdr)) EIntegerOverflow in
        let? symbol := table_get (parse_sym s c) (sym_size c) symtab sym_idx in
        let? r := get_raw strtab (st_name symbol) in
        if list_eqb (range_bytes strtab r) name then Ok (Some (sym_idx, symbol)) else continue tt
      else continue tt
    end.
  Definition gnu_find_in : res (option (N * sym)) :=
    if table_is_empty 4 buckets || (gh_nbloom hdr =? 0) then Ok None else
    let hash := gnu_hash name in
    let width := match c with ELF32 => 32 | ELF64 => 64 end in
    let bloom_idx := (hash / width) mod gh_nbloom hdr in
    let? filter := match c with
                   | ELF32 => table_get (parse_u32 s c) 4 bloom bloom_idx
                   | ELF64 => table_get (parse_u64 s c) 8 bloom bloom_idx
                   end in
    if N.land filter (N.shiftl 1 (hash mod width)) =? 0 then Ok None else
    (* hash.checked_shr(nshift) *)
    let? hash2 := if gh_nshift hdr <? 32 then Ok (N.shiftr hash (gh_nshift hdr))
                  else Err EIntegerOverflow in
    if N.land filter (N.shiftl 1 (hash2 mod width)) =? 0 then Ok None else
    if table_len 4 buckets =? 0 then Panic else
    let? chain_start := table_get (parse_u32 s c) 4 buckets (hash mod table_len 4 buckets) in
    if chain_start <? gh_symoffset hdr then Ok None else
    let first := chain_start - gh_symoffset hdr in
    gnu_walk (N.to_nat (table_len 4 chains - first)) hash first.
End GnuFind.
Definition gnu_find (s : espec) (d : buf) (t : gnutab) (name : list N) (symtab strtab : buf)
  : res (option (N * sym)) :=
  gnu_find_in s (g_class t) (g_hdr t) (view d (g_bloom t)) (view d (g_buckets t))
              (view d (g_chains t)) symtab strtab name.
