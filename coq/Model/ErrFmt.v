(* parse.rs: impl Display for ParseError, and Error::source.  Numbers are rendered as Rust's
   formatter does: {} decimal, {:#X} upper-case hex with the 0x prefix, {:X?} on [u8; 4] the
   Debug list of upper-case hex bytes.  The four variants that wrap a standard-library error
   delegate to that error's own Display (not modelled: None). *)
Require Import V.Base.Prim.
From Coq Require Import String Ascii.
Open Scope N_scope.
Open Scope string_scope.

Definition digit_char (d : N) : ascii :=
  ascii_of_N (if (d <? 10)%N then (48 + d)%N else (55 + d)%N).      (* '0'.. / 'A'.. *)
Definition digit_char_l (d : N) : ascii :=
  ascii_of_N (if (d <? 10)%N then (48 + d)%N else (87 + d)%N).      (* '0'.. / 'a'.. *)

(* most significant digit first; fuel = maximal number of digits; dc renders one digit *)
Fixpoint digits (dc : N -> ascii) (base : N) (fuel : nat) (n : N) (acc : string) : string :=
  match fuel with
  | O => acc
  | S f => let acc' := String (dc (n mod base)%N) acc in
           if (n / base =? 0)%N then acc' else digits dc base f (n / base)%N acc'
  end.
Definition dec (n : N) : string := digits digit_char 10 20 n "".       (* u64: at most 20 digits *)
Definition hexu (n : N) : string := digits digit_char 16 16 n "".      (* {:X} *)
Definition hexl (n : N) : string := digits digit_char_l 16 16 n "".    (* {:x} *)
Definition hex0x (n : N) : string := "0x" ++ hexu n.
Definition hex0xl (n : N) : string := "0x" ++ hexl n.                  (* {:#x} *)

Definition perr_display (e : perr) : option string :=
  match e with
  | EBadMagic a b c d =>
      Some ("Invalid Magic Bytes: [" ++ hexu a ++ ", " ++ hexu b ++ ", " ++ hexu c ++ ", " ++ hexu d ++ "]")
  | EUnsupportedElfClass c => Some ("Unsupported ELF Class: " ++ dec c)
  | EUnsupportedElfEndianness c => Some ("Unsupported ELF Endianness: " ++ dec c)
  | EUnsupportedVersion f x => Some ("Unsupported ELF Version field found: " ++ dec f ++ " expected: " ++ dec x)
  | EBadOffset o => Some ("Bad offset: " ++ hex0x o)
  | EStringTableMissingNul o => Some ("Could not find terminating NUL byte starting at offset: " ++ hex0x o)
  | EBadEntsize f x => Some ("Invalid entsize. Expected: " ++ hex0x x ++ ", Found: " ++ hex0x f)
  | EUnexpectedSectionType f x => Some ("Could not interpret section of type " ++ dec f ++ " as type " ++ dec x)
  | EUnexpectedSegmentType f x => Some ("Could not interpret section of type " ++ dec f ++ " as type " ++ dec x)
  | EUnexpectedAlignment a => Some ("Could not interpret section with unexpected alignment of " ++ dec a)
  | ESliceReadError s e' => Some ("Could not read bytes in range [" ++ hex0x s ++ ", " ++ hex0x e' ++ ")")
  | EIntegerOverflow => Some "Integer overflow detected"
  | EUtf8Error | ETryFromSliceError | ETryFromIntError | EIOError => None
  end.

(* std::error::Error::source: the wrapped standard-library error, if any *)
Definition perr_has_source (e : perr) : bool :=
  match e with EUtf8Error | ETryFromSliceError | ETryFromIntError | EIOError => true | _ => false end.

(* reading a rendered number back (for the round-trip theorem) *)
Definition digit_val (c : ascii) : N :=
  let n := N_of_ascii c in if (n <? 58)%N then (n - 48)%N else if (n <? 97)%N then (n - 55)%N else (n - 87)%N.
Fixpoint value_of (base : N) (s : string) (acc : N) : N :=
  match s with EmptyString => acc | String c t => value_of base t (acc * base + digit_val c)%N end.
