(* Specification side of C04/C02: the positional interpretation of a byte string. *)
Require Import V.Base.Prim.

Fixpoint le_val (bs : list byte) : N :=
  match bs with [] => 0 | b :: t => Byte.to_N b + 256 * le_val t end.
Definition be_val (bs : list byte) : N := le_val (rev bs).
Definition uvalue (little : bool) (bs : list byte) : N := if little then le_val bs else be_val bs.
(* two's complement: subtract 2^(8w) when the top bit is set *)
Definition svalue (little : bool) (bs : list byte) : Z :=
  let u := Z.of_N (uvalue little bs) in
  let m := Z.pow 2 (8 * Z.of_nat (length bs)) in
  if Z.ltb u (m / 2) then u else (u - m)%Z.

Definition byte_of (v : N) : byte := match Byte.of_N (v mod 256) with Some b => b | None => x00 end.
Fixpoint enc_le (w : nat) (v : N) : list byte :=
  match w with O => [] | S w' => byte_of v :: enc_le w' (v / 256) end.
Definition enc_be (w : nat) (v : N) : list byte := rev (enc_le w v).
Definition encode (little : bool) (w : nat) (v : N) : list byte :=
  if little then enc_le w v else enc_be w v.
(* encoding of a signed value: its residue modulo 2^(8w) *)
Definition encode_z (little : bool) (w : nat) (z : Z) : list byte :=
  encode little w (Z.to_N (z mod Z.pow 2 (8 * Z.of_nat w))).

(* "buffer d holds the bytes bs at offset o" *)
Definition has_bytes (d : buf) (o : N) (bs : list byte) : Prop :=
  forall i, (i < length bs)%nat -> bat d (o + N.of_nat i) = nth i bs x00.
