(* C11/C12 specification side: what a well-formed hash section is, stated over the decoded
   tables (bucket array, chain array, symbol table, string table). *)
Require Import V.Base.Prim V.Model.Structs V.Model.Table V.Model.StrTab V.Model.Hash.

Section Wf.
  Variables (s : espec) (c : class) (buckets chains symtab strtab : buf).

  (* the name of symbol i, when the symbol and its NUL-terminated name are readable *)
  Definition sym_name (i : N) : option (list N) :=
    match table_get (parse_sym s c) (sym_size c) symtab i with
    | Ok y => match get_raw strtab (st_name y) with
              | Ok r => Some (range_bytes strtab r)
              | _ => None
              end
    | _ => None
    end.
  Definition word_at (t : buf) (i : N) : option N := res_ok (table_get (parse_u32 s c) 4 t i).
  Definition nbucket : N := table_len 4 buckets.
  Definition nchain : N := table_len 4 chains.

  (* SysV: the chain that starts at index idx and ends with 0 *)
  Inductive chain_path : N -> list N -> Prop :=
  | cp_nil : chain_path 0 []
  | cp_cons i nxt p : i <> 0 -> word_at chains i = Some nxt -> chain_path nxt p ->
                      chain_path i (i :: p).

  (* gABI .hash: every bucket heads a 0-terminated chain of at most nchain readable symbols, and
     every symbol 1 <= i < nchain lies on the chain of the bucket its name hashes to *)
  Record sysv_wf : Prop := {
    swf_nbucket : 0 < nbucket;
    swf_paths : forall b, b < nbucket ->
      exists idx p, word_at buckets b = Some idx /\ chain_path idx p /\
                    (length p <= N.to_nat nchain)%nat /\
                    Forall (fun i => exists nm, sym_name i = Some nm) p;
    swf_member : forall i nm, 1 <= i < nchain -> sym_name i = Some nm ->
      exists idx p, word_at buckets (sysv_hash nm mod nbucket) = Some idx /\
                    chain_path idx p /\ In i p
  }.
End Wf.

(* ---------- GNU hash: a well-formed .gnu.hash over a symbol table ----------
   The hashed symbols are symoffset .. symoffset + nchains - 1; chain entry j belongs to symbol
   symoffset + j.  Built "per the GNU format": every hashed symbol has a readable name; its chain
   entry carries its hash (bit 0 aside); both of its bloom bits are set in its bloom word; its
   bucket's chain starts at or before it with no stop bit in between. *)
Section GnuWf.
  Variables (s : espec) (c : class) (hdr : gnuhdr) (bloom buckets chains symtab strtab : buf).
  Definition gwidth : N := match c with ELF32 => 32 | ELF64 => 64 end.
  Definition bloom_word (i : N) : option N :=
    match c with
    | ELF32 => res_ok (table_get (parse_u32 s c) 4 bloom i)
    | ELF64 => res_ok (table_get (parse_u64 s c) 8 bloom i)
    end.
  Definition bit_set (w b : N) : Prop := N.land w (N.shiftl 1 b) <> 0.
  Definition gname (j : N) : option (list N) := sym_name s c symtab strtab (j + gh_symoffset hdr).
  Record gnu_wf : Prop := {
    gwf_nbucket : 0 < table_len 4 buckets;
    gwf_nbloom : 0 < gh_nbloom hdr;
    gwf_bloom_words : forall i, i < gh_nbloom hdr -> exists w, bloom_word i = Some w;
    gwf_nshift : gh_nshift hdr < 32;
    gwf_symoffset : gh_symoffset hdr <= U32_MAX;
    gwf_chains_small : table_len 4 chains <= U32_MAX * U32_MAX;
    gwf_named : forall j, j < table_len 4 chains -> exists nm, gname j = Some nm;
    gwf_chain_hash : forall j nm ch, j < table_len 4 chains -> gname j = Some nm -> word_at s c chains j = Some ch ->
                                     N.lor ch 1 = N.lor (gnu_hash nm) 1;
    gwf_bloom : forall j nm, j < table_len 4 chains -> gname j = Some nm ->
      exists w, bloom_word ((gnu_hash nm / gwidth) mod gh_nbloom hdr) = Some w /\
                bit_set w (gnu_hash nm mod gwidth) /\
                bit_set w (N.shiftr (gnu_hash nm) (gh_nshift hdr) mod gwidth);
    gwf_bucket : forall j nm, j < table_len 4 chains -> gname j = Some nm ->
      exists st, word_at s c buckets (gnu_hash nm mod table_len 4 buckets) = Some st /\
                 gh_symoffset hdr <= st /\ st - gh_symoffset hdr <= j /\
                 forall k ch, st - gh_symoffset hdr <= k -> k < j -> word_at s c chains k = Some ch -> N.land ch 1 = 0
  }.
End GnuWf.
