(* C11/C12 specification side: what a well-formed hash section is, stated over the decoded
   tables (bucket array, chain array, symbol table, string table). *)
Require Import V.Base.Prim V.Model.Structs V.Model.Table V.Model.StrTab V.Model.Hash.

Section Wf.
  Variables (s : espec) (c : class) (buckets chains symtab strtab : buf).

  (* the name of symbol i, when the symbol and its NUL-terminated name are readable *)
  Definition sym_name (i : N) : option (list N) :=
    match table_get (parse_sym s c) (sym_size c) symtab i with
    | Ok y => match get_raw strtab (st_name y) with
              | Ok r => Some (range_bytes strtab r)
              | _ => None
              end
    | _ => None
    end.
  Definition word_at (t : buf) (i : N) : option N := res_ok (table_get (parse_u32 s c) 4 t i).
  Definition nbucket : N := table_len 4 buckets.
  Definition nchain : N := table_len 4 chains.

  (* SysV: the chain that starts at index idx and ends with 0 *)
  Inductive chain_path : N -> list N -> Prop :=
  | cp_nil : chain_path 0 []
  | cp_cons i nxt p : i <> 0 -> word_at chains i = Some nxt -> chain_path nxt p ->
                      chain_path i (i :: p).

  (* gABI .hash: every bucket heads a 0-terminated chain of at most nchain readable symbols, and
     every symbol 1 <= i < nchain lies on the chain of the bucket its name hashes to *)
  Record sysv_wf : Prop := {
    swf_nbucket : 0 < nbucket;
    swf_paths : forall b, b < nbucket ->
      exists idx p, word_at buckets b = Some idx /\ chain_path idx p /\
                    (length p <= N.to_nat nchain)%nat /\
                    Forall (fun i => exists nm, sym_name i = Some nm) p;
    swf_member : forall i nm, 1 <= i < nchain -> sym_name i = Some nm ->
      exists idx p, word_at buckets (sysv_hash nm mod nbucket) = Some idx /\
                    chain_path idx p /\ In i p
  }.
End Wf.
