(* C14 specification: the ABI encoding of a sequence of notes, and what iterating it must yield. *)
Require Import V.Base.Prim V.Spec.Ints V.Model.Structs V.Model.Note.

Record rawnote := { rn_type : N; rn_name : list byte; rn_desc : list byte }.
Definition padlen (off align : N) : N := if 0 <? off mod align then align - off mod align else 0.
Definition zeros (n : N) : list byte := repeat x00 (N.to_nat n).

(* positions of the parts of a record that starts at p *)
Definition name_end (p : N) (n : rawnote) : N := p + 12 + llen (rn_name n).
Definition desc_start (align p : N) (n : rawnote) : N := name_end p n + padlen (name_end p n) align.
Definition desc_end (align p : N) (n : rawnote) : N := desc_start align p n + llen (rn_desc n).
Definition note_end (align p : N) (n : rawnote) : N := desc_end align p n + padlen (desc_end align p n) align.

(* 12-byte header of three 32-bit words in the file's order (both classes), name, padding up to
   the alignment, descriptor, padding *)
Definition enc_note (le : bool) (align p : N) (n : rawnote) : list byte :=
  encode le 4 (llen (rn_name n)) ++ encode le 4 (llen (rn_desc n)) ++ encode le 4 (rn_type n)
  ++ rn_name n ++ zeros (padlen (name_end p n) align)
  ++ rn_desc n ++ zeros (padlen (desc_end align p n) align).
Fixpoint enc_notes (le : bool) (align p : N) (l : list rawnote) : list byte :=
  match l with
  | [] => []
  | n :: t => enc_note le align p n ++ enc_notes le align (note_end align p n) t
  end.
Fixpoint notes_end (align p : N) (l : list rawnote) : N :=
  match l with [] => p | n :: t => notes_end align (note_end align p n) t end.

(* "GNU\0" *)
Definition is_gnu (name : list byte) : bool :=
  match name with
  | [a; b; c; e] => (Byte.to_N a =? 71) && (Byte.to_N b =? 78) && (Byte.to_N c =? 85) && (Byte.to_N e =? 0)
  | _ => false
  end.
Definition word (le : bool) (l : list byte) (k : nat) : N := uvalue le (firstn 4 (skipn (4 * k) l)).
(* the typed item the iterator must yield for a record placed at p *)
Definition expected_note (le : bool) (align p : N) (n : rawnote) : note :=
  let nm := (p + 12, name_end p n) in
  let ds := (desc_start align p n, desc_end align p n) in
  if is_gnu (rn_name n) then
    if rn_type n =? 1 then
      NAbiTag {| at_os := word le (rn_desc n) 0; at_major := word le (rn_desc n) 1;
                 at_minor := word le (rn_desc n) 2; at_subminor := word le (rn_desc n) 3 |}
    else if rn_type n =? 3 then NBuildId ds
    else NAny (rn_type n) nm ds
  else NAny (rn_type n) nm ds.
Fixpoint expected_notes (le : bool) (align p : N) (l : list rawnote) : list note :=
  match l with
  | [] => []
  | n :: t => expected_note le align p n :: expected_notes le align (note_end align p n) t
  end.

(* well-formedness of a note for the round trip: sizes and type fit in 32 bits; a GNU ABI-tag
   note carries the ABI's 16-byte descriptor *)
Definition note_wf (n : rawnote) : Prop :=
  llen (rn_name n) < 4294967296 /\ llen (rn_desc n) < 4294967296 /\ rn_type n < 4294967296 /\
  (is_gnu (rn_name n) = true -> rn_type n = 1 -> llen (rn_desc n) = 16).

(* end of the last descriptor (the final padding may be cut off by the end of the section) *)
Fixpoint last_desc_end (align p : N) (l : list rawnote) : N :=
  match l with
  | [] => p
  | n :: t => match t with
              | [] => desc_end align p n
              | _ => last_desc_end align (note_end align p n) t
              end
  end.
