(* C19 specification side: how the generated tables (Gen/*.v, regenerated from /repo on every
   run) are read.  Nothing here depends on the generated content. *)
From Coq Require Import List String ZArith NArith Bool.
Require Import V.Ref.RefLayout V.Model.ErrFmt.
Import ListNotations.
Open Scope string_scope.

Section Lookup.
  Context {A : Type}.
  Fixpoint lookup (n : string) (l : list (string * A)) : option A :=
    match l with
    | [] => None
    | (k, v) :: t => if String.eqb k n then Some v else lookup n t
    end.
End Lookup.

(* ---------- constants ---------- *)
Definition ctable := list (string * (string * Z)).
Definition const_val (tab : ctable) (n : string) : option Z := option_map snd (lookup n tab).

(* every reference name that the crate exports has the reference value *)
Definition const_ok (tab : ctable) (e : string * Z) : bool :=
  match const_val tab (fst e) with Some v => Z.eqb v (snd e) | None => true end.

(* ---------- to_str: a Rust match on constant patterns takes the first arm whose constant
   equals the scrutinee ---------- *)
Fixpoint to_str_sem (tab : ctable) (arms : list (string * string)) (v : Z) : option string :=
  match arms with
  | [] => None
  | (c, s) :: t =>
    match const_val tab c with
    | Some cv => if Z.eqb cv v then Some s else to_str_sem tab t v
    | None => to_str_sem tab t v
    end
  end.
(* the same with the constants of the arms looked up once (used to evaluate the table on many inputs) *)
Definition resolve (tab : ctable) (arms : list (string * string)) : list (option Z * string) :=
  map (fun a => (const_val tab (fst a), snd a)) arms.
Fixpoint sem_r (r : list (option Z * string)) (v : Z) : option string :=
  match r with
  | [] => None
  | (Some cv, s) :: t => if Z.eqb cv v then Some s else sem_r t v
  | (None, _) :: t => sem_r t v
  end.
(* an arm is right when the string it returns is the name of an exported constant whose value
   is the value of the constant it matches on *)
Definition arm_ok (tab : ctable) (a : string * string) : bool :=
  match const_val tab (fst a), const_val tab (snd a) with
  | Some cv, Some sv => Z.eqb cv sv
  | _, _ => false
  end.
(* the helpers that return identifiers (the *_human_str ones and the ABI-tag OS names return prose) *)
Definition symbolic_fns : list string :=
  ["e_osabi_to_str"; "e_type_to_str"; "e_machine_to_str"; "sh_type_to_str"; "p_type_to_str";
   "st_symtype_to_str"; "st_bind_to_str"; "st_vis_to_str"; "ch_type_to_str"; "d_tag_to_str"].
Definition fn_ok (tab : ctable) (fns : list (string * (string * list (string * string)))) (f : string) : bool :=
  match lookup f fns with
  | Some (_, arms) => forallb (arm_ok tab) arms
  | None => false
  end.

(* ---------- *_to_string: the name when the *_to_str helper it consults has one, otherwise
   format!("prefix({v:#x})") ---------- *)
Definition to_string_sem (tab : ctable) (fns : list (string * (string * list (string * string))))
           (w : string * (string * string)) (v : Z) : option string :=
  let '(_, (inner, prefix)) := w in
  match lookup inner fns with
  | Some (_, arms) =>
    Some (match to_str_sem tab arms v with
          | Some s => s
          | None => prefix ++ "(" ++ hex0xl (Z.to_N v) ++ ")"
          end)
  | None => None
  end.
Definition wrapper_ok (fns : list (string * (string * list (string * string)))) (e : string * (string * (string * string))) : bool :=
  let '(_, (_, (inner, _))) := e in
  existsb (String.eqb inner) symbolic_fns && match lookup inner fns with Some _ => true | None => false end.

(* ---------- p_flags_to_string (to_str.rs): the one wrapper of another shape, written by hand.
   `match p_flags < 8 { true => format!("{r}{w}{x}") with r/w/x = letter when p_flags & abi::PF_* != 0
   else blank, false => format!("p_flags({p_flags:#x})") }`.  The three masks are looked up in the
   constant table regenerated from abi.rs, so a changed PF_* constant changes this reading too. ---------- *)
Definition flag_letter (tab : ctable) (c : string) (letter : string) (v : Z) : string :=
  match const_val tab c with
  | Some m => if Z.eqb (Z.land v m) 0 then " " else letter
  | None => "?"
  end.
Definition p_flags_string (tab : ctable) (v : Z) : string :=
  if Z.ltb v 8 then flag_letter tab "PF_R" "R" v ++ flag_letter tab "PF_W" "W" v ++ flag_letter tab "PF_X" "E" v
  else "p_flags(" ++ hex0xl (Z.to_N v) ++ ")".
(* the gABI reading: readable = bit 2, writable = bit 1, executable = bit 0 *)
Definition p_flags_ref (v : Z) : string :=
  (if Z.testbit v 2 then "R" else " ") ++ (if Z.testbit v 1 then "W" else " ") ++ (if Z.testbit v 0 then "E" else " ").

(* ---------- #[repr(C)] layout on x86_64 (and every target with natural alignment of the fixed
   width integers): each field at the next multiple of its alignment, size rounded to the
   largest alignment ---------- *)
Definition fty_align (t : fty) : nat := match t with U w | I w => w | Arr _ => 1%nat end.
Definition round_up (x a : nat) : nat := ((x + a - 1) / a * a)%nat.
Fixpoint c_offsets (l : layout) (cur : nat) : list (string * (nat * fty)) * nat :=
  match l with
  | [] => ([], cur)
  | (n, t) :: r =>
    let o := round_up cur (fty_align t) in
    let (fs, e) := c_offsets r (o + fty_size t) in ((n, (o, t)) :: fs, e)
  end.
Definition c_size (l : layout) : nat :=
  round_up (snd (c_offsets l 0)) (fold_right (fun f m => Nat.max (fty_align (snd f)) m) 1%nat l).
(* the gABI structure: fields packed in ABI order (every gABI structure is naturally aligned) *)
Fixpoint abi_offsets (l : layout) (cur : nat) : list (string * (nat * fty)) :=
  match l with
  | [] => []
  | (n, t) :: r => (n, (cur, t)) :: abi_offsets r (cur + fty_size t)
  end.

(* the reference structures by the name the crate exports them under.  Elf64_Chdr: the gABI
   names the padding word ch_reserved. *)
Definition ref_structs : list (string * layout) :=
  [("Elf32_Ehdr", Elf32_Ehdr); ("Elf64_Ehdr", Elf64_Ehdr); ("Elf32_Shdr", Elf32_Shdr); ("Elf64_Shdr", Elf64_Shdr);
   ("Elf32_Phdr", Elf32_Phdr); ("Elf64_Phdr", Elf64_Phdr); ("Elf32_Sym", Elf32_Sym); ("Elf64_Sym", Elf64_Sym);
   ("Elf32_Rel", Elf32_Rel); ("Elf64_Rel", Elf64_Rel); ("Elf32_Rela", Elf32_Rela); ("Elf64_Rela", Elf64_Rela);
   ("Elf32_Dyn", Elf32_Dyn); ("Elf64_Dyn", Elf64_Dyn); ("Elf32_Chdr", Elf32_Chdr); ("Elf64_Chdr", Elf64_Chdr)].

Definition fty_eqb (a b : fty) : bool :=
  match a, b with
  | U x, U y | I x, I y | Arr x, Arr y => Nat.eqb x y
  | _, _ => false
  end.
Fixpoint offs_eqb (a b : list (string * (nat * fty))) : bool :=
  match a, b with
  | [], [] => true
  | (n, (o, t)) :: a', (n', (o', t')) :: b' =>
    String.eqb n n' && Nat.eqb o o' && fty_eqb t t' && offs_eqb a' b'
  | _, _ => false
  end.
(* the exported struct [name] has the ABI's fields (name, type) at the ABI's offsets and the ABI's size *)
Definition struct_ok (gen : list (string * layout)) (r : string * layout) : bool :=
  match lookup (fst r) gen with
  | Some l => offs_eqb (fst (c_offsets l 0)) (abi_offsets (snd r) 0)
              && Nat.eqb (c_size l) (layout_size (snd r))
  | None => false
  end.
