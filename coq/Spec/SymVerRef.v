(* C13 specification side: what a well-formed GNU version section is (records linked by their
   next / aux offsets, in any forward placement), and the reference answers of the two queries. *)
Require Import V.Base.Prim V.Model.Structs V.Model.Table V.Model.StrTab V.Model.SymVer.

Section Layout.
  Variables (s : espec) (c : class) (d : buf).

  (* cnt records of one kind linked by their next offsets from off; every record but the last
     has next <> 0 (the ABI: vn_next / vna_next / vd_next / vda_next = 0 terminates the list).
     The list carries each record with the offset it sits at. *)
  Section Chain.
    Context {T : Type}.
    Variables (parse : buf -> M T) (nxt : T -> N).
    Inductive chain : N -> nat -> list (T * N) -> Prop :=
    | ch_nil off : chain off O []
    | ch_cons off cnt x l : fst (parse d off) = Ok x -> (cnt <> O -> nxt x <> 0) ->
                            chain (off + nxt x) cnt l -> chain off (S cnt) ((x, off) :: l).
  End Chain.

  (* .gnu.version_r: cnt Verneed records from off, each with its vn_cnt Vernaux records linked
     from (record offset + vn_aux) *)
  Definition need_entry := (verneed * N * list (vernaux * N))%type.
  Inductive need_layout : N -> nat -> list need_entry -> Prop :=
  | nl_nil off : need_layout off O []
  | nl_cons off cnt vn al rest :
      fst (parse_verneed s c d off) = Ok vn -> (cnt <> O -> vn_next vn <> 0) ->
      chain (parse_vernaux s c) vna_next (off + vn_aux vn) (N.to_nat (vn_cnt vn)) al ->
      need_layout (off + vn_next vn) cnt rest ->
      need_layout off (S cnt) ((vn, off, al) :: rest).

  (* .gnu.version_d: cnt Verdef records, each with its vd_cnt Verdaux records *)
  Definition def_entry := (verdef * N * list (verdaux * N))%type.
  Inductive def_layout : N -> nat -> list def_entry -> Prop :=
  | dl_nil off : def_layout off O []
  | dl_cons off cnt vd al rest :
      fst (parse_verdef s c d off) = Ok vd -> (cnt <> O -> vd_next vd <> 0) ->
      chain (parse_verdaux s c) vda_next (off + vd_aux vd) (N.to_nat (vd_cnt vd)) al ->
      def_layout (off + vd_next vd) cnt rest ->
      def_layout off (S cnt) ((vd, off, al) :: rest).
End Layout.

(* ---------- reference answers ---------- *)
(* the first auxiliary record, in chain order (files in order, within a file its records in
   order), whose vna_other equals the index *)
Fixpoint first_aux (idx : N) (needs : list need_entry) : option (verneed * vernaux) :=
  match needs with
  | [] => None
  | (vn, _, al) :: rest =>
    match find (fun a => vna_other (fst a) =? idx) al with
    | Some a => Some (vn, fst a)
    | None => first_aux idx rest
    end
  end.

Definition requirement_ref (strs : buf) (ver : N) (needs : list need_entry) : res (option requirement) :=
  match first_aux (vx_index ver) needs with
  | None => Ok None
  | Some (vn, a) =>
    let? file := strtab_get strs (vn_file vn) in
    let? name := strtab_get strs (vna_name a) in
    Ok (Some {| rq_file := file; rq_name := name; rq_hash := vna_hash a; rq_flags := vna_flags a;
                rq_hidden := vx_is_hidden ver |})
  end.

Definition definition_ref (ver : N) (defs : list def_entry) : res (option definition) :=
  match find (fun e => vd_ndx (fst (fst e)) =? vx_index ver) defs with
  | None => Ok None
  | Some (vd, off, _) =>
    Ok (Some {| df_hash := vd_hash vd; df_flags := vd_flags vd;
                df_names := {| vi_count := vd_cnt vd; vi_off := off + vd_aux vd |};
                df_hidden := vx_is_hidden ver |})
  end.
