(* C02 specification: the value of a named ABI field of a structure located at [off] in [d],
   read per the frozen layout table in the given byte order. *)
Require Import V.Base.Prim V.Spec.Ints V.Ref.RefLayout.
From Coq Require Import String.

(* unsigned reading (zero extension into N) *)
Definition fval (l : layout) (little : bool) (d : buf) (off : N) (name : string) : N :=
  match field_off l name 0 with
  | Some (o, t) => uvalue little (bytes_at d (off + o) (fty_size t))
  | None => 0
  end.
(* signed reading (sign extension into Z) *)
Definition fvalz (l : layout) (little : bool) (d : buf) (off : N) (name : string) : Z :=
  match field_off l name 0 with
  | Some (o, t) => svalue little (bytes_at d (off + o) (fty_size t))
  | None => 0%Z
  end.
Definition lsize (l : layout) : N := N.of_nat (layout_size l).

(* ---------- what each parser must return: record fields are the ABI fields of that name ---------- *)
Require Import V.Model.Structs.
Open Scope string_scope.
Open Scope N_scope.
Definition pick {A} (c : class) (a b : A) : A := match c with ELF32 => a | ELF64 => b end.

Definition shdr_spec (s : espec) (c : class) (d : buf) (off : N) : shdr :=
  let f := fval (pick c Elf32_Shdr Elf64_Shdr) (is_little s) d off in
  {| sh_name := f "sh_name"; sh_type := f "sh_type"; sh_flags := f "sh_flags"; sh_addr := f "sh_addr";
     sh_offset := f "sh_offset"; sh_size := f "sh_size"; sh_link := f "sh_link"; sh_info := f "sh_info";
     sh_addralign := f "sh_addralign"; sh_entsize := f "sh_entsize" |}.
Definition phdr_spec (s : espec) (c : class) (d : buf) (off : N) : phdr :=
  let f := fval (pick c Elf32_Phdr Elf64_Phdr) (is_little s) d off in
  {| p_type := f "p_type"; p_offset := f "p_offset"; p_vaddr := f "p_vaddr"; p_paddr := f "p_paddr";
     p_filesz := f "p_filesz"; p_memsz := f "p_memsz"; p_flags := f "p_flags"; p_align := f "p_align" |}.
Definition sym_spec (s : espec) (c : class) (d : buf) (off : N) : sym :=
  let f := fval (pick c Elf32_Sym Elf64_Sym) (is_little s) d off in
  {| st_name := f "st_name"; st_shndx := f "st_shndx"; st_info := f "st_info"; st_other := f "st_other";
     st_value := f "st_value"; st_size := f "st_size" |}.
(* ELF32_R_SYM(i) = i >> 8, ELF32_R_TYPE(i) = i & 0xff; ELF64_R_SYM(i) = i >> 32,
   ELF64_R_TYPE(i) = i & 0xffffffff: stated with div/mod *)
Definition r_sym_of (c : class) (info : N) : N := pick c (info / 256) (info / 4294967296).
Definition r_type_of (c : class) (info : N) : N := pick c (info mod 256) (info mod 4294967296).
Definition rel_spec (s : espec) (c : class) (d : buf) (off : N) : rel :=
  let f := fval (pick c Elf32_Rel Elf64_Rel) (is_little s) d off in
  {| r_offset := f "r_offset"; r_sym := r_sym_of c (f "r_info"); r_type := r_type_of c (f "r_info") |}.
Definition rela_spec (s : espec) (c : class) (d : buf) (off : N) : rela :=
  let l := pick c Elf32_Rela Elf64_Rela in
  let f := fval l (is_little s) d off in
  {| ra_offset := f "r_offset"; ra_sym := r_sym_of c (f "r_info"); ra_type := r_type_of c (f "r_info");
     ra_addend := fvalz l (is_little s) d off "r_addend" |}.
Definition dyn_spec (s : espec) (c : class) (d : buf) (off : N) : dyn :=
  let l := pick c Elf32_Dyn Elf64_Dyn in
  {| d_tag := fvalz l (is_little s) d off "d_tag"; d_un := fval l (is_little s) d off "d_un" |}.
Definition chdr_spec (s : espec) (c : class) (d : buf) (off : N) : chdr :=
  let f := fval (pick c Elf32_Chdr Elf64_Chdr) (is_little s) d off in
  {| ch_type := f "ch_type"; ch_size := f "ch_size"; ch_addralign := f "ch_addralign" |}.
Definition nhdr32_spec (s : espec) (d : buf) (off : N) : nhdr :=
  let f := fval Elf_Nhdr (is_little s) d off in
  {| n_namesz := f "n_namesz"; n_descsz := f "n_descsz"; n_type := f "n_type" |}.
Definition abitag_spec (s : espec) (d : buf) (off : N) : abitag :=
  let f := fval Elf_AbiTag (is_little s) d off in
  {| at_os := f "os"; at_major := f "major"; at_minor := f "minor"; at_subminor := f "subminor" |}.
Definition sysvhdr_spec (s : espec) (d : buf) (off : N) : sysvhdr :=
  let f := fval Elf_HashHdr (is_little s) d off in
  {| sv_nbucket := f "nbucket"; sv_nchain := f "nchain" |}.
Definition gnuhdr_spec (s : espec) (d : buf) (off : N) : gnuhdr :=
  let f := fval Elf_GnuHashHdr (is_little s) d off in
  {| gh_nbucket := f "nbuckets"; gh_symoffset := f "symoffset"; gh_nbloom := f "bloom_size";
     gh_nshift := f "bloom_shift" |}.
Definition versym_spec (s : espec) (d : buf) (off : N) : N := fval Elf_Versym (is_little s) d off "vs".
Definition verdef_spec (s : espec) (d : buf) (off : N) : verdef :=
  let f := fval Elf_Verdef (is_little s) d off in
  {| vd_flags := f "vd_flags"; vd_ndx := f "vd_ndx"; vd_cnt := f "vd_cnt"; vd_hash := f "vd_hash";
     vd_aux := f "vd_aux"; vd_next := f "vd_next" |}.
Definition verdaux_spec (s : espec) (d : buf) (off : N) : verdaux :=
  let f := fval Elf_Verdaux (is_little s) d off in
  {| vda_name := f "vda_name"; vda_next := f "vda_next" |}.
Definition verneed_spec (s : espec) (d : buf) (off : N) : verneed :=
  let f := fval Elf_Verneed (is_little s) d off in
  {| vn_cnt := f "vn_cnt"; vn_file := f "vn_file"; vn_aux := f "vn_aux"; vn_next := f "vn_next" |}.
Definition vernaux_spec (s : espec) (d : buf) (off : N) : vernaux :=
  let f := fval Elf_Vernaux (is_little s) d off in
  {| vna_hash := f "vna_hash"; vna_flags := f "vna_flags"; vna_other := f "vna_other";
     vna_name := f "vna_name"; vna_next := f "vna_next" |}.
(* the file header: the fields after e_ident; [d] is the whole header, the tail starts at 16 *)
Definition ehdr_spec (s : espec) (c : class) (osabi abiver : N) (d : buf) (off : N) : ehdr :=
  let f := fval (pick c Elf32_Ehdr Elf64_Ehdr) (is_little s) d off in
  {| e_class := c; e_spec := s; e_version := f "e_version"; e_osabi := osabi; e_abiversion := abiver;
     e_type := f "e_type"; e_machine := f "e_machine"; e_entry := f "e_entry"; e_phoff := f "e_phoff";
     e_shoff := f "e_shoff"; e_flags := f "e_flags"; e_ehsize := f "e_ehsize";
     e_phentsize := f "e_phentsize"; e_phnum := f "e_phnum"; e_shentsize := f "e_shentsize";
     e_shnum := f "e_shnum"; e_shstrndx := f "e_shstrndx" |}.
