(* C03 — returned data is the exact header-designated byte range of the input.
   In the model every byte slice handed out IS an absolute range (start, end) of the caller's
   buffer [f] (nothing is copied); the theorems say which range. *)
Require Import V.Base.Prim V.Spec.Ints V.Spec.AbiLayout V.Model.Structs V.Model.Table V.Model.StrTab
        V.Model.Note V.Model.Hash V.Model.ElfBytes V.Proofs.ElfBytesP.
Open Scope N_scope.

(* sections: empty for SHT_NOBITS (whatever offset/size say) ... *)
Theorem C03_section_nobits : forall f eb h,
  sh_type h = SHT_NOBITS -> section_data f eb h = Ok ((0, 0), None).
Proof. exact section_data_nobits. Qed.
(* ... an error when [sh_offset, sh_offset+sh_size) does not fit in the buffer (never clamped) ... *)
Theorem C03_section_unfit : forall f eb, buf_ok f -> forall h,
  sh_type h <> SHT_NOBITS -> fits f (sh_offset h) (sh_size h) = false -> is_ok (section_data f eb h) = false.
Proof. exact section_data_unfit. Qed.
(* ... exactly [sh_offset, sh_offset+sh_size) otherwise ... *)
Theorem C03_section_plain : forall f eb, buf_ok f -> forall h,
  sh_type h <> SHT_NOBITS -> fits f (sh_offset h) (sh_size h) = true ->
  N.land (sh_flags h) SHF_COMPRESSED = 0 ->
  section_data f eb h = Ok ((sh_offset h, sh_offset h + sh_size h), None).
Proof. exact section_data_plain. Qed.
(* ... and with SHF_COMPRESSED the class's compression header decoded per C02 from the first bytes
   and the remainder of the range (an error if the range is shorter than the header) *)
Theorem C03_section_compressed : forall f eb, buf_ok f -> forall h,
  sh_type h <> SHT_NOBITS -> fits f (sh_offset h) (sh_size h) = true ->
  N.land (sh_flags h) SHF_COMPRESSED <> 0 ->
  let c := e_class (eb_ehdr eb) in
  if sh_size h <? chdr_size c then is_ok (section_data f eb h) = false
  else section_data f eb h =
       Ok ((sh_offset h + chdr_size c, sh_offset h + sh_size h),
           Some (chdr_spec (e_spec (eb_ehdr eb)) c f (sh_offset h))).
Proof. exact section_data_compressed. Qed.

(* segments: [p_offset, p_offset + p_filesz) or an error; p_memsz never enters *)
Theorem C03_segment_data : forall f, buf_ok f -> forall h,
  segment_data f h =
  if USIZE_MAX <? p_offset h + p_filesz h then Err EIntegerOverflow
  else if fits f (p_offset h) (p_filesz h) then Ok (p_offset h, p_offset h + p_filesz h)
       else Err (ESliceReadError (p_offset h) (p_offset h + p_filesz h)).
Proof. exact segment_data_spec. Qed.

(* typed views hand out sub-ranges of their own range holding the file's bytes: string-table
   entries ... *)
Theorem C03_strtab_entry : forall f r off a b, buf_ok f -> fst r <= snd r -> snd r <= blen f ->
  get_raw (view f r) off = Ok (a, b) ->
  fst r + b < snd r /\
  bytes_at (view f r) a (N.to_nat (b - a)) = bytes_at f (fst r + a) (N.to_nat (b - a)).
Proof. exact strtab_entry_in_file. Qed.
(* ... and note names / descriptors / build-ids *)
Theorem C03_note_ranges : forall s c align d off n nx,
  note_parse s c align d off = (Ok n, nx) ->
  Forall (fun r => off <= fst r /\ fst r <= snd r /\ snd r <= blen d) (note_ranges n).
Proof. exact note_ranges_in. Qed.

(* non-vacuity *)
Example C03_example :
  let f := of_list (repeat x41 100) in
  let eb := {| eb_ehdr := ehdr_spec Little ELF64 0 0 f 0; eb_shdrs := None; eb_phdrs := None |} in
  let h := {| sh_name := 0; sh_type := 1; sh_flags := 0; sh_addr := 0; sh_offset := 90; sh_size := 10;
              sh_link := 0; sh_info := 0; sh_addralign := 1; sh_entsize := 0 |} in
  buf_ok f /\ fits f 90 10 = true /\ section_data f eb h = Ok ((90, 100), None) /\
  is_ok (section_data f eb {| sh_name := 0; sh_type := 1; sh_flags := 0; sh_addr := 0; sh_offset := 91;
                             sh_size := 10; sh_link := 0; sh_info := 0; sh_addralign := 1; sh_entsize := 0 |}) = false.
Proof. cbv zeta. split; [vm_compute; discriminate|]. repeat split; vm_compute; reflexivity. Qed.
