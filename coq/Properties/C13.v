(* C13 — GNU symbol-version queries resolve to the right requirement / definition.
   Well-formedness (Spec/SymVerRef.v): need_layout / def_layout say that the section bytes contain
   cnt records linked by their vn_next / vd_next offsets, each with its vn_cnt / vd_cnt auxiliary
   records linked by vna_next / vda_next from (record offset + vn_aux / vd_aux) -- any forward
   placement, contiguous or interleaved. *)
Require Import V.Base.Prim V.Spec.Ints V.Model.Structs V.Model.Table V.Model.StrTab V.Model.SymVer
        V.Model.ElfBytes V.Model.Hash V.Spec.SymVerRef V.Proofs.StructsP V.Proofs.TableP V.Proofs.SymVerP V.Proofs.SymVerQ.
From Coq Require Import Lia.
Open Scope N_scope.

(* the four iterators yield exactly the linked records, in chain order *)
Theorem C13_iter_aux : forall s c d, buf_ok d ->
  (forall cnt off l, chain d (parse_vernaux s c) vna_next off cnt l ->
     drain (vernaux_next s c d) (link_fuel d) {| vi_count := N.of_nat cnt; vi_off := off |} = Some (Ok l)) /\
  (forall cnt off l, chain d (parse_verdaux s c) vda_next off cnt l ->
     drain (verdaux_next s c d) (link_fuel d) {| vi_count := N.of_nat cnt; vi_off := off |} = Some (Ok l)).
Proof.
  intros s c d Hd. split; intros cnt off l H.
  - exact (chain_drain _ _ _ (link_ok_vernaux s c) d Hd _ _ _ H).
  - exact (chain_drain _ _ _ (link_ok_verdaux s c) d Hd _ _ _ H).
Qed.
Theorem C13_iter_outer : forall s c d, buf_ok d ->
  (forall cnt off l, need_layout s c d off cnt l ->
     drain (verneed_next s c d) (link_fuel d) {| vi_count := N.of_nat cnt; vi_off := off |}
     = Some (Ok (map need_item l))) /\
  (forall cnt off l, def_layout s c d off cnt l ->
     drain (verdef_next s c d) (link_fuel d) {| vi_count := N.of_nat cnt; vi_off := off |}
     = Some (Ok (map def_item l))).
Proof.
  intros s c d Hd. split; intros cnt off l H.
  - exact (drain_steps _ _ _ (need_steps s c d Hd _ _ _ H) _ (need_fuel s c d Hd _ _ _ H)).
  - exact (drain_steps _ _ _ (def_steps s c d Hd _ _ _ H) _ (def_fuel s c d Hd _ _ _ H)).
Qed.

(* requirement of symbol i: the needed file, version name, hash and flags of the FIRST auxiliary
   record (chain order) whose vna_other equals the low 15 bits of versym[i]; hidden = bit 15;
   Ok None when no record matches (incl. 0 / 1 when unlisted); the error of versym.get(i) when i
   is beyond the versym table -- never a record *)
Theorem C13_requirement : forall s c d versym strs defs cnt l i, buf_ok d ->
  need_layout s c d 0 cnt l ->
  get_requirement s c {| svt_versym := versym;
                         svt_needs := Some ({| vi_count := N.of_nat cnt; vi_off := 0 |}, d, strs);
                         svt_defs := defs |} i =
  Some (let? ver := table_get (parse_versym s c) 2 versym i in requirement_ref strs ver l).
Proof. intros s c d versym strs defs cnt l i Hd. exact (get_requirement_ref s c d Hd versym strs defs cnt l i). Qed.

(* definition of symbol i: hash, flags and names iterator of the first definition whose vd_ndx
   equals the low 15 bits of versym[i] *)
Theorem C13_definition : forall s c d versym strs needs cnt l i, buf_ok d ->
  def_layout s c d 0 cnt l ->
  get_definition s c {| svt_versym := versym; svt_needs := needs;
                        svt_defs := Some ({| vi_count := N.of_nat cnt; vi_off := 0 |}, d, strs) |} i =
  Some (let? ver := table_get (parse_versym s c) 2 versym i in definition_ref ver l).
Proof. intros s c d versym strs needs cnt l i Hd. exact (get_definition_ref s c d Hd versym strs needs cnt l i). Qed.

(* ... whose names are the strings of its auxiliary records, in chain order *)
Theorem C13_definition_names : forall s c d strs cnt off al, buf_ok d ->
  chain d (parse_verdaux s c) vda_next off cnt al ->
  definition_names s c d strs {| vi_count := N.of_nat cnt; vi_off := off |} =
  Some (Ok (map (fun a => strtab_get strs (vda_name (fst a))) al)).
Proof. intros s c d strs cnt off al Hd. exact (definition_names_ref s c d Hd strs cnt off al). Qed.

(* index = low 15 bits, hidden = bit 15 of the 16-bit versym entry *)
Theorem C13_index_bits : forall v, v < 65536 ->
  vx_index v = v mod 32768 /\ vx_is_hidden v = (32768 <=? v).
Proof. intros v Hv. split; [apply vx_index_mod|now apply vx_hidden_bit]. Qed.

(* a symbol index beyond the versym table never gives a record: versym.get(i) is an error
   exactly when i >= len (C09), and both queries propagate it *)
Theorem C13_beyond_versym : forall s c versym i, buf_ok versym ->
  table_len 2 versym <= i -> is_ok (table_get (parse_versym s c) 2 versym i) = false.
Proof.
  intros s c versym i Hd Hi.
  destruct (is_ok (table_get (parse_versym s c) 2 versym i)) eqn:E; [|reflexivity].
  apply (get_ok_iff (parse_versym s c) 2 ltac:(reflexivity) (regular_versym s c) versym i Hd) in E. lia.
Qed.

(* wiring: the record counts come from sh_info, the strings from the section sh_link names *)
Theorem C13_wiring : forall f eb r h,
  linked f eb r h =
  (let? dr := range_in f (sh_range h) in
   let? strh := shdr_get f eb r (sh_link h) in
   let? tr := range_in f (sh_range strh) in
   Ok (sh_info h, dr, tr)).
Proof. reflexivity. Qed.

(* non-vacuity: one Verneed with two Vernaux records (little endian), versym = [0x8003] *)
Definition ex_need : buf := of_list
  [x01;x00;x02;x00; x01;x00;x00;x00; x10;x00;x00;x00; x00;x00;x00;x00;
   x11;x00;x00;x00; x00;x00; x02;x00; x05;x00;x00;x00; x10;x00;x00;x00;
   x22;x00;x00;x00; x00;x00; x03;x00; x09;x00;x00;x00; x00;x00;x00;x00].
Definition ex_strs : buf := of_list [x00;x6c;x69;x62;x00;x76;x31;x00;x00;x76;x32;x00].
Definition ex_vn : verneed := {| vn_cnt := 2; vn_file := 1; vn_aux := 16; vn_next := 0 |}.
Definition ex_a1 : vernaux := {| vna_hash := 17; vna_flags := 0; vna_other := 2; vna_name := 5; vna_next := 16 |}.
Definition ex_a2 : vernaux := {| vna_hash := 34; vna_flags := 0; vna_other := 3; vna_name := 9; vna_next := 0 |}.
Example C13_example :
  buf_ok ex_need /\
  need_layout Little ELF64 ex_need 0 1 [(ex_vn, 0, [(ex_a1, 16); (ex_a2, 32)])] /\
  get_requirement Little ELF64
    {| svt_versym := of_list [x03; x80];
       svt_needs := Some ({| vi_count := 1; vi_off := 0 |}, ex_need, ex_strs); svt_defs := None |} 0
  = Some (Ok (Some {| rq_file := (1, 4); rq_name := (9, 11); rq_hash := 34; rq_flags := 0; rq_hidden := true |})).
Proof.
  split; [vm_compute; discriminate|]. split; [|vm_compute; reflexivity].
  apply nl_cons; [vm_compute; reflexivity|intros H; now elim H| |apply nl_nil].
  change (N.to_nat (vn_cnt ex_vn)) with 2%nat.
  apply ch_cons; [vm_compute; reflexivity|intros _; discriminate|].
  apply ch_cons; [vm_compute; reflexivity|intros H; now elim H|apply ch_nil].
Qed.
