(* C11 — GNU hash lookup is sound on any table and complete on well-formed ones; the exported hash
   function is the GNU hash. *)
Require Import V.Base.Prim V.Model.Structs V.Model.Table V.Model.StrTab V.Model.Hash V.Spec.HashWf V.Proofs.HashP V.Proofs.GnuP.
From Coq Require Import Lia.
Open Scope N_scope.

(* djb2: h*33 + c, seed 5381, modulo 2^32 *)
Theorem C11_hash_fn : forall name, gnu_hash name = fold_left gnu_step_ref name 5381.
Proof. exact gnu_hash_is_ref. Qed.

Theorem C11_sound : forall s d t name symtab strtab i y,
  gnu_find s d t name symtab strtab = Ok (Some (i, y)) ->
  table_get (parse_sym s (g_class t)) (sym_size (g_class t)) symtab i = Ok y /\
  exists r, get_raw strtab (st_name y) = Ok r /\ range_bytes strtab r = name.
Proof. exact gnu_find_sound. Qed.

(* completeness on a well-formed .gnu.hash (Spec/HashWf.v, gnu_wf: every hashed symbol has a
   readable name, its chain entry carries its hash, both of its bloom bits are set in its bloom
   word, its bucket's chain starts at or before it with no stop bit in between; either class and
   byte order): every hashed symbol is found by name ... *)
Theorem C11_complete_present : forall s c hdr bloom buckets chains symtab strtab name,
  buf_ok chains -> gnu_wf s c hdr bloom buckets chains symtab strtab ->
  (exists j, j < table_len 4 chains /\ gname s c hdr symtab strtab j = Some name) ->
  exists i y, gnu_find_in s c hdr bloom buckets chains symtab strtab name = Ok (Some (i, y)).
Proof. exact gnu_complete_present. Qed.
(* ... and every absent name gives None, also when its hash, bloom bits or bucket collide with
   present ones *)
Theorem C11_complete_absent : forall s c hdr bloom buckets chains symtab strtab name,
  buf_ok chains -> buf_ok buckets -> gnu_wf s c hdr bloom buckets chains symtab strtab ->
  (forall j, j < table_len 4 chains -> gname s c hdr symtab strtab j <> Some name) ->
  gnu_find_in s c hdr bloom buckets chains symtab strtab name = Ok None.
Proof. exact gnu_complete_absent. Qed.
Theorem C11_find_is_find_in : forall s d t name symtab strtab,
  gnu_find s d t name symtab strtab =
  gnu_find_in s (g_class t) (g_hdr t) (view d (g_bloom t)) (view d (g_buckets t)) (view d (g_chains t)) symtab strtab name.
Proof. reflexivity. Qed.

(* non-vacuity: a .gnu.hash built for the one symbol "a" (ELF64, little endian, 1 bucket, 1 bloom
   word, shift 5, symoffset 1) is well-formed, finds "a" and answers None for "b" *)
Definition ex_tab : buf := of_list
  [x01; x00; x00; x00; x01; x00; x00; x00; x01; x00; x00; x00; x05; x00; x00; x00; x40; x00; x00; x00; x00; x00; x01; x00;
   x01; x00; x00; x00; x07; xb6; x02; x00].
Definition ex_symtab : buf := of_list
  [x00; x00; x00; x00; x00; x00; x00; x00; x00; x00; x00; x00; x00; x00; x00; x00; x00; x00; x00; x00; x00; x00; x00; x00;
   x01; x00; x00; x00; x11; x00; x01; x00; x00; x10; x00; x00; x00; x00; x00; x00; x00; x00; x00; x00; x00; x00; x00; x00].
Definition ex_strtab : buf := of_list [x00; x61; x00].
Definition ex_hdr : gnuhdr := {| gh_nbucket := 1; gh_symoffset := 1; gh_nbloom := 1; gh_nshift := 5 |}.
Example C11_wf_example :
  let bloom := view ex_tab (16, 24) in let buckets := view ex_tab (24, 28) in let chains := view ex_tab (28, 32) in
  gnu_new Little ELF64 ex_tab = Ok {| g_hdr := ex_hdr; g_class := ELF64; g_bloom := (16, 24); g_buckets := (24, 28); g_chains := (28, 32) |} /\
  gnu_wf Little ELF64 ex_hdr bloom buckets chains ex_symtab ex_strtab /\
  gnu_find_in Little ELF64 ex_hdr bloom buckets chains ex_symtab ex_strtab [97] =
    Ok (Some (1, {| st_name := 1; st_shndx := 1; st_info := 17; st_other := 0; st_value := 4096; st_size := 0 |})) /\
  gnu_find_in Little ELF64 ex_hdr bloom buckets chains ex_symtab ex_strtab [98] = Ok None.
Proof.
  cbv zeta. split; [vm_compute; reflexivity|]. split; [|split; vm_compute; reflexivity].
  assert (L : table_len 4 (view ex_tab (28, 32)) = 1) by (vm_compute; reflexivity).
  constructor.
  - vm_compute. reflexivity.
  - vm_compute. reflexivity.
  - intros i Hi. assert (i = 0) by (cbn in Hi; lia). subst i. eexists. vm_compute. reflexivity.
  - vm_compute. reflexivity.
  - vm_compute. discriminate.
  - rewrite L. vm_compute. discriminate.
  - intros j Hj. rewrite L in Hj. assert (j = 0) by lia. subst j. eexists. vm_compute. reflexivity.
  - intros j nm ch Hj. rewrite L in Hj. assert (j = 0) by lia. subst j. intros Hn Hc. vm_compute in Hn, Hc.
    injection Hn as <-. injection Hc as <-. vm_compute. reflexivity.
  - intros j nm Hj. rewrite L in Hj. assert (j = 0) by lia. subst j. intros Hn. vm_compute in Hn. injection Hn as <-.
    eexists. split; [vm_compute; reflexivity|]. split; vm_compute; discriminate.
  - intros j nm Hj. rewrite L in Hj. assert (j = 0) by lia. subst j. intros Hn. vm_compute in Hn. injection Hn as <-.
    eexists. split; [vm_compute; reflexivity|]. split; [vm_compute; discriminate|]. split; [vm_compute; discriminate|].
    intros k ch Hk1 Hk2. exfalso. revert Hk2. destruct k; discriminate.
Qed.

Example C11_example : gnu_hash [] = 5381 /\ gnu_hash [112; 114; 105; 110; 116; 102] = 359345080 /\ True.
Proof. split; [reflexivity|]. split; [|exact I]. vm_compute. reflexivity. Qed.
