(* C11 — GNU hash lookup is sound on any table; the exported hash function is the GNU hash.
   (Completeness on well-formed tables: see C11_complete in Proofs/GnuP.v when present; the
   correspondence check compares every lookup on built tables with a linear scan.) *)
Require Import V.Base.Prim V.Model.Structs V.Model.Table V.Model.StrTab V.Model.Hash V.Proofs.HashP.
Open Scope N_scope.

(* djb2: h*33 + c, seed 5381, modulo 2^32 *)
Theorem C11_hash_fn : forall name, gnu_hash name = fold_left gnu_step_ref name 5381.
Proof. exact gnu_hash_is_ref. Qed.

Theorem C11_sound : forall s d t name symtab strtab i y,
  gnu_find s d t name symtab strtab = Ok (Some (i, y)) ->
  table_get (parse_sym s (g_class t)) (sym_size (g_class t)) symtab i = Ok y /\
  exists r, get_raw strtab (st_name y) = Ok r /\ range_bytes strtab r = name.
Proof. exact gnu_find_sound. Qed.

Example C11_example : gnu_hash [] = 5381 /\ gnu_hash [112; 114; 105; 110; 116; 102] = 359345080 /\ True.
Proof. split; [reflexivity|]. split; [|exact I]. vm_compute. reflexivity. Qed.
