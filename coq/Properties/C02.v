(* C02 — every ELF structure decodes exactly per the gABI layout for its class/order.
   Statements only.  [X_spec s c d off] (Spec/AbiLayout.v) is the record whose field F is the
   value of the ABI field named F of the frozen layout table Ref/RefLayout.v, read at its ABI
   offset in the spec's byte order (unsigned -> zero extension into N, signed -> two's
   complement into Z). *)
Require Import V.Base.Prim V.Spec.Ints V.Ref.RefLayout V.Spec.AbiLayout V.Model.Structs.
Require Import V.Proofs.PrimFacts V.Proofs.StructsP.
From Coq Require Import String.
Open Scope N_scope.

(* decode: value and exact consumption, every buffer and offset, 2 classes x 4 specs *)
Theorem C02_shdr_decode : forall s c d off, buf_ok d -> off + shdr_size c <= blen d ->
  parse_shdr s c d off = (Ok (shdr_spec s c d off), off + shdr_size c).
Proof. exact parse_shdr_ok. Qed.
Theorem C02_phdr_decode : forall s c d off, buf_ok d -> off + phdr_size c <= blen d ->
  parse_phdr s c d off = (Ok (phdr_spec s c d off), off + phdr_size c).
Proof. exact parse_phdr_ok. Qed.
Theorem C02_sym_decode : forall s c d off, buf_ok d -> off + sym_size c <= blen d ->
  parse_sym s c d off = (Ok (sym_spec s c d off), off + sym_size c).
Proof. exact parse_sym_ok. Qed.
Theorem C02_rel_decode : forall s c d off, buf_ok d -> off + rel_size c <= blen d ->
  parse_rel s c d off = (Ok (rel_spec s c d off), off + rel_size c).
Proof. exact parse_rel_ok. Qed.
Theorem C02_rela_decode : forall s c d off, buf_ok d -> off + rela_size c <= blen d ->
  parse_rela s c d off = (Ok (rela_spec s c d off), off + rela_size c).
Proof. exact parse_rela_ok. Qed.
Theorem C02_dyn_decode : forall s c d off, buf_ok d -> off + dyn_size c <= blen d ->
  parse_dyn s c d off = (Ok (dyn_spec s c d off), off + dyn_size c).
Proof. exact parse_dyn_ok. Qed.
Theorem C02_chdr_decode : forall s c d off, buf_ok d -> off + chdr_size c <= blen d ->
  parse_chdr s c d off = (Ok (chdr_spec s c d off), off + chdr_size c).
Proof. exact parse_chdr_ok. Qed.
(* note headers are read as three 32-bit words for both classes (note.rs passes ELF32) *)
Theorem C02_nhdr_decode : forall s d off, buf_ok d -> off + 12 <= blen d ->
  parse_nhdr s ELF32 d off = (Ok (nhdr32_spec s d off), off + 12).
Proof. exact parse_nhdr32_ok. Qed.
Theorem C02_abitag_decode : forall s c d off, buf_ok d -> off + 16 <= blen d ->
  parse_abitag s c d off = (Ok (abitag_spec s d off), off + 16).
Proof. exact parse_abitag_ok. Qed.
Theorem C02_sysvhdr_decode : forall s c d off, buf_ok d -> off + 8 <= blen d ->
  parse_sysvhdr s c d off = (Ok (sysvhdr_spec s d off), off + 8).
Proof. exact parse_sysvhdr_ok. Qed.
Theorem C02_gnuhdr_decode : forall s c d off, buf_ok d -> off + 16 <= blen d ->
  parse_gnuhdr s c d off = (Ok (gnuhdr_spec s d off), off + 16).
Proof. exact parse_gnuhdr_ok. Qed.
Theorem C02_versym_decode : forall s c d off, buf_ok d -> off + 2 <= blen d ->
  parse_versym s c d off = (Ok (versym_spec s d off), off + 2).
Proof. exact parse_versym_ok. Qed.
Theorem C02_verdaux_decode : forall s c d off, buf_ok d -> off + 8 <= blen d ->
  parse_verdaux s c d off = (Ok (verdaux_spec s d off), off + 8).
Proof. exact parse_verdaux_ok. Qed.
Theorem C02_vernaux_decode : forall s c d off, buf_ok d -> off + 16 <= blen d ->
  parse_vernaux s c d off = (Ok (vernaux_spec s d off), off + 16).
Proof. exact parse_vernaux_ok. Qed.
(* Verdef / Verneed: a record whose version field is not 1 is rejected, others decode *)
Theorem C02_verdef_decode : forall s c d off, buf_ok d -> off + 20 <= blen d ->
  let v := fval Elf_Verdef (is_little s) d off "vd_version" in
  parse_verdef s c d off =
  if v =? 1 then (Ok (verdef_spec s d off), off + 20) else (Err (EUnsupportedVersion v 1), off + 2).
Proof. exact parse_verdef_ok. Qed.
Theorem C02_verneed_decode : forall s c d off, buf_ok d -> off + 16 <= blen d ->
  let v := fval Elf_Verneed (is_little s) d off "vn_version" in
  parse_verneed s c d off =
  if v =? 1 then (Ok (verneed_spec s d off), off + 16) else (Err (EUnsupportedVersion v 1), off + 2).
Proof. exact parse_verneed_ok. Qed.
(* the file header after e_ident: [off] is where the tail starts, the header starts at off-16 *)
Theorem C02_ehdr_decode : forall s c osabi abiver d off, buf_ok d -> off + tail_size c <= blen d ->
  16 <= off ->
  parse_tail s c osabi abiver d off
  = (Ok (ehdr_spec s c osabi abiver d (off - 16)), off + tail_size c).
Proof. exact parse_tail_ok. Qed.

(* fewer bytes than the structure's size: an error, never a value (the regular parsers) *)
Theorem C02_short : forall s c d off, buf_ok d ->
  (blen d < off + shdr_size c -> exists e o, parse_shdr s c d off = (Err e, o)) /\
  (blen d < off + phdr_size c -> exists e o, parse_phdr s c d off = (Err e, o)) /\
  (blen d < off + sym_size c -> exists e o, parse_sym s c d off = (Err e, o)) /\
  (blen d < off + rel_size c -> exists e o, parse_rel s c d off = (Err e, o)) /\
  (blen d < off + rela_size c -> exists e o, parse_rela s c d off = (Err e, o)) /\
  (blen d < off + dyn_size c -> exists e o, parse_dyn s c d off = (Err e, o)) /\
  (blen d < off + chdr_size c -> exists e o, parse_chdr s c d off = (Err e, o)) /\
  (blen d < off + nhdr_size c -> exists e o, parse_nhdr s c d off = (Err e, o)) /\
  (blen d < off + 16 -> exists e o, parse_abitag s c d off = (Err e, o)) /\
  (blen d < off + 8 -> exists e o, parse_sysvhdr s c d off = (Err e, o)) /\
  (blen d < off + 16 -> exists e o, parse_gnuhdr s c d off = (Err e, o)) /\
  (blen d < off + 2 -> exists e o, parse_versym s c d off = (Err e, o)) /\
  (blen d < off + 8 -> exists e o, parse_verdaux s c d off = (Err e, o)) /\
  (blen d < off + 16 -> exists e o, parse_vernaux s c d off = (Err e, o)).
Proof.
  intros s c d off Hd. repeat split; intros H.
  - exact (regular_short _ _ d off (regular_shdr s c) Hd H).
  - exact (regular_short _ _ d off (regular_phdr s c) Hd H).
  - exact (regular_short _ _ d off (regular_sym s c) Hd H).
  - exact (regular_short _ _ d off (regular_rel s c) Hd H).
  - exact (regular_short _ _ d off (regular_rela s c) Hd H).
  - exact (regular_short _ _ d off (regular_dyn s c) Hd H).
  - exact (regular_short _ _ d off (regular_chdr s c) Hd H).
  - exact (regular_short _ _ d off (regular_nhdr s c) Hd H).
  - exact (regular_short _ _ d off (regular_abitag s c) Hd H).
  - exact (regular_short _ _ d off (regular_sysvhdr s c) Hd H).
  - exact (regular_short _ _ d off (regular_gnuhdr s c) Hd H).
  - exact (regular_short _ _ d off (regular_versym s c) Hd H).
  - exact (regular_short _ _ d off (regular_verdaux s c) Hd H).
  - exact (regular_short _ _ d off (regular_vernaux s c) Hd H).
Qed.

(* round trip: if the buffer holds the ABI encoding of value v in field [name] (any layout of
   the table, either order), the decoded field is v; signed fields likewise *)
Theorem C02_roundtrip_unsigned : forall l le d off name o w v,
  field_off l name 0 = Some (o, U w) -> v < 256 ^ N.of_nat w ->
  has_bytes d (off + o) (encode le w v) -> fval l le d off name = v.
Proof. exact fval_roundtrip. Qed.
Theorem C02_roundtrip_signed : forall l le d off name o w z,
  field_off l name 0 = Some (o, I w) -> (0 < w)%nat ->
  (- Z.pow 2 (8 * Z.of_nat w - 1) <= z < Z.pow 2 (8 * Z.of_nat w - 1))%Z ->
  has_bytes d (off + o) (encode_z le w z) -> fvalz l le d off name = z.
Proof. exact fvalz_roundtrip. Qed.

(* packed fields, as the ABI macros define them (r_info is inside rel_spec/rela_spec:
   r_sym = info / 2^8 | 2^32, r_type = info mod 2^8 | 2^32) *)
Theorem C02_packed : forall (y : sym) (v : N) (x : dyn),
  st_bind y = st_info y / 16 /\ st_symtype y = st_info y mod 16 /\ st_vis y = st_other y mod 4 /\
  st_is_undefined y = (st_shndx y =? 0) /\
  vx_index v = v mod 32768 /\ (v < 65536 -> vx_is_hidden v = (32768 <=? v)) /\
  vx_is_local v = (v mod 32768 =? 0) /\ vx_is_global v = (v mod 32768 =? 1) /\
  d_val x = d_un x /\ d_ptr x = d_un x.
Proof.
  intros. repeat split; try reflexivity.
  - apply st_bind_div. - apply st_symtype_mod. - apply st_vis_mod. - apply vx_index_mod.
  - apply vx_hidden_bit.
  - unfold vx_is_local. now rewrite vx_index_mod.
  - unfold vx_is_global. now rewrite vx_index_mod.
Qed.

(* non-vacuity: a concrete big-endian ELF32 symbol *)
Example C02_example :
  let d := of_list [x00;x00;x00;x01; x00;x00;x10;x00; x00;x00;x00;x08; x12; x03; xff;xf1] in
  buf_ok d /\ fst (parse_sym Big ELF32 d 0)
  = Ok {| st_name := 1; st_shndx := 65521; st_info := 18; st_other := 3; st_value := 4096; st_size := 8 |}.
Proof. split; [vm_compute; discriminate | vm_compute; reflexivity]. Qed.
