(* C20 — alternative access paths to the same data agree. *)
Require Import V.Base.Prim V.Model.Structs V.Model.Table V.Model.StrTab V.Model.Hash V.Model.ElfBytes
        V.Proofs.ElfBytesP V.Proofs.CommonP.
Open Scope N_scope.

(* one-pass discovery vs. targeted accessors: with at most one SYMTAB / DYNSYM section the symbol
   tables and their string tables are the same ... *)
Theorem C20_common_symtabs : forall f eb cm r l, find_common_data f eb = Some (Ok cm) ->
  eb_shdrs eb = Some r -> shdr_list f eb r = Some l ->
  ((count_of SHT_SYMTAB l <= 1)%nat -> symbol_table f eb = Some (Ok (cm_symtab cm))) /\
  ((count_of SHT_DYNSYM l <= 1)%nat -> dynamic_symbol_table f eb = Some (Ok (cm_dynsyms cm))).
Proof. exact common_symtabs. Qed.
(* ... the dynamic table is the same when exactly one DYNAMIC section exists, or when there are no
   section headers at all (both then use the first PT_DYNAMIC segment) ... *)
Theorem C20_common_dynamic : forall f eb cm, find_common_data f eb = Some (Ok cm) ->
  match eb_shdrs eb with
  | Some r => forall l, shdr_list f eb r = Some l -> count_of SHT_DYNAMIC l = 1%nat ->
              dynamic f eb = Some (Ok (cm_dynamic cm))
  | None => dynamic f eb = Some (Ok (cm_dynamic cm))
  end.
Proof. exact common_dynamic. Qed.
(* ... and the hash tables are `new` of the hash sections' data ranges *)
Theorem C20_common_hashes : forall f eb cm r l, find_common_data f eb = Some (Ok cm) ->
  eb_shdrs eb = Some r -> shdr_list f eb r = Some l ->
  field_spec SHT_HASH l (sysv_entry f eb) None (cm_sysv cm) /\
  field_spec SHT_GNU_HASH l (gnu_entry f eb) None (cm_gnu cm).
Proof. exact common_hashes. Qed.

(* lookup by name: the FIRST section, in table order, whose name string is valid UTF-8 and equals
   the query; None when no section qualifies *)
Theorem C20_by_name : forall f eb r sr l name, shdrs_with_strtab f eb = Ok (Some r, Some sr) ->
  shdr_list f eb r = Some l ->
  match shdr_by_name f eb name with
  | Some (Ok (Some h)) => exists pre post, l = pre ++ h :: post /\ name_is (view f sr) name h = true /\
                                           Forall (fun y => name_is (view f sr) name y = false) pre
  | Some (Ok None) => Forall (fun y => name_is (view f sr) name y = false) l
  | _ => False
  end.
Proof. exact by_name_spec. Qed.
Theorem C20_name_is : forall st name h, name_is st name h = true <->
  exists nr, strtab_get st (sh_name h) = Ok nr /\ range_bytes st nr = name.
Proof. exact name_is_spec. Qed.

(* typed views: refused when the type differs, otherwise exactly the range of section_data /
   segment_data (so the entries are those decodable from the raw bytes: C09 on that range) *)
Theorem C20_typed_section : forall f eb ty h,
  section_data_typed f eb ty h =
  if sh_type h =? ty then (let? p := section_data f eb h in Ok (fst p))
  else Err (EUnexpectedSectionType (sh_type h) ty).
Proof. exact section_data_typed_spec. Qed.
Theorem C20_typed_views : forall f eb h ph,
  section_data_as_strtab f eb h = section_data_typed f eb SHT_STRTAB h /\
  section_data_as_rels f eb h = section_data_typed f eb SHT_REL h /\
  section_data_as_relas f eb h = section_data_typed f eb SHT_RELA h /\
  section_data_as_notes f eb h = (let? r := section_data_typed f eb SHT_NOTE h in Ok (r, sh_addralign h)) /\
  segment_data_as_notes f ph =
    (if negb (p_type ph =? PT_NOTE) then Err (EUnexpectedSegmentType (p_type ph) PT_NOTE)
     else let? r := segment_data f ph in Ok (r, p_align ph)).
Proof. intros. repeat split; reflexivity. Qed.

(* the dynamic table through .dynamic and through PT_DYNAMIC: a table is the lazy view of its
   range, so equal ranges give equal tables (every get / iteration is a function of the bytes) *)
Theorem C20_dynamic_paths : forall f s c (r1 r2 : N * N), r1 = r2 ->
  forall i, table_get (parse_dyn s c) (dyn_size c) (view f r1) i = table_get (parse_dyn s c) (dyn_size c) (view f r2) i.
Proof. intros f s c r1 r2 ->. reflexivity. Qed.

Example C20_example : count_of SHT_SYMTAB [] = 0%nat /\ first_of SHT_HASH [] = last_of SHT_HASH [].
Proof. split; reflexivity. Qed.
