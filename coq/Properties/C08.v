(* C08 — stream parser's memory and I/O are bounded by the stream, not by header claims. *)
Require Import V.Base.Prim V.Model.Structs V.Model.File V.Model.Hash V.Model.ElfBytes V.Model.Stream V.Proofs.StreamP V.Proofs.StreamQ V.Proofs.StreamE.
Open Scope N_scope.

(* never a panic: any method, any state satisfying the invariant, any content, any schedule
   (in particular the `expect` in get_bytes is unreachable: every get follows a successful load
   of the same range and nothing is evicted in between) *)
Theorem C08_no_panic : forall w A (p : prog A) r, buf_ok (content w) -> inv w r -> safe [] p ->
  fst (run_real w p r) <> Panic.
Proof. exact call_no_panic. Qed.

(* every buffer allocation and every read is bounded by the stream length, whatever sizes, counts
   and offsets the headers claim, under any fault schedule: the length guard precedes the allocation *)
Theorem C08_alloc_and_read_bound : forall w A (p : prog A) r, inv w r ->
  Forall (ev_ok (content w)) (r_log r) -> Forall (ev_ok (content w)) (r_log (snd (run_real w p r))).
Proof. exact real_log_ok. Qed.

(* reads are lazy and exact: under a fault-free reader the I/O of a call is precisely, for each
   load of a range not yet cached, one seek to its start, one allocation of its length and one
   read of its length (none for an empty range) -- nothing else, and nothing twice *)
Theorem C08_io_exact : forall w, no_faults w -> forall A (p : prog A) r, inv w r ->
  let '(x, r') := run_real w p r in
  let '(y, (t, ks)) := run_pure (content w) p (keys_of r) in
  x = y /\ r_log r' = r_log r ++ t /\ keys_of r' = ks /\ inv w r'.
Proof. exact real_exact. Qed.
(* an oversized request is an error before any I/O or allocation *)
Theorem C08_oversized_is_error : forall w s e r, inv w r -> blen (content w) < e ->
  load_bytes w s e r = (Err (EBadOffset e), r).
Proof.
  intros w s e r [Hl Hc] H. unfold load_bytes.
  destruct (cache_lookup s e (r_cache r)) as [b|] eqn:L.
  - destruct (Hc _ _ _ L) as [He _]. exfalso. apply (N.lt_irrefl e). eapply N.le_lt_trans; eassumption.
  - rewrite Hl. destruct (N.ltb_spec (blen (content w)) e) as [_|Hge]; [reflexivity|].
    exfalso. apply (N.lt_irrefl e). eapply N.le_lt_trans; eassumption.
Qed.

(* lazy open: the ranges open_stream asks the reader for are the 16 ident bytes, the header tail of
   the ident's class, shdr[0] (under extended numbering only) and the two declared header tables
   (entry size x count from their declared offsets) -- and every seek, allocation and read of a
   fault-free run belongs to one of the ranges the program loads *)
Theorem C08_open_loads : forall f fam, Forall (open_designated f fam) (loads f (open_prog fam)).
Proof. exact open_loads. Qed.
Theorem C08_io_from_loads : forall A f (p : prog A) L, valid_keys f L ->
  Forall (ev_from (loads f p)) (fst (snd (run_pure f p L))).
Proof. intros A f p. exact (trace_in_loads f p). Qed.

Example C08_example :
  let w := {| content := of_list [x00; x01; x02; x03]; faults := fun _ => None |} in
  match new_reader w with
  | (Ok _, r0) => fst (run_real w (pread 0 18446744073709551615) r0) = Err (EBadOffset 18446744073709551615) /\
                  r_log (snd (run_real w (pread 0 18446744073709551615) r0)) = []
  | _ => False
  end.
Proof. vm_compute. split; reflexivity. Qed.
