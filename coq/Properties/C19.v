(* C19 — exported ABI definitions agree with the ELF ABI reference.
   The tables Gen.* are regenerated from /repo/src by tools/tablegen.py on every run; the
   reference tables Ref.* are frozen.  The domains are finite (the tables), so each statement is
   decided by vm_compute on a boolean check and lifted by the lemmas of Proofs/AbiTablesP.v. *)
From Coq Require Import List String ZArith NArith Bool.
Require Import V.Ref.RefLayout V.Ref.RefConsts V.Spec.AbiTables V.Proofs.AbiTablesP V.Model.ErrFmt.
Require Import V.Gen.AbiConsts V.Gen.ToStr V.Gen.CStructs.
Import ListNotations.
Open Scope string_scope.

(* every name of the reference table that the crate exports has the reference value *)
Theorem C19_constants : forall n v, In (n, v) ref_consts ->
  forall v', const_val abi_consts n = Some v' -> v' = v.
Proof. apply consts_ok_spec. vm_compute. reflexivity. Qed.

(* every exported C-layout structure has the ABI's fields at the ABI's offsets, and its size *)
Theorem C19_layout : forall name r, In (name, r) ref_structs ->
  exists l, lookup name c_structs = Some l /\
    fst (c_offsets l 0) = abi_offsets r 0 /\ c_size l = layout_size r.
Proof. apply structs_ok_spec. vm_compute. reflexivity. Qed.

(* every symbolic name produced by a to_str helper for a value v (ANY v of the argument type,
   unbounded) is the identifier of an exported constant with value v *)
Theorem C19_to_str : forall f, In f symbolic_fns ->
  exists ty arms, lookup f to_str_fns = Some (ty, arms) /\
  forall v s, to_str_sem abi_consts arms v = Some s -> const_val abi_consts s = Some v.
Proof. apply to_str_ok_spec. vm_compute. reflexivity. Qed.

(* every *_to_string wrapper (translated from its source: the *_to_str helper it consults and the
   prefix of its format! fallback), for ANY argument value: the text is the identifier of an
   exported constant with that value, or prefix(0x<hex>) whose digits read back to the value *)
Theorem C19_to_string : forall name ty inner prefix, In (name, (ty, (inner, prefix))) to_string_fns ->
  forall v, (0 <= v < 2 ^ 64)%Z ->
  exists text, to_string_sem abi_consts to_str_fns (ty, (inner, prefix)) v = Some text /\
    (const_val abi_consts text = Some v \/
     (text = prefix ++ "(" ++ hex0xl (Z.to_N v) ++ ")" /\ value_of 16 (hexl (Z.to_N v)) 0 = Z.to_N v)).
Proof. apply to_string_ok_spec; vm_compute; reflexivity. Qed.

(* p_flags_to_string (hand-written reading of the one wrapper of another shape, with the PF_* masks
   taken from the constants regenerated from abi.rs), for ANY u32: below 8 exactly the gABI letters
   (R = bit 2, W = bit 1, E = bit 0, blank otherwise), from 8 on p_flags(0x<hex>) reading back *)
Theorem C19_p_flags : forall v, (0 <= v < 2 ^ 32)%Z ->
  ((v < 8)%Z -> p_flags_string abi_consts v = p_flags_ref v) /\
  ((8 <= v)%Z -> p_flags_string abi_consts v = "p_flags(" ++ hex0xl (Z.to_N v) ++ ")" /\
                 value_of 16 (hexl (Z.to_N v)) 0 = Z.to_N v).
Proof. apply p_flags_ok_spec. vm_compute. reflexivity. Qed.

(* non-vacuity of C19_p_flags: both branches are taken, and the masks really come from the table *)
Example C19_p_flags_example :
  p_flags_string abi_consts 5 = "R E" /\ p_flags_string abi_consts 2 = " W " /\ p_flags_string abi_consts 0 = "   " /\
  p_flags_string abi_consts 8 = "p_flags(0x8)" /\ p_flags_string abi_consts 4294967295 = "p_flags(0xffffffff)" /\
  const_val abi_consts "PF_R" = Some 4%Z /\ const_val abi_consts "PF_W" = Some 2%Z /\ const_val abi_consts "PF_X" = Some 1%Z.
Proof. repeat split; vm_compute; reflexivity. Qed.

(* non-vacuity: the reference table is not empty and the crate exports names from it *)
Example C19_example :
  const_val abi_consts "SHT_NOBITS" = Some 8%Z /\ In ("SHT_NOBITS", 8%Z) ref_consts /\
  (exists ty arms, lookup "sh_type_to_str" to_str_fns = Some (ty, arms) /\
                   to_str_sem abi_consts arms 8%Z = Some "SHT_NOBITS") /\
  to_string_sem abi_consts to_str_fns ("u32", ("sh_type_to_str", "sh_type")) 8%Z = Some "SHT_NOBITS" /\
  to_string_sem abi_consts to_str_fns ("u32", ("sh_type_to_str", "sh_type")) 305419896%Z = Some "sh_type(0x12345678)".
Proof.
  split; [vm_compute; reflexivity|]. split; [|split; [|split; vm_compute; reflexivity]].
  - assert (H : existsb (fun e => String.eqb (fst e) "SHT_NOBITS" && Z.eqb (snd e) 8) ref_consts = true)
      by (vm_compute; reflexivity).
    apply existsb_exists in H. destruct H as [[n v] [Hin H]]. apply andb_prop in H. destruct H as [H1 H2].
    cbn [fst snd] in *. apply String.eqb_eq in H1. apply Z.eqb_eq in H2. now subst.
  - destruct (lookup "sh_type_to_str" to_str_fns) as [[ty arms]|] eqn:E; [|vm_compute in E; discriminate].
    exists ty, arms. split; [reflexivity|]. vm_compute in E. injection E as <- <-. vm_compute. reflexivity.
Qed.
