(* C09 — lazy tables are coherent: len, get, iteration and emptiness agree.
   Generic in the entry parser: every statement holds for any parser that is *regular*
   (succeeds exactly when [size] bytes are available, then advances by [size]); the second
   theorem shows that the entry types of the crate are regular with their size_for. *)
Require Import V.Base.Prim V.Model.Structs V.Model.Table V.Proofs.StructsP V.Proofs.TableP V.Extract.Dispatch V.Proofs.WalkP.
Open Scope N_scope.

Theorem C09_coherent : forall (T : Type) (parse : buf -> M T) (size : N),
  0 < size -> regular size parse -> forall d, buf_ok d ->
  (* len is the number of whole entries *)
  table_len size d = blen d / size /\
  (table_is_empty size d = true <-> table_len size d = 0) /\
  (* get(i) succeeds exactly for i < len, for every i (including i*size overflowing) *)
  (forall i, is_ok (table_get parse size d i) = true <-> i < table_len size d) /\
  (* iteration yields exactly len items and its j-th item is get(j) *)
  (exists l, iter_all parse d = Some l /\ llen l = table_len size d /\
             forall (j : nat) x, nth_error l j = Some x -> table_get parse size d (N.of_nat j) = Ok x) /\
  (* after its first None the iterator yields None forever *)
  (forall k o o', iter_next parse d o = (None, o') ->
                  Forall (fun x => x = None) (fst (iter_nexts parse k d o'))).
Proof.
  intros T parse size Hs Hr d Hd. split; [reflexivity|]. split; [exact (is_empty_iff size Hs d)|].
  split; [intros i; exact (get_ok_iff parse size Hs Hr d i Hd)|].
  split; [exact (iter_all_spec parse size Hs Hr d Hd)|].
  intros k o o'. exact (fused parse size Hs Hr d Hd k o o').
Qed.

(* the whole next() sequence, for any number of calls: the j-th call returns get(j) while
   j < len and None ever after (re-polling an exhausted iterator never yields again) *)
Theorem C09_next_sequence : forall (T : Type) (parse : buf -> M T) (size : N),
  0 < size -> regular size parse -> forall d, buf_ok d -> forall m : nat,
  fst (iter_nexts parse m d 0) = map (fun j => res_ok (table_get parse size d (N.of_nat j))) (seq 0 m).
Proof. exact @nexts_spec. Qed.
(* the provided Iterator::nth (hence skip / step_by, which are built from next and nth) after k
   calls of next(): the (k+n)-th entry or None -- relative to the iterator's position *)
Theorem C09_nth : forall (T : Type) (parse : buf -> M T) (size : N),
  0 < size -> regular size parse -> forall d, buf_ok d ->
  forall (fuel : nat) n k, k <= table_len size d -> (N.to_nat (table_len size d - k) < fuel)%nat ->
  fst (it_nth parse fuel n d (k * size)) = res_ok (table_get parse size d (k + n)).
Proof. exact @nth_spec. Qed.

(* what the correspondence check executes for nth / take on a ParsingIterator (the driver's generic
   walk) is the it_nth / it_take the theorem above is about *)
Theorem C09_driver_nth : forall (T : Type) (parse : buf -> M T) d fuel n off,
  g_nth (iter_next parse d) fuel n off = it_nth parse fuel n d off /\
  g_take (iter_next parse d) fuel n off = it_take parse fuel n d off.
Proof. intros. split; [apply g_nth_table|apply g_take_table]. Qed.

(* repeated / re-ordered accesses return the same values: get and the iteration are functions
   of (bytes, index) only -- there is no state; in the model this is true by typing. *)

Theorem C09_entry_types : forall s c,
  (0 < shdr_size c /\ regular (shdr_size c) (parse_shdr s c)) /\
  (0 < phdr_size c /\ regular (phdr_size c) (parse_phdr s c)) /\
  (0 < sym_size c /\ regular (sym_size c) (parse_sym s c)) /\
  (0 < dyn_size c /\ regular (dyn_size c) (parse_dyn s c)) /\
  (0 < versym_size c /\ regular (versym_size c) (parse_versym s c)) /\
  (0 < u32_size c /\ regular (u32_size c) (parse_u32 s c)) /\
  (0 < u64_size c /\ regular (u64_size c) (parse_u64 s c)) /\
  (0 < rel_size c /\ regular (rel_size c) (parse_rel s c)) /\
  (0 < rela_size c /\ regular (rela_size c) (parse_rela s c)).
Proof.
  intros s c.
  split; [split; [destruct c; reflexivity | exact (regular_shdr s c)]|].
  split; [split; [destruct c; reflexivity | exact (regular_phdr s c)]|].
  split; [split; [destruct c; reflexivity | exact (regular_sym s c)]|].
  split; [split; [destruct c; reflexivity | exact (regular_dyn s c)]|].
  split; [split; [destruct c; reflexivity | exact (regular_versym s c)]|].
  split; [split; [destruct c; reflexivity | exact (regular_u32 s c)]|].
  split; [split; [destruct c; reflexivity | exact (regular_u64 s c)]|].
  split; [split; [destruct c; reflexivity | exact (regular_rel s c)]|].
  split; [destruct c; reflexivity | exact (regular_rela s c)].
Qed.

(* non-vacuity: a 10-byte big-endian u32 table has 2 entries and iterates to [1; 2] *)
Example C09_example :
  let d := of_list [x00;x00;x00;x01; x00;x00;x00;x02; xaa;xbb] in
  buf_ok d /\ table_len 4 d = 2 /\ iter_all (parse_u32 Big ELF64) d = Some [1; 2] /\
  table_get (parse_u32 Big ELF64) 4 d 2 = Err (ESliceReadError 8 12).
Proof. repeat split; try (vm_compute; reflexivity). vm_compute. discriminate. Qed.
