(* C07 — stream parser and slice parser are observationally equivalent.
   Model/Stream.v writes every ElfStream method once, as a program over the CachingReader's
   operations; run_real interprets it over a stream with content f, a cache and a fault schedule;
   eval is its content-only reading.  Generic theorems (every program, every cache state, every
   history) + per-method theorems relating eval to the slice parser's model on the same bytes. *)
Require Import V.Base.Prim V.Model.Structs V.Model.Table V.Model.StrTab V.Model.File V.Model.Hash V.Model.Note
        V.Model.SymVer V.Model.ElfBytes V.Model.Stream V.Proofs.StreamP V.Proofs.StreamQ V.Proofs.StreamE.
Open Scope N_scope.

(* the cache only ever holds true, fully read content ranges -- in every reachable state, under
   every fault schedule, for every method *)
Theorem C07_cache_inv : forall w A (p : prog A) r, inv w r -> inv w (snd (run_real w p r)).
Proof. intros w A p r Hi. pose proof (real_sound w A p r Hi) as H. destruct (run_real w p r). tauto. Qed.

(* history freedom: under a fault-free reader the answer of a call depends only on the content
   and the call -- not on what was asked before (any order, any repetition, ranges sharing a
   start or an end): every answer of every history is the content-only reading *)
Theorem C07_history_free : forall w A (ps : list (prog A)), no_faults w -> buf_ok (content w) ->
  Forall (safe []) ps -> forall r, inv w r ->
  fst (run_hist w ps r) = map (eval (content w)) ps /\ inv w (snd (run_hist w ps r)).
Proof. exact history_free. Qed.
(* every method loads before it gets (so the theorems above apply to it) *)
Theorem C07_methods_safe : forall es,
  (forall fam, safe [] (open_prog fam)) /\ safe [] (q_shstrtab es) /\ (forall n, safe [] (q_by_name es n)) /\
  (forall f0 h, safe [] (q_section_data es f0 h)) /\ (forall ty h, safe [] (q_typed ty h)) /\
  (forall h, safe [] (q_notes h)) /\ (forall h, safe [] (q_seg_notes h)) /\ safe [] (q_dynamic es) /\
  (forall ty, safe [] (q_symtab_of_type es ty)) /\ safe [] (q_symver es).
Proof.
  intros es. repeat split; intros.
  - apply safe_open. - apply safe_shstrtab. - apply safe_by_name. - apply safe_section_data.
  - apply safe_typed. - apply safe_notes. - apply safe_seg_notes. - apply safe_dynamic. - apply safe_symtab.
  - apply safe_symver.
Qed.

(* opening: through a fault-free stream exactly the content-only reading of open_prog ... *)
Theorem C07_open_stream : forall fam w, no_faults w -> buf_ok (content w) ->
  fst (open_stream fam w) = eval (content w) (open_prog fam) /\ inv w (snd (open_stream fam w)).
Proof. exact open_stream_exact. Qed.
(* ... which succeeds exactly when opening the same bytes as a slice succeeds, and then holds the
   identical file header, section headers and program headers (es_of: the slice handle's lazy
   tables as eager vectors; absent and empty tables both give the empty vector) *)
Theorem C07_open_equiv : forall f, buf_ok f -> forall fam,
  match minimal_parse fam f with
  | Ok eb => eval f (open_prog fam) = Ok (es_of f eb)
  | _ => is_ok (eval f (open_prog fam)) = false
  end.
Proof. exact open_equiv. Qed.

(* queries: same success and identical content (sim ignores only WHICH error).  Scoping as in the
   property: sections not flagged SHF_COMPRESSED; section header table absent or non-empty. *)
Theorem C07_section_data : forall f eb, buf_ok f -> forall h, N.land (sh_flags h) SHF_COMPRESSED = 0 ->
  sim (eval f (q_section_data (es_of f eb) f h)) (rmap (fun p => (view f (fst p), snd p)) (section_data f eb h)).
Proof. exact section_data_equiv. Qed.
Theorem C07_typed_views : forall f eb, buf_ok f -> forall ty h, ty <> SHT_NOBITS ->
  N.land (sh_flags h) SHF_COMPRESSED = 0 ->
  sim (eval f (q_typed ty h)) (rmap (view f) (section_data_typed f eb ty h)).
Proof. exact typed_equiv. Qed.
Theorem C07_notes : forall f eb, buf_ok f -> forall h, N.land (sh_flags h) SHF_COMPRESSED = 0 ->
  sim (eval f (q_notes h)) (rmap (fun p => (view f (fst p), snd p)) (section_data_as_notes f eb h)).
Proof. exact notes_equiv. Qed.
Theorem C07_segment_notes : forall f, buf_ok f -> forall h,
  sim (eval f (q_seg_notes h)) (rmap (fun p => (view f (fst p), snd p)) (segment_data_as_notes f h)).
Proof. exact seg_notes_equiv. Qed.
Theorem C07_symbol_tables : forall f eb, buf_ok f -> forall r, eb_shdrs eb = Some r -> forall ty x,
  symbol_table_of_type f eb ty = Some x ->
  sim (eval f (q_symtab_of_type (es_of f eb) ty))
      (rmap (option_map (fun p => (view f (fst p), view f (snd p)))) x).
Proof. exact symtab_equiv. Qed.
Theorem C07_name_table : forall f eb, buf_ok f -> forall r, eb_shdrs eb = Some r ->
  table_is_empty (shdr_size (e_class (eb_ehdr eb))) (view f r) = false ->
  sim (eval f (q_shstrtab (es_of f eb))) (rmap (fun p => option_map (view f) (snd p)) (shdrs_with_strtab f eb)).
Proof. exact shstrtab_equiv. Qed.
Theorem C07_by_name : forall f eb, buf_ok f -> forall r, eb_shdrs eb = Some r ->
  table_is_empty (shdr_size (e_class (eb_ehdr eb))) (view f r) = false ->
  forall name x, shdr_by_name f eb name = Some x -> sim (eval f (q_by_name (es_of f eb) name)) x.
Proof. exact by_name_equiv. Qed.
Theorem C07_symbol_versions : forall f eb, buf_ok f -> forall r x, eb_shdrs eb = Some r ->
  symbol_version_table f eb = Some x ->
  sim (eval f (q_symver (es_of f eb))) (rmap (option_map (conv_symver f)) x).
Proof. exact symver_equiv. Qed.
Theorem C07_dynamic : forall f eb, buf_ok f -> forall v, dynamic f eb = Some (Ok v) ->
  (forall r, eb_shdrs eb = Some r -> table_is_empty (shdr_size (e_class (eb_ehdr eb))) (view f r) = false) ->
  (forall r l h, eb_shdrs eb = Some r -> shdr_list f eb r = Some l ->
                 find_first (fun h => sh_type h =? SHT_DYNAMIC) l = Some h ->
                 N.land (sh_flags h) SHF_COMPRESSED = 0) ->
  eval f (q_dynamic (es_of f eb)) = Ok (option_map (view f) v).
Proof. exact dynamic_equiv. Qed.

(* non-vacuity: a 16-byte stream; reading [4,12) twice hits the stream once *)
Example C07_example :
  let w := {| content := of_list (map (fun n => match Byte.of_N n with Some b => b | None => x00 end)
                                      [0;1;2;3;4;5;6;7;8;9;10;11;12;13;14;15]); faults := fun _ => None |} in
  match new_reader w with
  | (Ok _, r0) =>
    let '(x, r1) := run_real w (pread 4 12) r0 in
    let '(y, r2) := run_real w (pread 4 12) r1 in
    rmap to_list x = Ok [x04; x05; x06; x07; x08; x09; x0a; x0b] /\ rmap to_list y = rmap to_list x /\
    r_log r2 = [EvSeek 4; EvAlloc 8; EvRead 4 8]
  | _ => False
  end.
Proof. vm_compute. repeat split; reflexivity. Qed.
