(* C04 — endian-aware integer reads return the exact value and advance exactly.
   Statements only; proofs are in Proofs/PrimFacts.v. *)
Require Import V.Base.Prim V.Spec.Ints V.Proofs.PrimFacts.

(* every width (the crate uses 1, 2, 4, 8), every spec, buffer and offset: an in-bounds read
   is the positional value of buffer[off .. off+w) in the spec's byte order and the cursor
   advances by exactly w; otherwise an error (IntegerOverflow exactly when off+w exceeds
   usize::MAX, else SliceReadError(off, off+w)) and the cursor is unchanged *)
Theorem C04_read_unsigned : forall (s : espec) (w : nat) (d : buf) (off : N), buf_ok d ->
  (off + N.of_nat w <= blen d ->
   parse_uint w (is_little s) off d
   = (Ok (uvalue (is_little s) (bytes_at d off w)), off + N.of_nat w)) /\
  (blen d < off + N.of_nat w ->
   parse_uint w (is_little s) off d
   = (Err (if USIZE_MAX <? off + N.of_nat w then EIntegerOverflow
           else ESliceReadError off (off + N.of_nat w)), off)).
Proof. intros s w d off H. split; intros; [now apply parse_uint_ok | now apply parse_uint_short]. Qed.

Theorem C04_read_signed : forall (s : espec) (w : nat) (d : buf) (off : N), buf_ok d ->
  (off + N.of_nat w <= blen d ->
   parse_int w (is_little s) off d
   = (Ok (svalue (is_little s) (bytes_at d off w)), off + N.of_nat w)) /\
  (blen d < off + N.of_nat w ->
   parse_int w (is_little s) off d
   = (Err (if USIZE_MAX <? off + N.of_nat w then EIntegerOverflow
           else ESliceReadError off (off + N.of_nat w)), off)).
Proof. intros s w d off H. split; intros; [now apply parse_int_ok | now apply parse_int_short]. Qed.

(* the six trait methods are these reads at widths 1, 2, 4, 8 *)
Theorem C04_named : forall s d o,
  u8 s d o = parse_uint 1 (is_little s) o d /\ u16 s d o = parse_uint 2 (is_little s) o d /\
  u32 s d o = parse_uint 4 (is_little s) o d /\ u64 s d o = parse_uint 8 (is_little s) o d /\
  i32 s d o = parse_int 4 (is_little s) o d /\ i64 s d o = parse_int 8 (is_little s) o d.
Proof. intros. repeat split. Qed.

(* the positional value is the inverse of the ABI encoding, in both directions *)
Theorem C04_value_is_positional :
  (forall w v, v < 256 ^ N.of_nat w -> uvalue true (encode true w v) = v) /\
  (forall w v, v < 256 ^ N.of_nat w -> uvalue false (encode false w v) = v) /\
  (forall bs, encode true (length bs) (uvalue true bs) = bs) /\
  (forall bs, encode false (length bs) (uvalue false bs) = bs) /\
  (forall bs, uvalue false bs = uvalue true (rev bs)) /\
  (forall le w z, (0 < w)%nat ->
     (- Z.pow 2 (8 * Z.of_nat w - 1) <= z < Z.pow 2 (8 * Z.of_nat w - 1))%Z ->
     svalue le (encode_z le w z) = z).
Proof.
  repeat split.
  - intros. now apply le_val_enc.
  - intros. unfold uvalue, encode, enc_be, be_val. rewrite rev_involutive. now apply le_val_enc.
  - intros. apply enc_le_val.
  - intros. unfold uvalue, encode, enc_be, be_val. rewrite <- (rev_length bs), enc_le_val.
    apply rev_involutive.
  - intros. apply svalue_encode_z; assumption.
Qed.

(* the run-time specification reads exactly like the matching compile-time one; Native is
   Little on the build target (the harness asserts cfg!(target_endian = "little")) *)
Theorem C04_any_is_fixed : forall w off d,
  parse_uint w (is_little AnyLittle) off d = parse_uint w (is_little Little) off d /\
  parse_uint w (is_little AnyBig) off d = parse_uint w (is_little Big) off d /\
  parse_int w (is_little AnyLittle) off d = parse_int w (is_little Little) off d /\
  parse_int w (is_little AnyBig) off d = parse_int w (is_little Big) off d.
Proof. intros. repeat split. Qed.

(* non-vacuity: a concrete buffer meets the hypotheses and the read has the expected value *)
Example C04_example :
  let d := of_list [x01; x02; x03; x04; xff] in
  buf_ok d /\ parse_uint 4 true 1 d = (Ok 4278452994, 5) /\ parse_int 4 false 1 d = (Ok 33752319%Z, 5)
  /\ parse_uint 2 true 4 d = (Err (ESliceReadError 4 6), 4)
  /\ parse_uint 8 true 18446744073709551610 d = (Err EIntegerOverflow, 18446744073709551610).
Proof. repeat split; try (vm_compute; reflexivity). vm_compute. discriminate. Qed.

Print Assumptions C04_read_unsigned.
Print Assumptions C04_read_signed.
Print Assumptions C04_value_is_positional.
