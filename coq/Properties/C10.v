(* C10 — byte-order specs gate files; ident defects are reported as what they are. *)
Require Import V.Base.Prim V.Model.Structs V.Model.File V.Model.ElfBytes V.Proofs.FileP V.Proofs.AnyP V.Model.ErrFmt V.Proofs.ErrFmtP.
Open Scope N_scope.

(* the decision table: bad magic -> BadMagic(bytes found); else version byte != 1 ->
   UnsupportedVersion(found, 1); else class byte not 1/2 -> UnsupportedElfClass(found); else
   data byte not accepted by the spec -> UnsupportedElfEndianness(found); else Ok *)
Theorem C10_ident : forall fam d, 16 <= blen d -> parse_ident fam d = ident_spec fam d.
Proof. exact parse_ident_spec. Qed.

(* Little accepts exactly 1, Big exactly 2, Any exactly {1,2}; Native is Little on this target *)
Theorem C10_accepts : forall fam b,
  is_ok (from_ei_data fam b) = accepts fam b /\
  (accepts FLittle b = true <-> b = 1) /\ (accepts FBig b = true <-> b = 2) /\
  (accepts FAny b = true <-> b = 1 \/ b = 2).
Proof. exact accepts_spec. Qed.

(* a file can be opened only if its EI_DATA byte is in the spec's set *)
Theorem C10_gate : forall fam f eb, minimal_parse fam f = Ok eb -> accepts fam (bN f 5) = true.
Proof. exact minimal_parse_gate. Qed.

(* an ident defect makes the open fail with exactly that error *)
Theorem C10_ident_error_surfaces : forall fam f ib e,
  sub f 0 16 = Some ib -> parse_ident fam ib = Err e -> minimal_parse fam f = Err e.
Proof. exact minimal_parse_ident_err. Qed.

(* the any-endian spec opens what a fixed spec opens, with the same header and tables ... *)
Theorem C10_any_open : forall fam f eb, (fam = FLittle \/ fam = FBig) ->
  minimal_parse fam f = Ok eb ->
  minimal_parse FAny f = Ok (respec (any_of (e_spec (eb_ehdr eb))) eb).
Proof. exact minimal_parse_any. Qed.

(* ... and every query then returns the identical result *)
Theorem C10_any_queries : forall f eb,
  let eb' := respec (any_of (e_spec (eb_ehdr eb))) eb in
  (forall r i, shdr_get f eb' r i = shdr_get f eb r i) /\
  (forall r i, phdr_get f eb' r i = phdr_get f eb r i) /\
  (forall r, shdr_list f eb' r = shdr_list f eb r) /\
  (forall r, phdr_list f eb' r = phdr_list f eb r) /\
  shdrs_with_strtab f eb' = shdrs_with_strtab f eb /\
  (forall n, shdr_by_name f eb' n = shdr_by_name f eb n) /\
  (forall h, section_data f eb' h = section_data f eb h) /\
  (forall h, section_data_as_strtab f eb' h = section_data_as_strtab f eb h) /\
  (forall h, section_data_as_rels f eb' h = section_data_as_rels f eb h) /\
  (forall h, section_data_as_relas f eb' h = section_data_as_relas f eb h) /\
  (forall h, section_data_as_notes f eb' h = section_data_as_notes f eb h) /\
  dynamic f eb' = dynamic f eb /\
  symbol_table f eb' = symbol_table f eb /\
  dynamic_symbol_table f eb' = dynamic_symbol_table f eb /\
  symbol_version_table f eb' = symbol_version_table f eb.
Proof. exact respec_queries. Qed.
Theorem C10_any_common : forall f eb,
  find_common_data f (respec (any_of (e_spec (eb_ehdr eb))) eb) = find_common_data f eb.
Proof. exact respec_common. Qed.

(* how a reported defect reads (impl Display for ParseError, Model/ErrFmt.v): every variant that
   does not wrap a standard-library error has its own message and no source, and the numbers in
   a message read back to the payload, so the message identifies what was found *)
Theorem C10_message_or_source : forall e, perr_display e = None <-> perr_has_source e = true.
Proof. exact display_or_source. Qed.
Theorem C10_message_numbers : forall n, n < 2 ^ 64 ->
  value_of 10 (dec n) 0 = n /\ value_of 16 (hexu n) 0 = n.
Proof. intros n H. split; [exact (dec_roundtrip n H)|exact (hex_roundtrip n H)]. Qed.

Example C10_example :
  let d := of_list [x7f; x45; x4c; x46; x02; x01; x01; x03; x00; x00; x00; x00; x00; x00; x00; x00] in
  parse_ident FAny d = Ok (AnyLittle, ELF64, 3, 0) /\
  parse_ident FBig d = Err (EUnsupportedElfEndianness 1) /\
  parse_ident FLittle (of_list [x7f; x45; x4c; x46; x02; x01; x02; x03; x00; x00; x00; x00; x00; x00; x00; x00])
  = Err (EUnsupportedVersion 2 1).
Proof. repeat split; vm_compute; reflexivity. Qed.
