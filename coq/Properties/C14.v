(* C14 — note iteration yields exactly the notes laid out in the section/segment. *)
Require Import V.Base.Prim V.Spec.Ints V.Model.Structs V.Model.Utf8 V.Model.StrTab V.Model.Note
        V.Model.ElfBytes V.Spec.NoteRef V.Proofs.NoteP.
From Coq Require Import Lia.
Open Scope N_scope.

(* Round trip, for every spec (byte order), class, alignment >= 1 and list of well-formed notes
   (sizes and type < 2^32; a GNU ABI-tag note carries a 16-byte descriptor): any buffer that
   holds the records back to back from offset 0 -- 12-byte header of three 32-bit words in the
   file's order for BOTH classes, name, padding to the alignment, descriptor, padding -- and ends
   between the last descriptor's end and 12 bytes past the padded end (so that no further header
   fits) iterates to exactly those notes: typed for "GNU\0"/1 and "GNU\0"/3, name and descriptor
   being the file ranges. *)
Theorem C14_roundtrip : forall s c align d l,
  1 <= align -> align <= ISIZE_MAX -> buf_ok d -> Forall note_wf l ->
  has_bytes d 0 (enc_notes (is_little s) align 0 l) ->
  (l <> [] -> last_desc_end align 0 l <= blen d) -> blen d < notes_end align 0 l + 12 ->
  notes_all s c align d = Some (Ok (expected_notes (is_little s) align 0 l)).
Proof. exact notes_roundtrip. Qed.

(* one record at any position p, the step of the induction, stated for reuse *)
Theorem C14_one_record : forall s c align d p n,
  1 <= align -> align <= ISIZE_MAX -> buf_ok d -> note_wf n ->
  has_bytes d p (enc_note (is_little s) align p n) -> desc_end align p n <= blen d ->
  note_parse s c align d p = (Ok (expected_note (is_little s) align p n), note_end align p n).
Proof. exact parse_enc_note. Qed.

Theorem C14_zero_align : forall s c d, notes_all s c 0 d = Some (Ok []).
Proof. exact notes_zero_align. Qed.

Theorem C14_name_str : forall d r,
  name_str d r = if utf8_valid (range_bytes d r)
                 then Ok (fst r, snd r - count_trailing_nul (range_bytes d r)) else Err EUtf8Error.
Proof. exact name_str_spec. Qed.

(* sections and segments hand the iterator their data range and sh_addralign / p_align *)
Theorem C14_wiring : forall f eb h ph,
  section_data_as_notes f eb h =
    (let? r := section_data_typed f eb SHT_NOTE h in Ok (r, sh_addralign h)) /\
  segment_data_as_notes f ph =
    (if negb (p_type ph =? PT_NOTE) then Err (EUnexpectedSegmentType (p_type ph) PT_NOTE)
     else let? r := segment_data f ph in Ok (r, p_align ph)).
Proof. intros. split; reflexivity. Qed.

(* non-vacuity: two notes, big endian, alignment 8 *)
Example C14_example :
  let l := [ {| rn_type := 3; rn_name := [x47; x4e; x55; x00]; rn_desc := [xaa; xbb; xcc] |};
             {| rn_type := 7; rn_name := [x58; x00]; rn_desc := [] |} ] in
  let d := of_list (enc_notes false 8 0 l) in
  Forall note_wf l /\ has_bytes d 0 (enc_notes false 8 0 l) /\
  notes_all Big ELF64 8 d = Some (Ok [NBuildId (16, 19); NAny 7 (36, 38) (40, 40)]).
Proof.
  cbv zeta. split; [|split].
  - repeat constructor; cbn; try lia; try discriminate.
  - intros i Hi. cbn [of_list bat]. rewrite N.add_0_l, Nat2N.id. reflexivity.
  - vm_compute. reflexivity.
Qed.
