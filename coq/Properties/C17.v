(* C17 — stream I/O failures surface as errors and never corrupt later answers.
   faults w : N -> option fault is an ARBITRARY schedule indexed by I/O call (the initial seek to
   the end, every seek, every read_exact): error or premature EOF. *)
Require Import V.Base.Prim V.Model.Structs V.Model.ElfBytes V.Model.Stream V.Proofs.StreamP V.Proofs.StreamQ.
Open Scope N_scope.

(* one call, from any state satisfying the invariant, under any schedule: the answer is an I/O
   error or exactly the fault-free (content-only) answer -- never fabricated data, never a
   panic -- and the invariant still holds afterwards (no residue) *)
Theorem C17_call : forall w A (p : prog A) r, buf_ok (content w) -> inv w r -> safe [] p ->
  err_or (fst (run_real w p r)) (eval (content w) p) /\ inv w (snd (run_real w p r)) /\
  fst (run_real w p r) <> Panic.
Proof.
  intros w A p r Hf Hi Hs. destruct (call_error_or_same w p r Hf Hi Hs) as [E Hi'].
  split; [exact E|]. split; [exact Hi'|]. exact (call_no_panic w p r Hf Hi Hs).
Qed.
(* every history: each answer is an error or the answer it would have had on a fault-free stream *)
Theorem C17_history : forall w A (ps : list (prog A)), buf_ok (content w) -> Forall (safe []) ps ->
  forall r, inv w r ->
  Forall2 err_or (fst (run_hist w ps r)) (map (eval (content w)) ps) /\ inv w (snd (run_hist w ps r)).
Proof. exact history_error_or_same. Qed.
(* opening under faults: an error or the fault-free handle, whose reader satisfies the invariant *)
Theorem C17_open : forall fam w, buf_ok (content w) ->
  err_or (fst (open_stream fam w)) (eval (content w) (open_prog fam)) /\
  (is_ok (fst (open_stream fam w)) = true -> inv w (snd (open_stream fam w))).
Proof. exact open_stream_sound. Qed.
(* the cache is written only after seek and read_exact both succeeded: a failed load leaves it as it was *)
Theorem C17_failed_load_leaves_cache : forall w s e r, inv w r ->
  forall x r', load_bytes w s e r = (Err x, r') -> r_cache r' = r_cache r.
Proof.
  intros w s e r Hi x r' H. pose proof (load_bytes_cases w s e r Hi) as L. rewrite H in L. tauto.
Qed.

Example C17_example :
  let f := of_list [x00; x01; x02; x03; x04; x05; x06; x07] in
  let w := {| content := f; faults := fun k => if k =? 2 then Some FEof else None |} in
  match new_reader w with
  | (Ok _, r0) =>
    let '(x, r1) := run_real w (pread 2 6) r0 in      (* steps 1 (seek) and 2 (read): the read fails *)
    let '(y, r2) := run_real w (pread 2 6) r1 in      (* retried: steps 3 and 4 succeed *)
    x = Err EIOError /\ rmap to_list y = Ok [x02; x03; x04; x05] /\ r_cache r1 = []
  | _ => False
  end.
Proof. vm_compute. repeat split; reflexivity. Qed.
