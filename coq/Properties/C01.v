(* C01 — the slice parser is total: arbitrary bytes give Ok / Err / None, never a panic.
   In the model every place where the Rust code could panic -- an unchecked + - * under overflow
   checks, `[]` indexing, split_at, unwrap/expect, % by a length -- is an explicit [Panic] result
   guarded by the exact failing condition.  The theorems: no entry point returns Panic, for every
   buffer Rust can represent (buf_ok: at most isize::MAX bytes) and every caller-supplied index,
   offset, alignment, count, header. *)
Require Import V.Base.Prim V.Model.Structs V.Model.Table V.Model.StrTab V.Model.Utf8 V.Model.File V.Model.Hash
        V.Model.Note V.Model.SymVer V.Model.ElfBytes V.Proofs.StructsP V.Proofs.FileP V.Proofs.ElfBytesP
        V.Proofs.SymVerP V.Proofs.TermP V.Proofs.NoPanicP.
Open Scope N_scope.

Theorem C01_integers : forall w le o d, fst (parse_uint w le o d) <> Panic /\ fst (parse_int w le o d) <> Panic.
Proof. intros. split; [apply parse_uint_np|apply parse_int_np]. Qed.

(* every ParseAt implementation, at any offset (incl. offsets near usize::MAX) *)
Theorem C01_structures : forall s c d off, buf_ok d ->
  fst (parse_shdr s c d off) <> Panic /\ fst (parse_phdr s c d off) <> Panic /\ fst (parse_sym s c d off) <> Panic /\
  fst (parse_rel s c d off) <> Panic /\ fst (parse_rela s c d off) <> Panic /\ fst (parse_dyn s c d off) <> Panic /\
  fst (parse_chdr s c d off) <> Panic /\ fst (parse_nhdr s c d off) <> Panic /\ fst (parse_abitag s c d off) <> Panic /\
  fst (parse_sysvhdr s c d off) <> Panic /\ fst (parse_gnuhdr s c d off) <> Panic /\ fst (parse_u32 s c d off) <> Panic /\
  fst (parse_u64 s c d off) <> Panic /\ fst (parse_versym s c d off) <> Panic /\ fst (parse_verdaux s c d off) <> Panic /\
  fst (parse_vernaux s c d off) <> Panic /\ fst (parse_verdef s c d off) <> Panic /\ fst (parse_verneed s c d off) <> Panic /\
  (forall osabi abiver, fst (parse_tail s c osabi abiver d off) <> Panic).
Proof.
  intros s c d off Hd.
  split; [exact (regular_np _ _ d off (regular_shdr s c) Hd)|].
  split; [exact (regular_np _ _ d off (regular_phdr s c) Hd)|].
  split; [exact (regular_np _ _ d off (regular_sym s c) Hd)|].
  split; [exact (regular_np _ _ d off (regular_rel s c) Hd)|].
  split; [exact (regular_np _ _ d off (regular_rela s c) Hd)|].
  split; [exact (regular_np _ _ d off (regular_dyn s c) Hd)|].
  split; [exact (regular_np _ _ d off (regular_chdr s c) Hd)|].
  split; [exact (regular_np _ _ d off (regular_nhdr s c) Hd)|].
  split; [exact (regular_np _ _ d off (regular_abitag s c) Hd)|].
  split; [exact (regular_np _ _ d off (regular_sysvhdr s c) Hd)|].
  split; [exact (regular_np _ _ d off (regular_gnuhdr s c) Hd)|].
  split; [exact (regular_np _ _ d off (regular_u32 s c) Hd)|].
  split; [exact (regular_np _ _ d off (regular_u64 s c) Hd)|].
  split; [exact (regular_np _ _ d off (regular_versym s c) Hd)|].
  split; [exact (regular_np _ _ d off (regular_verdaux s c) Hd)|].
  split; [exact (regular_np _ _ d off (regular_vernaux s c) Hd)|].
  split; [exact (lk_nopanic _ _ _ (link_ok_verdef s c) d off Hd)|].
  split; [exact (lk_nopanic _ _ _ (link_ok_verneed s c) d off Hd)|].
  intros osabi abiver. exact (regular_np _ _ d off (regular_tail s c osabi abiver) Hd).
Qed.

(* lazy tables (any index, incl. index * size overflowing), string tables (any offset) *)
Theorem C01_tables_and_strings : forall (T : Type) (parse : buf -> M T) size d i off,
  ((forall o, fst (parse d o) <> Panic) -> table_get parse size d i <> Panic) /\
  get_raw d off <> Panic /\ strtab_get d off <> Panic.
Proof. intros. split; [apply table_get_np'|]. split; [apply get_raw_np|apply strtab_get_np]. Qed.

(* notes: any alignment (incl. 0 and values near usize::MAX), any bytes *)
Theorem C01_notes : forall s c align d off, buf_ok d ->
  fst (note_parse s c align d off) <> Panic /\ exists l, notes_all s c align d = Some (Ok l).
Proof.
  intros s c align d off Hd. split; [apply note_parse_np; exact Hd|].
  destruct (notes_all_total s c align d Hd) as [l [E _]]. eauto.
Qed.

(* hash tables: construction and lookup on arbitrary table / symbol / string bytes.  nbloom = 0,
   empty buckets, nshift >= 32, chain_start < symoffset are all guarded *)
Theorem C01_hash : forall s c d symtab strtab name, buf_ok d -> buf_ok symtab ->
  sysv_new s c d <> Panic /\ gnu_new s c d <> Panic /\
  (forall t, sysv_find s c d t name symtab strtab <> Panic) /\
  (forall t, gnu_find s d t name symtab strtab <> Panic).
Proof.
  intros s c d symtab strtab name Hd Hs. split; [apply sysv_new_np; exact Hd|]. split; [apply gnu_new_np; exact Hd|].
  split; intros t.
  - unfold sysv_find. apply sysv_find_in_np; [exact Hs|apply view_ok; exact Hd|apply view_ok; exact Hd].
  - unfold gnu_find. apply gnu_find_in_np; [exact Hs|apply view_ok; exact Hd|apply view_ok; exact Hd|apply view_ok; exact Hd].
Qed.

(* version records: the four iterators from ANY state (count, offset), and both queries.  The
   unchecked `self.offset + vd_aux` and `self.count -= 1` cannot overflow on a 64-bit target *)
Theorem C01_versions : forall s c d st, buf_ok d ->
  verdaux_next s c d st <> Panic /\ vernaux_next s c d st <> Panic /\
  verdef_next s c d st <> Panic /\ verneed_next s c d st <> Panic.
Proof.
  intros s c d st Hd. repeat split.
  - apply (link_next_no_panic _ _ 8 (link_ok_verdaux s c) d Hd).
  - apply (link_next_no_panic _ _ 16 (link_ok_vernaux s c) d Hd).
  - apply verdef_next_np; exact Hd.
  - apply verneed_next_np; exact Hd.
Qed.
Theorem C01_version_queries : forall s c t i, buf_ok (svt_versym t) ->
  (forall st b strs, svt_needs t = Some (st, b, strs) -> buf_ok b) ->
  (forall st b strs, svt_defs t = Some (st, b, strs) -> buf_ok b) ->
  get_requirement s c t i <> Some Panic /\ get_definition s c t i <> Some Panic.
Proof. intros s c t i Hv H1 H2. split; [apply get_requirement_np; assumption|apply get_definition_np; assumption]. Qed.

(* the ident: buffers of ANY length (the fix for finding F1: shorter than 16 bytes is an error) *)
Theorem C01_ident : forall fam d, parse_ident fam d <> Panic.
Proof. exact parse_ident_no_panic. Qed.

(* opening a byte slice and every accessor, with arbitrary caller-supplied headers and indexes *)
Theorem C01_file : forall f, buf_ok f -> forall fam eb,
  minimal_parse fam f <> Panic /\
  (forall r i, shdr_get f eb r i <> Panic) /\ (forall r i, phdr_get f eb r i <> Panic) /\
  shdrs_with_strtab f eb <> Panic /\ (forall n, shdr_by_name f eb n <> Some Panic) /\
  (forall h, section_data f eb h <> Panic) /\ (forall ty h, section_data_typed f eb ty h <> Panic) /\
  (forall h, section_data_as_notes f eb h <> Panic) /\ (forall h, section_data_as_dynamic f eb h <> Panic) /\
  (forall h, segment_data f h <> Panic) /\ (forall h, segment_data_as_notes f h <> Panic) /\
  dynamic f eb <> Some Panic /\ (forall ty, symbol_table_of_type f eb ty <> Some Panic) /\
  find_common_data f eb <> Some Panic /\ symbol_version_table f eb <> Some Panic.
Proof.
  intros f Hf fam eb.
  split; [exact (minimal_parse_np f Hf fam)|].
  split; [exact (shdr_get_np f Hf eb)|]. split; [exact (phdr_get_np f Hf eb)|].
  split; [exact (shdrs_with_strtab_np f Hf eb)|]. split; [exact (shdr_by_name_np f Hf eb)|].
  split; [exact (section_data_np f Hf eb)|]. split; [exact (section_data_typed_np f Hf eb)|].
  split; [exact (section_data_as_notes_np f Hf eb)|]. split; [exact (section_data_as_dynamic_np f Hf eb)|].
  split; [exact (segment_data_np f)|]. split; [exact (segment_data_as_notes_np f)|].
  split; [exact (dynamic_np f Hf eb)|]. split; [exact (symbol_table_np f Hf eb)|].
  split; [exact (find_common_data_np f Hf eb)|exact (symbol_version_table_np f Hf eb)].
Qed.

(* non-vacuity: the guards are live -- a GNU hash header with nshift = 40 answers Err, not Panic *)
Example C01_example :
  let w (v : N) := [match Byte.of_N v with Some b => b | None => x00 end; x00; x00; x00] in
  let tab := of_list (w 1 ++ w 1 ++ w 1 ++ w 40 ++ [xff;xff;xff;xff;xff;xff;xff;xff] ++ w 1 ++ w 0) in
  match gnu_new Little ELF64 tab with
  | Ok t => gnu_find Little tab t [120] (of_list (repeat x00 48)) (of_list [x00]) = Err EIntegerOverflow
  | _ => False
  end.
Proof. vm_compute. reflexivity. Qed.
