(* C16 — every lookup and iteration terminates within work bounded by the input size.
   The model's loops are total Gallina functions: structural recursion on the code's own bound
   where it has one (SysV walk: chains.len(); GNU walk: chain_len - start), otherwise recursion on
   fuel with None = "out of fuel".  The theorems show that None is unreachable with the stated
   fuel (the real loop terminates), that more fuel changes nothing, and bound the items yielded. *)
Require Import V.Base.Prim V.Model.Structs V.Model.Table V.Model.StrTab V.Model.Note V.Model.Hash V.Model.SymVer
        V.Proofs.StructsP V.Proofs.TableP V.Proofs.SymVerP V.Proofs.TermP.
From Coq Require Import Lia.
Open Scope N_scope.

(* entry iterators (section/program headers, symbols, dynamic entries, relocations, ...): exactly
   blen/size <= blen items; any fuel above that gives the same list *)
Theorem C16_entry_iterators : forall (T : Type) (parse : buf -> M T) (size : N), 0 < size -> regular size parse ->
  forall d, buf_ok d ->
  (exists l, iter_all parse d = Some l /\ llen l = blen d / size /\ llen l <= blen d) /\
  (forall fuel, (N.to_nat (blen d / size) < fuel)%nat -> iter_collect parse fuel d 0 = iter_all parse d).
Proof.
  intros T parse size Hs Hr d Hd. split.
  - destruct (iter_all_spec parse size Hs Hr d Hd) as [l [E [L _]]]. exists l. split; [exact E|]. split; [exact L|].
    rewrite L. unfold table_len. apply N.div_le_upper_bound; [lia|]. nia.
  - intros fuel Hf. apply (iter_fuel_free parse size Hs Hr d fuel Hd). exact Hf.
Qed.

(* note iterator: terminates on any bytes and any alignment, at most blen/12 notes *)
Theorem C16_notes : forall s c align d, buf_ok d ->
  (exists l, notes_all s c align d = Some (Ok l) /\ llen l <= blen d / 12) /\
  (forall fuel, (N.to_nat (blen d / 12) < fuel)%nat -> notes_collect fuel s c align d 0 = notes_all s c align d).
Proof.
  intros s c align d Hd. split; [exact (notes_all_total s c align d Hd)|exact (notes_fuel_free s c align d Hd)].
Qed.

(* the four version-record iterators, for ANY declared count and starting offset (zero, repeated,
   out-of-range next offsets, absurd counts): terminate, never more items than the declared
   count, never more than one per byte *)
Theorem C16_version_iterators : forall s c d st, buf_ok d ->
  (exists l, drain (verdaux_next s c d) (link_fuel d) st = Some (Ok l) /\ llen l <= vi_count st /\ llen l <= blen d + 1) /\
  (exists l, drain (vernaux_next s c d) (link_fuel d) st = Some (Ok l) /\ llen l <= vi_count st /\ llen l <= blen d + 1) /\
  (exists l, drain (link_next (parse_verdef s c) vd_next d) (link_fuel d) st = Some (Ok l) /\ llen l <= vi_count st /\ llen l <= blen d + 1) /\
  (exists l, drain (link_next (parse_verneed s c) vn_next d) (link_fuel d) st = Some (Ok l) /\ llen l <= vi_count st /\ llen l <= blen d + 1).
Proof.
  intros s c d st Hd. repeat split.
  - exact (link_iter_bounds _ _ 8 d st (link_ok_verdaux s c) Hd).
  - exact (link_iter_bounds _ _ 16 d st (link_ok_vernaux s c) Hd).
  - exact (link_iter_bounds _ _ 20 d st (link_ok_verdef s c) Hd).
  - exact (link_iter_bounds _ _ 16 d st (link_ok_verneed s c) Hd).
Qed.
Theorem C16_version_fuel_free : forall (T : Type) (parse : buf -> M T) (nxt : T -> N) size d, link_ok parse nxt size ->
  buf_ok d -> forall fuel fuel' st, (lmeasure d st < fuel)%nat -> (lmeasure d st < fuel')%nat ->
  drain (link_next parse nxt d) fuel st = drain (link_next parse nxt d) fuel' st.
Proof. intros T parse nxt size d L Hd. exact (drain_fuel_free parse nxt size L d Hd). Qed.

(* the version queries (nested loops over files and their auxiliary records) always complete *)
Theorem C16_version_queries : forall s c t i,
  (forall st b strs, svt_needs t = Some (st, b, strs) -> buf_ok b) ->
  (forall st b strs, svt_defs t = Some (st, b, strs) -> buf_ok b) ->
  get_requirement s c t i <> None /\ get_definition s c t i <> None.
Proof. intros s c t i H1 H2. split; [exact (get_requirement_total s c t i H1)|exact (get_definition_total s c t i H2)]. Qed.
Theorem C16_definition_names : forall s c dd strs aux, buf_ok dd -> definition_names s c dd strs aux <> None.
Proof. exact definition_names_total. Qed.

(* hash-chain walks recurse structurally on the code's own bound -- SysV: at most nchain steps,
   GNU: at most chain_len - start -- so cyclic and stop-bit-free chains end there.  Non-vacuity:
   a SysV table whose only chain is the self-loop 1 -> 1 over an unnamed symbol *)
Example C16_cyclic_chain :
  let w (v : N) := [match Byte.of_N v with Some b => b | None => x00 end; x00; x00; x00] in
  let tab := of_list (w 1 ++ w 2 ++ w 1 ++ w 0 ++ w 1) in      (* nbucket 1, nchain 2, bucket[0]=1, chain = [0; 1] *)
  let symtab := of_list (repeat x00 48) in
  let strtab := of_list [x00] in
  match sysv_new Little ELF64 tab with
  | Ok t => sysv_find Little ELF64 tab t [120] symtab strtab = Ok None
  | _ => False
  end.
Proof. vm_compute. reflexivity. Qed.
