(* C15 — string-table lookup returns exactly the NUL-terminated string at the offset.
   Results are ranges (start, end) of the table's buffer; the bytes are table[start, end). *)
Require Import V.Base.Prim V.Model.Utf8 V.Model.StrTab V.Proofs.StrTabP.
Open Scope N_scope.

(* get_raw(off) = Ok exactly when off is inside the table and a NUL follows inside the table;
   the result is then the longest NUL-free run starting at off.  Otherwise an error. *)
Theorem C15_get_raw : forall d off,
  match get_raw d off with
  | Ok (s, e) => s = off /\ off <= e < blen d /\ bN d e = 0 /\ (forall i, off <= i < e -> bN d i <> 0)
  | Err _ => blen d <= off \/ (forall i, off <= i < blen d -> bN d i <> 0)
  | Panic => False
  end.
Proof. exact get_raw_spec. Qed.

(* get(off) = the same bytes when they are well-formed UTF-8, an error otherwise *)
Theorem C15_get : forall d off,
  match get_raw d off with
  | Ok r => strtab_get d off = if utf8_valid (range_bytes d r) then Ok r else Err EUtf8Error
  | Err e => strtab_get d off = Err e
  | Panic => True
  end.
Proof. exact strtab_get_spec. Qed.

(* the environment model of core::str::from_utf8 accepts exactly the well-formed byte
   sequences of the Unicode standard, Table 3-7 (no surrogates, no overlongs, <= U+10FFFF) *)
Theorem C15_utf8_valid_iff : forall l, utf8_valid l = true <-> wf_utf8 l.
Proof. exact utf8_valid_iff. Qed.

Example C15_example :
  let d := of_list [x61; x62; x00; xc3; xa9; x00; xff] in
  get_raw d 0 = Ok (0, 2) /\ strtab_get d 3 = Ok (3, 5) /\ get_raw d 6 = Err (EStringTableMissingNul 6)
  /\ get_raw d 7 = Err (EStringTableMissingNul 7) /\ get_raw d 8 = Err (EBadOffset 8)
  /\ strtab_get (of_list [xc3; x00]) 0 = Err EUtf8Error.
Proof. repeat split; vm_compute; reflexivity. Qed.
