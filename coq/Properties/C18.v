(* C18 — a truncated file yields errors or unchanged answers, never different answers.
   trunc n f: the file cut after n bytes.  For every file f, every cut n and every query: an Ok
   answer on the prefix is the answer on the whole file.  (Appending bytes is the same statement
   read from the shorter file: f extends trunc n f.)  Answers are header values and absolute byte
   ranges; the views those ranges designate are the same buffers (C18_views), so everything looked
   up inside them -- strings, notes, hash lookups, version records -- is unchanged as well.
   Depends on functional_extensionality_dep (Coq standard library), named in the trusted base. *)
Require Import V.Base.Prim V.Model.Structs V.Model.Table V.Model.StrTab V.Model.File V.Model.Hash V.Model.Note
        V.Model.SymVer V.Model.ElfBytes V.Model.Stream V.Proofs.StreamQ V.Proofs.PrefixP.
Open Scope N_scope.

Theorem C18_views : forall n f a b, a <= b -> b <= blen (trunc n f) -> view (trunc n f) (a, b) = view f (a, b).
Proof. exact view_trunc. Qed.

(* opening *)
Theorem C18_open : forall n f, buf_ok f -> forall fam eb,
  minimal_parse fam (trunc n f) = Ok eb -> minimal_parse fam f = Ok eb /\ handle_in (trunc n f) eb.
Proof. intros n f Hf fam eb H. split; [exact (open_prefix n f Hf fam eb H)|exact (open_handle_in fam _ eb H)]. Qed.

(* every slice-parser query, on the handle of the truncated file *)
Theorem C18_slice_queries : forall n f eb, handle_in (trunc n f) eb ->
  let g := trunc n f in
  (forall r i, eb_shdrs eb = Some r -> shdr_get g eb r i = shdr_get f eb r i) /\
  (forall r i, eb_phdrs eb = Some r -> phdr_get g eb r i = phdr_get f eb r i) /\
  (forall r, eb_shdrs eb = Some r -> shdr_list g eb r = shdr_list f eb r) /\
  (forall r, eb_phdrs eb = Some r -> phdr_list g eb r = phdr_list f eb r) /\
  (forall v, shdrs_with_strtab g eb = Ok v -> shdrs_with_strtab f eb = Ok v) /\
  (forall name v, shdr_by_name g eb name = Some (Ok v) -> shdr_by_name f eb name = Some (Ok v)) /\
  (forall h v, section_data g eb h = Ok v -> section_data f eb h = Ok v) /\
  (forall ty h v, section_data_typed g eb ty h = Ok v -> section_data_typed f eb ty h = Ok v) /\
  (forall h v, section_data_as_notes g eb h = Ok v -> section_data_as_notes f eb h = Ok v) /\
  (forall h v, segment_data g h = Ok v -> segment_data f h = Ok v) /\
  (forall h v, segment_data_as_notes g h = Ok v -> segment_data_as_notes f h = Ok v) /\
  (forall v, dynamic g eb = Some (Ok v) -> dynamic f eb = Some (Ok v)) /\
  (forall ty v, symbol_table_of_type g eb ty = Some (Ok v) -> symbol_table_of_type f eb ty = Some (Ok v)) /\
  (forall cm, find_common_data g eb = Some (Ok cm) -> find_common_data f eb = Some (Ok cm)) /\
  (forall v, symbol_version_table g eb = Some (Ok v) -> symbol_version_table f eb = Some (Ok v)).
Proof.
  intros n f eb Hin g. subst g.
  split; [intros r i; exact (shdr_get_prefix n f eb Hin r i)|].
  split; [intros r i; exact (phdr_get_prefix n f eb Hin r i)|].
  split; [exact (shdr_list_prefix n f eb Hin)|].
  split; [exact (phdr_list_prefix n f eb Hin)|].
  split; [exact (strtab_prefix n f eb Hin)|].
  split; [exact (by_name_prefix n f eb Hin)|].
  split; [exact (section_data_prefix n f eb)|].
  split; [exact (typed_prefix n f eb)|].
  split; [exact (notes_prefix n f eb)|].
  split; [exact (segment_data_prefix n f)|].
  split; [exact (seg_notes_prefix n f)|].
  split; [exact (dynamic_prefix n f eb Hin)|].
  split; [exact (symtab_prefix n f eb Hin)|].
  split; [exact (common_prefix n f eb Hin)|].
  exact (symver_prefix n f eb Hin).
Qed.

(* the stream parser: EVERY method (every program that loads before it gets), incl. open *)
Theorem C18_stream : forall n f A (p : prog A), buf_ok f -> safe [] p ->
  forall v, eval (trunc n f) p = Ok v -> eval f p = Ok v.
Proof.
  intros n f A p Hf Hs v. apply (eval_prefix n f p Hf [] Hs). intros s e M. discriminate.
Qed.

Example C18_example :
  let f := of_list [x41; x42; x43; x44; x45; x46] in
  to_list (trunc 4 f) = [x41; x42; x43; x44] /\ to_list (view (trunc 4 f) (1, 3)) = [x42; x43] /\
  get_bytes (trunc 4 f) 2 5 = Err (ESliceReadError 2 5) /\ is_ok (get_bytes f 2 5) = true.
Proof. repeat split; vm_compute; reflexivity. Qed.
