(* C05 — header tables are located exactly as the ELF header (and shdr[0]) declare.
   table_spec is the declarative rule: offset 0 = absent; otherwise the declared entry size must be
   the class's structure size and [off, off + size * n) must lie inside the file, n being the
   declared count (e_shnum, or shdr[0].sh_size when it is 0; e_phnum, or shdr[0].sh_info when it
   is 0xffff). *)
Require Import V.Base.Prim V.Spec.AbiLayout V.Model.Structs V.Model.Table V.Model.File V.Model.Hash
        V.Model.ElfBytes V.Model.Stream V.Proofs.ElfBytesP V.Proofs.StreamQ V.Proofs.StreamE.
Open Scope N_scope.

Theorem C05_section_headers : forall eh f, buf_ok f ->
  match table_spec f (e_shoff eh) (e_shentsize eh) (shdr_size (e_class eh)) (shnum_decl eh f) with
  | Some r => find_shdrs eh f = Ok r
  | None => is_ok (find_shdrs eh f) = false
  end.
Proof. exact find_shdrs_spec. Qed.
Theorem C05_program_headers : forall eh f, buf_ok f ->
  match table_spec f (e_phoff eh) (e_phentsize eh) (phdr_size (e_class eh)) (phnum_decl eh f) with
  | Some r => find_phdrs eh f = Ok r
  | None => is_ok (find_phdrs eh f) = false
  end.
Proof. exact find_phdrs_spec. Qed.
(* a located table has exactly the declared number of entries *)
Theorem C05_entry_count : forall f off esz n, 0 < esz -> off + esz * n <= blen f ->
  table_len esz (view f (off, off + esz * n)) = n.
Proof. exact located_len. Qed.

(* opening succeeds exactly when: the ident is accepted (C10), the header tail is present -- and
   then the header is its C02 decoding -- and both tables are absent or located per the rule *)
Theorem C05_open : forall fam f eb, buf_ok f -> (minimal_parse fam f = Ok eb <-> open_spec fam f eb).
Proof. exact minimal_parse_iff. Qed.

(* the stream parser: opening (content-only reading of open_prog; C07_open_stream ties it to every
   fault-free reader) succeeds exactly on an open_spec handle and holds that handle's header and
   the eager decoding of the two tables located by the rule *)
Theorem C05_open_stream : forall f, buf_ok f -> forall fam es,
  eval f (open_prog fam) = Ok es <-> exists eb, open_spec fam f eb /\ es = es_of f eb.
Proof. exact open_stream_spec. Qed.

(* the section-name string table: none for e_shstrndx = 0, else the data range of section
   e_shstrndx, or of section shdr[0].sh_link when e_shstrndx = SHN_XINDEX *)
Theorem C05_strtab : forall f eb r, buf_ok f -> eb_shdrs eb = Some r ->
  shdrs_with_strtab f eb =
  if e_shstrndx (eb_ehdr eb) =? 0 then Ok (Some r, None) else
  let? ndx := (if e_shstrndx (eb_ehdr eb) =? SHN_XINDEX
               then (let? sh0 := shdr_get f eb r 0 in Ok (sh_link sh0)) else Ok (e_shstrndx (eb_ehdr eb))) in
  let? st := shdr_get f eb r ndx in
  if USIZE_MAX <? sh_offset st + sh_size st then Err EIntegerOverflow
  else if fits f (sh_offset st) (sh_size st) then Ok (Some r, Some (sh_offset st, sh_offset st + sh_size st))
       else Err (ESliceReadError (sh_offset st) (sh_offset st + sh_size st)).
Proof. exact strtab_located. Qed.

(* a wrong sh_entsize rejects symbol tables and (slice parser) dynamic sections; the version-index
   table is checked in symbol_version_table by the same validate_entsize *)
Theorem C05_entsize : forall f eb h strh,
  (sh_entsize h <> sym_size (e_class (eb_ehdr eb)) -> is_ok (symtab_of f eb h strh) = false) /\
  (sh_entsize h <> dyn_size (e_class (eb_ehdr eb)) -> is_ok (section_data_as_dynamic f eb h) = false).
Proof. exact entsize_gates. Qed.
Theorem C05_validate_entsize : forall expected found,
  validate_entsize expected found = if found =? expected then Ok found else Err (EBadEntsize found expected).
Proof. reflexivity. Qed.

(* non-vacuity: a table of 3 ELF32 section headers at offset 52 of a 172-byte file *)
Example C05_example :
  let f := of_list (repeat x00 172) in
  table_spec f 52 40 (shdr_size ELF32) (Some 3) = Some (Some (52, 172)) /\
  table_spec f 52 40 (shdr_size ELF32) (Some 4) = None /\ table_spec f 52 41 (shdr_size ELF32) (Some 3) = None /\
  table_spec f 0 7 (shdr_size ELF32) None = Some None.
Proof. repeat split; vm_compute; reflexivity. Qed.
