(* C12 — SysV hash lookup is sound on any table and complete on well-formed ones; the exported
   hash function equals the gABI elf_hash reference. *)
Require Import V.Base.Prim V.Model.Structs V.Model.Table V.Model.StrTab V.Model.Hash.
Require Import V.Spec.HashWf V.Proofs.HashP V.Proofs.SysvP.
Open Scope N_scope.

(* The gABI routine (h = (h << 4) + c; if (g = h & 0xf0000000) h ^= g >> 24; h &= ~g) over a
   32-bit word.  The 32-bit reading is deliberate: with a 64-bit unsigned long the routine as
   printed lets (h << 4) + c reach bit 32 (e.g. on ff 0f 0f 0f 0f 0f 12), a known erratum that
   glibc and the current gABI draft resolve in favour of the 32-bit value. *)
Theorem C12_hash_fn : forall name, Forall (fun b => b < 256) name -> sysv_hash name = elf_hash_ref name.
Proof. exact sysv_hash_is_ref. Qed.

(* soundness, for any table / symbol table / string table bytes: a returned symbol is the
   symbol-table entry at the returned index and its name equals the queried name *)
Theorem C12_sound : forall s c d t name symtab strtab i y,
  sysv_find s c d t name symtab strtab = Ok (Some (i, y)) ->
  table_get (parse_sym s c) (sym_size c) symtab i = Ok y /\
  exists r, get_raw strtab (st_name y) = Ok r /\ range_bytes strtab r = name.
Proof. exact sysv_find_sound. Qed.

(* completeness on a well-formed table (Spec/HashWf.v: every bucket heads a 0-terminated chain of
   at most nchain readable symbols; every symbol 1 <= i < nchain lies on the chain of the bucket
   its name hashes to): every present name is found (by C12_sound the answer then carries that
   name), every absent name -- also one whose hash or bucket collides -- gives None *)
Theorem C12_complete_present : forall s c buckets chains symtab strtab name,
  sysv_wf s c buckets chains symtab strtab ->
  (exists i, 1 <= i < nchain chains /\ sym_name s c symtab strtab i = Some name) ->
  exists j y, sysv_find_in s c buckets chains symtab strtab name = Ok (Some (j, y)).
Proof. exact sysv_complete_present. Qed.
Theorem C12_complete_absent : forall s c buckets chains symtab strtab name,
  sysv_wf s c buckets chains symtab strtab ->
  (forall i, 1 <= i < nchain chains -> sym_name s c symtab strtab i <> Some name) ->
  sysv_find_in s c buckets chains symtab strtab name = Ok None.
Proof. exact sysv_complete_absent. Qed.
(* the lookup on a section is the lookup on its two decoded arrays *)
Theorem C12_find_is_find_in : forall s c d t name symtab strtab,
  sysv_find s c d t name symtab strtab =
  sysv_find_in s c (view d (sv_buckets t)) (view d (sv_chains t)) symtab strtab name.
Proof. reflexivity. Qed.

Example C12_example : sysv_hash [102; 111; 111] = 27999 /\ sysv_hash [] = 0 /\
  sysv_hash [255; 15; 15; 15; 15; 15; 18] = 2.
Proof. repeat split; vm_compute; reflexivity. Qed.
